(* C10 -- rendering shows exactly the visible tree, in order, and save/TOC agree with it.
   Only statements.  Model: coq/card/Render.v (+Spec.v for `shown`, `event_paths`); proofs: RenderFacts.v.
   `pretty` (PrettyTable's layout) is universally quantified: nothing is assumed about it. *)
From Skv Require Import PyStr Json CardStr Path Tree Ops Render Spec Init
                        TreeFacts OpsFacts RenderFacts InitFacts.
Open Scope N_scope.

(* one event per section that is visible and has no invisible or folded ancestor (`shown`), in tree
   order (`paths` = pre-order), with depth = length of its path, carrying the section at that path *)
Theorem C10_render_spec : forall d, wf_dict d ->
  map (fun e => (fst e, Some (snd e))) (render_events d) =
  map (fun q => (length q, lookup q d)) (filter (fun q => shown q d) (paths d)).
Proof. exact render_spec. Qed.
Print Assumptions C10_render_spec.

(* the dict invariant holds for every card reachable through the API *)
Theorem C10_reachable_wf : forall ops, wf_dict (data (run_card ops empty_card)).
Proof. exact reachable_wf. Qed.
Print Assumptions C10_reachable_wf.

(* ... and for every card CONSTRUCTED from any template / model_diagram (coq/card/Init.v) and then edited by any operation
   sequence: the rendered paths are the shown paths, one event per shown section with its depth and its section, and the
   TOC lists the rendered headings *)
Theorem C10_constructed_render : forall cfg t dg params html ops,
  let d := data (run_card ops (fst (init_card cfg t dg params html))) in
  event_paths d = filter (fun q => shown q d) (paths d)
  /\ map (fun e => (fst e, Some (snd e))) (render_events d)
     = map (fun q => (length q, lookup q d)) (filter (fun q => shown q d) (paths d))
  /\ toc_events d = map toc_of_event (render_events d).
Proof. exact constructed_render. Qed.
Print Assumptions C10_constructed_render.

Theorem C10_rendered_paths : forall d, wf_dict d ->
  event_paths d = filter (fun q => shown q d) (paths d).
Proof. exact event_paths_spec. Qed.
Print Assumptions C10_rendered_paths.

(* nothing belonging to a hidden section appears: an invisible section is not rendered, and nothing
   below an invisible or folded section is *)
Theorem C10_hidden_absent : forall d q r x, wf_dict d -> q <> [] -> lookup q d = Some x ->
  (visible x = false -> ~ In q (event_paths d)) /\
  (visible x = false \/ folded x = true -> r <> [] -> ~ In (q ++ r) (event_paths d)).
Proof. exact hidden_absent. Qed.
Print Assumptions C10_hidden_absent.

(* per variant, format = optional description, then the variant's body wrapped by wrap_details with the
   section's folded flag; the body and the description do not depend on the flag; wrap_details adds the
   <details> block exactly for true *)
Theorem C10_details_iff_folded : forall pretty x,
  format pretty x =
  match body pretty x with
  | Some b => Some (with_description (lead x) (wrap_details b (folded x)))
  | None => None
  end.
Proof. exact format_wrap. Qed.
Print Assumptions C10_details_iff_folded.

Theorem C10_body_independent_of_folded : forall pretty b x,
  body pretty (set_folded b x) = body pretty x /\ lead (set_folded b x) = lead x.
Proof. exact body_fold_indep. Qed.
Print Assumptions C10_body_independent_of_folded.

Theorem C10_wrap_details : forall t,
  wrap_details t true = details_open ++ t ++ details_close /\ wrap_details t false = t.
Proof. exact wrap_details_iff. Qed.
Print Assumptions C10_wrap_details.

(* the text: per event "\n" '#'*depth ' ' title "\n", then "\n" body "\n" unless the body is empty *)
Theorem C10_render_text : forall pretty d, render pretty d = blocks pretty (render_events d).
Proof. exact render_blocks. Qed.
Print Assumptions C10_render_text.

Theorem C10_save_is_render : forall pretty cf d,
  save_bytes pretty cf d = match render pretty d with Some t => utf8 t | None => None end.
Proof. exact save_is_render. Qed.
Print Assumptions C10_save_is_render.

Theorem C10_utf8_examples :
  utf8 [97; 233; 8364; 128512] = Some [97; 195; 169; 226; 130; 172; 240; 159; 152; 128] /\ utf8 [55296] = None.
Proof. exact utf8_examples. Qed.
Print Assumptions C10_utf8_examples.

(* get_toc lists exactly the rendered headings, same order, level = depth - 1 (full statement; D14 repaired) *)
Theorem C10_toc_agrees : forall d, toc_events d = map toc_of_event (render_events d).
Proof. exact toc_agrees. Qed.
Print Assumptions C10_toc_agrees.

(* the former D14 witness: folded A with children B/C *)
Theorem C10_nonvacuous :
  let d := update_path [of_ascii "A"] (set_folded true)
             (add_texts false [(of_ascii "A", of_ascii "a"); (of_ascii "A/B", of_ascii "b"); (of_ascii "A/B/C", of_ascii "c")] []) in
  toc_events d = [(of_ascii "A", O)]
  /\ map (fun e => (fst e, title (snd e))) (render_events d) = [(1%nat, of_ascii "A")]
  /\ event_paths d = [[of_ascii "A"]]
  /\ paths d = [[of_ascii "A"]; [of_ascii "A"; of_ascii "B"]; [of_ascii "A"; of_ascii "B"; of_ascii "C"]].
Proof. exact folded_parent_example. Qed.
Print Assumptions C10_nonvacuous.
