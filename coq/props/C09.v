(* C09 -- the model card is an ordered section tree with stable addressing.
   Only statements, each closed by `exact`.  Model: coq/card/{CardStr,Path,Tree,Ops,Spec}.v
   (faithful to skops/card/_model_card.py after the D13 and C09-F1 fixes); proofs: coq/card/*Facts.v. *)
From Skv Require Import PyStr Json CardStr Path Tree Ops Render Spec Init
                        PathFacts TreeFacts OpsFacts BuildersFacts InitFacts.
Open Scope N_scope.

(* ---- path parsing -------------------------------------------------------- *)
(* For EVERY key: the code (regex split on unescaped '/', replace, strip) = the property's wording
   (scan left to right; backslash-slash is a literal slash, any other slash separates; strip each part).
   No well-formedness guard is left: D13 is repaired in the tree under test. *)
Theorem C09_split_spec : forall key, split_names key = spec_split key.
Proof. exact split_spec. Qed.
Print Assumptions C09_split_spec.

(* the former D13 witnesses: "a\\/", "x/ \\/ /y", a literal U+001F, blanks incl. U+00A0 and U+001F *)
Theorem C09_split_examples :
  split_names [97; 92; 47] = [[97; 47]]
  /\ split_names [120; 47; 32; 92; 47; 32; 47; 121] = [[120]; [47]; [121]]
  /\ split_names [97; 31; 98] = [[97; 31; 98]]
  /\ split_names [32; 97; 32; 47; 160; 98; 31] = [[97]; [98]].
Proof. exact split_examples. Qed.
Print Assumptions C09_split_examples.

Theorem C09_split_never_empty : forall key, split_names key <> [].
Proof. exact split_names_nonnil. Qed.
Print Assumptions C09_split_never_empty.

(* stable addressing: the key spelled from a list of names (escape every '/', join with "/") leads back
   to exactly those names, stripped.  Guard: no name but the last ends in a backslash -- the path
   syntax has no escape for a backslash (refuted without it: ["a\\"; "b"]). *)
Theorem C09_addressable : forall names, names <> [] ->
  Forall (fun n => ends_with_backslash n = false) (removelast names) ->
  split_names (path_string names) = map strip names.
Proof. exact split_path_string. Qed.
Print Assumptions C09_addressable.

Theorem C09_addressable_guard_needed :
  split_names (path_string [[97; 92]; [98]]) <> map strip [[97; 92]; [98]].
Proof. exact split_path_string_refuted. Qed.
Print Assumptions C09_addressable_guard_needed.

(* ---- add ----------------------------------------------------------------- *)
(* the section found at p after add is the new one, carrying the old subsections *)
Theorem C09_add_get : forall p new d, p <> [] ->
  lookup p (add_path p new d) =
  Some (set_subs new (match lookup p d with Some old => subs old | None => subs new end)).
Proof. exact lookup_add_same. Qed.
Print Assumptions C09_add_get.

Theorem C09_add_get_key : forall key new d,
  lookup (split_names key) (add_single key new d) =
  Some (set_subs new (match lookup (split_names key) d with Some old => subs old | None => subs new end)).
Proof. exact add_single_lookup. Qed.
Print Assumptions C09_add_get_key.

(* order: below every proper prefix q of the path the next name keeps its place if it was there,
   else it is appended at the end; ... *)
Theorem C09_add_position : forall q k r new d, subs new = [] ->
  children q (add_path (q ++ k :: r) new d) = Some (appended k (children q d)).
Proof. exact children_add_on_path. Qed.
Print Assumptions C09_add_position.

(* ... the children of every other existing section (the target itself included) are unchanged *)
Theorem C09_add_position_elsewhere : forall q p new d, subs new = [] -> q <> [] ->
  (forall k r, p <> q ++ k :: r) -> lookup q d <> None ->
  children q (add_path p new d) = children q d.
Proof. exact children_add_off_path. Qed.
Print Assumptions C09_add_position_elsewhere.

(* "never disturbs other sections": every path that is not a prefix of p reads the same *)
Theorem C09_add_frame : forall p q new d, subs new = [] -> is_prefix q p = false ->
  lookup q (add_path p new d) = lookup q d.
Proof. exact lookup_add_frame. Qed.
Print Assumptions C09_add_frame.

(* missing ancestors are created with empty content; existing ones keep title/content/flags/kind *)
Theorem C09_add_ancestors : forall q r new d, q <> [] -> r <> [] ->
  exists y, lookup q (add_path (q ++ r) new d) = Some y /\
            shallow y = shallow (match lookup q d with Some x => x | None => fresh (last q []) [] end).
Proof. exact lookup_add_ancestor. Qed.
Print Assumptions C09_add_ancestors.

(* ---- select after ANY history ------------------------------------------- *)
(* `val p h` reads the history h (most recent first): the last add at p; an add below p creates p
   empty if it was missing; a delete of p or of an ancestor that existed removes it; flag
   assignments update it.  `history ops` is the list of primitive writes of ops (all 11 operation kinds). *)
Theorem C09_select_last : forall ops p, p <> [] ->
  option_map shallow (lookup p (data (run_card ops empty_card))) = val p (rev (history ops [])) [].
Proof. exact select_last. Qed.
Print Assumptions C09_select_last.

(* through Card.select, for EVERY key without an empty name (all other keys raise KeyError: C09_errors_pure_select) *)
Theorem C09_select_after : forall ops key, ~ In [] (split_names key) ->
  match snd (run_op (OSelect key) (run_card ops empty_card)) with
  | Selected x => val (split_names key) (rev (history ops [])) [] = Some (shallow x)
  | Failed e => e = EKey /\ val (split_names key) (rev (history ops [])) [] = None
  | Done => False
  end.
Proof. exact select_after. Qed.
Print Assumptions C09_select_after.

(* the run really is the fold of those primitive writes *)
Theorem C09_run_is_history : forall ops c,
  data (run_card ops c) = apply_actions (history ops (metrics c)) (data c).
Proof. exact run_history. Qed.
Print Assumptions C09_run_is_history.

(* every reachable card has unique keys at every level (the dict invariant the model relies on) *)
Theorem C09_reachable_wf : forall ops, wf_dict (data (run_card ops empty_card)).
Proof. exact reachable_wf. Qed.
Print Assumptions C09_reachable_wf.

(* ---- cards constructed from a template ------------------------------------ *)
(* Card(model, template=t, model_diagram=dg) is the run of the constructor's planned builder calls (init_ops: C14_init_plan)
   on the empty card -- for EVERY configuration cfg of the module-level data (template listing, valid names, default
   sections), every template, model_diagram and oracle value; when the constructor raises, fst is the empty card and
   init_ops is [].  So a constructed card edited by ANY operation sequence is a card reached from the empty card ... *)
Theorem C09_constructed_is_run : forall cfg t dg params html ops,
  run_card ops (fst (init_card cfg t dg params html)) = run_card (init_ops cfg t dg params html ++ ops) empty_card.
Proof. exact constructed_run. Qed.
Print Assumptions C09_constructed_is_run.

(* ... and the history theorems hold for it: unique keys at every level, *)
Theorem C09_constructed_wf : forall cfg t dg params html ops,
  wf_dict (data (run_card ops (fst (init_card cfg t dg params html)))).
Proof. exact constructed_wf. Qed.
Print Assumptions C09_constructed_wf.

(* select returns what the history (the constructor's writes first) says was last written there *)
Theorem C09_constructed_select_after : forall cfg t dg params html ops key, ~ In [] (split_names key) ->
  match snd (run_op (OSelect key) (run_card ops (fst (init_card cfg t dg params html)))) with
  | Selected x => val (split_names key) (rev (history (init_ops cfg t dg params html ++ ops) [])) [] = Some (shallow x)
  | Failed e => e = EKey /\ val (split_names key) (rev (history (init_ops cfg t dg params html ++ ops) [])) [] = None
  | Done => False
  end.
Proof. exact constructed_select_after. Qed.
Print Assumptions C09_constructed_select_after.

(* ---- chained select ------------------------------------------------------ *)
(* FULL STATEMENT (finding C09-F1 repaired: Card.select now rejects an empty name anywhere, as Section.select does):
   select(p + "/" + q) = select(p).select(q) for every card, every q and every p that does not end in a backslash
   (a trailing backslash would escape the joining slash: path syntax, see C09_chain_backslash_example). *)
Theorem C09_chain : forall p q d,
  ends_with_backslash p = false ->
  card_select (p ++ slash :: q) d =
  match card_select p d with Ok x => section_select q x | Raise e => Raise e end.
Proof. exact chain_full. Qed.
Print Assumptions C09_chain.

Theorem C09_chain_backslash_example :
  let d := add_single (of_ascii "a\/b") (text_section (of_ascii "a\/b") [120] false) [] in
  exists x, card_select (of_ascii "a\" ++ slash :: of_ascii "b") d = Ok x /\ card_select (of_ascii "a\") d = Raise EKey.
Proof. exact chain_backslash_example. Qed.
Print Assumptions C09_chain_backslash_example.

(* the former witness of C09-F1, card_a__b = add "a//b" on the empty card = {a: {"": {b}}}: the section exists,
   but select / delete (string and list form) / chained select of the path with the empty name all raise KeyError;
   it goes away with its parent *)
Theorem C09_select_empty_middle_fixed :
  lookup (split_names (of_ascii "a//b")) card_a__b <> None
  /\ In [] (split_names (of_ascii "a//b"))
  /\ card_select (of_ascii "a//b") card_a__b = Raise EKey
  /\ card_delete (of_ascii "a//b") card_a__b = Raise EKey
  /\ card_delete_list [of_ascii "a"; []; of_ascii "b"] card_a__b = Raise EKey
  /\ (match card_select (of_ascii "a") card_a__b with Ok x => section_select (of_ascii "/b") x | Raise e => Raise e end)
     = Raise EKey
  /\ (exists d', card_delete (of_ascii "a") card_a__b = Ok d' /\ d' = []).
Proof. exact select_empty_middle_fixed. Qed.
Print Assumptions C09_select_empty_middle_fixed.

Theorem C09_split_concat : forall p q, ends_with_backslash p = false ->
  split_names (p ++ slash :: q) = split_names p ++ split_names q.
Proof. exact split_names_app. Qed.
Print Assumptions C09_split_concat.

(* any chain resolves to ONE lookup of the concatenated names, after static checks on the names *)
Theorem C09_chain_resolution : forall ks d, ks <> [] ->
  chain_select ks d =
  if chain_ok ks
  then match lookup (chain_path ks) d with Some x => Ok (chain_path ks, x) | None => Raise EKey end
  else Raise EKey.
Proof. exact chain_select_spec. Qed.
Print Assumptions C09_chain_resolution.

(* the static check fails exactly when some key of the chain is empty or has an empty name *)
Theorem C09_chain_static_check : forall ks, ks <> [] ->
  (chain_ok ks = false <-> exists k, In k ks /\ (k = [] \/ In [] (split_names k))).
Proof. exact chain_ok_iff. Qed.
Print Assumptions C09_chain_static_check.

(* ---- delete -------------------------------------------------------------- *)
Theorem C09_delete : forall p r d d', wf_dict d -> delete_path p d = Some d' -> lookup (p ++ r) d' = None.
Proof. exact lookup_delete_below. Qed.
Print Assumptions C09_delete.

Theorem C09_delete_frame : forall p q d d',
  delete_path p d = Some d' -> is_prefix p q = false -> is_prefix q p = false -> lookup q d' = lookup q d.
Proof. exact lookup_delete_frame. Qed.
Print Assumptions C09_delete_frame.

Theorem C09_delete_ancestors : forall q r d d', q <> [] -> r <> [] -> delete_path (q ++ r) d = Some d' ->
  exists x y, lookup q d = Some x /\ lookup q d' = Some y /\ shallow y = shallow x.
Proof. exact lookup_delete_ancestor. Qed.
Print Assumptions C09_delete_ancestors.

Theorem C09_delete_order : forall q k d d', wf_dict d -> delete_path (q ++ [k]) d = Some d' ->
  exists ks, children q d = Some ks /\ children q d' = Some (filter (fun k' => negb (pstr_eqb k k')) ks).
Proof. exact children_delete_parent. Qed.
Print Assumptions C09_delete_order.

(* string form: split + strip; list form: names verbatim *)
Theorem C09_delete_string : forall key d,
  card_delete key d =
  if forallb nonempty (split_names key)
  then match delete_path (split_names key) d with Some d' => Ok d' | None => Raise EKey end
  else Raise EKey.
Proof. exact card_delete_spec. Qed.
Print Assumptions C09_delete_string.

Theorem C09_select_string : forall key d,
  card_select key d =
  if forallb nonempty (split_names key)
  then match lookup (split_names key) d with Some x => Ok x | None => Raise EKey end
  else Raise EKey.
Proof. exact card_select_spec. Qed.
Print Assumptions C09_select_string.

Theorem C09_delete_list_verbatim : forall names d,
  card_delete_list names d =
  match names with
  | [] => Raise EKey
  | _ :: _ => if forallb nonempty names
              then match delete_path names d with Some d' => Ok d' | None => Raise EKey end
              else Raise EKey
  end.
Proof. exact card_delete_list_spec. Qed.
Print Assumptions C09_delete_list_verbatim.

Theorem C09_delete_list_verbatim_example :
  let d := add_single (of_ascii "a") (text_section (of_ascii "a") [] false) [] in
  card_delete_list [of_ascii " a"] d = Raise EKey /\ card_delete (of_ascii " a") d = Ok [].
Proof. exact delete_list_verbatim_example. Qed.
Print Assumptions C09_delete_list_verbatim_example.

(* ---- errors -------------------------------------------------------------- *)
(* FULL STATEMENT: select never changes the card; select and delete (string and list form) fail exactly when the
   key is empty, SOME name of the path is empty, or the path leads nowhere -- then with KeyError and an unchanged card. *)
Theorem C09_errors_pure_select : forall key c,
  fst (run_op (OSelect key) c) = c /\
  (snd (run_op (OSelect key) c) = Failed EKey <->
     key = [] \/ In [] (split_names key) \/ lookup (split_names key) (data c) = None) /\
  (forall e, snd (run_op (OSelect key) c) = Failed e -> e = EKey).
Proof. exact select_errors. Qed.
Print Assumptions C09_errors_pure_select.

Theorem C09_select_succeeds_iff : forall key c x,
  snd (run_op (OSelect key) c) = Selected x <->
  key <> [] /\ ~ In [] (split_names key) /\ lookup (split_names key) (data c) = Some x.
Proof. exact select_ok. Qed.
Print Assumptions C09_select_succeeds_iff.

Theorem C09_errors_pure_delete : forall key c,
  (snd (run_op (ODelete key) c) = Failed EKey <->
     key = [] \/ In [] (split_names key) \/ lookup (split_names key) (data c) = None) /\
  (forall e, snd (run_op (ODelete key) c) = Failed e -> e = EKey /\ fst (run_op (ODelete key) c) = c).
Proof. exact delete_errors. Qed.
Print Assumptions C09_errors_pure_delete.

Theorem C09_errors_pure_delete_list : forall names c,
  (snd (run_op (ODeleteList names) c) = Failed EKey <->
     names = [] \/ In [] names \/ lookup names (data c) = None) /\
  (forall e, snd (run_op (ODeleteList names) c) = Failed e -> e = EKey /\ fst (run_op (ODeleteList names) c) = c).
Proof. exact delete_list_errors. Qed.
Print Assumptions C09_errors_pure_delete_list.

Theorem C09_delete_fails_iff_missing : forall p d, delete_path p d = None <-> lookup p d = None.
Proof. exact delete_none_iff. Qed.
Print Assumptions C09_delete_fails_iff_missing.

(* ---- the hypotheses are satisfiable and every clause is exercised --------- *)
Theorem C09_nonvacuous :
  let d := data (run_card demo_ops empty_card) in
  keys d = [of_ascii "A"; of_ascii "C / D"]
  /\ option_map shallow (lookup [of_ascii "A"] d) = Some (of_ascii "A", of_ascii "4", true, true, KText)
  /\ children [of_ascii "A"] d = Some [of_ascii "B"]
  /\ option_map content (lookup [of_ascii "A"; of_ascii "B"] d) = Some []
  /\ option_map content (lookup [of_ascii "C / D"; of_ascii "E"] d) = Some (of_ascii "3")
  /\ snd (run_op (OSelect (of_ascii "A/X")) (run_card demo_ops empty_card)) = Failed EKey
  /\ snd (run_op (OSelectChain [of_ascii "C \/ D"; of_ascii "E"]) (run_card demo_ops empty_card))
     = snd (run_op (OSelect (of_ascii "C \/ D/E")) (run_card demo_ops empty_card)).
Proof. exact nonvacuous. Qed.
Print Assumptions C09_nonvacuous.
