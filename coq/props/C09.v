(* C09 -- placeholder while the correspondence is brought up *)
From Skv Require Import PyStr Json Show.
Theorem C09_nonvacuous : split_names [97;92;47]%N = [[97;47]%N].
Proof. vm_compute. reflexivity. Qed.
Print Assumptions C09_nonvacuous.
