(* C05 -- supported data round-trips exactly, and stably. *)
From Skv Require Import CodecGuards.
From Gen Require Import Snapshot.

Theorem C05_placeholder : True. Proof. exact I. Qed.
Print Assumptions C05_placeholder.
