(* C05 -- supported data round-trips exactly, and stably. *)
From Skv Require Import CodecGuards CodecWitness CodecShareFacts CodecFacts CodecRootFacts.
From Gen Require Import Snapshot.
From Coq Require Import Arith.

(* per-run obligation: get_tree selects, at the current protocol, the node class the model assumes
   for every loader of the proved fragment *)
Theorem C05_loaders_registered : reg_ok Snapshot.registry Snapshot.current = true.
Proof. vm_compute. reflexivity. Qed.
Print Assumptions C05_loaders_registered.

(* The full statement (kept visible; NOT proved in general -- see C05_roundtrip_partial):
   every value of the property's grammar (`supported`, coq/io/CodecGuards.v) dumps and loads to a value with
   the same types, structure, values and sharing. *)
Definition C05_roundtrip_full_statement : Prop :=
  forall (F : cfacts) (D : denv) (base : Z) (v : pval),
    dn_cur D = Snapshot.current -> supported F v = true ->
    exists v', roundtrip Snapshot.registry Snapshot.current F D base v = Ok v' /\ show_val v' = show_val v.

(* Proved fragment (structural induction on the value + a global first-occurrence invariant of the loader's memo):
   JSON scalars surviving the JSON text codec (scalar_rt_ok, decidable); arbitrarily nested list / tuple / set of exact
   builtin class; dict / OrderedDict / defaultdict (factory a type or None) with str / int / float / numpy-number keys
   whose JSON spellings are pairwise distinct and which k_type(key) maps back (incl. the key_types lists, whose repeated
   type objects are met as memoised nodes); slices with None/int/bool/str bounds; function (ufunc) and type names;
   attrgetter / itemgetter (operator helpers whose __reduce__ tuple the constructor accepts); numpy arrays and numpy
   scalars (opaque token in an <id>.npy member), scipy sparse matrices (<id>.npz), dtypes (through the carrier array
   the dumper creates), masked arrays, RandomState and Generator (through their state dicts), functools.partial;
   bytes / bytearray and their subclasses whose class name resolves at load (the content is an opaque token in a member
   u<n>.bin named by the dumper's uuid counter, NOT by the object id); object-dtype arrays (exact numpy.ndarray) of EVERY
   rank -- 0 included -- and every shape with as many cells as the shape says (shape_okb: zero-length axes included, shape
   (2,0) travels as two empty lists, shape (0,2) as none) whose cells are ANY values of the fragment, shared or not: the cells
   travel below the nested lists tolist() creates -- objects of the dumper (allocator labels), one ListNode per axis below the
   first, the outermost list's own state being dropped; for rank 0 the one-element list around the cell (the repair of
   C13-F1) -- and come back through the loader's cell-by-cell fill of np.empty(shape) (the repair of D10: cells that are
   lists / tuples are cells, not axes; CodecShareFacts.tolist_QC, content_fill: the filling loop finds exactly the cells, in
   C order, in these lists; rank 1: len(content) decides); the shape travels as the tuple obj.shape: the empty-tuple
   singleton for rank 0 (an object of the value's universe `objs`: it may also be a cell, then a reference), otherwise a
   fresh tuple around the axis lengths -- each one of CPython's cached small ints when <= 256 (an object of `objs`, possibly met
   before as a cell or elsewhere in the value: a reference) or a fresh int object (CodecShareFacts.shape_QB, objarr_Q).
   A shared array is written once and referenced from every occurrence (member lookup by name: ShowFacts.show_Z_inj).
   A shared bytes object is written once PER OCCURRENCE (u<n>.bin, u<n'>.bin, ... with the same content: that is what
   bytes_get_state does); the loader builds the node of the first occurrence from whichever of these names the file
   table yields for the id and returns that same object for the later occurrences through the __id__ memo, so the loaded
   value is v with one bytes object, not several (CodecShareFacts.bytes_Q, FTd_one: all names recorded for one id name
   the same content; fresh names: CodecMemberFacts.uuid_inj / npy_uuid / npz_uuid).
   Sharing is arbitrary: any sub-object (and CPython's cached small ints, type objects, ...) may occur any number of
   times (a DAG); the only requirement is that one label denotes one object (objs_wf: decidable).  The state get_state
   emits is loaded by get_tree + construct to exactly v, identity labels included -- the same sharing.
   USER OBJECTS on the generic object path (object_get_state -> ObjectNode / ConstructorFromReduceNode): `PObj id m c HKNone [] ok arg`
   for ANY class name m.c that resolves at load and from which the loader derives no hidden payload (plain_cls: decidable; excludes
   frozenset / deque, finding D09) -- scipy sparse *arrays* (csr_array, coo_array, ...), scikit-learn estimators, pipelines, user
   classes -- with  ok = OKState: arg = __getstate__() / __dict__, ANY value of the fragment: a dict with str keys, but also a
   tuple, a list, a number, a falsy value, None (ObjectNode._construct tests the child node, not the state: every state but None
   reaches __setstate__; the loaded value carries the state it was handed either way);  ok = OKNoState (neither __getstate__ nor
   __dict__: no "content", cls.__new__(cls) only);  ok = OKReduce: __reduce__() == (type(obj), args), args a builtin tuple of values of
   the fragment.  The state / the arguments are again any values of the fragment: nested objects (an estimator holding estimators)
   and one object reachable from several places are covered by the same induction and the same memo invariant
   (CodecShareFacts.objstate_Q / objreduce_Q / objnostate_Q).  WHAT "ROUND TRIP = Ok v" MEANS FOR AN OBJECT is the abstraction of
   DESIGN 3.4: the loader resolves the SAME CLASS NAME and hands __setstate__ / __dict__.update (the constructor, for OKReduce) a
   state (arguments) EQUAL to what the object handed out, sharing included.  That the real class, given that state, becomes an
   object that hands out that state again is the class's own pickle contract (the hypothesis getset_contract of C07), not skops'.
   c05_guard = fragb (the fragment) && objs_wf (labels) && need v <= default_fuel (nesting depth below the fuel).
   Every KIND of the property's grammar is inside the fragment now (scipy sparse arrays came in with the object path); `supported` and the
   guard still differ by the guard's conditions on the environment (class names resolvable at load, key types known to D, one label = one
   object, depth below the fuel), which is why the full statement above is kept as a Definition.  The statement is about the entry points: dumps_model (incl. the root
   fields protocol/_skops_version of _save) does not raise and loads_model returns v.  Values outside the fragment are covered by the per-case evaluation `c05_case_same`
   and by the correspondence with the implementation (harness/props/c05.py). *)
Theorem C05_roundtrip_partial :
  forall (F : cfacts) (D : denv) (base : Z) (v : pval),
    dn_cur D = Snapshot.current -> facts_sane F = true -> c05_guard F D base v = true ->
    roundtrip Snapshot.registry Snapshot.current F D base v = Ok v.
Proof. exact (fun F D base v H1 H2 H3 => root_roundtrip_total _ _ F D base v H1 C05_loaders_registered H2 H3). Qed.
Print Assumptions C05_roundtrip_partial.

(* k cycles of dumps / loads (induction on k) *)
Theorem C05_stable_partial :
  forall (F : cfacts) (D : denv) (base : Z) (v : pval),
    dn_cur D = Snapshot.current -> facts_sane F = true -> c05_guard F D base v = true ->
    forall k, roundtrips Snapshot.registry Snapshot.current F D base k v = Ok v.
Proof. exact (fun F D base v H1 H2 H3 => root_stable _ _ F D base v H1 C05_loaders_registered H2 H3). Qed.
Print Assumptions C05_stable_partial.

(* the fragment is contained in the property's grammar *)
Definition wfrag : pval :=
  ptuple 1 [plist 2 [pint 1; PScalar 3 (SFloat (s "2.5")); pstr_ 4 "x"; PScalar 5 SNone];
            PSeq QSet 6 (s "builtins") (s "set") false [pint 7; pstr_ 8 "s"];
            PSlice 9 (BScalar (SInt 1)) (BScalar SNone) (BScalar (SInt 2));
            PFunc 10 (s "numpy") (s "sqrt"); PType 11 (s "builtins") (s "int");
            ptuple 12 [plist 13 []; PScalar 14 (SStr [233; 128512; 0; 34; 92]%N); PScalar 15 (SInt (10 ^ 40))]].
(* a DAG: the list `sh` and the dict `d` occur several times; dict / OrderedDict / defaultdict with str, int, float and
   numpy keys; the cached small int 1 and the type objects occur repeatedly *)
Definition wshared : pval :=
  let sh := plist 20 [pint 1; PScalar 21 (SFloat (s "2.5")); pstr_ 22 "x"] in
  let d := pdict 23 [(kstr "a", sh); (kint 3, pint 1); (kfloat "1.5", PScalar 24 SNone); (knp64 4, sh)] in
  ptuple 25 [sh; d; d;
             PDict 26 (s "collections") (s "OrderedDict") [(kstr "b", d); (kstr "c", PSlice 27 (BScalar (SInt 1)) (BScalar SNone) (BScalar (SInt 2)))];
             PDefDict 28 (s "collections") (s "defaultdict") (PType 902 (s "builtins") (s "int")) [(kint 1, sh); (kstr "k", PFunc 29 (s "numpy") (s "sqrt"))];
             PSeq QSet 30 (s "builtins") (s "set") false [pint 7; pstr_ 31 "s"]; wfrag].
(* bytes and bytearray: the bytes object `bs` occurs three times (twice in a list, once as a dict value) and is written to
   three members u0.bin, u2.bin, u3.bin; the bytearray (twice: u1.bin, u5.bin) and a second bytes object with the same content but another
   identity (u4.bin) stay distinct objects; an array shares the archive with them *)
Definition wbytes : pval :=
  let bs := PBytes 40 false (s "builtins") (s "bytes") (s "6162") in
  let ba := PBytes 41 true (s "builtins") (s "bytearray") (s "0001ff") in
  ptuple 42 [plist 43 [bs; ba; bs]; pdict 44 [(kstr "k", bs); (kstr "same-content", PBytes 45 false (s "builtins") (s "bytes") (s "6162"))];
             PArr 46 false (s "numpy") (s "ndarray") (s "tok-f8-2x3"); ba; wshared].
(* object arrays, rank 1: three cells (a list that also occurs outside the array, the shared bytes object, the cached int 3
   that is also len(obj)); an empty object array; an object array inside an object array *)
Definition wobjarr : pval :=
  let sh := plist 50 [pint 1; pstr_ 51 "x"] in
  let bs := PBytes 52 false (s "builtins") (s "bytes") (s "6162") in
  let oa := PObjArr 53 (s "numpy") (s "ndarray") [3%Z] [sh; bs; pint 3] in
  ptuple 54 [oa; sh; bs; PObjArr 55 (s "numpy") (s "ndarray") [0%Z] [];
             PObjArr 56 (s "numpy") (s "ndarray") [2%Z] [oa; pdict 57 [(kstr "k", oa)]]; pint 2].
Definition wC (a : archive) : cenv := cenv_of Snapshot.registry Snapshot.current wf a.

(* non-vacuity: the hypotheses of C05_roundtrip_partial hold of a nested value, and the conclusion computes *)
Example C05_nonvacuous :
  c05_guard wf (wd Snapshot.current) wbase wshared = true /\ supported wf wshared = true /\ facts_sane wf = true
  /\ roundtrip Snapshot.registry Snapshot.current wf (wd Snapshot.current) wbase wshared = Ok wshared.
Proof. repeat split; vm_compute; reflexivity. Qed.

(* non-vacuity for bytes / bytearray: the guard holds of a value with a shared bytes object and a shared bytearray; the dump
   writes one member per occurrence (six u<n>.bin members for three objects: bs thrice, ba twice, the equal-content bytes once) and the round trip returns the value itself *)
Example C05_nonvacuous_bytes :
  c05_guard wf (wd Snapshot.current) wbase wbytes = true /\ supported wf wbytes = true
  /\ roundtrip Snapshot.registry Snapshot.current wf (wd Snapshot.current) wbase wbytes = Ok wbytes
  /\ (do a <- dumps_model (wd Snapshot.current) wbase wbytes; Ok (map fst (a_members a)))
     = Ok [s "u0.bin"; s "u1.bin"; s "u2.bin"; s "u3.bin"; s "u4.bin"; s "46.npy"; s "u5.bin"].
Proof. repeat split; vm_compute; reflexivity. Qed.

(* non-vacuity for object arrays, rank 1 (cells of any kind of the fragment, shared with the rest of the value) *)
Example C05_nonvacuous_objarr :
  c05_guard wf (wd Snapshot.current) wbase wobjarr = true
  /\ roundtrip Snapshot.registry Snapshot.current wf (wd Snapshot.current) wbase wobjarr = Ok wobjarr.
Proof. repeat split; vm_compute; reflexivity. Qed.

(* non-vacuity for the other ranks (D10 / C13-F1 repaired): a rank-0 array holding a list; a (2,2) array of lists; a (2,0) array
   (no cell, two empty lists in the archive); a value holding a rank-0 array whose cell is the empty tuple (the object that is
   also its shape), a (1,2,1) array of a tuple and a list that occurs again outside, a (0,2) array, a (2,1) array of arrays *)
Example C05_nonvacuous_objarr_ranks :
  let sh := plist 80 [pint 1; pint 2] in
  let a121 := PObjArr 81 (s "numpy") (s "ndarray") [1; 2; 1]%Z [ptuple empty_tuple_id []; sh] in
  let v := ptuple 82 [PObjArr 83 (s "numpy") (s "ndarray") [] [ptuple empty_tuple_id []]; a121; sh;
                      PObjArr 84 (s "numpy") (s "ndarray") [0; 2]%Z [];
                      PObjArr 85 (s "numpy") (s "ndarray") [2; 1]%Z [a121; PObjArr 86 (s "numpy") (s "ndarray") [] [a121]]] in
  forallb (fun w => c05_guard wf (wd Snapshot.current) wbase w && supported wf w
                    && match roundtrip Snapshot.registry Snapshot.current wf (wd Snapshot.current) wbase w with
                       | Ok w' => pval_eqb w' w | Raise _ => false end)
    [w_objarr_rank0; w_objarr_seq; w_objarr_20; v] = true
  /\ (do a <- dumps_model (wd Snapshot.current) wbase w_objarr_20; jindex (a_schema a) (s "content"))
     = Ok (JArr [list_state [] (wbase + 1); list_state [] (wbase + 2)]).
Proof. split; vm_compute; reflexivity. Qed.

(* non-vacuity for user objects: a scipy sparse *array* (state = its __dict__); a user class whose state is a dict holding a list that
   also occurs outside the object; ONE object `o` reachable from three places (twice in a list, once as an attribute of another object:
   written once, referenced twice); states that are not dicts (a tuple, the int 0, False, None, an empty tuple); an object without
   state; a __reduce__ constructor object whose argument tuple holds the shared object.  The guard holds, `supported` holds, and the
   round trip computed through dumps_model / get_tree / construct returns the value itself *)
Example C05_nonvacuous_objects :
  c05_guard wf (wd Snapshot.current) wbase w_objects = true /\ supported wf w_objects = true
  /\ roundtrip Snapshot.registry Snapshot.current wf (wd Snapshot.current) wbase w_objects = Ok w_objects
  /\ (do a <- dumps_model (wd Snapshot.current) wbase w_objects; Ok (map fst (a_members a))) = Ok [s "64.npy"; s "68.npy"].
Proof. repeat split; vm_compute; reflexivity. Qed.

(* a class from whose NAME the loader derives a hidden payload is outside (finding D09: frozenset / deque), and so is an object
   whose __reduce__ / __getstate__ raises *)
Example C05_objects_excluded :
  supported wf w_frozenset = false /\ fragb wf (wd Snapshot.current) w_frozenset = false
  /\ fragb wf (wd Snapshot.current) (PObj 1 (s "builtins") (s "frozenset") HKNone [] OKState (PScalar 5 SNone)) = false
  /\ supported wf (PObj 1 (s "values") (s "RaisingState") HKNone [] (OKRaise EOther) pnone) = false.
Proof. repeat split; vm_compute; reflexivity. Qed.

(* an object array with 257 cells: len(obj) is not a cached small int, the shape tuple holds a fresh int object *)
Example C05_nonvacuous_objarr_long :
  let v := PObjArr 60 (s "numpy") (s "ndarray") [257%Z] (repeat (pint 1) 256 ++ [pstr_ 61 "last"]) in
  c05_guard wf (wd Snapshot.current) wbase v = true
  /\ roundtrip Snapshot.registry Snapshot.current wf (wd Snapshot.current) wbase v = Ok v.
Proof. repeat split; vm_compute; reflexivity. Qed.

(* the complete pipeline dumps -> schema.json -> get_tree -> construct on a value of the full grammar
   (dict / OrderedDict / defaultdict with str, int, float, numpy keys, shared list, set, bytes, slice, arrays,
   sparse, dtype, ufunc, type): loads(dumps(v)) is v itself, identity labels included; also three cycles *)
Example C05_full_grammar_example :
  supported wf w_nested = true
  /\ roundtrip Snapshot.registry Snapshot.current wf (wd Snapshot.current) wbase w_nested = Ok w_nested
  /\ (do a <- roundtrip Snapshot.registry Snapshot.current wf (wd Snapshot.current) wbase w_nested;
      do b <- roundtrip Snapshot.registry Snapshot.current wf (wd Snapshot.current) wbase a;
      roundtrip Snapshot.registry Snapshot.current wf (wd Snapshot.current) wbase b) = Ok w_nested.
Proof. repeat split; vm_compute; reflexivity. Qed.

(* D25 (fixed in the repository): a defaultdict with a non-str key loads again *)
Example C05_defaultdict_int_key :
  let v := PDefDict 1 (s "collections") (s "defaultdict") (PType 2 (s "builtins") (s "list")) [(kint 1, plist 3 [pint 2])] in
  roundtrip Snapshot.registry Snapshot.current wf (wd Snapshot.current) wbase v = Ok v.
Proof. vm_compute. reflexivity. Qed.

(* strings outside scalar_rt_ok: a high surrogate followed by a low surrogate does not survive json (finding C04-F4) *)
Example C05_surrogate_pair_excluded : supported wf w_surrogates = false.
Proof. vm_compute. reflexivity. Qed.
