(* C02 -- inspecting an archive is inert.
   In the model, get_tree / the audit walk / walk_tree are total *functions* of the registry tables,
   the archive's member names and its schema: their result type has no event component and they receive
   no handle on the import system.  The only place where the implementation used to touch it before the
   verdict (LossNode.__init__, defect D05, repaired) shows up in the model as `init_events`. *)
From Skv Require Import PyStr Json Node GetTree Unsafe Walk Construct.

Theorem C02_no_events_before_verdict : forall t : node, init_events t = [].
Proof. intros t. reflexivity. Qed.
Print Assumptions C02_no_events_before_verdict.

(* The functions that run before the trust decision, with their full types: none of them returns events,
   and none takes the import system as an argument other than through `env`, whose e_resolve field is read
   by `gettype` only -- and `gettype` is not called by any of them (Print Assumptions would list a
   dependency if a Section variable or axiom stood for the import system). *)
Definition C02_signatures :=
  (root_tree : env -> json -> res (node * memo),
   get_untrusted_types : env -> json -> res (list pstr),
   load_audit : env -> json -> targ -> res node,
   visualize_stream : env -> list pstr -> json -> trust -> res stream).
