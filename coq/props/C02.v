(* C02 -- inspecting an archive is inert.
   In the model, get_tree / the audit walk / walk_tree are total *functions* of the registry tables,
   the archive's member names and its schema: their result type has no event component and they receive
   no handle on the import system.  The only place where the implementation used to touch it before the
   verdict (LossNode.__init__, defect D05, repaired) shows up in the model as `init_events`. *)
From Skv Require Import PyStr Json Node GetTree Unsafe Walk Construct.
From Coq Require Import String List.
From Skv Require Import CallGraph CallGraphFacts.
From Gen Require CallGraphGen.

Theorem C02_no_events_before_verdict : forall t : node, init_events t = [].
Proof. intros t. reflexivity. Qed.
Print Assumptions C02_no_events_before_verdict.

(* The functions that run before the trust decision, with their full types: none of them returns events,
   and none takes the import system as an argument other than through `env`, whose e_resolve field is read
   by `gettype` only -- and `gettype` is not called by any of them (Print Assumptions would list a
   dependency if a Section variable or axiom stood for the import system). *)
Definition C02_signatures :=
  (root_tree : env -> json -> res (node * memo),
   get_untrusted_types : env -> json -> res (list pstr),
   load_audit : env -> json -> targ -> res node,
   visualize_stream : env -> list pstr -> json -> trust -> res stream).

(* ---- the translated source ------------------------------------------------------------------------------------
   Gen.CallGraphGen is regenerated on every run by harness/callgraph.py from the SOURCE of skops/io: for every
   function its possible callees inside skops.io (over-approximated: methods by name, any constructor for a
   looked-up class, ...) and the forbidden primitives it uses (resolve: gettype/_import_obj/importlib/__import__/
   eval/exec/pickle/computed getattr;  fs: open/os/shutil/tempfile/subprocess/write methods).  load()/loads() are
   split at their call of audit_tree.  `reach` is the reflexive-transitive closure of the call relation. *)

(* Whatever get_untrusted_types, visualize, and load/loads up to and including the audit can call -- directly or
   through any chain of calls inside skops.io -- uses none of the forbidden primitives. *)
Theorem C02_static_inert :
  forall e f, In e CallGraphGen.entries -> reach CallGraphGen.callgraph e f -> inert CallGraphGen.callgraph f = true.
Proof. apply (static_inert _ CallGraphGen.reach_hint). vm_compute. reflexivity. Qed.
Print Assumptions C02_static_inert.

(* the entry points are the ones the property names *)
Theorem C02_static_entries :
  CallGraphGen.entries = ["_persist.load@pre"; "_persist.loads@pre"; "_persist.get_untrusted_types"; "_visualize.visualize"]%string.
Proof. reflexivity. Qed.
Print Assumptions C02_static_entries.

(* non-vacuity: the same analysis DOES find a forbidden primitive behind the verdict (construct resolves names) *)
Theorem C02_static_not_blind :
  exists f, reach CallGraphGen.callgraph "_persist.load@post" f /\ inert CallGraphGen.callgraph f = false.
Proof.
  exists (path_end "_persist.load@post" CallGraphGen.post_witness_path). split.
  - apply path_reach. vm_compute. reflexivity.
  - vm_compute. reflexivity.
Qed.
Print Assumptions C02_static_not_blind.
