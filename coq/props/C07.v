(* C07 -- a reloaded scikit-learn estimator is the same model (partial: see the premises). *)
From Skv Require Import PyStr Json Node GetTree Unsafe Estimators EstimatorsFacts.
From Skv Require Import CodecGuards CodecWitness CodecShareFacts CodecFacts CodecRootFacts EstimatorsCodecFacts.
From Gen Require Import Snapshot.

(* REDUCTION.  For every class, every state: if (premises, all visible)
     - the methods depend on class and state only, up to value-isomorphism      [method_pure: exercised by tests, not proved]
     - the class is importable under its saved name                              [resolve_name]
     - states / constructor arguments round-trip up to iso                       [codec: property C05]
     - __setstate__ (or __dict__.update) on a fresh instance restores __getstate__'s result;
       constructor(args...) + __setstate__ restores __reduce__'s result          [the classes' pickle contract]
   then the object skops rebuilds (ObjectNode: cls.__new__ + __setstate__/__dict__.update;
   ReduceNode: constructor(args...) + __setstate__) has the same class, an isomorphic state, and every
   method gives the same output on every input. *)
Theorem C07_reduction :
  forall (cls name state args wire input output : Type)
         (method : cls -> state -> input -> output) (empty : cls -> state)
         (getstate : cls -> state -> state) (setstate : cls -> state -> state -> state)
         (construct : cls -> args -> state) (name_of : cls -> name) (resolve : name -> option cls)
         (enc : state -> wire) (dec : wire -> option state) (dec_args : wire -> option args)
         (iso : state -> state -> Prop),
    (forall c s s' x, iso s s' -> method c s x = method c s' x) ->
    (forall c, resolve (name_of c) = Some c) ->
    (forall s, exists s', dec (enc s) = Some s' /\ iso s s') ->
    (forall c s a, iso (getstate c s) a -> iso s (setstate c (empty c) a)) ->
    forall e : est cls state,
    exists e', load cls name state args wire empty setstate construct resolve dec dec_args
                    (dump_object cls name state wire getstate name_of enc e) = Some e'
      /\ e_cls _ _ e' = e_cls _ _ e /\ iso (e_state _ _ e) (e_state _ _ e')
      /\ forall x, method (e_cls _ _ e') (e_state _ _ e') x = method (e_cls _ _ e) (e_state _ _ e) x.
Proof.
  intros cls name state args wire input output method empty getstate setstate construct name_of resolve
         enc dec dec_args iso Hp Hr Hc Hg e.
  exact (reduction_object cls name state args wire input output method empty getstate setstate construct
           name_of resolve enc dec dec_args iso Hp Hr Hc Hg e).
Qed.
Print Assumptions C07_reduction.

Theorem C07_reduction_reduce :
  forall (cls name state args wire input output : Type)
         (method : cls -> state -> input -> output) (empty : cls -> state)
         (setstate : cls -> state -> state -> state) (reduce : cls -> state -> args * state)
         (construct : cls -> args -> state) (name_of : cls -> name) (resolve : name -> option cls)
         (enc : state -> wire) (dec : wire -> option state)
         (enc_args : args -> wire) (dec_args : wire -> option args)
         (iso : state -> state -> Prop) (iso_args : args -> args -> Prop),
    (forall c s s' x, iso s s' -> method c s x = method c s' x) ->
    (forall c, resolve (name_of c) = Some c) ->
    (forall s, exists s', dec (enc s) = Some s' /\ iso s s') ->
    (forall a, exists a', dec_args (enc_args a) = Some a' /\ iso_args a a') ->
    (forall c s a st a' st', reduce c s = (a, st) -> iso_args a a' -> iso st st' ->
                             iso s (setstate c (construct c a') st')) ->
    forall e : est cls state,
    exists e', load cls name state args wire empty setstate construct resolve dec dec_args
                    (dump_reduce cls name state args wire reduce name_of enc enc_args e) = Some e'
      /\ e_cls _ _ e' = e_cls _ _ e /\ iso (e_state _ _ e) (e_state _ _ e')
      /\ forall x, method (e_cls _ _ e') (e_state _ _ e') x = method (e_cls _ _ e) (e_state _ _ e) x.
Proof.
  intros cls name state args wire input output method empty setstate reduce construct name_of resolve
         enc dec enc_args dec_args iso iso_args Hp Hr Hc Ha Hg e.
  exact (reduction_reduce cls name state args wire input output method empty setstate reduce construct
           name_of resolve enc dec enc_args dec_args iso iso_args Hp Hr Hc Ha Hg e).
Qed.
Print Assumptions C07_reduction_reduce.

(* ------------------------------------------------------------------ the reduction instantiated with the codec model *)
(* per-run obligation: get_tree selects, at the current protocol, the node class the model assumes for every loader of the
   proved fragment (ObjectNode and ConstructorFromReduceNode included) *)
Theorem C07_loaders_registered : reg_ok Snapshot.registry Snapshot.current = true.
Proof. vm_compute. reflexivity. Qed.
Print Assumptions C07_loaders_registered.

(* THE ESTIMATOR AS SKOPS SEES IT.  An estimator is the value `PObj id m c HKNone [] OKState st`: its class name (m, c) and the
   state st it hands out (__getstate__(), else __dict__ -- for a scikit-learn estimator the dict of its parameters and fitted
   attributes plus "_sklearn_version").  For EVERY class name that resolves at load (and from which the loader derives no hidden
   payload: not frozenset / deque) and EVERY state of the proved C05 fragment -- scalars, nested containers, numpy arrays and
   scalars, sparse matrices, RNGs, functions, and again user objects: nested estimators, pipelines; arbitrary sharing --
   loads(dumps(estimator)) is the estimator itself: the loader resolves the same class name, builds cls.__new__(cls) and hands
   __setstate__ (or __dict__.update) a state EQUAL to the one the object gave, identity labels (sharing) included.
   c05_guard = the fragment && one label denotes one object && nesting depth below the fuel (decidable). *)
Theorem C07_estimator_roundtrip :
  forall (F : cfacts) (D : denv) (base : Z) (id : Z) (m c : pstr) (st : pval),
    dn_cur D = Snapshot.current -> facts_sane F = true ->
    c05_guard F D base (PObj id m c HKNone [] OKState st) = true ->
    roundtrip Snapshot.registry Snapshot.current F D base (PObj id m c HKNone [] OKState st)
    = Ok (PObj id m c HKNone [] OKState st).
Proof.
  intros F D base id m c st H1 H2 H3.
  exact (estimator_roundtrip Snapshot.registry Snapshot.current F D base H1 C07_loaders_registered H2 id m c st H3).
Qed.
Print Assumptions C07_estimator_roundtrip.

(* ... and the state of an estimator of the fragment is itself a value of the fragment (so that the sigma type of states
   below is what estimators hand out), its class a resolvable one *)
Theorem C07_estimator_state_in_fragment :
  forall (F : cfacts) (D : denv) (base : Z) (id : Z) (m c : pstr) (st : pval),
    c05_guard F D base (PObj id m c HKNone [] OKState st) = true ->
    c05_guard F D base st = true /\ plain_cls F m c = true.
Proof. intros F D base id m c st H. split; [exact (guard_obj_state F D base id m c st H)|exact (guard_obj_cls F D base id m c _ st H)]. Qed.
Print Assumptions C07_estimator_state_in_fragment.

(* THE CODEC PREMISE DISCHARGED.  With
     state := fstate F D base = { v : pval | c05_guard F D base v = true }      the states of the proved fragment
     wire  := res archive                                                        what dumps returns
     enc   := fenc = dumps_model D base                                          object_get_state's get_state(attrs), as a dump
     dec   := fdec = loads_model on that archive (accepted when in the fragment)  get_tree + construct
     iso   := fiso = equality of the labelled values (types, structure, contents, sharing)
   the premise `codec` of C07_reduction holds for EVERY state: it is C05_roundtrip_partial. *)
Theorem C07_codec_premise_on_fragment :
  forall (F : cfacts) (D : denv) (base : Z),
    dn_cur D = Snapshot.current -> facts_sane F = true ->
    forall s : fstate F D base,
    exists s', fdec Snapshot.registry Snapshot.current F D base (fenc F D base s) = Some s' /\ fiso F D base s s'.
Proof.
  intros F D base H1 H2.
  exact (codec_premise_on_fragment Snapshot.registry Snapshot.current F D base H1 C07_loaders_registered H2).
Qed.
Print Assumptions C07_codec_premise_on_fragment.

(* STATE FIDELITY (partial: the states of the fragment; the numerics of the methods stay an oracle).  C07_reduction with the codec
   premise discharged.  For every set of classes `cls` with names `name_of`, every estimator e = (class, state in the fragment):
   if  - the class is importable under its saved name                                   [resolve_name]
       - the class honours its pickle contract: __setstate__ / __dict__.update on a fresh instance, given a state equal to
         what __getstate__ / __dict__ handed out, restores the estimator's state          [getset_contract -- the class's, not skops']
       - the methods are functions of class and state                                    [method_pure: exercised by the bitwise tests]
   then what skops rebuilds (ObjectNode: gettype(name); cls.__new__(cls); __setstate__(loads(dumps(state)))) has the same class,
   an EQUAL state (as labelled value: same types, contents and sharing), and every method gives the same output on every input. *)
Theorem C07_state_fidelity_partial :
  forall (F : cfacts) (D : denv) (base : Z),
    dn_cur D = Snapshot.current -> facts_sane F = true ->
  forall (cls name args input output : Type)
         (method : cls -> fstate F D base -> input -> output) (empty : cls -> fstate F D base)
         (getstate : cls -> fstate F D base -> fstate F D base)
         (setstate : cls -> fstate F D base -> fstate F D base -> fstate F D base)
         (construct : cls -> args -> fstate F D base) (name_of : cls -> name) (resolve : name -> option cls)
         (dec_args : fwire -> option args),
    (forall c s s' x, fval F D base s = fval F D base s' -> method c s x = method c s' x) ->
    (forall c, resolve (name_of c) = Some c) ->
    (forall c s a, fval F D base (getstate c s) = fval F D base a -> fval F D base s = fval F D base (setstate c (empty c) a)) ->
    forall e : est cls (fstate F D base),
    exists e', load cls name (fstate F D base) args fwire empty setstate construct resolve
                    (fdec Snapshot.registry Snapshot.current F D base) dec_args
                    (dump_object cls name (fstate F D base) fwire getstate name_of (fenc F D base) e) = Some e'
      /\ e_cls _ _ e' = e_cls _ _ e /\ fval F D base (e_state _ _ e) = fval F D base (e_state _ _ e')
      /\ forall x, method (e_cls _ _ e') (e_state _ _ e') x = method (e_cls _ _ e) (e_state _ _ e) x.
Proof.
  intros F D base H1 H2 cls name args input output method empty getstate setstate construct name_of resolve dec_args Hp Hr Hc e.
  exact (state_fidelity Snapshot.registry Snapshot.current F D base H1 C07_loaders_registered H2
           cls name args input output method empty getstate setstate construct name_of resolve dec_args Hp Hr Hc e).
Qed.
Print Assumptions C07_state_fidelity_partial.

(* non-vacuity: a LogisticRegression-shaped estimator (parameter C, coef_ / classes_ / n_iter_ arrays, the version string) and a
   Pipeline-shaped one (steps = list of (str, estimator) tuples; the final estimator is ALSO reachable from a second place: one
   object, two occurrences) satisfy the guard, and the model round trip -- computed through dumps_model / get_tree / construct by
   vm_compute -- returns the estimator itself; the shared estimator is written once and referenced *)
Definition w_logreg_state (id : Z) : pval :=
  pdict (id + 1) [(kstr "C", PScalar (id + 2) (SFloat (s "1.0")));
                  (kstr "coef_", PArr (id + 3) false (s "numpy") (s "ndarray") (s "tok-coef-f8-1x4"));
                  (kstr "classes_", PArr (id + 4) false (s "numpy") (s "ndarray") (s "tok-classes-i8-2"));
                  (kstr "n_iter_", PArr (id + 5) false (s "numpy") (s "ndarray") (s "tok-niter-i4-1"));
                  (kstr "_sklearn_version", pstr_ (id + 6) "1.9.1")].
Definition w_logreg (id : Z) : pval :=
  PObj id (s "sklearn.linear_model._logistic") (s "LogisticRegression") HKNone [] OKState (w_logreg_state id).
Definition w_pipeline : pval :=
  let sc := PObj 20 (s "sklearn.preprocessing._data") (s "StandardScaler") HKNone [] OKState
              (pdict 21 [(kstr "with_mean", PScalar 22 (SBool true)); (kstr "mean_", PArr 23 false (s "numpy") (s "ndarray") (s "tok-mean"));
                         (kstr "n_samples_seen_", PArr 24 true (s "numpy") (s "int64") (s "tok-30")); (kstr "_sklearn_version", pstr_ 25 "1.9.1")]) in
  let lr := w_logreg 30 in
  PObj 10 (s "sklearn.pipeline") (s "Pipeline") HKNone [] OKState
    (pdict 11 [(kstr "steps", plist 12 [ptuple 13 [pstr_ 14 "scaler"; sc]; ptuple 15 [pstr_ 16 "clf"; lr]]);
               (kstr "memory", PScalar 17 SNone); (kstr "verbose", PScalar 18 (SBool false));
               (kstr "best_", lr);
               (kstr "_sklearn_version", pstr_ 19 "1.9.1")]).

Example C07_estimator_nonvacuous :
  forallb (fun w => c05_guard wf (wd Snapshot.current) wbase w && supported wf w
                    && match roundtrip Snapshot.registry Snapshot.current wf (wd Snapshot.current) wbase w with
                       | Ok w' => pval_eqb w' w | Raise _ => false end)
    [w_logreg 1; w_pipeline] = true
  /\ facts_sane wf = true
  /\ (do a <- dumps_model (wd Snapshot.current) wbase w_pipeline; Ok (map fst (a_members a)))
     = Ok [s "23.npy"; s "24.npy"; s "33.npy"; s "34.npy"; s "35.npy"].
Proof. repeat split; vm_compute; reflexivity. Qed.

(* the sigma type of states is inhabited by the state dict of that estimator, and the discharged premise computes on it *)
Example C07_codec_premise_nonvacuous :
  exists s0 : fstate wf (wd Snapshot.current) wbase,
    fval _ _ _ s0 = w_logreg_state 1
    /\ exists s', fdec Snapshot.registry Snapshot.current wf (wd Snapshot.current) wbase (fenc _ _ _ s0) = Some s'
                  /\ fval _ _ _ s' = fval _ _ _ s0.
Proof.
  assert (Hs : c05_guard wf (wd Snapshot.current) wbase (w_logreg_state 1) = true) by (vm_compute; reflexivity).
  set (s0 := exist (fun v => c05_guard wf (wd Snapshot.current) wbase v = true) (w_logreg_state 1) Hs).
  exists s0. split; [reflexivity|].
  destruct (C07_codec_premise_on_fragment wf (wd Snapshot.current) wbase eq_refl eq_refl s0) as [s' [Hd Hi]].
  exists s'. split; [exact Hd|symmetry; exact Hi].
Qed.

(* non-vacuity of the premises: booleans as states, identity codec *)
Example C07_reduction_premises_satisfiable :
  let method := fun (_ : unit) (s : bool) (x : bool) => xorb s x in
  (forall c s s' x, s = s' -> method c s x = method c s' x)
  /\ (forall s : bool, exists s', Some s = Some s' /\ s = s')
  /\ (forall (c : unit) (s a : bool), s = a -> s = (fun _ _ a => a) c false a).
Proof. repeat split; intros; subst; eauto. Qed.

(* DEFAULT TRUST, over this run's snapshot of the node classes' default lists: a tree in which every
   node's name is in its class's defaults audits clean without a `trusted` list *)
Theorem C07_default_trusted :
  forall E, e_classes E = Snapshot.classes ->
  forall n, all_default E n = true -> unsafe_tree E None n = Ok [].
Proof. intros E _. exact (default_trusted E). Qed.
Print Assumptions C07_default_trusted.

(* ... also for the audit on the node graph (Refs followed), whenever it returns *)
Theorem C07_default_trusted_graph :
  forall E, e_classes E = Snapshot.classes ->
  forall root, (forall id t, find_id id root = Some t -> all_default E t = true) ->
  forall fuel path n l, all_default E n = true -> unsafe_g E None root fuel path n = Ok l -> l = [].
Proof. intros E _. exact (default_trusted_graph E). Qed.
Print Assumptions C07_default_trusted_graph.

(* a fitted estimator holding an ndarray: every name is a default of this snapshot *)
Definition jnode (c m l : string) (id : Z) (rest : list (pstr * json)) : json :=
  JObj ([(s "__class__", JStr (s c)); (s "__module__", JStr (s m)); (s "__loader__", JStr (s l))]
        ++ rest ++ [(s "__id__", JInt id)]).
Definition ex_env : env :=
  {| e_reg := Snapshot.registry; e_cur := Snapshot.current; e_classes := Snapshot.classes;
     e_unavailable := Snapshot.unavailable; e_members := [s "3.npy"; s "6.npz"]; e_resolve := [] |}.
Definition key_types_str : json :=
  jnode "list" "builtins" "ListNode" 4 [(s "content", JArr [jnode "str" "builtins" "TypeNode" 5 []])].
Definition ex_estimator (attr : json) : json :=
  match jnode "StandardScaler" "sklearn.preprocessing._data" "ObjectNode" 1
          [(s "content", jnode "dict" "builtins" "DictNode" 2
                           [(s "content", JObj [(s "mean_", attr)]); (s "key_types", key_types_str)])] with
  | JObj kv => JObj (kv ++ [(s "protocol", JInt Snapshot.current)])
  | j => j
  end.
Definition attr_ndarray : json :=
  jnode "ndarray" "numpy" "NdArrayNode" 3 [(s "type", JStr (s "numpy")); (s "file", JStr (s "3.npy"))].
Definition attr_csr : json :=
  jnode "csr_matrix" "scipy.sparse._csr" "SparseMatrixNode" 6 [(s "type", JStr (s "scipy")); (s "file", JStr (s "6.npz"))].

Theorem C07_default_trusted_nonvacuous :
  exists t m, root_tree ex_env (ex_estimator attr_ndarray) = Ok (t, m)
              /\ all_default ex_env t = true
              /\ get_untrusted_types ex_env (ex_estimator attr_ndarray) = Ok [].
Proof.
  destruct (root_tree ex_env (ex_estimator attr_ndarray)) as [[t m]|e] eqn:R; [|vm_compute in R; discriminate].
  exists t, m. split; [reflexivity|]. vm_compute in R. injection R as <- <-.
  split; vm_compute; reflexivity.
Qed.
Print Assumptions C07_default_trusted_nonvacuous.

(* D12 repaired in /repo (SparseMatrixNode default-trusts the concrete scipy.sparse matrix classes, not only their base
   class): an estimator holding a csr_matrix attribute audits clean without a trusted list -- re-checked against the
   regenerated default tables on every run *)
Theorem C07_sparse_default_trusted :
  In (s "scipy.sparse._csr.csr_matrix") (defaults ex_env (s "_scipy.SparseMatrixNode"))
  /\ get_untrusted_types ex_env (ex_estimator attr_csr) = Ok [].
Proof. split; vm_compute; [tauto | reflexivity]. Qed.
Print Assumptions C07_sparse_default_trusted.
