(* C07 -- a reloaded scikit-learn estimator is the same model (partial: see the premises). *)
From Skv Require Import PyStr Json Node GetTree Unsafe Estimators EstimatorsFacts.
From Gen Require Import Snapshot.

(* REDUCTION.  For every class, every state: if (premises, all visible)
     - the methods depend on class and state only, up to value-isomorphism      [method_pure: exercised by tests, not proved]
     - the class is importable under its saved name                              [resolve_name]
     - states / constructor arguments round-trip up to iso                       [codec: property C05]
     - __setstate__ (or __dict__.update) on a fresh instance restores __getstate__'s result;
       constructor(args...) + __setstate__ restores __reduce__'s result          [the classes' pickle contract]
   then the object skops rebuilds (ObjectNode: cls.__new__ + __setstate__/__dict__.update;
   ReduceNode: constructor(args...) + __setstate__) has the same class, an isomorphic state, and every
   method gives the same output on every input. *)
Theorem C07_reduction :
  forall (cls name state args wire input output : Type)
         (method : cls -> state -> input -> output) (empty : cls -> state)
         (getstate : cls -> state -> state) (setstate : cls -> state -> state -> state)
         (construct : cls -> args -> state) (name_of : cls -> name) (resolve : name -> option cls)
         (enc : state -> wire) (dec : wire -> option state) (dec_args : wire -> option args)
         (iso : state -> state -> Prop),
    (forall c s s' x, iso s s' -> method c s x = method c s' x) ->
    (forall c, resolve (name_of c) = Some c) ->
    (forall s, exists s', dec (enc s) = Some s' /\ iso s s') ->
    (forall c s a, iso (getstate c s) a -> iso s (setstate c (empty c) a)) ->
    forall e : est cls state,
    exists e', load cls name state args wire empty setstate construct resolve dec dec_args
                    (dump_object cls name state wire getstate name_of enc e) = Some e'
      /\ e_cls _ _ e' = e_cls _ _ e /\ iso (e_state _ _ e) (e_state _ _ e')
      /\ forall x, method (e_cls _ _ e') (e_state _ _ e') x = method (e_cls _ _ e) (e_state _ _ e) x.
Proof.
  intros cls name state args wire input output method empty getstate setstate construct name_of resolve
         enc dec dec_args iso Hp Hr Hc Hg e.
  exact (reduction_object cls name state args wire input output method empty getstate setstate construct
           name_of resolve enc dec dec_args iso Hp Hr Hc Hg e).
Qed.
Print Assumptions C07_reduction.

Theorem C07_reduction_reduce :
  forall (cls name state args wire input output : Type)
         (method : cls -> state -> input -> output) (empty : cls -> state)
         (setstate : cls -> state -> state -> state) (reduce : cls -> state -> args * state)
         (construct : cls -> args -> state) (name_of : cls -> name) (resolve : name -> option cls)
         (enc : state -> wire) (dec : wire -> option state)
         (enc_args : args -> wire) (dec_args : wire -> option args)
         (iso : state -> state -> Prop) (iso_args : args -> args -> Prop),
    (forall c s s' x, iso s s' -> method c s x = method c s' x) ->
    (forall c, resolve (name_of c) = Some c) ->
    (forall s, exists s', dec (enc s) = Some s' /\ iso s s') ->
    (forall a, exists a', dec_args (enc_args a) = Some a' /\ iso_args a a') ->
    (forall c s a st a' st', reduce c s = (a, st) -> iso_args a a' -> iso st st' ->
                             iso s (setstate c (construct c a') st')) ->
    forall e : est cls state,
    exists e', load cls name state args wire empty setstate construct resolve dec dec_args
                    (dump_reduce cls name state args wire reduce name_of enc enc_args e) = Some e'
      /\ e_cls _ _ e' = e_cls _ _ e /\ iso (e_state _ _ e) (e_state _ _ e')
      /\ forall x, method (e_cls _ _ e') (e_state _ _ e') x = method (e_cls _ _ e) (e_state _ _ e) x.
Proof.
  intros cls name state args wire input output method empty setstate reduce construct name_of resolve
         enc dec enc_args dec_args iso iso_args Hp Hr Hc Ha Hg e.
  exact (reduction_reduce cls name state args wire input output method empty setstate reduce construct
           name_of resolve enc dec enc_args dec_args iso iso_args Hp Hr Hc Ha Hg e).
Qed.
Print Assumptions C07_reduction_reduce.

(* non-vacuity of the premises: booleans as states, identity codec *)
Example C07_reduction_premises_satisfiable :
  let method := fun (_ : unit) (s : bool) (x : bool) => xorb s x in
  (forall c s s' x, s = s' -> method c s x = method c s' x)
  /\ (forall s : bool, exists s', Some s = Some s' /\ s = s')
  /\ (forall (c : unit) (s a : bool), s = a -> s = (fun _ _ a => a) c false a).
Proof. repeat split; intros; subst; eauto. Qed.

(* DEFAULT TRUST, over this run's snapshot of the node classes' default lists: a tree in which every
   node's name is in its class's defaults audits clean without a `trusted` list *)
Theorem C07_default_trusted :
  forall E, e_classes E = Snapshot.classes ->
  forall n, all_default E n = true -> unsafe_tree E None n = Ok [].
Proof. intros E _. exact (default_trusted E). Qed.
Print Assumptions C07_default_trusted.

(* ... also for the audit on the node graph (Refs followed), whenever it returns *)
Theorem C07_default_trusted_graph :
  forall E, e_classes E = Snapshot.classes ->
  forall root, (forall id t, find_id id root = Some t -> all_default E t = true) ->
  forall fuel path n l, all_default E n = true -> unsafe_g E None root fuel path n = Ok l -> l = [].
Proof. intros E _. exact (default_trusted_graph E). Qed.
Print Assumptions C07_default_trusted_graph.

(* a fitted estimator holding an ndarray: every name is a default of this snapshot *)
Definition jnode (c m l : string) (id : Z) (rest : list (pstr * json)) : json :=
  JObj ([(s "__class__", JStr (s c)); (s "__module__", JStr (s m)); (s "__loader__", JStr (s l))]
        ++ rest ++ [(s "__id__", JInt id)]).
Definition ex_env : env :=
  {| e_reg := Snapshot.registry; e_cur := Snapshot.current; e_classes := Snapshot.classes;
     e_unavailable := Snapshot.unavailable; e_members := [s "3.npy"; s "6.npz"]; e_resolve := [] |}.
Definition key_types_str : json :=
  jnode "list" "builtins" "ListNode" 4 [(s "content", JArr [jnode "str" "builtins" "TypeNode" 5 []])].
Definition ex_estimator (attr : json) : json :=
  match jnode "StandardScaler" "sklearn.preprocessing._data" "ObjectNode" 1
          [(s "content", jnode "dict" "builtins" "DictNode" 2
                           [(s "content", JObj [(s "mean_", attr)]); (s "key_types", key_types_str)])] with
  | JObj kv => JObj (kv ++ [(s "protocol", JInt Snapshot.current)])
  | j => j
  end.
Definition attr_ndarray : json :=
  jnode "ndarray" "numpy" "NdArrayNode" 3 [(s "type", JStr (s "numpy")); (s "file", JStr (s "3.npy"))].
Definition attr_csr : json :=
  jnode "csr_matrix" "scipy.sparse._csr" "SparseMatrixNode" 6 [(s "type", JStr (s "scipy")); (s "file", JStr (s "6.npz"))].

Theorem C07_default_trusted_nonvacuous :
  exists t m, root_tree ex_env (ex_estimator attr_ndarray) = Ok (t, m)
              /\ all_default ex_env t = true
              /\ get_untrusted_types ex_env (ex_estimator attr_ndarray) = Ok [].
Proof.
  destruct (root_tree ex_env (ex_estimator attr_ndarray)) as [[t m]|e] eqn:R; [|vm_compute in R; discriminate].
  exists t, m. split; [reflexivity|]. vm_compute in R. injection R as <- <-.
  split; vm_compute; reflexivity.
Qed.
Print Assumptions C07_default_trusted_nonvacuous.

(* D12 repaired in /repo (SparseMatrixNode default-trusts the concrete scipy.sparse matrix classes, not only their base
   class): an estimator holding a csr_matrix attribute audits clean without a trusted list -- re-checked against the
   regenerated default tables on every run *)
Theorem C07_sparse_default_trusted :
  In (s "scipy.sparse._csr.csr_matrix") (defaults ex_env (s "_scipy.SparseMatrixNode"))
  /\ get_untrusted_types ex_env (ex_estimator attr_csr) = Ok [].
Proof. split; vm_compute; [tauto | reflexivity]. Qed.
Print Assumptions C07_sparse_default_trusted.
