(* C20 -- calls are independent of history and of concurrent calls. *)
From Coq Require Import List Arith.
Import ListNotations.
From Skv Require Import PyStr Interleave.
From Gen Require Import Snapshot.
Local Open Scope nat_scope.

(* Steps that read the module tables and write only the state of their own call commute: under ANY
   schedule, thread j ends in the state its own steps produce when it runs alone. *)
Theorem C20_interleaving_irrelevant :
  forall (G L : Type) (step : G -> L -> L) g sched ls j d,
    j < length ls -> nth j (run G L step g sched ls) d = iter G L step g (ticks j sched) (nth j ls d).
Proof. exact interleaving_irrelevant. Qed.
Print Assumptions C20_interleaving_irrelevant.

Theorem C20_schedule_independent :
  forall (G L : Type) (step : G -> L -> L) g s1 s2 ls j d,
    j < length ls -> ticks j s1 = ticks j s2 ->
    nth j (run G L step g s1 ls) d = nth j (run G L step g s2 ls) d.
Proof. exact schedule_independent. Qed.
Print Assumptions C20_schedule_independent.

(* the hypothesis is what makes it true *)
Theorem C20_shared_state_refuted :
  snd (run_shared [0; 1] (0, [9; 9])) <> snd (run_shared [1; 0] (0, [9; 9])).
Proof. exact shared_state_refuted. Qed.
Print Assumptions C20_shared_state_refuted.

(* per-run obligation: the scan of skops/{io,card,cli,utils} for call-time writes to module-level state
   (global statements, stores into / mutating calls on module-level objects from inside functions,
   lru_cache/cache decorators, mutable default arguments) finds none -- so every API call is a step of
   the kind the theorems above speak about *)
Theorem C20_frame_table : Snapshot.call_time_global_writes = [].
Proof. reflexivity. Qed.
Print Assumptions C20_frame_table.
