(* C16 -- `skops update` upgrades old archives without ever endangering the original.
   Only statements, each closed by `exact`.  Model: coq/sys/Fs.v (file system, crash =
   any prefix of the operation list with the last Append cut short; process death, not
   power loss) and coq/sys/Update.v (update_ops = skops/cli/_update.py as it is now,
   legacy_update_ops = the code before the fix of D22/D23). *)
From Skv Require Import PyStr Json Fs FsFacts Update UpdateFacts.
From Skv Require CodecDump CodecLoad CodecShareFacts CodecFacts SinkFacts CliCodecFacts.

(* update attempts a mutation iff the archive is older, a destination is given and
   not (output and inplace together); in every other case the operation list contains
   no mutation at all and the outcome is the matching message / ValueError *)
Theorem C16_decision : forall w c,
  (writes (fst (update_ops w c)) = true <-> should_write w c = true)
  /\ (should_write w c = false ->
        forallb (fun op => negb (mutating op)) (fst (update_ops w c)) = true
        /\ snd (update_ops w c) =
             (if c_inplace c && is_some (c_output c) then ExcValue
              else match c_proto c with Same => UpToDate | Newer => TooNew | Older => NeedDest end)).
Proof. exact update_decision. Qed.
Print Assumptions C16_decision.

Theorem C16_decision_spec : forall w c,
  should_write w c = true <->
  c_proto c = Older /\ dest w c <> None /\ ~ (c_inplace c = true /\ c_output c <> None).
Proof. exact should_write_spec. Qed.
Print Assumptions C16_decision_spec.

(* ... and then nothing at all changes, at any moment *)
Theorem C16_nowrite_inert : forall e w c,
  should_write w c = false ->
  forall st pre, crash_of (fst (update_ops w c)) pre -> apply_ops e st pre = st.
Proof. exact update_nowrite_inert. Qed.
Print Assumptions C16_nowrite_inert.

(* not --inplace, destination another file: the input's bytes never change, at
   every crash point *)
Theorem C16_input_untouched : forall e w c st,
  fits e w c st = true -> c_inplace c = false ->
  (forall out, c_output c = Some out -> dst_of w out <> inp_path w) ->
  forall pre, crash_of (fst (update_ops w c)) pre ->
    fget (inp_path w) (files (apply_ops e st pre)) = fget (inp_path w) (files st).
Proof. exact update_input_untouched. Qed.
Print Assumptions C16_input_untouched.

(* at every crash point - between any two operations or inside the write - the
   destination holds its complete previous content (possibly: no file) or the
   complete new archive.  No hypothesis on c_same_fs: holds for TMPDIR on the same
   and on another file system, for bare, nested, absolute outputs and --inplace *)
Theorem C16_atomic_rename : forall e w c st out,
  fits e w c st = true -> dest w c = Some out ->
  forall pre, crash_of (fst (update_ops w c)) pre ->
    fget (dst_of w out) (files (apply_ops e st pre)) = fget (dst_of w out) (files st)
    \/ fget (dst_of w out) (files (apply_ops e st pre)) = Some (w_new w).
Proof. exact update_atomic. Qed.
Print Assumptions C16_atomic_rename.

(* normal completion: outcome "written", no operation failed, the destination is
   the complete new archive, and every other path - files and directories - is
   exactly as before: no temporary file or directory remains *)
Theorem C16_no_residue : forall e w c st out,
  fits e w c st = true -> should_write w c = true -> dest w c = Some out -> c_dstdir_ok c = true ->
  let r := update_ops w c in
  let fin := apply_ops e st (fst r) in
  snd r = Wrote out
  /\ errs_of e st (fst r) = map (fun _ => None) (fst r)
  /\ (forall p, fget p (files fin) = if path_eqb p (dst_of w out) then Some (w_new w) else fget p (files st))
  /\ (forall q, dmem q (dirs fin) = dmem q (dirs st)).
Proof. exact update_completes. Qed.
Print Assumptions C16_no_residue.

(* destination directory missing: FileNotFoundError from mkdtemp, nothing changes *)
Theorem C16_missing_dir : forall e w c st out,
  fits e w c st = true -> should_write w c = true -> dest w c = Some out -> c_dstdir_ok c = false ->
  let r := update_ops w c in
  snd r = ExcOs ENOENT /\ apply_ops e st (fst r) = st
  /\ errs_of e st (fst r) = [None; None; None; Some ENOENT].
Proof. exact update_missing_dir. Qed.
Print Assumptions C16_missing_dir.

(* the crash points of the theorems are exactly the executable enumeration the
   crash-injection search walks through *)
Theorem C16_crash_points : forall ops pre, In pre (crash_points ops) <-> crash_of ops pre.
Proof. exact crash_points_spec. Qed.
Print Assumptions C16_crash_points.

(* the hypotheses are satisfiable for every output kind, both file systems and --inplace *)
Theorem C16_nonvacuous :
  forallb (fun c => fits ex_env ex_world c ex_fs && should_write ex_world c)
    [ex_cfg (s "out.skops") true; ex_cfg (s "out.skops") false;
     ex_cfg (s "sub/out.skops") true; ex_cfg (s "sub/out.skops") false;
     ex_cfg (s "/S/abs/out.skops") false; ex_cfg (s "./sub/../new.skops") false;
     mkcfg Older None true false true] = true.
Proof. exact fits_examples. Qed.
Print Assumptions C16_nonvacuous.

(* the written archive is dumps of the object loaded from the input; `loads` and
   `dumps` are oracles for skops' loader and serialiser (C05/C08 carry their content) *)
Theorem C16_result_loads :
  forall (obj : Type) (loads : bytes -> res obj) (dumps : obj -> res bytes),
  forall e w c st out inb o,
    fits e w c st = true -> should_write w c = true -> dest w c = Some out -> c_dstdir_ok c = true ->
    fget (inp_path w) (files st) = Some inb -> loads inb = Ok o -> dumps o = Ok (w_new w) ->
    exists b, fget (dst_of w out) (files (apply_ops e st (fst (update_ops w c)))) = Some b
              /\ dumps o = Ok b.
Proof. exact update_result_loads. Qed.
Print Assumptions C16_result_loads.

(* What the fix (temporary directory next to the destination + os.replace) repaired,
   stated about the code before it.
   D23: bare output name, TMPDIR on another file system: os.rename fails with EXDEV,
   shutil.copyfile truncates then writes the destination; at some crash point the
   destination is a strict prefix of the new archive and no longer the old content. *)
Theorem C16_legacy_xfs_refuted :
  let c := ex_cfg (s "out.skops") false in
  let d := legacy_dst ex_world (parse_path (s "out.skops")) in
  exists pre, crash_of (fst (legacy_update_ops ex_world c)) pre
    /\ exists partial, fget d (files (apply_ops ex_env ex_fs pre)) = Some partial
       /\ strict_prefix_b partial (w_new ex_world) = true
       /\ fget d (files ex_fs) <> Some partial
       /\ In (Some EXDEV) (errs_of ex_env ex_fs (fst (legacy_update_ops ex_world c))).
Proof. exact legacy_xfs_refuted. Qed.
Print Assumptions C16_legacy_xfs_refuted.

(* D22: nested relative output: the old code raises FileNotFoundError and writes
   nothing; the current code writes it *)
Theorem C16_legacy_nested_refuted :
  let c := ex_cfg (s "sub/out.skops") true in
  snd (legacy_update_ops ex_world c) = ExcOs ENOENT
  /\ In (Some ENOENT) (errs_of ex_env ex_fs (fst (legacy_update_ops ex_world c)))
  /\ show_fs (apply_ops ex_env ex_fs (fst (legacy_update_ops ex_world c))) = show_fs ex_fs
  /\ snd (update_ops ex_world c) = Wrote (parse_path (s "sub/out.skops")).
Proof. exact legacy_nested_refuted. Qed.
Print Assumptions C16_legacy_nested_refuted.

(* "... rewritten at the requested destination as a current-protocol archive that loads to an equal object": composition
   with the codec round trip (C05).  w_new, opaque in the file-operation model, is instantiated with the dump model and the
   zip container (an oracle that reads back what it wrote); on the C05 fragment the file at the destination unzips to an
   archive that the load model maps back to the very value v the old archive held (v = load(input)). *)
Theorem C16_result_loads_equal_partial :
  forall (zipc : nat -> nat -> CodecDump.archive -> bytes) (unzip : bytes -> option CodecDump.archive),
    (forall method level a, unzip (zipc method level a) = Some a) ->
    forall e w c st out reg cur (F : CodecLoad.cfacts) (D : CodecDump.denv) base v method level,
    fits e w c st = true -> should_write w c = true -> dest w c = Some out -> c_dstdir_ok c = true ->
    CodecDump.dn_cur D = cur -> CodecShareFacts.reg_ok reg cur = true -> CodecShareFacts.facts_sane F = true ->
    CodecFacts.c05_guard F D base v = true ->
    SinkFacts.save_model zipc D base v method level = Ok (w_new w) ->
    let fin := apply_ops e st (fst (update_ops w c)) in
    exists a, fget (dst_of w out) (files fin) = Some (w_new w)
              /\ unzip (w_new w) = Some a
              /\ CodecLoad.loads_model (CodecLoad.cenv_of reg cur F a) (CodecDump.a_schema a) = Ok v.
Proof. exact CliCodecFacts.update_result_loads_equal_partial. Qed.
Print Assumptions C16_result_loads_equal_partial.
