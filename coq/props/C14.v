(* C14 -- card content builders put the right content under the right heading.
   Only statements.  Model: coq/card/{Ops,Render,Spec}.v; proofs: BuildersFacts.v.
   PrettyTable's layout (`pretty`) and get_params (the `params` argument) are oracles: only what is
   handed to / received from them is reasoned about. *)
From Skv Require Import PyStr Json CardStr Path Tree Ops Render Spec
                        TreeFacts OpsFacts RenderFacts BuildersFacts.
Open Scope N_scope.

(* what TableSection.format hands to PrettyTable: the given column names in order; per column one cell
   per entry, in order, each = the value's text with every line feed replaced by "<br />"; no LF is left *)
Theorem C14_cells : forall cols,
  table_header cols = map fst cols
  /\ map (@length pstr) (table_cells cols) = map (fun col => length (snd col)) cols
  /\ Forall (Forall (fun cell => ~ In LF cell)) (table_cells cols)
  /\ (forall i j col cell, nth_error cols i = Some col -> nth_error (snd col) j = Some cell ->
        exists col', nth_error (table_cells cols) i = Some col' /\ nth_error col' j = Some (replace_lf cell)).
Proof. exact table_inputs. Qed.
Print Assumptions C14_cells.

Theorem C14_cell_without_linebreak_is_verbatim : forall a, ~ In LF a -> replace_lf a = a.
Proof. exact replace_lf_id. Qed.
Print Assumptions C14_cell_without_linebreak_is_verbatim.

(* dict and DataFrame input are both abstracted to (column names, cell texts): the formatted text
   depends on nothing else (correspondence-only for the abstraction itself) *)
Theorem C14_dict_df_same : forall pretty t1 v1 s1 t2 v2 s2 desc fold cols,
  format pretty (Sec t1 desc v1 fold (KTable cols) s1) = format pretty (Sec t2 desc v2 fold (KTable cols) s2).
Proof. exact format_depends_on_columns. Qed.
Print Assumptions C14_dict_df_same.

(* after ANY sequence of operations: each metric once, first-seen order, latest value *)
Theorem C14_metrics : forall ops,
  let m := metrics (run_card ops empty_card) in
  keys m = first_seen (map fst (metric_updates ops))
  /\ NoDup (keys m)
  /\ (forall n, dget n m = latest n (metric_updates ops)).
Proof. exact metrics_spec. Qed.
Print Assumptions C14_metrics.

(* ... and the table an add_metrics call writes shows exactly those rows under the last path part *)
Theorem C14_metrics_table : forall ops sect desc kvs,
  let c := run_card (ops ++ [OAddMetrics sect desc kvs]) empty_card in
  exists x, lookup (split_names sect) (data c) = Some x
            /\ title x = last (split_names sect) []
            /\ skind x = KTable [(of_ascii "Metric", keys (metrics c)); (of_ascii "Value", map snd (metrics c))].
Proof. exact metrics_table_rows. Qed.
Print Assumptions C14_metrics_table.

(* rows = get_params(deep=True) in order (params: oracle), folded, under the last path part *)
Theorem C14_hyperparams : forall sect desc params c,
  let c' := fst (run_op (OAddHyperparams sect desc params) c) in
  exists x, lookup (split_names sect) (data c') = Some x
    /\ title x = last (split_names sect) []
    /\ content x = or_else desc []
    /\ folded x = true
    /\ skind x = KTable [(of_ascii "Hyperparameter", map fst params); (of_ascii "Value", map snd params)]
    /\ subs x = match lookup (split_names sect) (data c) with Some old => subs old | None => [] end.
Proof. exact placement_hyperparams. Qed.
Print Assumptions C14_hyperparams.

(* placement: at split(path), titled with the LAST path part, own kind, old subsections kept *)
Theorem C14_placement_plot : forall desc alt fold key path c, path <> [] ->
  let c' := fst (run_op (OAddPlot desc alt fold [(key, path)]) c) in
  exists x, lookup (split_names key) (data c') = Some x
    /\ title x = last (split_names key) []
    /\ content x = or_else desc []
    /\ folded x = fold
    /\ skind x = KPlot path (or_else alt (title x))
    /\ subs x = match lookup (split_names key) (data c) with Some old => subs old | None => [] end.
Proof. exact placement_plot. Qed.
Print Assumptions C14_placement_plot.

(* full statement for tables as well: D16 is repaired *)
Theorem C14_placement_table : forall desc fold key t c, t <> [] ->
  let c' := fst (run_op (OAddTable desc fold [(key, t)]) c) in
  exists x, lookup (split_names key) (data c') = Some x
    /\ title x = last (split_names key) []
    /\ content x = or_else desc []
    /\ folded x = fold
    /\ skind x = KTable t
    /\ subs x = match lookup (split_names key) (data c) with Some old => subs old | None => [] end.
Proof. exact placement_table. Qed.
Print Assumptions C14_placement_table.

Theorem C14_placement_metrics : forall sect desc kvs c,
  let c' := fst (run_op (OAddMetrics sect desc kvs) c) in
  exists x, lookup (split_names sect) (data c') = Some x
    /\ title x = last (split_names sect) []
    /\ content x = or_else desc []
    /\ folded x = false
    /\ skind x = KTable (metrics_table (dupdate (metrics c) kvs))
    /\ subs x = match lookup (split_names sect) (data c) with Some old => subs old | None => [] end.
Proof. exact placement_metrics. Qed.
Print Assumptions C14_placement_metrics.

Theorem C14_placement_text : forall fold key val c,
  let c' := fst (run_op (OAdd fold [(key, val)]) c) in
  exists x, lookup (split_names key) (data c') = Some x
    /\ title x = last (split_names key) [] /\ content x = val /\ folded x = fold /\ skind x = KText
    /\ subs x = match lookup (split_names key) (data c) with Some old => subs old | None => [] end.
Proof. exact placement_text. Qed.
Print Assumptions C14_placement_text.

(* in every card reached through builders / select / delete / flag assignments each heading is the name under which
   its section is stored (a direct `section.title = t` assignment, OSetTitle, changes the heading and not the key) *)
Theorem C14_headings_are_last_parts : forall ops, no_retitle ops = true -> titled (data (run_card ops empty_card)).
Proof. exact reachable_titled. Qed.
Print Assumptions C14_headings_are_last_parts.

(* EVERY plot of one call without alt text carries its own title (full statement: D17 repaired) *)
Theorem C14_alt_default : forall desc fold kvs,
  Forall (fun a => match a with
                   | AAdd p new => exists path, skind new = KPlot path (title new) /\ title new = last p []
                   | _ => False
                   end)
         (plot_actions desc None fold kvs).
Proof. exact alt_default. Qed.
Print Assumptions C14_alt_default.

(* several items in one call = one call per item (a rejected item stops the call there) *)
Theorem C14_batch_texts : forall fold a b d, add_texts fold (a ++ b) d = add_texts fold b (add_texts fold a d).
Proof. exact batch_texts. Qed.
Print Assumptions C14_batch_texts.

Theorem C14_batch_plots : forall desc alt fold a b d,
  add_plots desc alt fold (a ++ b) d =
  match add_plots desc alt fold a d with (d', Done) => add_plots desc alt fold b d' | r => r end.
Proof. exact batch_plots. Qed.
Print Assumptions C14_batch_plots.

Theorem C14_batch_tables : forall desc fold a b d,
  add_tables desc fold (a ++ b) d =
  match add_tables desc fold a d with (d', Done) => add_tables desc fold b d' | r => r end.
Proof. exact batch_tables. Qed.
Print Assumptions C14_batch_tables.

Theorem C14_batch_metrics : forall sect desc a b c,
  fst (run_op (OAddMetrics sect desc (a ++ b)) c) =
  fst (run_op (OAddMetrics sect desc b) (fst (run_op (OAddMetrics sect desc a) c))).
Proof. exact batch_metrics. Qed.
Print Assumptions C14_batch_metrics.

(* the former D16 / D17 witnesses, and a metric history *)
Theorem C14_nonvacuous :
  let c := run_card [ OAddTable None false [(of_ascii "X/Y", [(of_ascii "a", [of_ascii "1"])])];
                      OAddPlot None None false [(of_ascii "P1", of_ascii "p1.png"); (of_ascii "Q/P2", of_ascii "p2.png")] ]
                    empty_card in
  option_map title (lookup [of_ascii "X"; of_ascii "Y"] (data c)) = Some (of_ascii "Y")
  /\ option_map skind (lookup [of_ascii "P1"] (data c)) = Some (KPlot (of_ascii "p1.png") (of_ascii "P1"))
  /\ option_map skind (lookup [of_ascii "Q"; of_ascii "P2"] (data c)) = Some (KPlot (of_ascii "p2.png") (of_ascii "P2")).
Proof. exact nested_table_and_plots_example. Qed.
Print Assumptions C14_nonvacuous.

Theorem C14_metrics_example :
  let c := run_card [ OAddMetrics (of_ascii "M") None [(of_ascii "acc", of_ascii "0.5"); (of_ascii "f1", of_ascii "x")];
                      OAdd false [(of_ascii "Z", [])];
                      OAddMetrics (of_ascii "M") None [(of_ascii "auc", of_ascii "1"); (of_ascii "acc", of_ascii "0.75")] ]
                    empty_card in
  metrics c = [(of_ascii "acc", of_ascii "0.75"); (of_ascii "f1", of_ascii "x"); (of_ascii "auc", of_ascii "1")].
Proof. exact metrics_example. Qed.
Print Assumptions C14_metrics_example.
