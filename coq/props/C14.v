(* C14 -- card content builders put the right content under the right heading.
   Only statements.  Model: coq/card/{Ops,Render,Spec,ModelPlot}.v; proofs: BuildersFacts.v, ModelPlotFacts.v.
   PrettyTable's layout (`pretty`), get_params (the `params` argument) and sklearn's estimator_html_repr (the `html`
   argument of OAddModelPlot) are oracles: only what is handed to / received from them is reasoned about. *)
From Skv Require Import PyStr Json CardStr Path Tree ModelPlot Ops Render Spec
                        TreeFacts OpsFacts RenderFacts ModelPlotFacts BuildersFacts.
Open Scope N_scope.

(* what TableSection.format hands to PrettyTable: the given column names in order; per column one cell
   per entry, in order, each = the value's text with every line feed replaced by "<br />"; no LF is left *)
Theorem C14_cells : forall cols,
  table_header cols = map fst cols
  /\ map (@length pstr) (table_cells cols) = map (fun col => length (snd col)) cols
  /\ Forall (Forall (fun cell => ~ In LF cell)) (table_cells cols)
  /\ (forall i j col cell, nth_error cols i = Some col -> nth_error (snd col) j = Some cell ->
        exists col', nth_error (table_cells cols) i = Some col' /\ nth_error col' j = Some (replace_lf cell)).
Proof. exact table_inputs. Qed.
Print Assumptions C14_cells.

Theorem C14_cell_without_linebreak_is_verbatim : forall a, ~ In LF a -> replace_lf a = a.
Proof. exact replace_lf_id. Qed.
Print Assumptions C14_cell_without_linebreak_is_verbatim.

(* dict and DataFrame input are both abstracted to (column names, cell texts): the formatted text
   depends on nothing else (correspondence-only for the abstraction itself) *)
Theorem C14_dict_df_same : forall pretty t1 v1 s1 t2 v2 s2 desc fold cols,
  format pretty (Sec t1 desc v1 fold (KTable cols) s1) = format pretty (Sec t2 desc v2 fold (KTable cols) s2).
Proof. exact format_depends_on_columns. Qed.
Print Assumptions C14_dict_df_same.

(* after ANY sequence of operations: each metric once, first-seen order, latest value *)
Theorem C14_metrics : forall ops,
  let m := metrics (run_card ops empty_card) in
  keys m = first_seen (map fst (metric_updates ops))
  /\ NoDup (keys m)
  /\ (forall n, dget n m = latest n (metric_updates ops)).
Proof. exact metrics_spec. Qed.
Print Assumptions C14_metrics.

(* ... and the table an add_metrics call writes shows exactly those rows under the last path part *)
Theorem C14_metrics_table : forall ops sect desc kvs,
  let c := run_card (ops ++ [OAddMetrics sect desc kvs]) empty_card in
  exists x, lookup (split_names sect) (data c) = Some x
            /\ title x = last (split_names sect) []
            /\ skind x = KTable [(of_ascii "Metric", keys (metrics c)); (of_ascii "Value", map snd (metrics c))].
Proof. exact metrics_table_rows. Qed.
Print Assumptions C14_metrics_table.

(* rows = get_params(deep=True) in order (params: oracle), folded, under the last path part *)
Theorem C14_hyperparams : forall sect desc params c,
  let c' := fst (run_op (OAddHyperparams sect desc params) c) in
  exists x, lookup (split_names sect) (data c') = Some x
    /\ title x = last (split_names sect) []
    /\ content x = or_else desc []
    /\ folded x = true
    /\ skind x = KTable [(of_ascii "Hyperparameter", map fst params); (of_ascii "Value", map snd params)]
    /\ subs x = match lookup (split_names sect) (data c) with Some old => subs old | None => [] end.
Proof. exact placement_hyperparams. Qed.
Print Assumptions C14_hyperparams.

(* placement: at split(path), titled with the LAST path part, own kind, old subsections kept *)
Theorem C14_placement_plot : forall desc alt fold key path c, path <> [] ->
  let c' := fst (run_op (OAddPlot desc alt fold [(key, path)]) c) in
  exists x, lookup (split_names key) (data c') = Some x
    /\ title x = last (split_names key) []
    /\ content x = or_else desc []
    /\ folded x = fold
    /\ skind x = KPlot path (or_else alt (title x))
    /\ subs x = match lookup (split_names key) (data c) with Some old => subs old | None => [] end.
Proof. exact placement_plot. Qed.
Print Assumptions C14_placement_plot.

(* full statement for tables as well: D16 is repaired *)
Theorem C14_placement_table : forall desc fold key t c, t <> [] ->
  let c' := fst (run_op (OAddTable desc fold [(key, t)]) c) in
  exists x, lookup (split_names key) (data c') = Some x
    /\ title x = last (split_names key) []
    /\ content x = or_else desc []
    /\ folded x = fold
    /\ skind x = KTable t
    /\ subs x = match lookup (split_names key) (data c) with Some old => subs old | None => [] end.
Proof. exact placement_table. Qed.
Print Assumptions C14_placement_table.

Theorem C14_placement_metrics : forall sect desc kvs c,
  let c' := fst (run_op (OAddMetrics sect desc kvs) c) in
  exists x, lookup (split_names sect) (data c') = Some x
    /\ title x = last (split_names sect) []
    /\ content x = or_else desc []
    /\ folded x = false
    /\ skind x = KTable (metrics_table (dupdate (metrics c) kvs))
    /\ subs x = match lookup (split_names sect) (data c) with Some old => subs old | None => [] end.
Proof. exact placement_metrics. Qed.
Print Assumptions C14_placement_metrics.

Theorem C14_placement_text : forall fold key val c,
  let c' := fst (run_op (OAdd fold [(key, val)]) c) in
  exists x, lookup (split_names key) (data c') = Some x
    /\ title x = last (split_names key) [] /\ content x = val /\ folded x = fold /\ skind x = KText
    /\ subs x = match lookup (split_names key) (data c) with Some old => subs old | None => [] end.
Proof. exact placement_text. Qed.
Print Assumptions C14_placement_text.

(* ---- add_model_plot(section, description); html = str(estimator_html_repr(model)) is an oracle input ---- *)
(* placement: a plain text section, visible and not folded, at split(section), titled with the LAST path part,
   content = the description rule over the processed HTML, old subsections kept, metrics untouched *)
Theorem C14_placement_model_plot : forall sect desc html c,
  let c' := fst (run_op (OAddModelPlot sect desc html) c) in
  exists x, lookup (split_names sect) (data c') = Some x
    /\ title x = last (split_names sect) []
    /\ content x = model_plot_content desc html
    /\ visible x = true
    /\ folded x = false
    /\ skind x = KText
    /\ subs x = match lookup (split_names sect) (data c) with Some old => subs old | None => [] end
    /\ metrics c' = metrics c.
Proof. exact placement_model_plot. Qed.
Print Assumptions C14_placement_model_plot.

(* ... and after ANY history *)
Theorem C14_model_plot_after_history : forall ops sect desc html,
  let c0 := run_card ops empty_card in
  let c := run_card (ops ++ [OAddModelPlot sect desc html]) empty_card in
  exists x, lookup (split_names sect) (data c) = Some x
    /\ shallow_of x = (last (split_names sect) [], model_plot_content desc html, true, false, KText)
    /\ subs x = match lookup (split_names sect) (data c0) with Some old => subs old | None => [] end.
Proof. exact model_plot_after_history. Qed.
Print Assumptions C14_model_plot_after_history.

(* the content: None and "" give the processed HTML alone, any other description is put in front with a blank line;
   processed HTML = style fix applied to re.sub(r"\n\s+", "", html) *)
Theorem C14_model_plot_content : forall desc html,
  model_plot_content desc html =
  match desc with
  | None | Some [] => fix_container (strip_indent html)
  | Some d => d ++ [LF; LF] ++ fix_container (strip_indent html)
  end.
Proof. exact model_plot_content_spec. Qed.
Print Assumptions C14_model_plot_content.

(* re.sub(r"\n\s+", "", a), for EVERY string a: no line feed directly followed by a whitespace character is left *)
Theorem C14_strip_indent_no_pair : forall a,
  ~ exists pre c post, strip_indent a = pre ++ LF :: c :: post /\ is_space c = true.
Proof. exact strip_indent_no_pair. Qed.
Print Assumptions C14_strip_indent_no_pair.

(* ... the result is the input with some whitespace characters left out: a subsequence, all other characters kept in order *)
Theorem C14_strip_indent_subsequence : forall a,
  subseq a (strip_indent a)
  /\ drops_spaces a (strip_indent a)
  /\ filter (fun c => negb (is_space c)) (strip_indent a) = filter (fun c => negb (is_space c)) a.
Proof. exact (fun a => conj (strip_indent_subseq a) (conj (strip_indent_drops_spaces a) (strip_indent_keeps_nonspace a))). Qed.
Print Assumptions C14_strip_indent_subsequence.

(* ... and it is the identity exactly on the strings without such a pair *)
Theorem C14_strip_indent_identity : forall a,
  strip_indent a = a <-> ~ exists pre c post, a = pre ++ LF :: c :: post /\ is_space c = true.
Proof. exact strip_indent_fixed_iff. Qed.
Print Assumptions C14_strip_indent_identity.

(* ... and the one-pass model is the regex engine's procedure: at the leftmost LF that is followed by whitespace drop
   the LF and the maximal whitespace run (lstrip) behind it, continue there *)
Theorem C14_strip_indent_leftmost_greedy : forall a, strip_indent a = resub_ref (length a) a.
Proof. exact strip_indent_ref. Qed.
Print Assumptions C14_strip_indent_leftmost_greedy.

(* str.count / str.replace of a non-empty literal: no occurrence (count 0, unchanged), or the LEFTMOST occurrence is
   counted / replaced and both continue behind it (non-overlapping) *)
Theorem C14_count_replace : forall sub new a, sub <> [] ->
  (count_sub sub a = 0 /\ replace_sub sub new a = a /\ ~ (exists pre post, a = pre ++ sub ++ post))
  \/ exists pre post,
       a = pre ++ sub ++ post
       /\ (forall p q, a = p ++ sub ++ q -> (length pre <= length p)%nat)
       /\ count_sub sub a = 1 + count_sub sub post
       /\ replace_sub sub new a = pre ++ new ++ replace_sub sub new post.
Proof. exact count_replace_step. Qed.
Print Assumptions C14_count_replace.

(* the style attribute is added iff "sk-top-container" is counted exactly once: then that one occurrence becomes
   `sk-top-container" style="overflow: auto;`; with 0 or >= 2 occurrences the text is unchanged *)
Theorem C14_style_iff_counted_once : forall t,
  (count_sub sk_top t = 1 ->
     exists pre post, t = pre ++ sk_top ++ post
       /\ (forall p q, t = p ++ sk_top ++ q -> (length pre <= length p)%nat)
       /\ ~ occurs sk_top post
       /\ fix_container t = pre ++ sk_top_styled ++ post)
  /\ (count_sub sk_top t <> 1 -> fix_container t = t)
  /\ (fix_container t <> t <-> count_sub sk_top t = 1).
Proof. exact fix_container_spec. Qed.
Print Assumptions C14_style_iff_counted_once.

Theorem C14_literals :
  sk_top = of_ascii "sk-top-container" /\ sk_top_styled = of_ascii "sk-top-container"" style=""overflow: auto;".
Proof. exact (conj eq_refl eq_refl). Qed.
Print Assumptions C14_literals.

(* non-vacuity: indentation runs ("\n   ", "\n\t\u00a0", "\n\n"), a final "\n" that stays, one class-name occurrence *)
Theorem C14_model_plot_example :
  (exists pre c post, demo_html = pre ++ LF :: c :: post /\ is_space c = true)
  /\ count_sub sk_top (strip_indent demo_html) = 1
  /\ model_plot_div demo_html = of_ascii "<div class=""sk-top-container"" style=""overflow: auto;""><p>x </p></div>" ++ [10]
  /\ model_plot_content (Some (of_ascii "The model")) demo_html
     = of_ascii "The model" ++ [10; 10] ++ of_ascii "<div class=""sk-top-container"" style=""overflow: auto;""><p>x </p></div>" ++ [10]
  /\ model_plot_content (Some []) demo_html = model_plot_div demo_html.
Proof. exact demo_html_div. Qed.
Print Assumptions C14_model_plot_example.

Theorem C14_model_plot_two_occurrences :
  let t := of_ascii ".sk-top-container {}" ++ [10; 32] ++ of_ascii "<div class=""sk-top-container"">" in
  count_sub sk_top (strip_indent t) = 2
  /\ model_plot_div t = of_ascii ".sk-top-container {}<div class=""sk-top-container"">".
Proof. exact demo_two_occurrences. Qed.
Print Assumptions C14_model_plot_two_occurrences.

Theorem C14_model_plot_in_card :
  let c := run_card [ OAdd false [(of_ascii "Model description/Training Procedure/Model Plot/Note", of_ascii "n")];
                      OAddModelPlot (of_ascii "Model description/Training Procedure/Model Plot") (Some (of_ascii "The model")) demo_html ]
                    empty_card in
  exists x, lookup [of_ascii "Model description"; of_ascii "Training Procedure"; of_ascii "Model Plot"] (data c) = Some x
    /\ title x = of_ascii "Model Plot"
    /\ content x = of_ascii "The model" ++ [10; 10]
                   ++ of_ascii "<div class=""sk-top-container"" style=""overflow: auto;""><p>x </p></div>" ++ [10]
    /\ keys (subs x) = [of_ascii "Note"].
Proof. exact model_plot_example. Qed.
Print Assumptions C14_model_plot_in_card.

(* in every card reached through builders / select / delete / flag assignments each heading is the name under which
   its section is stored (a direct `section.title = t` assignment, OSetTitle, changes the heading and not the key) *)
Theorem C14_headings_are_last_parts : forall ops, no_retitle ops = true -> titled (data (run_card ops empty_card)).
Proof. exact reachable_titled. Qed.
Print Assumptions C14_headings_are_last_parts.

(* EVERY plot of one call without alt text carries its own title (full statement: D17 repaired) *)
Theorem C14_alt_default : forall desc fold kvs,
  Forall (fun a => match a with
                   | AAdd p new => exists path, skind new = KPlot path (title new) /\ title new = last p []
                   | _ => False
                   end)
         (plot_actions desc None fold kvs).
Proof. exact alt_default. Qed.
Print Assumptions C14_alt_default.

(* several items in one call = one call per item (a rejected item stops the call there) *)
Theorem C14_batch_texts : forall fold a b d, add_texts fold (a ++ b) d = add_texts fold b (add_texts fold a d).
Proof. exact batch_texts. Qed.
Print Assumptions C14_batch_texts.

Theorem C14_batch_plots : forall desc alt fold a b d,
  add_plots desc alt fold (a ++ b) d =
  match add_plots desc alt fold a d with (d', Done) => add_plots desc alt fold b d' | r => r end.
Proof. exact batch_plots. Qed.
Print Assumptions C14_batch_plots.

Theorem C14_batch_tables : forall desc fold a b d,
  add_tables desc fold (a ++ b) d =
  match add_tables desc fold a d with (d', Done) => add_tables desc fold b d' | r => r end.
Proof. exact batch_tables. Qed.
Print Assumptions C14_batch_tables.

Theorem C14_batch_metrics : forall sect desc a b c,
  fst (run_op (OAddMetrics sect desc (a ++ b)) c) =
  fst (run_op (OAddMetrics sect desc b) (fst (run_op (OAddMetrics sect desc a) c))).
Proof. exact batch_metrics. Qed.
Print Assumptions C14_batch_metrics.

(* the former D16 / D17 witnesses, and a metric history *)
Theorem C14_nonvacuous :
  let c := run_card [ OAddTable None false [(of_ascii "X/Y", [(of_ascii "a", [of_ascii "1"])])];
                      OAddPlot None None false [(of_ascii "P1", of_ascii "p1.png"); (of_ascii "Q/P2", of_ascii "p2.png")] ]
                    empty_card in
  option_map title (lookup [of_ascii "X"; of_ascii "Y"] (data c)) = Some (of_ascii "Y")
  /\ option_map skind (lookup [of_ascii "P1"] (data c)) = Some (KPlot (of_ascii "p1.png") (of_ascii "P1"))
  /\ option_map skind (lookup [of_ascii "Q"; of_ascii "P2"] (data c)) = Some (KPlot (of_ascii "p2.png") (of_ascii "P2")).
Proof. exact nested_table_and_plots_example. Qed.
Print Assumptions C14_nonvacuous.

Theorem C14_metrics_example :
  let c := run_card [ OAddMetrics (of_ascii "M") None [(of_ascii "acc", of_ascii "0.5"); (of_ascii "f1", of_ascii "x")];
                      OAdd false [(of_ascii "Z", [])];
                      OAddMetrics (of_ascii "M") None [(of_ascii "auc", of_ascii "1"); (of_ascii "acc", of_ascii "0.75")] ]
                    empty_card in
  metrics c = [(of_ascii "acc", of_ascii "0.75"); (of_ascii "f1", of_ascii "x"); (of_ascii "auc", of_ascii "1")].
Proof. exact metrics_example. Qed.
Print Assumptions C14_metrics_example.
