(* C14 -- card content builders put the right content under the right heading.
   Only statements.  Model: coq/card/{Ops,Render,Spec,ModelPlot}.v; proofs: BuildersFacts.v, ModelPlotFacts.v.
   PrettyTable's layout (`pretty`), get_params (the `params` argument) and sklearn's estimator_html_repr (the `html`
   argument of OAddModelPlot) are oracles: only what is handed to / received from them is reasoned about. *)
From Skv Require Import PyStr Json CardStr Path Tree ModelPlot Ops Render Spec Init
                        TreeFacts OpsFacts RenderFacts ModelPlotFacts BuildersFacts InitFacts.
From Gen Require CardSnapshot.      (* regenerated from the skops.card code on every run: harness/card_snapshot.py *)
Open Scope N_scope.

(* what TableSection.format hands to PrettyTable: the given column names in order; per column one cell
   per entry, in order, each = the value's text with every line feed replaced by "<br />"; no LF is left *)
Theorem C14_cells : forall cols,
  table_header cols = map fst cols
  /\ map (@length pstr) (table_cells cols) = map (fun col => length (snd col)) cols
  /\ Forall (Forall (fun cell => ~ In LF cell)) (table_cells cols)
  /\ (forall i j col cell, nth_error cols i = Some col -> nth_error (snd col) j = Some cell ->
        exists col', nth_error (table_cells cols) i = Some col' /\ nth_error col' j = Some (replace_lf cell)).
Proof. exact table_inputs. Qed.
Print Assumptions C14_cells.

Theorem C14_cell_without_linebreak_is_verbatim : forall a, ~ In LF a -> replace_lf a = a.
Proof. exact replace_lf_id. Qed.
Print Assumptions C14_cell_without_linebreak_is_verbatim.

(* dict and DataFrame input are both abstracted to (column names, cell texts): the formatted text
   depends on nothing else (correspondence-only for the abstraction itself) *)
Theorem C14_dict_df_same : forall pretty t1 v1 s1 t2 v2 s2 desc fold cols,
  format pretty (Sec t1 desc v1 fold (KTable cols) s1) = format pretty (Sec t2 desc v2 fold (KTable cols) s2).
Proof. exact format_depends_on_columns. Qed.
Print Assumptions C14_dict_df_same.

(* after ANY sequence of operations: each metric once, first-seen order, latest value *)
Theorem C14_metrics : forall ops,
  let m := metrics (run_card ops empty_card) in
  keys m = first_seen (map fst (metric_updates ops))
  /\ NoDup (keys m)
  /\ (forall n, dget n m = latest n (metric_updates ops)).
Proof. exact metrics_spec. Qed.
Print Assumptions C14_metrics.

(* ... and the table an add_metrics call writes shows exactly those rows under the last path part *)
Theorem C14_metrics_table : forall ops sect desc kvs,
  let c := run_card (ops ++ [OAddMetrics sect desc kvs]) empty_card in
  exists x, lookup (split_names sect) (data c) = Some x
            /\ title x = last (split_names sect) []
            /\ skind x = KTable [(of_ascii "Metric", keys (metrics c)); (of_ascii "Value", map snd (metrics c))].
Proof. exact metrics_table_rows. Qed.
Print Assumptions C14_metrics_table.

(* rows = get_params(deep=True) in order (params: oracle), folded, under the last path part *)
Theorem C14_hyperparams : forall sect desc params c,
  let c' := fst (run_op (OAddHyperparams sect desc params) c) in
  exists x, lookup (split_names sect) (data c') = Some x
    /\ title x = last (split_names sect) []
    /\ content x = or_else desc []
    /\ folded x = true
    /\ skind x = KTable [(of_ascii "Hyperparameter", map fst params); (of_ascii "Value", map snd params)]
    /\ subs x = match lookup (split_names sect) (data c) with Some old => subs old | None => [] end.
Proof. exact placement_hyperparams. Qed.
Print Assumptions C14_hyperparams.

(* placement: at split(path), titled with the LAST path part, own kind, old subsections kept *)
Theorem C14_placement_plot : forall desc alt fold key path c, path <> [] ->
  let c' := fst (run_op (OAddPlot desc alt fold [(key, path)]) c) in
  exists x, lookup (split_names key) (data c') = Some x
    /\ title x = last (split_names key) []
    /\ content x = or_else desc []
    /\ folded x = fold
    /\ skind x = KPlot path (or_else alt (title x))
    /\ subs x = match lookup (split_names key) (data c) with Some old => subs old | None => [] end.
Proof. exact placement_plot. Qed.
Print Assumptions C14_placement_plot.

(* full statement for tables as well: D16 is repaired *)
Theorem C14_placement_table : forall desc fold key t c, t <> [] ->
  let c' := fst (run_op (OAddTable desc fold [(key, t)]) c) in
  exists x, lookup (split_names key) (data c') = Some x
    /\ title x = last (split_names key) []
    /\ content x = or_else desc []
    /\ folded x = fold
    /\ skind x = KTable t
    /\ subs x = match lookup (split_names key) (data c) with Some old => subs old | None => [] end.
Proof. exact placement_table. Qed.
Print Assumptions C14_placement_table.

Theorem C14_placement_metrics : forall sect desc kvs c,
  let c' := fst (run_op (OAddMetrics sect desc kvs) c) in
  exists x, lookup (split_names sect) (data c') = Some x
    /\ title x = last (split_names sect) []
    /\ content x = or_else desc []
    /\ folded x = false
    /\ skind x = KTable (metrics_table (dupdate (metrics c) kvs))
    /\ subs x = match lookup (split_names sect) (data c) with Some old => subs old | None => [] end.
Proof. exact placement_metrics. Qed.
Print Assumptions C14_placement_metrics.

Theorem C14_placement_text : forall fold key val c,
  let c' := fst (run_op (OAdd fold [(key, val)]) c) in
  exists x, lookup (split_names key) (data c') = Some x
    /\ title x = last (split_names key) [] /\ content x = val /\ folded x = fold /\ skind x = KText
    /\ subs x = match lookup (split_names key) (data c) with Some old => subs old | None => [] end.
Proof. exact placement_text. Qed.
Print Assumptions C14_placement_text.

(* ---- add_model_plot(section, description); html = str(estimator_html_repr(model)) is an oracle input ---- *)
(* placement: a plain text section, visible and not folded, at split(section), titled with the LAST path part,
   content = the description rule over the processed HTML, old subsections kept, metrics untouched *)
Theorem C14_placement_model_plot : forall sect desc html c,
  let c' := fst (run_op (OAddModelPlot sect desc html) c) in
  exists x, lookup (split_names sect) (data c') = Some x
    /\ title x = last (split_names sect) []
    /\ content x = model_plot_content desc html
    /\ visible x = true
    /\ folded x = false
    /\ skind x = KText
    /\ subs x = match lookup (split_names sect) (data c) with Some old => subs old | None => [] end
    /\ metrics c' = metrics c.
Proof. exact placement_model_plot. Qed.
Print Assumptions C14_placement_model_plot.

(* ... and after ANY history *)
Theorem C14_model_plot_after_history : forall ops sect desc html,
  let c0 := run_card ops empty_card in
  let c := run_card (ops ++ [OAddModelPlot sect desc html]) empty_card in
  exists x, lookup (split_names sect) (data c) = Some x
    /\ shallow_of x = (last (split_names sect) [], model_plot_content desc html, true, false, KText)
    /\ subs x = match lookup (split_names sect) (data c0) with Some old => subs old | None => [] end.
Proof. exact model_plot_after_history. Qed.
Print Assumptions C14_model_plot_after_history.

(* the content: None and "" give the processed HTML alone, any other description is put in front with a blank line;
   processed HTML = style fix applied to re.sub(r"\n\s+", "", html) *)
Theorem C14_model_plot_content : forall desc html,
  model_plot_content desc html =
  match desc with
  | None | Some [] => fix_container (strip_indent html)
  | Some d => d ++ [LF; LF] ++ fix_container (strip_indent html)
  end.
Proof. exact model_plot_content_spec. Qed.
Print Assumptions C14_model_plot_content.

(* re.sub(r"\n\s+", "", a), for EVERY string a: no line feed directly followed by a whitespace character is left *)
Theorem C14_strip_indent_no_pair : forall a,
  ~ exists pre c post, strip_indent a = pre ++ LF :: c :: post /\ is_space c = true.
Proof. exact strip_indent_no_pair. Qed.
Print Assumptions C14_strip_indent_no_pair.

(* ... the result is the input with some whitespace characters left out: a subsequence, all other characters kept in order *)
Theorem C14_strip_indent_subsequence : forall a,
  subseq a (strip_indent a)
  /\ drops_spaces a (strip_indent a)
  /\ filter (fun c => negb (is_space c)) (strip_indent a) = filter (fun c => negb (is_space c)) a.
Proof. exact (fun a => conj (strip_indent_subseq a) (conj (strip_indent_drops_spaces a) (strip_indent_keeps_nonspace a))). Qed.
Print Assumptions C14_strip_indent_subsequence.

(* ... and it is the identity exactly on the strings without such a pair *)
Theorem C14_strip_indent_identity : forall a,
  strip_indent a = a <-> ~ exists pre c post, a = pre ++ LF :: c :: post /\ is_space c = true.
Proof. exact strip_indent_fixed_iff. Qed.
Print Assumptions C14_strip_indent_identity.

(* ... and the one-pass model is the regex engine's procedure: at the leftmost LF that is followed by whitespace drop
   the LF and the maximal whitespace run (lstrip) behind it, continue there *)
Theorem C14_strip_indent_leftmost_greedy : forall a, strip_indent a = resub_ref (length a) a.
Proof. exact strip_indent_ref. Qed.
Print Assumptions C14_strip_indent_leftmost_greedy.

(* str.count / str.replace of a non-empty literal: no occurrence (count 0, unchanged), or the LEFTMOST occurrence is
   counted / replaced and both continue behind it (non-overlapping) *)
Theorem C14_count_replace : forall sub new a, sub <> [] ->
  (count_sub sub a = 0 /\ replace_sub sub new a = a /\ ~ (exists pre post, a = pre ++ sub ++ post))
  \/ exists pre post,
       a = pre ++ sub ++ post
       /\ (forall p q, a = p ++ sub ++ q -> (length pre <= length p)%nat)
       /\ count_sub sub a = 1 + count_sub sub post
       /\ replace_sub sub new a = pre ++ new ++ replace_sub sub new post.
Proof. exact count_replace_step. Qed.
Print Assumptions C14_count_replace.

(* the style attribute is added iff "sk-top-container" is counted exactly once: then that one occurrence becomes
   `sk-top-container" style="overflow: auto;`; with 0 or >= 2 occurrences the text is unchanged *)
Theorem C14_style_iff_counted_once : forall t,
  (count_sub sk_top t = 1 ->
     exists pre post, t = pre ++ sk_top ++ post
       /\ (forall p q, t = p ++ sk_top ++ q -> (length pre <= length p)%nat)
       /\ ~ occurs sk_top post
       /\ fix_container t = pre ++ sk_top_styled ++ post)
  /\ (count_sub sk_top t <> 1 -> fix_container t = t)
  /\ (fix_container t <> t <-> count_sub sk_top t = 1).
Proof. exact fix_container_spec. Qed.
Print Assumptions C14_style_iff_counted_once.

Theorem C14_literals :
  sk_top = of_ascii "sk-top-container" /\ sk_top_styled = of_ascii "sk-top-container"" style=""overflow: auto;".
Proof. exact (conj eq_refl eq_refl). Qed.
Print Assumptions C14_literals.

(* non-vacuity: indentation runs ("\n   ", "\n\t\u00a0", "\n\n"), a final "\n" that stays, one class-name occurrence *)
Theorem C14_model_plot_example :
  (exists pre c post, demo_html = pre ++ LF :: c :: post /\ is_space c = true)
  /\ count_sub sk_top (strip_indent demo_html) = 1
  /\ model_plot_div demo_html = of_ascii "<div class=""sk-top-container"" style=""overflow: auto;""><p>x </p></div>" ++ [10]
  /\ model_plot_content (Some (of_ascii "The model")) demo_html
     = of_ascii "The model" ++ [10; 10] ++ of_ascii "<div class=""sk-top-container"" style=""overflow: auto;""><p>x </p></div>" ++ [10]
  /\ model_plot_content (Some []) demo_html = model_plot_div demo_html.
Proof. exact demo_html_div. Qed.
Print Assumptions C14_model_plot_example.

Theorem C14_model_plot_two_occurrences :
  let t := of_ascii ".sk-top-container {}" ++ [10; 32] ++ of_ascii "<div class=""sk-top-container"">" in
  count_sub sk_top (strip_indent t) = 2
  /\ model_plot_div t = of_ascii ".sk-top-container {}<div class=""sk-top-container"">".
Proof. exact demo_two_occurrences. Qed.
Print Assumptions C14_model_plot_two_occurrences.

Theorem C14_model_plot_in_card :
  let c := run_card [ OAdd false [(of_ascii "Model description/Training Procedure/Model Plot/Note", of_ascii "n")];
                      OAddModelPlot (of_ascii "Model description/Training Procedure/Model Plot") (Some (of_ascii "The model")) demo_html ]
                    empty_card in
  exists x, lookup [of_ascii "Model description"; of_ascii "Training Procedure"; of_ascii "Model Plot"] (data c) = Some x
    /\ title x = of_ascii "Model Plot"
    /\ content x = of_ascii "The model" ++ [10; 10]
                   ++ of_ascii "<div class=""sk-top-container"" style=""overflow: auto;""><p>x </p></div>" ++ [10]
    /\ keys (subs x) = [of_ascii "Note"].
Proof. exact model_plot_example. Qed.
Print Assumptions C14_model_plot_in_card.

(* in every card reached through builders / select / delete / flag assignments each heading is the name under which
   its section is stored (a direct `section.title = t` assignment, OSetTitle, changes the heading and not the key) *)
Theorem C14_headings_are_last_parts : forall ops, no_retitle ops = true -> titled (data (run_card ops empty_card)).
Proof. exact reachable_titled. Qed.
Print Assumptions C14_headings_are_last_parts.

(* EVERY plot of one call without alt text carries its own title (full statement: D17 repaired) *)
Theorem C14_alt_default : forall desc fold kvs,
  Forall (fun a => match a with
                   | AAdd p new => exists path, skind new = KPlot path (title new) /\ title new = last p []
                   | _ => False
                   end)
         (plot_actions desc None fold kvs).
Proof. exact alt_default. Qed.
Print Assumptions C14_alt_default.

(* several items in one call = one call per item (a rejected item stops the call there) *)
Theorem C14_batch_texts : forall fold a b d, add_texts fold (a ++ b) d = add_texts fold b (add_texts fold a d).
Proof. exact batch_texts. Qed.
Print Assumptions C14_batch_texts.

Theorem C14_batch_plots : forall desc alt fold a b d,
  add_plots desc alt fold (a ++ b) d =
  match add_plots desc alt fold a d with (d', Done) => add_plots desc alt fold b d' | r => r end.
Proof. exact batch_plots. Qed.
Print Assumptions C14_batch_plots.

Theorem C14_batch_tables : forall desc fold a b d,
  add_tables desc fold (a ++ b) d =
  match add_tables desc fold a d with (d', Done) => add_tables desc fold b d' | r => r end.
Proof. exact batch_tables. Qed.
Print Assumptions C14_batch_tables.

Theorem C14_batch_metrics : forall sect desc a b c,
  fst (run_op (OAddMetrics sect desc (a ++ b)) c) =
  fst (run_op (OAddMetrics sect desc b) (fst (run_op (OAddMetrics sect desc a) c))).
Proof. exact batch_metrics. Qed.
Print Assumptions C14_batch_metrics.

(* the former D16 / D17 witnesses, and a metric history *)
Theorem C14_nonvacuous :
  let c := run_card [ OAddTable None false [(of_ascii "X/Y", [(of_ascii "a", [of_ascii "1"])])];
                      OAddPlot None None false [(of_ascii "P1", of_ascii "p1.png"); (of_ascii "Q/P2", of_ascii "p2.png")] ]
                    empty_card in
  option_map title (lookup [of_ascii "X"; of_ascii "Y"] (data c)) = Some (of_ascii "Y")
  /\ option_map skind (lookup [of_ascii "P1"] (data c)) = Some (KPlot (of_ascii "p1.png") (of_ascii "P1"))
  /\ option_map skind (lookup [of_ascii "Q"; of_ascii "P2"] (data c)) = Some (KPlot (of_ascii "p2.png") (of_ascii "P2")).
Proof. exact nested_table_and_plots_example. Qed.
Print Assumptions C14_nonvacuous.

Theorem C14_metrics_example :
  let c := run_card [ OAddMetrics (of_ascii "M") None [(of_ascii "acc", of_ascii "0.5"); (of_ascii "f1", of_ascii "x")];
                      OAdd false [(of_ascii "Z", [])];
                      OAddMetrics (of_ascii "M") None [(of_ascii "auc", of_ascii "1"); (of_ascii "acc", of_ascii "0.75")] ]
                    empty_card in
  metrics c = [(of_ascii "acc", of_ascii "0.75"); (of_ascii "f1", of_ascii "x"); (of_ascii "auc", of_ascii "1")].
Proof. exact metrics_example. Qed.
Print Assumptions C14_metrics_example.

(* ======== Card(model, template=..., model_diagram=...): what the constructor puts where (coq/card/Init.v) ================
   cfg : config is the module-level data the constructor reads (SKOPS_TEMPLATE in dict order, VALID_TEMPLATES,
   Templates.skops.value, the default sections of add_hyperparams / add_model_plot, Card.add's parameter names).
   The general theorems hold for EVERY cfg; the statements about the default card are over this run's CardSnapshot.cfg. *)

(* the plan: which builder calls the constructor makes, or which exception it raises before making any *)
Theorem C14_init_plan : forall cfg t dg params html,
  init_plan cfg t dg params html =
  match t with
  | TStr name =>
      if negb (mem name (valid_templates cfg)) then Raise EValue
      else if pstr_eqb name (skops_name cfg)
      then Ok (OAdd false (skops_template cfg) :: OAddHyperparams (hyper_section cfg) None params :: diagram_ops cfg true dg html)
      else Ok (diagram_ops cfg false dg html)
  | TMap kvs => if key_clash cfg kvs then Raise EType else Ok (OAdd false kvs :: diagram_ops cfg false dg html)
  | TNone => Ok (diagram_ops cfg false dg html)
  end.
Proof. exact init_plan_table. Qed.
Print Assumptions C14_init_plan.

(* model_diagram: False nothing; True the default section (ALSO without the skops template: nothing raises, missing ancestors
   are created); "auto" the default section under the skops template and nothing otherwise; any other str is the section *)
Theorem C14_init_diagram : forall cfg skops dg html,
  diagram_ops cfg skops dg html =
  match dg with
  | DBool false => []
  | DBool true => [OAddModelPlot (plot_section cfg) None html]
  | DStr sect => if pstr_eqb sect auto
                 then (if skops then [OAddModelPlot (plot_section cfg) None html] else [])
                 else [OAddModelPlot sect None html]
  end.
Proof. exact diagram_table. Qed.
Print Assumptions C14_init_diagram.

(* (a) the constructed card is the run of the planned calls on the empty card; none of them can fail *)
Theorem C14_init_is_run : forall cfg t dg params html,
  init_card cfg t dg params html =
  (run_card (init_ops cfg t dg params html) empty_card,
   match init_plan cfg t dg params html with Ok _ => Done | Raise e => Failed e end).
Proof. exact init_card_run. Qed.
Print Assumptions C14_init_is_run.

(* (c) the error table: exactly an unknown template name (ValueError) and a dict key that is a parameter name of Card.add
   (TypeError: `self.add(folded=False, **template)`); an exception leaves no card *)
Theorem C14_init_errors : forall cfg t dg params html e,
  snd (init_card cfg t dg params html) = Failed e <->
  (exists name, t = TStr name /\ mem name (valid_templates cfg) = false /\ e = EValue)
  \/ (exists kvs, t = TMap kvs /\ key_clash cfg kvs = true /\ e = EType).
Proof. exact init_errors. Qed.
Print Assumptions C14_init_errors.

Theorem C14_init_key_clash : forall cfg kvs,
  key_clash cfg kvs = true <-> exists kv, In kv kvs /\ In (fst kv) (add_params cfg).
Proof. exact key_clash_iff. Qed.
Print Assumptions C14_init_key_clash.

Theorem C14_init_outcome : forall cfg t dg params html,
  snd (init_card cfg t dg params html) = Done
  \/ exists e, snd (init_card cfg t dg params html) = Failed e /\ fst (init_card cfg t dg params html) = empty_card.
Proof. exact init_outcome. Qed.
Print Assumptions C14_init_outcome.

(* the diagram of a new card: wherever the constructor asks for it, a plain section headed by the last path part *)
Theorem C14_init_diagram_placed : forall cfg t dg params html sect,
  snd (init_card cfg t dg params html) = Done ->
  diagram_ops cfg (is_skops cfg t) dg html = [OAddModelPlot sect None html] ->
  exists x, lookup (split_names sect) (data (fst (init_card cfg t dg params html))) = Some x
            /\ shallow_of x = (leaf_title sect, model_plot_content None html, true, false, KText).
Proof. exact init_diagram_placed. Qed.
Print Assumptions C14_init_diagram_placed.

(* every section a template lists (SKOPS_TEMPLATE for "skops", the dict's own items) exists in the new card, and after any
   further builder calls, at split(key), headed by the key's last part *)
Theorem C14_template_sections_present : forall cfg t dg params html ops kv,
  snd (init_card cfg t dg params html) = Done -> forallb is_builder ops = true ->
  In kv (template_items cfg t) ->
  exists x, lookup (split_names (fst kv)) (data (run_card ops (fst (init_card cfg t dg params html)))) = Some x
            /\ title x = leaf_title (fst kv).
Proof. exact template_sections_present. Qed.
Print Assumptions C14_template_sections_present.

(* the history theorems for constructed cards: headings are last path parts; the constructor adds no metric *)
Theorem C14_constructed_headings : forall cfg t dg params html ops,
  no_retitle ops = true -> titled (data (run_card ops (fst (init_card cfg t dg params html)))).
Proof. exact constructed_titled. Qed.
Print Assumptions C14_constructed_headings.

Theorem C14_constructed_metrics : forall cfg t dg params html ops,
  let m := metrics (run_card ops (fst (init_card cfg t dg params html))) in
  keys m = first_seen (map fst (metric_updates ops))
  /\ NoDup (keys m)
  /\ (forall n, dget n m = latest n (metric_updates ops)).
Proof. exact constructed_metrics. Qed.
Print Assumptions C14_constructed_metrics.

(* ---- (b) this run's code: Card(model) with all defaults ----------------------------------------------------------- *)
Local Notation cfg := CardSnapshot.cfg.

(* Card.__init__'s defaults are the skops template with model_diagram="auto"; "skops" is a valid name; the three builders'
   description= defaults are None *)
Theorem C14_card_defaults :
  CardSnapshot.default_template = TStr (skops_name cfg) /\ CardSnapshot.default_diagram = DStr auto
  /\ mem (skops_name cfg) (valid_templates cfg) = true
  /\ CardSnapshot.hyper_description_default = None /\ CardSnapshot.plot_description_default = None
  /\ CardSnapshot.metrics_description_default = None.
Proof. vm_compute. repeat split; reflexivity. Qed.
Print Assumptions C14_card_defaults.

(* the default sections of add_hyperparams / add_model_plot / add_metrics are sections the skops template lists: on a default
   card the builders called without `section=` replace a placeholder in place *)
Theorem C14_default_sections_listed :
  mem (hyper_section cfg) (map fst (skops_template cfg)) = true
  /\ mem (plot_section cfg) (map fst (skops_template cfg)) = true
  /\ mem CardSnapshot.metrics_section (map fst (skops_template cfg)) = true.
Proof. vm_compute. repeat split; reflexivity. Qed.
Print Assumptions C14_default_sections_listed.

(* description=None puts NO text in front of the table / diagram, with and without the skops template (read back from the
   builders' sections on scratch cards; the docstrings' "a standard text is used" does not happen): the model's
   or_else None [] is what this run's code does *)
Theorem C14_default_descriptions_empty :
  forallb (fun e => is_empty (fst (snd e)) && is_empty (snd (snd e))) CardSnapshot.default_description_texts = true
  /\ map fst CardSnapshot.default_description_texts = [of_ascii "hyper"; of_ascii "plot"; of_ascii "metrics"].
Proof. vm_compute. split; reflexivity. Qed.
Print Assumptions C14_default_descriptions_empty.

(* for EVERY configuration that passes the closed check default_paths_ok ("skops" is a valid name, neither default path lies on
   the other, the template lists no subsection-carrying section at them), every model_diagram and every oracle value:
   the hyperparameter table (folded, no description, rows = get_params) sits at add_hyperparams' default path, and the
   diagram, when the constructor puts it at add_model_plot's default path, is a plain unfolded section with the processed HTML *)
Theorem C14_skops_builder_sections : forall cfg dg params html,
  default_paths_ok cfg = true ->
  let c := fst (init_card cfg (TStr (skops_name cfg)) dg params html) in
  let table := Sec (leaf_title (hyper_section cfg)) [] true true (KTable (hyperparam_table params)) [] in
  (diagram_ops cfg true dg html = [OAddModelPlot (plot_section cfg) None html] ->
     lookup (split_names (hyper_section cfg)) (data c) = Some table
     /\ lookup (split_names (plot_section cfg)) (data c)
        = Some (Sec (leaf_title (plot_section cfg)) (model_plot_content None html) true false KText []))
  /\ (diagram_ops cfg true dg html = [] ->
      lookup (split_names (hyper_section cfg)) (data c) = Some table
      /\ lookup (split_names (plot_section cfg)) (data c)
         = lookup (split_names (plot_section cfg)) (add_texts false (skops_template cfg) [])).
Proof. exact skops_default_sections. Qed.
Print Assumptions C14_skops_builder_sections.

Theorem C14_default_paths_ok : default_paths_ok cfg = true.
Proof. vm_compute. reflexivity. Qed.
Print Assumptions C14_default_paths_ok.

(* the outline of Card(model), for EVERY get_params / estimator_html_repr value: the sections are exactly the listed ones, in
   the listed order (= document order), each headed by its last path part; the hyperparameter table (folded, no description)
   and the diagram (plain, not folded) sit at their default paths; no metrics *)
Theorem C14_default_card : forall params html,
  let r := init_card cfg CardSnapshot.default_template CardSnapshot.default_diagram params html in
  snd r = Done
  /\ outline (data (fst r)) = listed (skops_template cfg)
  /\ lookup (split_names (hyper_section cfg)) (data (fst r))
     = Some (Sec (leaf_title (hyper_section cfg)) [] true true (KTable (hyperparam_table params)) [])
  /\ lookup (split_names (plot_section cfg)) (data (fst r))
     = Some (Sec (leaf_title (plot_section cfg)) (model_plot_content None html) true false KText [])
  /\ metrics (fst r) = [].
Proof.
  intros params html. split; [vm_compute; reflexivity|]. split; [vm_compute; reflexivity|].
  split; [|split; [|apply init_metrics_empty]];
    apply (proj1 (skops_default_sections cfg CardSnapshot.default_diagram params html C14_default_paths_ok) eq_refl).
Qed.
Print Assumptions C14_default_card.

(* ... and every other listed section is the template's text: visible, not folded, the listed content *)
Theorem C14_default_card_texts : forall params html kv,
  In kv (skops_template cfg) -> fst kv <> hyper_section cfg -> fst kv <> plot_section cfg ->
  exists sd, lookup (split_names (fst kv))
                    (data (fst (init_card cfg CardSnapshot.default_template CardSnapshot.default_diagram params html)))
             = Some (Sec (leaf_title (fst kv)) (snd kv) true false KText sd).
Proof.
  intros params html kv Hin H1 H2. apply text_kept_spec.
  apply (text_kept_all _ (skops_template cfg) [hyper_section cfg; plot_section cfg]); [vm_compute; reflexivity | exact Hin |].
  intros [E|[E|[]]]; congruence.
Qed.
Print Assumptions C14_default_card_texts.

(* model_diagram=False on the skops template: same outline, the diagram's section keeps the template's text *)
Theorem C14_default_card_without_diagram : forall params html,
  let r := init_card cfg CardSnapshot.default_template (DBool false) params html in
  snd r = Done
  /\ outline (data (fst r)) = listed (skops_template cfg)
  /\ option_map content (lookup (split_names (plot_section cfg)) (data (fst r)))
     = dget (plot_section cfg) (skops_template cfg)
  /\ dget (plot_section cfg) (skops_template cfg) <> None.
Proof. intros params html. vm_compute. repeat split; try reflexivity; discriminate. Qed.
Print Assumptions C14_default_card_without_diagram.

(* non-vacuity over this run's data: a custom template with nested / escaped / blank-padded keys and the diagram in a named
   section; True without a template creates the default path; the two exceptions *)
Theorem C14_init_examples :
  (let r := init_card cfg (TMap [(of_ascii "A/B", of_ascii "b"); (of_ascii "x\/y", of_ascii "z"); (of_ascii " A ", of_ascii "a")])
                      (DStr (of_ascii "A/Plot")) [] (of_ascii "<p>") in
   snd r = Done
   /\ outline (data (fst r)) = [([of_ascii "A"], of_ascii "A"); ([of_ascii "A"; of_ascii "B"], of_ascii "B");
                                ([of_ascii "A"; of_ascii "Plot"], of_ascii "Plot"); ([of_ascii "x/y"], of_ascii "x/y")]
   /\ option_map content (lookup [of_ascii "A"] (data (fst r))) = Some (of_ascii "a"))
  /\ (let r := init_card cfg TNone (DBool true) [] (of_ascii "<p>") in
      snd r = Done /\ map fst (outline (data (fst r))) = [firstn 1 (split_names (plot_section cfg)); firstn 2 (split_names (plot_section cfg));
                                                          split_names (plot_section cfg)])
  /\ init_card cfg TNone (DStr auto) [] (of_ascii "<p>") = (empty_card, Done)
  /\ init_card cfg (TStr (of_ascii "nosuch")) (DBool true) [] [] = (empty_card, Failed EValue)
  /\ init_card cfg (TMap [(of_ascii "A", of_ascii "a"); (of_ascii "folded", of_ascii "x")]) (DBool false) [] [] = (empty_card, Failed EType)
  /\ init_card cfg (TMap [(of_ascii "self", of_ascii "x")]) (DBool false) [] [] = (empty_card, Failed EType).
Proof. vm_compute. repeat split; reflexivity. Qed.
Print Assumptions C14_init_examples.
