(* C08 -- archives of every supported protocol keep loading with the right loader.
   Only statements, each closed by `exact`; Snapshot.v is regenerated from /repo on every run. *)
From Skv Require Import PyStr Json Registry RegistryFacts Node GetTree Fuel.
From Gen Require Import Snapshot.
Open Scope Z_scope.

(* "exact match, else current" coincides with "smallest registered protocol not below
   the archive's" for every registry whose old registrations are downward closed *)
Theorem C08_dispatch_generic :
  forall reg cur, gap_free reg cur = true ->
  forall l p, 0 <= p <= cur -> lookup reg cur l (pkey p) = lookup_spec reg cur l p.
Proof. exact dispatch_generic. Qed.
Print Assumptions C08_dispatch_generic.

(* ... and the condition is what makes it true *)
Theorem C08_gap_refuted :
  gap_free gap_reg 2 = false /\ lookup gap_reg 2 [65%N] (pkey 0) <> lookup_spec gap_reg 2 [65%N] 0.
Proof. exact gap_refuted. Qed.
Print Assumptions C08_gap_refuted.

(* per-run obligation on the registry extracted from /repo *)
Theorem C08_registry_gap_free :
  gap_free Snapshot.registry Snapshot.current = true /\ none_above Snapshot.registry Snapshot.current = true.
Proof. split; vm_compute; reflexivity. Qed.
Print Assumptions C08_registry_gap_free.

Theorem C08_dispatch_now :
  forall l p, 0 <= p <= Snapshot.current ->
    lookup Snapshot.registry Snapshot.current l (pkey p) = lookup_spec Snapshot.registry Snapshot.current l p.
Proof. exact (dispatch_generic _ _ (proj1 C08_registry_gap_free)). Qed.
Print Assumptions C08_dispatch_now.

Theorem C08_unchanged_kinds :
  forall reg cur l, (forall q, q <> cur -> registered reg l q = false) ->
  forall p, lookup reg cur l (pkey p) = find reg l (pkey cur).
Proof. exact unchanged_kinds. Qed.
Print Assumptions C08_unchanged_kinds.

Theorem C08_unregistered :
  forall reg cur l, (forall pk, find reg l pk = None) -> forall pk, lookup reg cur l pk = None.
Proof. exact unregistered. Qed.
Print Assumptions C08_unregistered.

(* ... and get_tree then raises the TypeError naming that loader, at any nesting position, whatever the protocol *)
Theorem C08_unregistered_raises_naming_it :
  forall E proto fuel extra sl m j l sid hk pk cm cc,
    jget j (K "__id__") = Ok sid -> jhash sid = Ok hk -> memo_mem hk m = false ->
    jindex j (K "__loader__") = Ok (JStr l) -> jhash proto = Ok pk ->
    (forall pk', find (e_reg E) l pk' = None) ->
    jindex j (K "__module__") = Ok cm -> jindex j (K "__class__") = Ok cc ->
    get_tree (S fuel) E proto extra sl m j = Raise (ENoLoader l).
Proof. exact get_tree_unregistered. Qed.
Print Assumptions C08_unregistered_raises_naming_it.

(* everything the current dump can emit has a loader at the current protocol *)
Theorem C08_emits_registered :
  forall l, In l Snapshot.emits -> exists c, find Snapshot.registry l (pkey Snapshot.current) = Some c.
Proof. exact (emits_registered _ _ _ (eq_refl : all_registered Snapshot.registry Snapshot.current Snapshot.emits = true)). Qed.
Print Assumptions C08_emits_registered.
