(* C13 -- visualize is total on dumped archives, agrees with the audit, and what it emits is a well-formed tree. *)
From Skv Require Import PyStr Json Node GetTree Unsafe UnsafeFacts NodeInd Families TreeWf TreeIds GraphAudit Walk WalkFacts.
From Skv Require Import CodecGuards CodecWitness CodecShareFacts CodecFacts CodecRootFacts VisTotalFacts.
From Gen Require Import Snapshot.

(* whenever visualize completes, what reaches the printer is: the root row first, then rows each at
   most one level deeper than the previous one (every show mode) *)
Theorem C13_wellformed_tree :
  forall E skipped schema T sh out,
    visualize E skipped schema T sh = Ok out ->
    exists r rest, out = r :: rest /\ chain (r_level r) rest.
Proof.
  intros E skipped schema T sh out H. unfold visualize in H.
  destruct (visualize_stream E skipped schema T) as [st|e]; [|discriminate].
  cbn [bind] in H. destruct (traverse_all_wellformed sh st out H) as [r [rest [rs [A [_ B]]]]].
  exists r, rest. split; assumption.
Qed.
Print Assumptions C13_wellformed_tree.

(* rows shown under a filter are exactly rows the filter admits (the root is always shown) *)
Theorem C13_filter_respected :
  forall sh prev rows tail out, traverse sh prev rows tail = Ok out -> Forall (fun r => visible sh r = true) out.
Proof. intros sh prev rows. revert prev. apply traverse_visible. Qed.
Print Assumptions C13_filter_respected.

(* every row carries the audit's own verdicts for its node: its self-safety flag is is_self_safe(),
   and it is marked fully safe exactly when the audit of the graph below it reports nothing *)
Theorem C13_row_is_audit :
  forall E T skipped root fuel path name level last h subs r rs,
    fst (walk E T skipped root fuel path name level last (Node h subs)) = r :: rs ->
    r_level r = level /\ r_key r = name /\ r_last r = last /\
    self_safe E T h = Ok (r_self_safe r) /\
    (h_kind h <> KJson -> (r_safe r = true <-> unsafe E T root (Node h subs) = Ok [])) /\
    (h_kind h = KJson -> r_safe r = true) /\
    node_format h = Ok (r_val r).
Proof. intros. eapply walk_first_node; eauto. Qed.
Print Assumptions C13_row_is_audit.

(* the root row is fully safe exactly when get_untrusted_types is empty for that trust setting *)
Theorem C13_root_iff :
  forall E skipped schema T st r rs,
    visualize_stream E skipped schema T = Ok st -> fst st = r :: rs ->
    exists t m, root_tree E schema = Ok (t, m) /\ r_level r = O /\
      (r_safe r = true <-> untrusted_of E T t = Ok []).
Proof. exact root_safe_iff. Qed.
Print Assumptions C13_root_iff.

(* a row whose own type is untrusted is tagged, a row whose type is trusted is not *)
Theorem C13_marks :
  forall tag r, tag <> [] ->
    (r_self_safe r = false -> label [] tag r = r_val r ++ 32%N :: tag)
    /\ (r_self_safe r = true -> label [] tag r = r_val r).
Proof. exact label_marks. Qed.
Print Assumptions C13_marks.

(* non-self-safe implies not fully safe (so an unsafe name never sits in a row marked safe): for EVERY node kind but the
   protocol-0 FunctionNode (finding D31-FunctionNode@0, open: its row shows the header's module.class while its audit looks
   at content.module_path / content.function).  SliceNode is covered since the D31-SliceNode repair: its get_unsafe_set
   now reports the type the header names unless is_self_safe() *)
Theorem C13_self_unsafe_not_safe :
  forall E T root h subs, h_kind h <> KFunctionV0 ->
    self_safe E T h = Ok false ->
    forall u, unsafe E T root (Node h subs) = Ok u -> u <> [].
Proof. intros E T root h subs NV SS u. apply self_unsafe_not_safe_but_v0; assumption. Qed.
Print Assumptions C13_self_unsafe_not_safe.

(* the former witness of D31-SliceNode, {"__loader__": "SliceNode", "__module__": "x", "__class__": "y", bounds None}:
   with no trusted list the name x.y is REPORTED by get_untrusted_types, load refuses the archive, and the single row
   visualize shows is tagged (not self-safe) and NOT fully safe; nested in a list the root row is not fully safe either;
   when the caller trusts x.y everything is clean.  (Before the repair: nothing reported, load accepted, row tagged
   [UNSAFE] but flagged safe.) *)
Definition slice_env : env :=
  {| e_reg := Snapshot.registry; e_cur := Snapshot.current; e_classes := Snapshot.classes; e_unavailable := Snapshot.unavailable;
     e_members := []; e_resolve := [] |}.
Definition w_slice_state (id : Z) : list (pstr * json) :=
  [(s "__class__", JStr (s "y")); (s "__module__", JStr (s "x")); (s "__loader__", JStr (s "SliceNode")); (s "__id__", JInt id);
   (s "content", JObj [(s "start", JNull); (s "stop", JNull); (s "step", JNull)])].
Definition w_slice : json := JObj (w_slice_state 1 ++ [(s "protocol", JInt Snapshot.current)]).
Definition w_slice_in_list : json :=
  JObj [(s "__class__", JStr (s "list")); (s "__module__", JStr (s "builtins")); (s "__loader__", JStr (s "ListNode")); (s "__id__", JInt 1%Z);
        (s "content", JArr [JObj (w_slice_state 2)]); (s "protocol", JInt Snapshot.current)].
Definition flags (r : res (list row)) : res (list (nat * pstr * bool * bool)) :=
  do l <- r; Ok (map (fun x => (r_level x, r_val x, r_self_safe x, r_safe x)) l).

Theorem C13_slice_name_reported :
  get_untrusted_types slice_env w_slice = Ok [s "x.y"]
  /\ load_audit slice_env w_slice (TList None) = Raise (EUntrusted [s "x.y"])
  /\ flags (visualize slice_env Snapshot.skipped w_slice None ShowAll) = Ok [(0%nat, s "x.y", false, false)]
  /\ get_untrusted_types slice_env w_slice_in_list = Ok [s "x.y"]
  /\ flags (visualize slice_env Snapshot.skipped w_slice_in_list None ShowAll)
     = Ok [(0%nat, s "builtins.list", true, false); (1%nat, s "x.y", false, false)]
  /\ flags (visualize slice_env Snapshot.skipped w_slice_in_list None ShowUntrusted)
     = Ok [(0%nat, s "builtins.list", true, false); (1%nat, s "x.y", false, false)]
  /\ flags (visualize slice_env Snapshot.skipped w_slice (Some [s "x.y"]) ShowAll) = Ok [(0%nat, s "x.y", true, true)]
  /\ (exists t, load_audit slice_env w_slice (TList (Some [s "x.y"])) = Ok t).
Proof. repeat split; try (vm_compute; reflexivity). eexists. vm_compute. reflexivity. Qed.
Print Assumptions C13_slice_name_reported.

(* no row is marked fully safe while an untrusted name occurs at or beneath it: a node whose audit is empty
   (that is what r_safe = true means, C13_row_is_audit) has no untrusting node anywhere in its subtree *)
Theorem C13_no_false_safe :
  forall E schema T t m n, root_tree E schema = Ok (t, m) -> sub n t -> unsafe E T t n = Ok [] ->
  forall x nm, sub x n -> contributes E T x nm -> False.
Proof. exact clean_audit_means_clean_subtree. Qed.
Print Assumptions C13_no_false_safe.

(* ================= first clause: visualize completes on what the dumper writes ================= *)

(* per-run obligations: get_tree selects, at the current protocol, the node class the model assumes for every loader of
   the fragment; SliceNode is one of _visualize.SKIPPED_TYPES (its children are raw JSON values walk_tree cannot visit) *)
Theorem C13_loaders_registered : reg_ok Snapshot.registry Snapshot.current = true.
Proof. vm_compute. reflexivity. Qed.
Print Assumptions C13_loaders_registered.

Theorem C13_slices_skipped : mem (s "_general.SliceNode") Snapshot.skipped = true.
Proof. vm_compute. reflexivity. Qed.
Print Assumptions C13_slices_skipped.

(* the load environment of a dumped archive in this run: registry, protocol, node classes with their default-trusted names *)
Definition dump_env (a : archive) : env :=
  {| e_reg := Snapshot.registry; e_cur := Snapshot.current; e_classes := Snapshot.classes; e_unavailable := Snapshot.unavailable;
     e_members := map fst (a_members a); e_resolve := [] |}.

(* The full statement (kept visible; FALSE for show = trusted, see C13_total_on_dumps_trusted_refuted, finding D24):
   every archive dumps writes is visualized to the end, whatever `trusted` and `show` are. *)
Definition C13_total_on_dumps_full_statement : Prop :=
  forall (D : denv) (base : Z) (v : pval) (a : archive) (T : trust) (sh : show_mode),
    dn_cur D = Snapshot.current -> dumps_model D base v = Ok a ->
    exists rows, visualize (dump_env a) Snapshot.skipped (a_schema a) T sh = Ok rows.

(* Proved: for every value of the C05 fragment (c05_guard: JSON scalars; arbitrarily nested list / tuple / set; dict /
   OrderedDict / defaultdict; slices; function and type names; attrgetter / itemgetter; numpy arrays and scalars; sparse
   matrices; dtypes; masked arrays; RandomState / Generator; functools.partial; bytes / bytearray; rank-1 object arrays;
   arbitrary sharing of sub-objects; nesting depth below get_tree's fuel), every load environment E with this run's registry and protocol and the archive's member
   list (whatever the node classes' default-trusted names are), every skipped-kind list containing SliceNode, and EVERY
   trusted list T:
   - the row generator handed to a custom sink runs to the end (no exception: no missing reference, no RecursionError, no
     KeyError on a childless DictNode, no error from format() / is_self_safe() / is_safe(), model fuel not exhausted);
   - the default sink completes for show = "all" and prints exactly those rows;
   - the default sink completes for show = "untrusted" and prints the root and exactly the rows that are not fully safe
     (a row that is not fully safe has only not-fully-safe ancestors: the audit of a node includes the audits of its parts);
   - the default sink completes for show = "trusted" when every row below the root is self-safe (e.g. all names trusted).
   Method: coq/io/VisTotalFacts.v (ranks on the tree built from a dumped state, bounded depth through references, walk
   yields a safe-closed pre-order forest, _traverse_tree accepts it). *)
Theorem C13_total_on_dumps_partial :
  forall (F : cfacts) (D : denv) (base : Z) (v : pval) (E : env) (a : archive) (skipped : list pstr) (T : trust),
    e_cur E = dn_cur D -> reg_ok (e_reg E) (e_cur E) = true -> facts_sane F = true ->
    c05_guard F D base v = true -> dumps_model D base v = Ok a -> e_members E = map fst (a_members a) ->
    mem (s "_general.SliceNode") skipped = true ->
    exists r rs,
      visualize_rows E skipped (a_schema a) T = Ok (r :: rs)
      /\ visualize E skipped (a_schema a) T ShowAll = Ok (r :: rs)
      /\ visualize E skipped (a_schema a) T ShowUntrusted = Ok (r :: filter (fun x => negb (r_safe x)) rs)
      /\ r_level r = O
      /\ (Forall (fun x => r_self_safe x = true) rs -> visualize E skipped (a_schema a) T ShowTrusted = Ok (r :: rs)).
Proof. exact (fun F D base v E a skipped T H1 H2 H3 H4 H5 H6 H7 => visualize_total_dumped F D base v E a H1 H2 H3 H4 H5 H6 skipped H7 T). Qed.
Print Assumptions C13_total_on_dumps_partial.

(* ... in particular in this run's environment (Snapshot registry / protocol / node classes / SKIPPED_TYPES) *)
Theorem C13_total_on_dumps_here_partial :
  forall (F : cfacts) (D : denv) (base : Z) (v : pval) (a : archive) (T : trust),
    dn_cur D = Snapshot.current -> facts_sane F = true -> c05_guard F D base v = true -> dumps_model D base v = Ok a ->
    exists r rs,
      visualize_rows (dump_env a) Snapshot.skipped (a_schema a) T = Ok (r :: rs)
      /\ visualize (dump_env a) Snapshot.skipped (a_schema a) T ShowAll = Ok (r :: rs)
      /\ visualize (dump_env a) Snapshot.skipped (a_schema a) T ShowUntrusted = Ok (r :: filter (fun x => negb (r_safe x)) rs)
      /\ r_level r = O
      /\ (Forall (fun x => r_self_safe x = true) rs -> visualize (dump_env a) Snapshot.skipped (a_schema a) T ShowTrusted = Ok (r :: rs)).
Proof.
  exact (fun F D base v a T H1 H2 H3 H4 =>
           visualize_total_dumped F D base v (dump_env a) a (eq_sym H1) C13_loaders_registered H2 H3 H4 eq_refl Snapshot.skipped C13_slices_skipped T).
Qed.
Print Assumptions C13_total_on_dumps_here_partial.

(* witnesses: functools.partial(np.add, 1); a tuple holding a shared list twice, a dict (one value is that list again, one a
   slice), and the partial *)
Definition wpartial (id : Z) : pval :=
  PPartial id (s "functools") (s "partial") (PFunc (id + 1) (s "numpy") (s "add")) (ptuple (id + 2) [pint 1]) (pdict (id + 3) [])
           (PScalar (id + 4) SNone).
Definition wvis : pval :=
  let sh := plist 20 [pint 1; pstr_ 22 "x"] in
  ptuple 25 [sh; pdict 23 [(kstr "a", sh); (kint 3, PSlice 27 (BScalar (SInt 1)) (BScalar SNone) (BScalar (SInt 2)))]; wpartial 30; sh].
Definition vis_of (v : pval) (T : trust) (sh : show_mode) : res (list row) :=
  do a <- dumps_model (wd Snapshot.current) wbase v;
  visualize (dump_env a) Snapshot.skipped (a_schema a) T sh.
Definition rows_of (v : pval) (T : trust) : res (list row) :=
  do a <- dumps_model (wd Snapshot.current) wbase v;
  visualize_rows (dump_env a) Snapshot.skipped (a_schema a) T.
Definition brief (r : res (list row)) : res (list (nat * bool * bool)) :=
  do l <- r; Ok (map (fun x => (r_level x, r_self_safe x, r_safe x)) l).

(* non-vacuity: the hypotheses hold of a nested value with a shared sub-object, and the conclusion computes: 18 rows
   (the same rows the implementation yields for ([1,'x'], {'a': sh, 3: slice(1,None,2)}, partial(np.add,1), sh)); with
   show = "untrusted" the root and the partial remain *)
Example C13_total_nonvacuous :
  c05_guard wf (wd Snapshot.current) wbase wvis = true /\ facts_sane wf = true
  /\ vis_of wvis None ShowAll = rows_of wvis None
  /\ brief (rows_of wvis None)
     = Ok [(0, true, false); (1, true, true); (2, true, true); (2, true, true); (1, true, true); (2, true, true); (3, true, true);
           (3, true, true); (2, true, true); (1, false, false); (2, true, true); (2, true, true); (3, true, true); (2, true, true);
           (2, true, true); (1, true, true); (2, true, true); (2, true, true)]%nat
  /\ brief (vis_of wvis None ShowUntrusted) = Ok [(0, true, false); (1, false, false)]%nat
  /\ brief (vis_of wvis (Some [s "functools.partial"]) ShowUntrusted) = Ok [(0%nat, true, true)].
Proof. repeat split; vm_compute; reflexivity. Qed.

(* non-vacuity for bytes / bytearray (one LBytes leaf below the node, nothing to walk) and a rank-1 object array: a tuple
   (b, bytearray, b again -- a reference, shown through its target --, an object array holding b and the int 1, 2); the
   snapshot's skipped kinds contain NdArrayNode, so the array's cells and shape are not shown *)
Definition wvisb : pval :=
  let bs := PBytes 70 false (s "builtins") (s "bytes") (s "6162") in
  let ba := PBytes 71 true (s "builtins") (s "bytearray") (s "00ff") in
  ptuple 72 [bs; ba; bs; PObjArr 73 (s "numpy") (s "ndarray") [2%Z] [bs; pint 1]; pint 2].
Example C13_total_nonvacuous_bytes :
  c05_guard wf (wd Snapshot.current) wbase wvisb = true
  /\ vis_of wvisb None ShowAll = rows_of wvisb None
  /\ (do l <- rows_of wvisb None; Ok (map (fun x => (r_level x, r_val x)) l))
     = Ok [(0, s "builtins.tuple"); (1, s "<bytes>"); (1, s "bytearray(<bytes>)"); (1, s "<bytes>"); (1, s "numpy.ndarray");
           (1, s "json-type(2)")]%nat
  /\ brief (vis_of wvisb None ShowUntrusted) = Ok [(0%nat, true, true)]
  (* with no skipped kind at all the cells and the shape tuple of the object array are walked too *)
  /\ (do a <- dumps_model (wd Snapshot.current) wbase wvisb;
      do l <- visualize (dump_env a) [] (a_schema a) None ShowAll; Ok (map (fun x => (r_level x, r_val x)) l))
     = Ok [(0, s "builtins.tuple"); (1, s "<bytes>"); (1, s "bytearray(<bytes>)"); (1, s "<bytes>"); (1, s "numpy.ndarray");
           (2, s "<bytes>"); (2, s "json-type(1)"); (2, s "builtins.tuple"); (3, s "json-type(2)"); (1, s "json-type(2)")]%nat.
Proof. repeat split; vm_compute; reflexivity. Qed.

(* D24 (open): show = "trusted" hides a node whose own type is untrusted but still emits its trusted children one level
   deeper; _traverse_tree then meets a level difference below -1 and raises ValueError.  Witness: [partial(np.add, 1)]
   (a value of the proved fragment), no trusted list: rows list(0) partial(1, hidden) func(2) ... *)
Theorem C13_total_on_dumps_trusted_refuted :
  exists (D : denv) (base : Z) (v : pval) (a : archive) (T : trust),
    dn_cur D = Snapshot.current /\ c05_guard wf D base v = true /\ dumps_model D base v = Ok a
    /\ visualize (dump_env a) Snapshot.skipped (a_schema a) T ShowTrusted = Raise EValue
    /\ (exists rows, visualize (dump_env a) Snapshot.skipped (a_schema a) T ShowAll = Ok rows).
Proof.
  destruct (dumps_model (wd Snapshot.current) wbase (plist 1 [wpartial 30])) as [a|e] eqn:Ed; [|vm_compute in Ed; discriminate Ed].
  exists (wd Snapshot.current), wbase, (plist 1 [wpartial 30]), a, None.
  split; [reflexivity|]. split; [vm_compute; reflexivity|]. split; [exact Ed|].
  vm_compute in Ed. injection Ed as <-. split; [vm_compute; reflexivity|]. eexists. vm_compute. reflexivity.
Qed.
Print Assumptions C13_total_on_dumps_trusted_refuted.

Theorem C13_total_on_dumps_refuted : ~ C13_total_on_dumps_full_statement.
Proof.
  intros H. destruct C13_total_on_dumps_trusted_refuted as [D [base [v [a [T [H1 [_ [H2 [H3 _]]]]]]]]].
  destruct (H D base v a T ShowTrusted H1 H2) as [rows Hr]. rewrite H3 in Hr. discriminate Hr.
Qed.
Print Assumptions C13_total_on_dumps_refuted.
