(* C13 -- visualize is total on dumped archives, agrees with the audit, and what it emits is a well-formed tree. *)
From Skv Require Import PyStr Json Node GetTree Unsafe UnsafeFacts NodeInd Families TreeWf TreeIds GraphAudit Walk WalkFacts.
From Skv Require Import CodecGuards CodecWitness CodecShareFacts CodecFacts CodecRootFacts VisTotalFacts.
From Skv Require Import IoShow PrintFacts.
From Gen Require Import Snapshot.

(* whenever visualize completes, what reaches the printer is: the root row first, then rows each at
   most one level deeper than the previous one (every show mode) *)
Theorem C13_wellformed_tree :
  forall E skipped schema T sh out,
    visualize E skipped schema T sh = Ok out ->
    exists r rest, out = r :: rest /\ chain (r_level r) rest.
Proof.
  intros E skipped schema T sh out H. unfold visualize in H.
  destruct (visualize_stream E skipped schema T) as [st|e]; [|discriminate].
  cbn [bind] in H. destruct (traverse_all_wellformed sh st out H) as [r [rest [rs [A [_ [B _]]]]]].
  exists r, rest. split; assumption.
Qed.
Print Assumptions C13_wellformed_tree.

(* mode-independent well-formedness of _traverse_tree (hidden_level, D24 repaired): on EVERY row stream that is a
   pre-order walk -- each row at most one level below its predecessor, p being the level of the row consumed last -- and
   from every state (prev_level, hidden_level) satisfying the loop invariant tinv (nothing hidden: the row consumed last is
   the row printed last; else the hidden row lies at most one level below the row printed last), it never raises the
   level-difference ValueError whatever the filter hides (it raises only what the generator raised), and what it prints is
   again such a stream.  In particular from the initial state after the root row. *)
Theorem C13_preorder_never_raises :
  (forall sh rows p prev hidden tail, chain p rows -> tinv prev hidden p ->
     traverse sh prev hidden rows tail = match tail with Some e => Raise e | None => Ok (shown sh hidden rows) end
     /\ chain prev (shown sh hidden rows))
  /\ (forall sh st r rs, fst st = r :: rs -> chain (r_level r) rs ->
       traverse_all sh st = match snd st with Some e => Raise e | None => Ok (r :: shown sh None rs) end
       /\ chain (r_level r) (shown sh None rs)).
Proof. split; [exact traverse_preorder|exact traverse_all_preorder]. Qed.
Print Assumptions C13_preorder_never_raises.

(* rows shown under a filter (the root is always shown): whenever _traverse_tree completes, on ANY row list, the generator
   did not raise, the output is `shown` of the rows -- a row below the row hidden last is dropped whatever its own
   visibility; any other row is printed iff the filter admits it, and is the row hidden last otherwise -- hence every
   printed row is a row of the stream that the filter admits *)
Theorem C13_filter_respected :
  forall sh prev hidden rows tail out, traverse sh prev hidden rows tail = Ok out ->
    tail = None /\ out = shown sh hidden rows
    /\ Forall (fun r => visible sh r = true) out /\ (forall x, In x out -> In x rows).
Proof.
  intros sh prev hidden rows tail out H. destruct (traverse_shown sh rows prev hidden tail out H) as [A [B _]].
  split; [exact A|]. split; [exact B|]. split; [eapply traverse_visible; exact H|].
  intros x Hx. rewrite B in Hx. exact (proj1 (shown_In sh x rows hidden Hx)).
Qed.
Print Assumptions C13_filter_respected.

(* ... and on a pre-order forest f (first child / next sibling) whose top rows are at level L, from any state whose hidden
   level is not above L: exactly the forest with every subtree whose root the filter hides cut off.  The result is again a
   forest with the same levels (every printed row sits under its own parent, which is printed too); a row is printed iff
   the filter admits it and every ancestor it has in f; show = all keeps everything; show = untrusted loses nothing the
   filter admits when fully safe rows have only fully safe rows below them; a filter admitting every row keeps everything *)
Theorem C13_hidden_subtrees_cut :
  (forall sh f L h, levelled L f -> loose L h -> shown sh h (flat f) = flat (prune sh f))
  /\ (forall sh f L, levelled L f -> levelled L (prune sh f))
  /\ (forall sh f x, In x (flat (prune sh f)) <-> kept sh f x)
  /\ (forall f, prune ShowAll f = f)
  /\ (forall f, safe_closed f -> flat (prune ShowUntrusted f) = filter (fun x => negb (r_safe x)) (flat f))
  /\ (forall sh f, Forall (fun x => visible sh x = true) (flat f) -> prune sh f = f).
Proof.
  split; [intros sh f L h H1 H2; exact (proj1 (shown_forest sh f L h H1 H2))|].
  split; [exact prune_levelled|]. split; [intros sh f x; apply kept_flat|]. split; [exact prune_all|].
  split; [exact prune_untrusted|exact prune_id].
Qed.
Print Assumptions C13_hidden_subtrees_cut.

(* every row carries the audit's own verdicts for its node: its self-safety flag is is_self_safe() and its text is format()
   AS THE NODE'S OWN CLASS IMPLEMENTS THEM (self_safe_of / format_of: the protocol-0 FunctionNode checks and shows the name it
   audits, content.module_path.function -- D31-FunctionNode@0 repaired; every other class the header's module.class), and it
   is marked fully safe exactly when the audit of the graph below it reports nothing *)
Theorem C13_row_is_audit :
  forall E T skipped root fuel path name level last h subs r rs,
    fst (walk E T skipped root fuel path name level last (Node h subs)) = r :: rs ->
    r_level r = level /\ r_key r = name /\ r_last r = last /\
    self_safe_of E T h subs = Ok (r_self_safe r) /\
    (h_kind h <> KJson -> (r_safe r = true <-> unsafe E T root (Node h subs) = Ok [])) /\
    (h_kind h = KJson -> r_safe r = true) /\
    format_of h subs = Ok (r_val r).
Proof. intros. eapply walk_first_node; eauto. Qed.
Print Assumptions C13_row_is_audit.

(* the root row is fully safe exactly when get_untrusted_types is empty for that trust setting *)
Theorem C13_root_iff :
  forall E skipped schema T st r rs,
    visualize_stream E skipped schema T = Ok st -> fst st = r :: rs ->
    exists t m, root_tree E schema = Ok (t, m) /\ r_level r = O /\
      (r_safe r = true <-> untrusted_of E T t = Ok []).
Proof. exact root_safe_iff. Qed.
Print Assumptions C13_root_iff.

(* a row whose own type is untrusted is tagged, a row whose type is trusted is not *)
Theorem C13_marks :
  forall tag r, tag <> [] ->
    (r_self_safe r = false -> label [] tag r = r_val r ++ 32%N :: tag)
    /\ (r_self_safe r = true -> label [] tag r = r_val r).
Proof. exact label_marks. Qed.
Print Assumptions C13_marks.

(* non-self-safe implies not fully safe (so an unsafe name never sits in a row marked safe): for EVERY node kind, no
   exception left.  SliceNode is covered since the D31-SliceNode repair (its get_unsafe_set reports the type the header names
   unless is_self_safe()); the protocol-0 FunctionNode since the D31-FunctionNode@0 repair (its is_self_safe() tests the very
   name its get_unsafe_set reports).  For the other kinds self_safe_of is Node.is_self_safe on the header
   (C13_own_class_methods). *)
Theorem C13_self_unsafe_not_safe :
  forall E T root h subs,
    self_safe_of E T h subs = Ok false ->
    forall u, unsafe E T root (Node h subs) = Ok u -> u <> [].
Proof. intros E T root h subs SS u. apply self_unsafe_not_safe_any; assumption. Qed.
Print Assumptions C13_self_unsafe_not_safe.

(* what self_safe_of / format_of are: the header's verdict and text for every kind but the protocol-0 FunctionNode; for that
   kind the row's flag, the row's text and the audit all come from ONE name, content.module_path + "." + content.function:
   the row shows it, is self-safe iff the node's trusted list holds it, and the audit reports exactly it otherwise; when the
   content is malformed (not a dict with both keys: KeyError / TypeError) format(), is_self_safe() and the audit raise the
   same exception (format() is called first by walk_tree, so that is the one visualize raises: C13_row_is_audit has no row) *)
Theorem C13_own_class_methods :
  (forall E T h subs, h_kind h <> KFunctionV0 ->
     self_safe_of E T h subs = self_safe E T h /\ format_of h subs = node_format h)
  /\ (forall E T root h subs, h_kind h = KFunctionV0 ->
       format_of h subs = function_name h subs
       /\ (forall b, self_safe_of E T h subs = Ok b ->
             exists fn, function_name h subs = Ok fn /\ b = mem fn (node_trusted E T h)
                        /\ unsafe E T root (Node h subs) = Ok (if b then [] else [fn]))
       /\ (forall e, self_safe_of E T h subs = Raise e ->
             function_name h subs = Raise e /\ unsafe E T root (Node h subs) = Raise e)).
Proof.
  split.
  - intros E T h subs NV. split; [apply self_safe_of_not_v0; exact NV | apply format_of_not_v0; exact NV].
  - intros E T root h subs KV. split; [unfold format_of; rewrite KV; reflexivity|].
    exact (v0_self_safe_is_audit E T root h subs KV).
Qed.
Print Assumptions C13_own_class_methods.

(* the former witness of D31-SliceNode, {"__loader__": "SliceNode", "__module__": "x", "__class__": "y", bounds None}:
   with no trusted list the name x.y is REPORTED by get_untrusted_types, load refuses the archive, and the single row
   visualize shows is tagged (not self-safe) and NOT fully safe; nested in a list the root row is not fully safe either;
   when the caller trusts x.y everything is clean.  (Before the repair: nothing reported, load accepted, row tagged
   [UNSAFE] but flagged safe.) *)
Definition slice_env : env :=
  {| e_reg := Snapshot.registry; e_cur := Snapshot.current; e_classes := Snapshot.classes; e_unavailable := Snapshot.unavailable;
     e_members := []; e_resolve := [] |}.
Definition w_slice_state (id : Z) : list (pstr * json) :=
  [(s "__class__", JStr (s "y")); (s "__module__", JStr (s "x")); (s "__loader__", JStr (s "SliceNode")); (s "__id__", JInt id);
   (s "content", JObj [(s "start", JNull); (s "stop", JNull); (s "step", JNull)])].
Definition w_slice : json := JObj (w_slice_state 1 ++ [(s "protocol", JInt Snapshot.current)]).
Definition w_slice_in_list : json :=
  JObj [(s "__class__", JStr (s "list")); (s "__module__", JStr (s "builtins")); (s "__loader__", JStr (s "ListNode")); (s "__id__", JInt 1%Z);
        (s "content", JArr [JObj (w_slice_state 2)]); (s "protocol", JInt Snapshot.current)].
Definition flags (r : res (list row)) : res (list (nat * pstr * bool * bool)) :=
  do l <- r; Ok (map (fun x => (r_level x, r_val x, r_self_safe x, r_safe x)) l).

Theorem C13_slice_name_reported :
  get_untrusted_types slice_env w_slice = Ok [s "x.y"]
  /\ load_audit slice_env w_slice (TList None) = Raise (EUntrusted [s "x.y"])
  /\ flags (visualize slice_env Snapshot.skipped w_slice None ShowAll) = Ok [(0%nat, s "x.y", false, false)]
  /\ get_untrusted_types slice_env w_slice_in_list = Ok [s "x.y"]
  /\ flags (visualize slice_env Snapshot.skipped w_slice_in_list None ShowAll)
     = Ok [(0%nat, s "builtins.list", true, false); (1%nat, s "x.y", false, false)]
  /\ flags (visualize slice_env Snapshot.skipped w_slice_in_list None ShowUntrusted)
     = Ok [(0%nat, s "builtins.list", true, false); (1%nat, s "x.y", false, false)]
  /\ flags (visualize slice_env Snapshot.skipped w_slice (Some [s "x.y"]) ShowAll) = Ok [(0%nat, s "x.y", true, true)]
  /\ (exists t, load_audit slice_env w_slice (TList (Some [s "x.y"])) = Ok t).
Proof. repeat split; try (vm_compute; reflexivity). eexists. vm_compute. reflexivity. Qed.
Print Assumptions C13_slice_name_reported.

(* the former witnesses of D31-FunctionNode@0, both a protocol-0 FunctionNode inside a list, no trusted list given.
   GENUINE (what skops 0.x wrote): the header names the TYPE of the function (module of the function, class "ufunc"), the
   content names a default-trusted ufunc (the first default of the protocol-0 FunctionNode in this run's snapshot): nothing is
   reported, load accepts, and BOTH rows are self-safe and fully safe -- the function's row shows the function's name (before
   the repair it showed <module>.ufunc tagged [UNSAFE] under a fully safe root).
   TAMPERED: the header names that trusted ufunc, the content names os.getcwd: os.getcwd is reported, load refuses, and the
   function's row SHOWS os.getcwd, not self-safe and not fully safe, in show = all and show = untrusted (before the repair the
   row showed the trusted name, self-safe, and os.getcwd was displayed nowhere). *)
Definition fn0_tag : pstr := s "old._general_v0.FunctionNode".
Definition fn0_default : pstr := hd (s "scipy.special._ufuncs.expit") (defaults slice_env fn0_tag).
Definition fn0_mod : pstr := join [dot] (removelast (split_on dot fn0_default)).
Definition fn0_fun : pstr := last (split_on dot fn0_default) [].
Definition w_fn0_in_list (hm hc cm cf : pstr) : json :=
  JObj [(s "__class__", JStr (s "list")); (s "__module__", JStr (s "builtins")); (s "__loader__", JStr (s "ListNode")); (s "__id__", JInt 1%Z);
        (s "content", JArr [JObj [(s "__class__", JStr hc); (s "__module__", JStr hm); (s "__loader__", JStr (s "FunctionNode"));
                                  (s "__id__", JInt 2%Z);
                                  (s "content", JObj [(s "module_path", JStr cm); (s "function", JStr cf)])]]);
        (s "protocol", JInt 0%Z)].
Definition w_fn0_genuine : json := w_fn0_in_list fn0_mod (s "ufunc") fn0_mod fn0_fun.
Definition w_fn0_tampered : json := w_fn0_in_list fn0_mod fn0_fun (s "os") (s "getcwd").

Theorem C13_function_v0_name_shown :
  qual fn0_mod fn0_fun = fn0_default /\ mem fn0_default (defaults slice_env fn0_tag) = true
  /\ get_untrusted_types slice_env w_fn0_genuine = Ok []
  /\ (exists t, load_audit slice_env w_fn0_genuine (TList None) = Ok t)
  /\ flags (visualize slice_env Snapshot.skipped w_fn0_genuine None ShowAll)
     = Ok [(0%nat, s "builtins.list", true, true); (1%nat, fn0_default, true, true)]
  /\ get_untrusted_types slice_env w_fn0_tampered = Ok [s "os.getcwd"]
  /\ load_audit slice_env w_fn0_tampered (TList None) = Raise (EUntrusted [s "os.getcwd"])
  /\ flags (visualize slice_env Snapshot.skipped w_fn0_tampered None ShowAll)
     = Ok [(0%nat, s "builtins.list", true, false); (1%nat, s "os.getcwd", false, false)]
  /\ flags (visualize slice_env Snapshot.skipped w_fn0_tampered None ShowUntrusted)
     = Ok [(0%nat, s "builtins.list", true, false); (1%nat, s "os.getcwd", false, false)]
  /\ flags (visualize slice_env Snapshot.skipped w_fn0_tampered None ShowTrusted)
     = Ok [(0%nat, s "builtins.list", true, false)].
Proof.
  split; [vm_compute; reflexivity|]. split; [vm_compute; reflexivity|]. split; [vm_compute; reflexivity|].
  split; [eexists; vm_compute; reflexivity|]. repeat split; vm_compute; reflexivity.
Qed.
Print Assumptions C13_function_v0_name_shown.

(* no row is marked fully safe while an untrusted name occurs at or beneath it: a node whose audit is empty
   (that is what r_safe = true means, C13_row_is_audit) has no untrusting node anywhere in its subtree *)
Theorem C13_no_false_safe :
  forall E schema T t m n, root_tree E schema = Ok (t, m) -> sub n t -> unsafe E T t n = Ok [] ->
  forall x nm, sub x n -> contributes E T x nm -> False.
Proof. exact clean_audit_means_clean_subtree. Qed.
Print Assumptions C13_no_false_safe.

(* ================= first clause: visualize completes on what the dumper writes ================= *)

(* per-run obligations: get_tree selects, at the current protocol, the node class the model assumes for every loader of
   the fragment; SliceNode is one of _visualize.SKIPPED_TYPES (its children are raw JSON values walk_tree cannot visit) *)
Theorem C13_loaders_registered : reg_ok Snapshot.registry Snapshot.current = true.
Proof. vm_compute. reflexivity. Qed.
Print Assumptions C13_loaders_registered.

Theorem C13_slices_skipped : mem (s "_general.SliceNode") Snapshot.skipped = true.
Proof. vm_compute. reflexivity. Qed.
Print Assumptions C13_slices_skipped.

(* the load environment of a dumped archive in this run: registry, protocol, node classes with their default-trusted names *)
Definition dump_env (a : archive) : env :=
  {| e_reg := Snapshot.registry; e_cur := Snapshot.current; e_classes := Snapshot.classes; e_unavailable := Snapshot.unavailable;
     e_members := map fst (a_members a); e_resolve := [] |}.

(* The full statement (kept visible): every archive dumps writes is visualized to the end, whatever `trusted` and `show`
   are.  Proved below for every value of the C05 fragment and ALL THREE show modes (C13_total_on_dumps_partial; the guard is
   the fragment, no longer the show mode: finding D24 is repaired, its former witness is C13_trusted_witness_repaired). *)
Definition C13_total_on_dumps_full_statement : Prop :=
  forall (D : denv) (base : Z) (v : pval) (a : archive) (T : trust) (sh : show_mode),
    dn_cur D = Snapshot.current -> dumps_model D base v = Ok a ->
    exists rows, visualize (dump_env a) Snapshot.skipped (a_schema a) T sh = Ok rows.

(* Proved: for every value of the C05 fragment (c05_guard: JSON scalars; arbitrarily nested list / tuple / set; dict /
   OrderedDict / defaultdict; slices; function and type names; attrgetter / itemgetter; numpy arrays and scalars; sparse
   matrices; dtypes; masked arrays; RandomState / Generator; functools.partial; bytes / bytearray; object arrays of EVERY
   rank (0 included: C13-F1 repaired, the content of the array's state is a list for every rank) with cells in the fragment;
   user objects on the generic object path (ObjectNode / ConstructorFromReduceNode: any class whose name resolves, any state /
   argument tuple of the fragment: estimators, pipelines, sparse arrays; VisTotalFacts.objstate_PV / objreduce_PV / objnostate_PV);
   arbitrary sharing of sub-objects; nesting depth below get_tree's fuel), every load environment E with this run's registry and protocol and the archive's member
   list (whatever the node classes' default-trusted names are), every skipped-kind list containing SliceNode, and EVERY
   trusted list T there are a root row r (level 0) and a pre-order forest f of rows at levels >= 1 (first child / next
   sibling; fully safe rows have only fully safe rows below them) such that
   - the row generator handed to a custom sink runs to the end (no exception: no missing reference, no RecursionError, no
     KeyError on a childless DictNode, no error from format() / is_self_safe() / is_safe(), model fuel not exhausted) and
     yields r followed by the rows of f;
   - the default sink completes for EVERY show mode and prints r followed by f with the subtrees of hidden rows cut off
     (prune: C13_hidden_subtrees_cut says what that is: a row is printed iff the filter admits it and all its ancestors in f);
   - show = "all": exactly those rows;
   - show = "untrusted": r and exactly the rows that are not fully safe (a hidden row is fully safe, and so is everything
     below it: the audit of a node includes the audits of its parts);
   - show = "trusted": r and the rows whose own type is trusted and whose ancestors below the root all are (no premise
     on the rows any more: before the repair of D24 this raised ValueError as soon as an untrusted row had a trusted child).
   Method: coq/io/VisTotalFacts.v (ranks on the tree built from a dumped state, bounded depth through references, walk
   yields a safe-closed pre-order forest below the root row), coq/io/WalkFacts.v (_traverse_tree accepts every pre-order
   stream under every filter and cuts the hidden subtrees). *)
Theorem C13_total_on_dumps_partial :
  forall (F : cfacts) (D : denv) (base : Z) (v : pval) (E : env) (a : archive) (skipped : list pstr) (T : trust),
    e_cur E = dn_cur D -> reg_ok (e_reg E) (e_cur E) = true -> facts_sane F = true ->
    c05_guard F D base v = true -> dumps_model D base v = Ok a -> e_members E = map fst (a_members a) ->
    mem (s "_general.SliceNode") skipped = true ->
    exists r f,
      visualize_rows E skipped (a_schema a) T = Ok (r :: flat f)
      /\ r_level r = O /\ levelled 1 f /\ safe_closed f
      /\ (forall sh, visualize E skipped (a_schema a) T sh = Ok (r :: flat (prune sh f)))
      /\ visualize E skipped (a_schema a) T ShowAll = Ok (r :: flat f)
      /\ visualize E skipped (a_schema a) T ShowUntrusted = Ok (r :: filter (fun x => negb (r_safe x)) (flat f))
      /\ visualize E skipped (a_schema a) T ShowTrusted = Ok (r :: flat (prune ShowTrusted f)).
Proof. exact (fun F D base v E a skipped T H1 H2 H3 H4 H5 H6 H7 => visualize_total_dumped F D base v E a H1 H2 H3 H4 H5 H6 skipped H7 T). Qed.
Print Assumptions C13_total_on_dumps_partial.

(* ... in particular in this run's environment (Snapshot registry / protocol / node classes / SKIPPED_TYPES): the full
   statement restricted to the fragment *)
Theorem C13_total_on_dumps_here_partial :
  forall (F : cfacts) (D : denv) (base : Z) (v : pval) (a : archive) (T : trust) (sh : show_mode),
    dn_cur D = Snapshot.current -> facts_sane F = true -> c05_guard F D base v = true -> dumps_model D base v = Ok a ->
    exists r f,
      visualize_rows (dump_env a) Snapshot.skipped (a_schema a) T = Ok (r :: flat f)
      /\ r_level r = O /\ levelled 1 f
      /\ visualize (dump_env a) Snapshot.skipped (a_schema a) T sh = Ok (r :: flat (prune sh f)).
Proof.
  intros F D base v a T sh H1 H2 H3 H4.
  destruct (visualize_total_dumped F D base v (dump_env a) a (eq_sym H1) C13_loaders_registered H2 H3 H4 eq_refl Snapshot.skipped C13_slices_skipped T)
    as [r [f [A [B [C [_ [G _]]]]]]].
  exists r, f. split; [exact A|]. split; [exact B|]. split; [exact C|apply G].
Qed.
Print Assumptions C13_total_on_dumps_here_partial.

(* witnesses: functools.partial(np.add, 1); a tuple holding a shared list twice, a dict (one value is that list again, one a
   slice), and the partial *)
Definition wpartial (id : Z) : pval :=
  PPartial id (s "functools") (s "partial") (PFunc (id + 1) (s "numpy") (s "add")) (ptuple (id + 2) [pint 1]) (pdict (id + 3) [])
           (PScalar (id + 4) SNone).
Definition wvis : pval :=
  let sh := plist 20 [pint 1; pstr_ 22 "x"] in
  ptuple 25 [sh; pdict 23 [(kstr "a", sh); (kint 3, PSlice 27 (BScalar (SInt 1)) (BScalar SNone) (BScalar (SInt 2)))]; wpartial 30; sh].
Definition vis_of (v : pval) (T : trust) (sh : show_mode) : res (list row) :=
  do a <- dumps_model (wd Snapshot.current) wbase v;
  visualize (dump_env a) Snapshot.skipped (a_schema a) T sh.
Definition rows_of (v : pval) (T : trust) : res (list row) :=
  do a <- dumps_model (wd Snapshot.current) wbase v;
  visualize_rows (dump_env a) Snapshot.skipped (a_schema a) T.
Definition brief (r : res (list row)) : res (list (nat * bool * bool)) :=
  do l <- r; Ok (map (fun x => (r_level x, r_self_safe x, r_safe x)) l).

(* non-vacuity: the hypotheses hold of a nested value with a shared sub-object, and the conclusion computes: 18 rows
   (the same rows the implementation yields for ([1,'x'], {'a': sh, 3: slice(1,None,2)}, partial(np.add,1), sh)); with
   show = "untrusted" the root and the partial remain *)
Example C13_total_nonvacuous :
  c05_guard wf (wd Snapshot.current) wbase wvis = true /\ facts_sane wf = true
  /\ vis_of wvis None ShowAll = rows_of wvis None
  /\ brief (rows_of wvis None)
     = Ok [(0, true, false); (1, true, true); (2, true, true); (2, true, true); (1, true, true); (2, true, true); (3, true, true);
           (3, true, true); (2, true, true); (1, false, false); (2, true, true); (2, true, true); (3, true, true); (2, true, true);
           (2, true, true); (1, true, true); (2, true, true); (2, true, true)]%nat
  /\ brief (vis_of wvis None ShowUntrusted) = Ok [(0, true, false); (1, false, false)]%nat
  /\ brief (vis_of wvis (Some [s "functools.partial"]) ShowUntrusted) = Ok [(0%nat, true, true)].
Proof. repeat split; vm_compute; reflexivity. Qed.

(* non-vacuity for bytes / bytearray (one LBytes leaf below the node, nothing to walk) and a rank-1 object array: a tuple
   (b, bytearray, b again -- a reference, shown through its target --, an object array holding b and the int 1, 2); the
   snapshot's skipped kinds contain NdArrayNode, so the array's cells and shape are not shown *)
Definition wvisb : pval :=
  let bs := PBytes 70 false (s "builtins") (s "bytes") (s "6162") in
  let ba := PBytes 71 true (s "builtins") (s "bytearray") (s "00ff") in
  ptuple 72 [bs; ba; bs; PObjArr 73 (s "numpy") (s "ndarray") [2%Z] [bs; pint 1]; pint 2].
Example C13_total_nonvacuous_bytes :
  c05_guard wf (wd Snapshot.current) wbase wvisb = true
  /\ vis_of wvisb None ShowAll = rows_of wvisb None
  /\ (do l <- rows_of wvisb None; Ok (map (fun x => (r_level x, r_val x)) l))
     = Ok [(0, s "builtins.tuple"); (1, s "<bytes>"); (1, s "bytearray(<bytes>)"); (1, s "<bytes>"); (1, s "numpy.ndarray");
           (1, s "json-type(2)")]%nat
  /\ brief (vis_of wvisb None ShowUntrusted) = Ok [(0%nat, true, true)]
  (* with no skipped kind at all the cells and the shape tuple of the object array are walked too *)
  /\ (do a <- dumps_model (wd Snapshot.current) wbase wvisb;
      do l <- visualize (dump_env a) [] (a_schema a) None ShowAll; Ok (map (fun x => (r_level x, r_val x)) l))
     = Ok [(0, s "builtins.tuple"); (1, s "<bytes>"); (1, s "bytearray(<bytes>)"); (1, s "<bytes>"); (1, s "numpy.ndarray");
           (2, s "<bytes>"); (2, s "json-type(1)"); (2, s "builtins.tuple"); (3, s "json-type(2)"); (1, s "json-type(2)")]%nat.
Proof. repeat split; vm_compute; reflexivity. Qed.

(* C13-F1 (repaired): a rank-0 object array used to be dumped with the state of its cell in place of a list of states:
   get_tree raised AttributeError, so did visualize.  The former witness shape -- a rank-0 array holding a list -- and arrays
   of rank 2 (lists as cells: one ListNode per axis below the first; a zero-length axis) are values of the proved fragment;
   with no skipped kind the walk shows the array's node, its content and the shape tuple: for rank 0 the cell directly
   below the array (level 1: list, level 2: its items) and the empty shape tuple; for shape (2,2) the two row lists, their
   cells (lists) and the shape tuple (2, 2) *)
Example C13_total_nonvacuous_objarr_ranks :
  forallb (fun w => c05_guard wf (wd Snapshot.current) wbase w) [w_objarr_rank0; w_objarr_seq; w_objarr_20] = true
  /\ vis_of w_objarr_rank0 None ShowAll = rows_of w_objarr_rank0 None
  /\ (do a <- dumps_model (wd Snapshot.current) wbase w_objarr_rank0;
      do l <- visualize (dump_env a) [] (a_schema a) None ShowAll; Ok (map (fun x => (r_level x, r_val x)) l))
     = Ok [(0, s "numpy.ndarray"); (1, s "builtins.list"); (2, s "json-type(1)"); (2, s "json-type(2)"); (1, s "builtins.tuple")]%nat
  /\ (do a <- dumps_model (wd Snapshot.current) wbase w_objarr_seq;
      do l <- visualize (dump_env a) [] (a_schema a) None ShowAll; Ok (map (fun x => r_level x) l))
     = Ok [0; 1; 2; 3; 3; 2; 3; 3; 1; 2; 3; 3; 2; 3; 3; 1; 2; 2]%nat
  /\ (do a <- dumps_model (wd Snapshot.current) wbase w_objarr_20;
      do l <- visualize (dump_env a) [] (a_schema a) None ShowUntrusted; Ok (map (fun x => r_level x) l)) = Ok [0%nat].
Proof. repeat split; vm_compute; reflexivity. Qed.

(* D24 (repaired): show = "trusted" hides a node whose own type is untrusted; its trusted children used to be emitted one
   level deeper, _traverse_tree then met a level difference below -1 and raised ValueError.  The former witness
   [partial(np.add, 1)] (a value of the proved fragment), no trusted list: rows list(0) partial(1, hidden) func(2) tuple(2)
   1(3) dict(2) None(2) -- now completes and prints the root row only (everything below the hidden partial is skipped);
   with the partial trusted all seven rows are printed; in the larger witness wvis the partial (row 10) and the four rows
   below it disappear, its siblings stay *)
Theorem C13_trusted_witness_repaired :
  c05_guard wf (wd Snapshot.current) wbase (plist 1 [wpartial 30]) = true
  /\ brief (rows_of (plist 1 [wpartial 30]) None)
     = Ok [(0, true, false); (1, false, false); (2, true, true); (2, true, true); (3, true, true); (2, true, true); (2, true, true)]%nat
  /\ brief (vis_of (plist 1 [wpartial 30]) None ShowTrusted) = Ok [(0%nat, true, false)]
  /\ brief (vis_of (plist 1 [wpartial 30]) None ShowUntrusted) = Ok [(0, true, false); (1, false, false)]%nat
  /\ vis_of (plist 1 [wpartial 30]) (Some [s "functools.partial"]) ShowTrusted = rows_of (plist 1 [wpartial 30]) (Some [s "functools.partial"])
  /\ brief (vis_of wvis None ShowTrusted)
     = Ok [(0, true, false); (1, true, true); (2, true, true); (2, true, true); (1, true, true); (2, true, true); (3, true, true);
           (3, true, true); (2, true, true); (1, true, true); (2, true, true); (2, true, true)]%nat.
Proof. repeat split; vm_compute; reflexivity. Qed.
Print Assumptions C13_trusted_witness_repaired.

(* the same on bare row lists (levels only): a hidden row takes its whole subtree with it, the next row at its level or
   above is looked at again; a stream that is NOT a pre-order walk (0, 2) still meets the ValueError, which stays in the code *)
Definition lrow (l : nat) (ss : bool) : row :=
  {| r_level := l; r_key := []; r_val := []; r_self_safe := ss; r_safe := ss; r_last := false |}.
Example C13_traverse_examples :
  (do l <- traverse_all ShowTrusted (s_ok [lrow 0 true; lrow 1 false; lrow 2 true; lrow 3 false; lrow 2 true; lrow 1 true; lrow 2 true]);
   Ok (map r_level l)) = Ok [0; 1; 2]%nat
  /\ (do l <- traverse_all ShowTrusted (s_ok [lrow 0 false; lrow 1 true; lrow 2 false; lrow 3 true; lrow 2 true]); Ok (map r_level l)) = Ok [0; 1; 2]%nat
  /\ traverse_all ShowAll (s_ok [lrow 0 true; lrow 2 true]) = Raise EValue.
Proof. repeat split; vm_compute; reflexivity. Qed.

(* ================= the text: every row is shown on ONE line (C13-F2, C13-F3 repaired) ================= *)

(* The plain printer (pretty_print_tree without rich; model: IoShow.print_lines / print_tree) writes the text of a row --
   f"{key}: {label}", label = the type name plus the tag of a row that is not self-safe -- through _get_node_text, which
   replaces every character that is not printable by its unicode_escape.  For EVERY list of rows (any keys, any type names,
   any tag, any levels and flags):
   - exactly one line per row;
   - every character of every line is printable in the model's sense (IoShow.isprintable: exact on the charset stated in
     IoShow.v, which contains every line break and every surrogate; the tree-drawing prefix consists of printable characters
     as well), hence is none of the code points str.splitlines splits on (10, 11, 12, 13, 28-30, 133, 8232, 8233), is no
     surrogate and is at most U+10FFFF: the line can be written to a UTF-8 (or any Unicode) stream and stays one line;
   - the i-th line is the i-th row's: a printable drawing prefix followed by the escaped text of that row;
   - the whole output is the lines joined by line feeds; it contains length rows - 1 line breaks, and splitting it at the
     line feeds gives back exactly the lines (a key cannot forge a row). *)
Theorem C13_one_line_per_row :
  forall (tag : pstr) (rows : list row),
    length (print_lines tag rows) = length rows
    /\ Forall (Forall (fun c => isprintable c = true /\ is_linebreak c = false /\ is_surrogate c = false /\ (c <= 1114111)%N))
              (print_lines tag rows)
    /\ (forall i r, nth_error rows i = Some r ->
          exists pre, Forall (fun c => isprintable c = true) pre
                      /\ nth_error (print_lines tag rows) i = Some (pre ++ node_text tag r))
    /\ print_tree tag rows = join [10%N] (print_lines tag rows)
    /\ length (filter is_linebreak (print_tree tag rows)) = pred (length rows)
    /\ (rows <> [] -> split_on 10 (print_tree tag rows) = print_lines tag rows).
Proof. exact one_line_per_row. Qed.
Print Assumptions C13_one_line_per_row.

(* what "printable in the model's sense" excludes, and where the model is exact: a printable code point is no line break, no
   surrogate, at most U+10FFFF and lies in the exact charset; every line break and every surrogate lies in the exact charset
   and is not printable *)
Theorem C13_printable_table :
  (forall c, isprintable c = true ->
     is_linebreak c = false /\ is_surrogate c = false /\ (c <= 1114111)%N /\ in_ranges c exact_charset = true)
  /\ forallb (fun c => in_ranges c exact_charset && negb (isprintable c)) linebreaks = true
  /\ (forall c, is_surrogate c = true -> in_ranges c exact_charset = true /\ isprintable c = false).
Proof.
  split; [|split; [exact linebreaks_in_charset|exact surrogates_in_charset]].
  intros c H. split; [exact (printable_not_linebreak c H)|]. destruct (printable_scalar c H) as [A B].
  split; [exact B|]. split; [exact A|exact (printable_in_charset c H)].
Qed.
Print Assumptions C13_printable_table.

(* the repair changes nothing for ordinary names: a text is shown as it is exactly when all its characters are printable *)
Theorem C13_escape_identity :
  forall t : pstr, escape_text t = t <-> Forall (fun c => isprintable c = true) t.
Proof. intros t. split; [exact (escape_text_fix t)|exact (escape_text_id t)]. Qed.
Print Assumptions C13_escape_identity.

(* the escape loses nothing -- except through a literal backslash: on texts of Unicode code points without a backslash it has
   a left inverse (unescape_text), so two different row texts at the same place of the tree never print the same line.  The
   guard is needed: a printable backslash is not escaped, so the two-character key "\n" (backslash, n) and the key that is a
   line feed print alike (C13_escape_backslash_collides). *)
Theorem C13_escape_injective_on_lines :
  (forall t, Forall (fun c => c <> 92%N /\ (c <= 1114111)%N) t -> unescape_text (escape_text t) = t)
  /\ (forall t1 t2, Forall (fun c => c <> 92%N /\ (c <= 1114111)%N) t1 -> Forall (fun c => c <> 92%N /\ (c <= 1114111)%N) t2 ->
        escape_text t1 = escape_text t2 -> t1 = t2)
  /\ (forall pre tag r1 r2,
        Forall (fun c => c <> 92%N /\ (c <= 1114111)%N) (r_key r1 ++ s ": " ++ label [] tag r1) ->
        Forall (fun c => c <> 92%N /\ (c <= 1114111)%N) (r_key r2 ++ s ": " ++ label [] tag r2) ->
        pre ++ node_text tag r1 = pre ++ node_text tag r2 ->
        r_key r1 ++ s ": " ++ label [] tag r1 = r_key r2 ++ s ": " ++ label [] tag r2).
Proof. split; [exact unescape_escape|]. split; [exact escape_text_injective|exact lines_injective]. Qed.
Print Assumptions C13_escape_injective_on_lines.

Example C13_escape_backslash_collides :
  escape_text [10%N] = escape_text [92; 110]%N /\ [10%N] <> [92; 110]%N.
Proof. split; [vm_compute; reflexivity|discriminate]. Qed.

(* the escape forms, one of each: \t \n \r, \xNN below 256 (ESC, DEL, NEL, NO-BREAK SPACE, SOFT HYPHEN), \uNNNN below 65536
   (LINE SEPARATOR, a lone surrogate, BOM), \UNNNNNNNN above (LANGUAGE TAG); a backslash, Latin-1, Greek, CJK, box drawing and
   an emoticon stay *)
Example C13_escape_forms :
  escape_text [9; 10; 13; 27; 127; 133; 160; 173; 8232; 55296; 65279; 917505]%N
  = s "\t\n\r\x1b\x7f\x85\xa0\xad\u2028\ud800\ufeff\U000e0001"
  /\ escape_text [92; 233; 955; 26085; 9474; 128512]%N = [92; 233; 955; 26085; 9474; 128512]%N.
Proof. split; vm_compute; reflexivity. Qed.

(* non-vacuity, the two former witnesses.  C13-F2: visualize(dumps({"\ud800": 1})) -- the key was printed raw and the default
   sink raised UnicodeEncodeError on a UTF-8 stdout; C13-F3: visualize(dumps({"a\nroot: builtins.dict": 1, "b": 1})) printed
   four lines for three rows.  On the rows the walk yields for these archives (root dict, one json leaf per key; key_types is
   not shown when all keys are strings) the printer now emits one line per row, the unprintable characters escaped *)
Definition prow (level : nat) (key val : pstr) (last : bool) : row :=
  {| r_level := level; r_key := key; r_val := val; r_self_safe := true; r_safe := true; r_last := last |}.
Definition w_surrogate_rows : list row := [prow 0 (s "root") (s "builtins.dict") true; prow 1 [55296%N] (s "json-type(1)") true].
Definition w_forged_rows : list row :=
  [prow 0 (s "root") (s "builtins.dict") true;
   prow 1 (s "a" ++ 10%N :: s "root: builtins.dict") (s "json-type(1)") false;
   prow 1 (s "b") (s "json-type(1)") true].
Example C13_former_witnesses_one_line :
  print_lines (s "[UNSAFE]") w_surrogate_rows
  = [s "root: builtins.dict"; [9492; 9472; 9472; 32]%N ++ s "\ud800: json-type(1)"]
  /\ print_lines (s "[UNSAFE]") w_forged_rows
     = [s "root: builtins.dict"; [9500; 9472; 9472; 32]%N ++ s "a\nroot: builtins.dict: json-type(1)";
        [9492; 9472; 9472; 32]%N ++ s "b: json-type(1)"]
  /\ length (split_on 10 (print_tree (s "[UNSAFE]") w_forged_rows)) = 3%nat
  (* an unsafe row: the tag is part of the escaped text *)
  /\ print_lines [27%N] [{| r_level := 0; r_key := s "k"; r_val := s "x.y"; r_self_safe := false; r_safe := false; r_last := true |}]
     = [s "k: x.y \x1b"].
Proof. repeat split; vm_compute; reflexivity. Qed.

(* user objects are values of the proved fragment: an object reachable from three places, non-dict states, an object without
   state, a __reduce__ constructor (CodecWitness.w_objects) *)
Example C13_total_on_dumps_objects_nonvacuous :
  c05_guard wf (wd Snapshot.current) wbase w_objects = true.
Proof. vm_compute. reflexivity. Qed.
