(* C13 -- visualize agrees with the audit, and what it emits is a well-formed tree. *)
From Skv Require Import PyStr Json Node GetTree Unsafe UnsafeFacts NodeInd Families TreeWf TreeIds GraphAudit Walk WalkFacts.

(* whenever visualize completes, what reaches the printer is: the root row first, then rows each at
   most one level deeper than the previous one (every show mode) *)
Theorem C13_wellformed_tree :
  forall E skipped schema T sh out,
    visualize E skipped schema T sh = Ok out ->
    exists r rest, out = r :: rest /\ chain (r_level r) rest.
Proof.
  intros E skipped schema T sh out H. unfold visualize in H.
  destruct (visualize_stream E skipped schema T) as [st|e]; [|discriminate].
  cbn [bind] in H. destruct (traverse_all_wellformed sh st out H) as [r [rest [rs [A [_ B]]]]].
  exists r, rest. split; assumption.
Qed.
Print Assumptions C13_wellformed_tree.

(* rows shown under a filter are exactly rows the filter admits (the root is always shown) *)
Theorem C13_filter_respected :
  forall sh prev rows tail out, traverse sh prev rows tail = Ok out -> Forall (fun r => visible sh r = true) out.
Proof. intros sh prev rows. revert prev. apply traverse_visible. Qed.
Print Assumptions C13_filter_respected.

(* every row carries the audit's own verdicts for its node: its self-safety flag is is_self_safe(),
   and it is marked fully safe exactly when the audit of the graph below it reports nothing *)
Theorem C13_row_is_audit :
  forall E T skipped root fuel path name level last h subs r rs,
    fst (walk E T skipped root fuel path name level last (Node h subs)) = r :: rs ->
    r_level r = level /\ r_key r = name /\ r_last r = last /\
    self_safe E T h = Ok (r_self_safe r) /\
    (h_kind h <> KJson -> (r_safe r = true <-> unsafe E T root (Node h subs) = Ok [])) /\
    (h_kind h = KJson -> r_safe r = true) /\
    node_format h = Ok (r_val r).
Proof. intros. eapply walk_first_node; eauto. Qed.
Print Assumptions C13_row_is_audit.

(* the root row is fully safe exactly when get_untrusted_types is empty for that trust setting *)
Theorem C13_root_iff :
  forall E skipped schema T st r rs,
    visualize_stream E skipped schema T = Ok st -> fst st = r :: rs ->
    exists t m, root_tree E schema = Ok (t, m) /\ r_level r = O /\
      (r_safe r = true <-> untrusted_of E T t = Ok []).
Proof. exact root_safe_iff. Qed.
Print Assumptions C13_root_iff.

(* a row whose own type is untrusted is tagged, a row whose type is trusted is not *)
Theorem C13_marks :
  forall tag r, tag <> [] ->
    (r_self_safe r = false -> label [] tag r = r_val r ++ 32%N :: tag)
    /\ (r_self_safe r = true -> label [] tag r = r_val r).
Proof. exact label_marks. Qed.
Print Assumptions C13_marks.

(* non-self-safe implies not fully safe (so an unsafe name never sits in a row marked safe) *)
Theorem C13_self_unsafe_not_safe :
  forall E T root h subs, ukind_of (h_kind h) = UGeneric ->
    self_safe E T h = Ok false ->
    forall u, unsafe E T root (Node h subs) = Ok u -> u <> [].
Proof. intros E T root h subs UK SS u. apply self_unsafe_not_safe; assumption. Qed.
Print Assumptions C13_self_unsafe_not_safe.

(* no row is marked fully safe while an untrusted name occurs at or beneath it: a node whose audit is empty
   (that is what r_safe = true means, C13_row_is_audit) has no untrusting node anywhere in its subtree *)
Theorem C13_no_false_safe :
  forall E schema T t m n, root_tree E schema = Ok (t, m) -> sub n t -> unsafe E T t n = Ok [] ->
  forall x nm, sub x n -> contributes E T x nm -> False.
Proof. exact clean_audit_means_clean_subtree. Qed.
Print Assumptions C13_no_false_safe.
