(* C15 -- placeholder while the model is being validated *)
From Skv Require Import PyStr Json Markup ParserCard Parser.
Theorem C15_placeholder : True. Proof. exact I. Qed.
Print Assumptions C15_placeholder.
