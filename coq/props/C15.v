(* C15 -- parsing a pandoc document yields a card with the same outline and content;
   converting an element is deterministic and independent of what was converted before.
   Only statements, each closed by `exact`.  The model (coq/card/Markup.v, ParserCard.v,
   Parser.v) follows the tree under test WITH the fixes for D18 (titles are never sent
   through a "/"-joined key), D19 (header trace keeps levels) and D21 (try/finally in
   Markdown._indented).  D20 (a repeated sibling heading replaces the earlier section)
   is an open finding: the outline/content theorems carry the guard `headers_ok`. *)
From Skv Require Import PyStr Json Markup MarkupFacts ParserCard Parser ParserFacts.
Open Scope N_scope.

(* ---------------------------------------------------------------- Markdown.__call__ *)

(* DESIGN: md st x = (st', Ok s) -> st' = st   (balanced indent stack) *)
Theorem C15_md_state : forall st x st' t, md st x = (st', Ok t) -> st' = st.
Proof. exact md_state. Qed.
Print Assumptions C15_md_state.

(* since D21 is fixed the stack is restored on raising paths too; this REPLACES
   C15_md_leak_refuted (the leak no longer exists in the tree under test) *)
Theorem C15_md_state_all : forall st x st' r, md st x = (st', r) -> st' = st.
Proof. exact md_state_all. Qed.
Print Assumptions C15_md_state_all.

(* deterministic and history independent: every call in any sequence of calls on one
   Markdown instance returns what a call on a fresh instance returns *)
Theorem C15_md_deterministic : forall st xs, md_seq st xs = (st, map (md_result st) xs).
Proof. exact md_history_independent. Qed.
Print Assumptions C15_md_deterministic.

Theorem C15_md_call_order_irrelevant :
  forall before1 before2 x,
    nth_error (snd (md_seq [] (before1 ++ [x]))) (length before1)
    = nth_error (snd (md_seq [] (before2 ++ [x]))) (length before2).
Proof. exact md_call_order_irrelevant. Qed.
Print Assumptions C15_md_call_order_irrelevant.

(* the former D21 witness: a list conversion that raises, then another list *)
Theorem C15_md_former_leak_witness :
  md_seq [] [EB (BulletList [[Para [Str (s "x")]; BUnsup (s "HorizontalRule")]]);
             EB (BulletList [[Para [Str (s "y")]; BulletList [[Para [Str (s "z")]]]]])]
  = ([], [Raise EValue; Ok (s "- y" ++ [10] ++ s "  - z")]).
Proof. exact former_leak_witness. Qed.
Print Assumptions C15_md_former_leak_witness.

(* the statement is not vacuous: results do depend on the stack *)
Theorem C15_md_stack_matters : md_result [2%Z] (EI SoftBreak) <> md_result [] (EI SoftBreak).
Proof. exact stack_matters. Qed.
Print Assumptions C15_md_stack_matters.

(* ---------------------------------------------------------------- PandocParser.generate *)

(* FULL statements (false of the faithful model because of D20, see C15_dup_refuted):
     forall bs card, generate bs = Ok card -> outline card  = spec_outline (doc_items bs)
     forall bs card, generate bs = Ok card -> sections card = spec_sections [] (doc_items bs)
   where spec_sections lists, for every header in document order, the titles of its chain of
   nearest preceding headers of lower level followed by its own title (verbatim), and the
   accumulated texts of the blocks up to the next header.
   PROVED: the same under `headers_ok bs = true`, i.e. NoDup (spec_outline (doc_items bs)):
   no two headers with the same title under the same parent.  Nothing else is missing:
   no condition on levels (D19 fixed) and none on the characters of a title (D18 fixed). *)
Theorem C15_outline_partial :
  forall bs card, generate bs = Ok card -> headers_ok bs = true ->
    outline card = spec_outline (doc_items bs).
Proof. exact generate_outline. Qed.
Print Assumptions C15_outline_partial.

Theorem C15_content_partial :
  forall bs card, generate bs = Ok card -> headers_ok bs = true ->
    sections card = spec_sections [] (doc_items bs).
Proof. exact generate_sections. Qed.
Print Assumptions C15_content_partial.

(* ... and the content of a section is its blocks' texts, each once, in order, separated by
   a blank line (texts that are empty before the first non-empty one leave no separator) *)
Theorem C15_content_once_in_order : forall ts, acc_content ts = join [10; 10] (drop_empty ts).
Proof. exact acc_content_join. Qed.
Print Assumptions C15_content_once_in_order.

Theorem C15_dup_refuted :
  exists bs card, generate bs = Ok card /\ headers_ok bs = false
    /\ sections card <> spec_sections [] (doc_items bs)
    /\ outline card <> spec_outline (doc_items bs)
    /\ sections card = [([s "A"], s "a2"); ([s "B"], [])].
Proof. exact dup_refuted. Qed.
Print Assumptions C15_dup_refuted.

(* rendering: the headings yielded by Card._generate_content (render joins exactly these
   items) are the outline, for EVERY card ... *)
Theorem C15_render_outline_any_card : forall d, headings (render_items d) = map head_of (outline d).
Proof. exact render_headings_outline. Qed.
Print Assumptions C15_render_outline_any_card.

(* ... hence the specified outline for a parsed one (same guard) *)
Theorem C15_render_outline_partial :
  forall bs card, generate bs = Ok card -> headers_ok bs = true ->
    headings (render_items card) = map head_of (spec_outline (doc_items bs)).
Proof. exact generate_render_outline. Qed.
Print Assumptions C15_render_outline_partial.

Theorem C15_toc_outline : forall d, get_toc d = join [10] (map toc_line (outline d)).
Proof. exact toc_outline. Qed.
Print Assumptions C15_toc_outline.

(* FULL statement (false, see C15_generate_total_refuted): a card is produced for every document
   of supported element types that starts with a header.
   PROVED: ... for every document all of whose blocks are convertible on their own.  Missing:
   supported elements that the converter rejects (D28 tables without header row; also figures whose body is not a
   Plain starting with an image; D27 -- inline images without "fig:" title or without alt text -- was repaired in /repo) -- and content before the first header raises by design. *)
Theorem C15_generate_total_partial :
  forall bs, Forall convertible bs -> starts_with_header bs -> exists card, generate bs = Ok card.
Proof. exact generate_total. Qed.
Print Assumptions C15_generate_total_partial.

Theorem C15_generate_total_refuted :
  starts_with_header headerless_table_doc /\ generate headerless_table_doc = Raise EOther.
Proof. exact generate_total_refuted. Qed.
Print Assumptions C15_generate_total_refuted.

(* the former D27 witness: a badge inside a line of text *)
Theorem C15_inline_image_converts :
  starts_with_header badge_doc /\ exists card, generate badge_doc = Ok card.
Proof. exact badge_doc_converts. Qed.
Print Assumptions C15_inline_image_converts.

(* the guard is satisfiable: level jumps, a first header deeper than 1, '/', '\', edge
   blanks and U+001F in titles, the same title under different parents *)
Theorem C15_guard_non_vacuous :
  headers_ok jumpy_doc = true /\
  exists card, generate jumpy_doc = Ok card /\
    outline card = [[s "A"]; [s "A"; s "In/Out"]; [s "A"; s " pad "]; [s "A"; s " pad "; s "deep\\"];
                    [s "A"; s " pad "; s "A"]; [s "B"]; [s "B"; s "A"]; [s "B"; [31; 47]]].
Proof. exact guard_non_vacuous. Qed.
Print Assumptions C15_guard_non_vacuous.

(* former witnesses of D18 and D19 on the fixed tree *)
Theorem C15_slash_title_kept :
  exists card, generate [h 1 "In/Out"; para "x"; h 2 " pad "] = Ok card
    /\ sections card = [([s "In/Out"], s "x"); ([s "In/Out"; s " pad "], [])].
Proof. exact slash_title_kept. Qed.
Print Assumptions C15_slash_title_kept.

Theorem C15_deep_first_siblings :
  exists card, generate [h 2 "A"; h 3 "B"; h 3 "C"] = Ok card
    /\ outline card = [[s "A"]; [s "A"; s "B"]; [s "A"; s "C"]].
Proof. exact deep_first_siblings. Qed.
Print Assumptions C15_deep_first_siblings.

Theorem C15_skipped_level_siblings :
  exists card, generate [h 1 "A"; h 3 "B"; h 3 "C"; h 2 "D"] = Ok card
    /\ outline card = [[s "A"]; [s "A"; s "B"]; [s "A"; s "C"]; [s "A"; s "D"]].
Proof. exact skipped_level_siblings. Qed.
Print Assumptions C15_skipped_level_siblings.
