(* C12 -- archives are well-formed and independent of sink and compression. *)
From Skv Require Import CodecGuards CodecWitness CodecWfFacts ShowFacts CodecNameFacts CodecRefsFacts.
From Gen Require Import Snapshot.

(* Every archive the dump produces: the root carries the current protocol and the version; at every position
   where a loader reads a node-state (CodecWf.chk follows the loaders' child positions) the state has
   __loader__ (one of model_loaders), __class__, __module__ and __id__.  By induction on the value.
   Guard no_rank0: a rank-0 object array re-uses its cell state's raw content (and can never be loaded). *)
Theorem C12_schema_wf :
  forall (D : denv) (base : Z) (v : pval) (a : archive),
    dumps_model D base v = Ok a -> no_rank0 v = true ->
    schema_wf (dn_cur D) (dn_version D) (a_schema a) = true.
Proof. exact dumps_schema_wf. Qed.
Print Assumptions C12_schema_wf.

(* per-run: every loader name the dump can emit is registered at the current protocol, and is one of the
   names the snapshot's AST scan finds in the *_get_state functions *)
Theorem C12_loader_registered :
  all_registered Snapshot.registry Snapshot.current model_loaders = true
  /\ forallb (fun l => mem l Snapshot.emits) model_loaders = true.
Proof. split; vm_compute; reflexivity. Qed.
Print Assumptions C12_loader_registered.

(* The full statement (false in general: C12_members_exact_refuted below). *)
Definition C12_members_exact_full_statement : Prop :=
  forall D base v a, dumps_model D base v = Ok a ->
    forall n, In n (map fst (a_members a)) <-> In n (file_refs (a_schema a)).

(* Every member a node refers to exists and every member (other than schema.json) is referred to by some node --
   for every value none of whose dicts has two dumped keys with the same JSON spelling or a key json cannot write
   (no_collisions, decidable) and without rank-0 object arrays.  By induction on the value, all kinds. *)
Theorem C12_members_exact_partial :
  forall D base v a, dumps_model D base v = Ok a -> no_collisions v = true -> no_rank0 v = true ->
    forall n, In n (map fst (a_members a)) <-> In n (file_refs (a_schema a)).
Proof. exact dumps_members_exact. Qed.
Print Assumptions C12_members_exact_partial.

(* every member name of every archive the dump produces is flat (not empty, no '/', no '\', no ':') and is
   <id>.npy, <id>.npz, u<n>.bin (a fresh uuid token) or schema.json.  By induction on the value; uses that the decimal
   rendering of ids yields digits and '-' only (ShowFacts.v, where it is also shown injective). *)
Theorem C12_flat_names :
  forall D base v a, dumps_model D base v = Ok a ->
    forall n, In n (member_names a) -> flat_name n = true /\ name_shape n.
Proof. exact dumps_flat_names. Qed.
Print Assumptions C12_flat_names.

Theorem C12_id_rendering_injective : forall a b : Z, show_Z a = show_Z b -> a = b.
Proof. exact show_Z_inj. Qed.

Definition members_exact (a : archive) : bool :=
  forallb (fun n => mem n (file_refs (a_schema a))) (map fst (a_members a))
  && forallb (fun n => mem n (map fst (a_members a))) (file_refs (a_schema a)).

(* finding C12-F1: with two keys of one JSON spelling the first value's member stays unreferenced *)
Theorem C12_members_exact_refuted :
  match dumps_model (wd Snapshot.current) wbase w_orphan_member with
  | Ok a => negb (members_exact a)
  | Raise _ => false
  end = true.
Proof. vm_compute. reflexivity. Qed.
Print Assumptions C12_members_exact_refuted.

(* the one buffer of _save is what every sink receives: in the model the archive is a function of the value alone;
   sink and compression are no parameters of dumps_model (assurance: direct comparison on the implementation) *)
Theorem C12_sink_indep : forall D base v (sink compression level : nat), exists r, dumps_model D base v = r.
Proof. intros. eexists. reflexivity. Qed.

(* non-vacuity / examples on a nested value with .npy, .npz and .bin members *)
Example C12_nonvacuous :
  match dumps_model (wd Snapshot.current) wbase w_nested with
  | Ok a => schema_wf Snapshot.current (s "0.0") (a_schema a) && no_rank0 w_nested && members_exact a
            && forallb flat_name (member_names a) && Nat.eqb (length (a_members a)) 5 && no_collisions w_nested
  | Raise _ => false
  end = true.
Proof. vm_compute. reflexivity. Qed.
