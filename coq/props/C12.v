(* C12 -- archives are well-formed and independent of sink and compression. *)
From Skv Require Import CodecGuards CodecWitness CodecWfFacts ShowFacts CodecNameFacts CodecRefsFacts.
From Skv Require CodecRootFacts CodecShareFacts Fs Dump SinkFacts.
From Skv Require Import CodecLoad CodecShareFacts CodecFacts.
From Gen Require Import Snapshot.

(* per-run obligation shared with C05: get_tree selects the node classes the model assumes *)
Lemma C12_loader_registered_c05 : CodecShareFacts.reg_ok Snapshot.registry Snapshot.current = true.
Proof. vm_compute. reflexivity. Qed.

(* Every archive the dump produces: the root carries the current protocol and the version; at every position
   where a loader reads a node-state (CodecWf.chk follows the loaders' child positions) the state has
   __loader__ (one of model_loaders), __class__, __module__ and __id__; the content of an object array is a list of
   node-states for every rank (CodecWf.chk MNd: no longer "anything" for a non-list content).  By induction on the value,
   for EVERY value that dumps: the former guard no_rank0 is gone with the repair of C13-F1 (a rank-0 object array used to
   re-use its cell state's raw content; it is dumped as the one-element list around its cell now). *)
Theorem C12_schema_wf :
  forall (D : denv) (base : Z) (v : pval) (a : archive),
    dumps_model D base v = Ok a ->
    schema_wf (dn_cur D) (dn_version D) (a_schema a) = true.
Proof. exact dumps_schema_wf. Qed.
Print Assumptions C12_schema_wf.

(* per-run: every loader name the dump can emit is registered at the current protocol, and is one of the
   names the snapshot's AST scan finds in the *_get_state functions *)
Theorem C12_loader_registered :
  all_registered Snapshot.registry Snapshot.current model_loaders = true
  /\ forallb (fun l => mem l Snapshot.emits) model_loaders = true.
Proof. split; vm_compute; reflexivity. Qed.
Print Assumptions C12_loader_registered.

(* The full statement.  Its former refutation (finding C12-F1: two dict keys with one JSON spelling left the first
   value's member unreferenced) is gone with the repair of D08: such a dict is refused (C12_colliding_keys_refused
   below); its last guard (no rank-0 object array) is gone with the repair of C13-F1: it is proved as stated. *)
Definition C12_members_exact_full_statement : Prop :=
  forall D base v a, dumps_model D base v = Ok a ->
    forall n, In n (map fst (a_members a)) <-> In n (file_refs (a_schema a)).

(* Every member a node refers to exists and every member (other than schema.json) is referred to by some node --
   for EVERY value that dumps (object arrays of every rank included); no hypothesis on dict keys: two kept keys with
   the same JSON spelling make dict_get_state raise, a key json cannot write makes json.dumps(state) raise in _save
   (both: dumps_model <> Ok).  By induction on the value, all kinds. *)
Theorem C12_members_exact : C12_members_exact_full_statement.
Proof. exact dumps_members_exact. Qed.
Print Assumptions C12_members_exact.

(* every member name of every archive the dump produces is flat (not empty, no '/', no '\', no ':') and is
   <id>.npy, <id>.npz, u<n>.bin (a fresh uuid token) or schema.json.  By induction on the value; uses that the decimal
   rendering of ids yields digits and '-' only (ShowFacts.v, where it is also shown injective). *)
Theorem C12_flat_names :
  forall D base v a, dumps_model D base v = Ok a ->
    forall n, In n (member_names a) -> flat_name n = true /\ name_shape n.
Proof. exact dumps_flat_names. Qed.
Print Assumptions C12_flat_names.

Theorem C12_id_rendering_injective : forall a b : Z, show_Z a = show_Z b -> a = b.
Proof. exact show_Z_inj. Qed.

Definition members_exact (a : archive) : bool :=
  forallb (fun n => mem n (file_refs (a_schema a))) (map fst (a_members a))
  && forallb (fun n => mem n (map fst (a_members a))) (file_refs (a_schema a)).

(* finding C12-F1, fixed in the repository with D08: {1: b'x', '1': b'y'} wrote two members and kept one reference;
   now the dump raises ValueError when it meets the second key (before the second member is written), and nothing
   is delivered to any sink (C12_failing_dump_delivers_nothing) *)
Theorem C12_colliding_keys_refused :
  dumps_model (wd Snapshot.current) wbase w_orphan_member = Raise EValue.
Proof. vm_compute. reflexivity. Qed.
Print Assumptions C12_colliding_keys_refused.

(* Sink and compression independence.  dump/dumps = the dump model (archive = function of the value and the call's id
   allocator only), then the zip container under the requested method/level, then ONE buffer handed to the sink
   (coq/sys/SinkFacts.v over the file-operation model of dump).  With zipfile as an oracle that reads back what it wrote,
   for EVERY value that dumps, every target (dumps' return value, a str/Path, an open binary file positioned anywhere
   at its end) and every compression method and level: the bytes that reach the target are the complete buffer and
   they contain exactly the archive `a` -- same schema, same members. *)
Theorem C12_sink_compression_independent :
  forall (zipc : nat -> nat -> archive -> Fs.bytes) (unzip : Fs.bytes -> option archive),
    (forall method level a, unzip (zipc method level a) = Some a) ->
    forall e st D base v a, dumps_model D base v = Ok a ->
    forall t method level, SinkFacts.target_ok st t ->
      exists b, SinkFacts.received e st t (SinkFacts.save_model zipc D base v method level) = Some b /\ unzip b = Some a.
Proof. exact SinkFacts.sink_compression_independent. Qed.
Print Assumptions C12_sink_compression_independent.

(* ... and they load to equal objects: on the C05 fragment the archive read back from ANY target under ANY compression
   loads to the value that was dumped (composition with the round-trip theorem) *)
Theorem C12_any_sink_loads_equal_partial :
  forall (zipc : nat -> nat -> archive -> Fs.bytes) (unzip : Fs.bytes -> option archive),
    (forall method level a, unzip (zipc method level a) = Some a) ->
    forall e st (F : cfacts) (D : denv) base v,
    dn_cur D = Snapshot.current -> facts_sane F = true -> c05_guard F D base v = true ->
    forall t method level, SinkFacts.target_ok st t ->
      exists b a, SinkFacts.received e st t (SinkFacts.save_model zipc D base v method level) = Some b
               /\ unzip b = Some a
               /\ loads_model (cenv_of Snapshot.registry Snapshot.current F a) (a_schema a) = Ok v.
Proof.
  intros zipc unzip Hz e st F D base v H1 H2 H3 t method level Ht.
  pose proof (CodecRootFacts.root_roundtrip_total _ _ F D base v H1 C12_loader_registered_c05 H2 H3) as R.
  unfold roundtrip in R. destruct (dumps_model D base v) as [a|x] eqn:Ha; cbn [bind] in R; [|discriminate R].
  destruct (SinkFacts.sink_compression_independent zipc unzip Hz e st D base v a Ha t method level Ht) as [b [Rb Ub]].
  exists b, a. repeat split; assumption.
Qed.
Print Assumptions C12_any_sink_loads_equal_partial.

(* a failing serialisation delivers nothing to any target under any compression (cf. C18) *)
Theorem C12_failing_dump_delivers_nothing :
  forall (zipc : nat -> nat -> archive -> Fs.bytes) e st D base v x t method level,
    dumps_model D base v = Raise x -> SinkFacts.received e st t (SinkFacts.save_model zipc D base v method level) = None.
Proof. exact SinkFacts.failing_dump_delivers_nothing. Qed.
Print Assumptions C12_failing_dump_delivers_nothing.

(* the premises are satisfiable: the three kinds of target on a small file system *)
Example C12_targets_nonvacuous :
  let st := Fs.mkfs [([PyStr.s "d"; PyStr.s "old.skops"], [1; 2; 3]%N)] [[]; [PyStr.s "d"]] in
  SinkFacts.target_ok st SinkFacts.TBytes
  /\ SinkFacts.target_ok st (SinkFacts.TSink (Dump.SinkPath [PyStr.s "d"; PyStr.s "new.skops"]))
  /\ SinkFacts.target_ok st (SinkFacts.TSink (Dump.SinkPath [PyStr.s "d"; PyStr.s "old.skops"]))
  /\ SinkFacts.target_ok st (SinkFacts.TSink (Dump.SinkFile [PyStr.s "d"; PyStr.s "old.skops"])).
Proof. cbn. repeat split; try reflexivity. eexists; reflexivity. Qed.

(* a rank-0 object array holding a bytes object and an array, and a (2,0) array: well-formed, members = references
   (C13-F1: the rank-0 schema used to hold the cell state's raw content in place of a list of states) *)
Example C12_rank0_objarray_wf :
  let v := plist 9 [PObjArr 2 (s "numpy") (s "ndarray") [] [plist 3 [PBytes 4 false (s "builtins") (s "bytes") (s "78"); PArr 5 false (s "numpy") (s "ndarray") (s "tok")]];
                    w_objarr_20] in
  match dumps_model (wd Snapshot.current) wbase v with
  | Ok a => schema_wf Snapshot.current (s "0.0") (a_schema a) && members_exact a && Nat.eqb (length (a_members a)) 2
  | Raise _ => false
  end = true.
Proof. vm_compute. reflexivity. Qed.

(* non-vacuity / examples on a nested value with .npy, .npz and .bin members *)
Example C12_nonvacuous :
  match dumps_model (wd Snapshot.current) wbase w_nested with
  | Ok a => schema_wf Snapshot.current (s "0.0") (a_schema a) && members_exact a
            && forallb flat_name (member_names a) && Nat.eqb (length (a_members a)) 5
  | Raise _ => false
  end = true.
Proof. vm_compute. reflexivity. Qed.
