(* C06 -- the sharing structure of the object graph is preserved. *)
From Skv Require Import Sharing SharingFacts.
From Coq Require Import List Arith.
Import ListNotations.
Local Open Scope nat_scope.

(* For every allocator that only ever returns an address that is not in use, every heap, every
   root: whenever the (pinned) dump terminates,
   - two completed get_state calls got the same __id__ exactly when they were for the same object
     (the caller's object o, or the n-th temporary the dumper created);
   - SaveContext.memo is injective in both directions as well (it also holds the calls in progress);
   - every object that went through get_state is still held by the memo under its id, and is live.
   The memo and the log only grow, so this is the state of affairs at every earlier step too. *)
Theorem C06_ids_injective :
  forall alloc, fresh alloc -> forall h fuel root sc st,
    dump true alloc h fuel (RObj root) (init h) = Some (sc, st) ->
    injective_ids (visited st)
    /\ (forall a v a' v', In (a, v) (d_memo st) -> In (a', v') (d_memo st) -> (a = a' <-> v = v'))
    /\ memo_pins st.
Proof. exact ids_injective. Qed.
Print Assumptions C06_ids_injective.

(* ... and it is an invariant of every single get_state call, from any state that satisfies it
   (Inv contains the three statements above; i_inj, i_memo_inj, i_pinned, i_live) *)
Theorem C06_ids_injective_step :
  forall alloc, fresh alloc -> forall h fuel r st n st',
    Inv h st -> dump true alloc h fuel r st = Some (n, st') -> Inv h st'.
Proof. intros alloc Hf h fuel r st n st' I H. exact (lp_inv _ _ _ _ _ (dump_post alloc Hf h fuel r st n st' I H)). Qed.
Print Assumptions C06_ids_injective_step.

Theorem C06_ids_injective_init : forall h, Inv h (init h).
Proof. exact Inv_init. Qed.
Print Assumptions C06_ids_injective_init.

(* Two paths through the caller's graph (through any number of temporaries) that end in objects of
   the caller's end, after dump and load, in one loaded object iff they ended in one object. *)
Theorem C06_sharing :
  forall alloc, fresh alloc -> forall h fuel root sc st,
    dump true alloc h fuel (RObj root) (init h) = Some (sc, st) ->
    forall p q o1 o2,
      resolve h (RObj root) p = Some (RObj o1) -> resolve h (RObj root) q = Some (RObj o2) ->
      exists i1 i2, lresolve (loads sc) root p = Some i1 /\ lresolve (loads sc) root q = Some i2
                    /\ (o1 = o2 <-> i1 = i2).
Proof. exact sharing. Qed.
Print Assumptions C06_sharing.

(* the loaded object at the end of the path is the one built from that object's own state:
   its id is the object's address, its kind and number of children are the object's *)
Theorem C06_right_object :
  forall alloc, fresh alloc -> forall h fuel root sc st,
    dump true alloc h fuel (RObj root) (init h) = Some (sc, st) ->
    forall p o, resolve h (RObj root) p = Some (RObj o) ->
      lresolve (loads sc) root p = Some o
      /\ exists ob ids, nth_error h o = Some ob /\ lookup o (loads sc) = Some (o_kind ob, ids)
                        /\ length ids = length (o_kids ob).
Proof.
  intros alloc Hf h fuel root sc st H p o Hp. split.
  - exact (path_to_object alloc Hf h fuel root sc st H p o Hp).
  - exact (kind_preserved alloc Hf h fuel root sc st H p o Hp).
Qed.
Print Assumptions C06_right_object.

(* id-named members <-> array-like objects that went through get_state, one member each *)
Theorem C06_array_once_general :
  forall alloc, fresh alloc -> forall h fuel root sc st,
    dump true alloc h fuel (RObj root) (init h) = Some (sc, st) ->
    NoDup (d_files st) /\ forall a, In a (d_files st) <-> In a (visited_files st).
Proof. exact array_once_general. Qed.
Print Assumptions C06_array_once_general.

(* number of .npy/.npz members = number of distinct array / sparse objects reachable from the root
   (graphs in which the dumper creates no array temporaries: no masked arrays, RNGs, dtypes) *)
Theorem C06_array_once :
  forall alloc, fresh alloc -> forall h fuel root sc st,
    dump true alloc h fuel (RObj root) (init h) = Some (sc, st) ->
    heap_ok h = true ->
    forall l, NoDup l -> (forall o, In o l <-> reachable h root o /\ file_obj h o = true) ->
    length (d_files st) = length l.
Proof. exact array_once. Qed.
Print Assumptions C06_array_once.

(* Without pinning the statement is false: an allocator that re-uses a freed address gives two
   different key_types lists one id, and they load as one list (3 objects) ... *)
Theorem C06_unpinned_refuted :
  exists alloc h sc st,
    fresh alloc /\ length h = 3 /\ dump false alloc h 4 (RObj 0) (init h) = Some (sc, st)
    /\ In (VTmp 0, 3) (visited st) /\ In (VTmp 1, 3) (visited st) /\ ~ injective_ids (visited st)
    /\ resolve h (RObj 0) [0; 0] = Some (RTmp PList []) /\ resolve h (RObj 0) [1; 0] = Some (RTmp PList [])
    /\ lresolve (loads sc) 0 [0; 0] = Some 3 /\ lresolve (loads sc) 0 [1; 0] = Some 3.
Proof. exact unpinned_refuted. Qed.
Print Assumptions C06_unpinned_refuted.

(* ... and two different lists of the caller's load as one object (contents attributed to the wrong owner) *)
Theorem C06_unpinned_aliases :
  exists alloc h sc st p q o1 o2 i,
    fresh alloc /\ dump false alloc h 6 (RObj 0) (init h) = Some (sc, st)
    /\ resolve h (RObj 0) p = Some (RObj o1) /\ resolve h (RObj 0) q = Some (RObj o2) /\ o1 <> o2
    /\ lresolve (loads sc) 0 p = Some i /\ lresolve (loads sc) 0 q = Some i.
Proof. exact unpinned_aliases. Qed.
Print Assumptions C06_unpinned_aliases.

(* cost (finding D11): the schema is the tree unfolding; n doubly-referenced lists => >= 2^n nodes,
   with or without pinning, whatever the allocator *)
Theorem C06_dump_size_exponential :
  forall pin alloc n fuel sc st,
    dump pin alloc (ladder n) fuel (RObj n) (init (ladder n)) = Some (sc, st) -> 2 ^ n <= schema_nodes sc.
Proof. exact dump_size_exponential. Qed.
Print Assumptions C06_dump_size_exponential.

Theorem C06_ladder_dumps :
  forall pin alloc n, exists sc st, dump pin alloc (ladder n) (S n) (RObj n) (init (ladder n)) = Some (sc, st).
Proof. intros pin alloc n. exact (ladder_dumps pin alloc n n (le_n n) (init (ladder n))). Qed.
Print Assumptions C06_ladder_dumps.

(* non-vacuity: allocators satisfying the constraint exist (one never re-uses, one re-uses eagerly),
   and a graph with sharing, a temporary and an array runs through dump and load *)
Theorem C06_allocators_exist : fresh bump /\ forall a, fresh (reuse a).
Proof. exact (conj fresh_bump fresh_reuse). Qed.
Print Assumptions C06_allocators_exist.

Theorem C06_nonvacuous :
  exists sc st, dump true bump heap_ex 5 (RObj 0) (init heap_ex) = Some (sc, st)
    /\ heap_ok heap_ex = true
    /\ resolve heap_ex (RObj 0) [0; 1] = Some (RObj 2) /\ resolve heap_ex (RObj 0) [2] = Some (RObj 2)
    /\ resolve heap_ex (RObj 0) [1] = Some (RObj 1)
    /\ lresolve (loads sc) 0 [0; 1] = Some 2 /\ lresolve (loads sc) 0 [2] = Some 2
    /\ lresolve (loads sc) 0 [1] = Some 1
    /\ d_files st = [2] /\ schema_nodes sc = 8.
Proof. exact example_run. Qed.
Print Assumptions C06_nonvacuous.
