(* C04 -- persistence is faithful or it refuses: never a quietly different object. *)
From Skv Require Import CodecGuards CodecWitness CodecShareFacts CodecFacts CodecRootFacts CodecInsideFacts CodecCollideFacts.
From Gen Require Import Snapshot.

Definition rt (v : pval) : res pval :=
  roundtrip Snapshot.registry Snapshot.current wf (wd Snapshot.current) wbase v.
Definition same (a b : pval) : bool := pstr_eqb (show_val a) (show_val b).   (* equal abstraction: types, structure, values, sharing *)

(* The full statement (kept visible; false of the faithful model, see the ..._refuted theorems below). *)
Definition C04_faithful_or_refuses_full_statement : Prop :=
  forall (F : cfacts) (D : denv) (base : Z) (v : pval), dn_cur D = Snapshot.current ->
    match roundtrip Snapshot.registry Snapshot.current F D base v with
    | Ok v' => show_val v' = show_val v
    | Raise _ => True
    end.

(* With the explicit decidable guard c04_ok (coq/io/CodecGuards.v: no scalar-subclass instance, no uncoercible dict
   key (keys with the same JSON spelling are refused by the dump, see C04_same_spelling_refused), no property-valued entry, defaultdict/tuple of exact class, no hidden payload on the
   object path, ...; object arrays of EVERY rank with cells of any kind are inside: D10 repaired), on the fragment proved by induction
   (see C05_roundtrip_partial for its description and for what is missing; since user objects on the generic object path are inside --
   any resolvable class without hidden payload, any state of the fragment -- "the loaded value is v" says for them: same class name,
   equal state handed to __setstate__ / the constructor): the loaded value is v itself.
   On every generated value with c04_ok the model (by vm_compute) and the implementation are checked to be
   faithful-or-refusing in each run (harness/props/c04.py). *)
Theorem C04_faithful_or_refuses_partial :
  forall (F : cfacts) (D : denv) (base : Z) (v : pval),
    c04_ok F v = true ->
    dn_cur D = Snapshot.current -> facts_sane F = true -> reg_ok Snapshot.registry Snapshot.current = true ->
    c05_guard F D base v = true ->
    roundtrip Snapshot.registry Snapshot.current F D base v = Ok v.
Proof. exact (fun F D base v _ H1 H2 H0 H3 => root_roundtrip_total _ _ F D base v H1 H0 H2 H3). Qed.
Print Assumptions C04_faithful_or_refuses_partial.

(* kinds registered as unsupported are refused by the dump, wherever they sit at the root *)
Theorem C04_unsupported_refused : forall D base id m c, dumps_model D base (PUnsup id m c) = Raise EUnsupported.
Proof. reflexivity. Qed.
Print Assumptions C04_unsupported_refused.

(* Dumping never modifies the object: by type -- get_state maps a value and the SaveContext to a JSON state and a
   SaveContext; no value is returned, there is no heap to write to.  Tied to the code by comparing the fingerprint
   of the real object before and after dumps() on every case (harness/impl_codec.py: "pure"). *)
Theorem C04_dump_pure : forall D base v, exists r : res archive, dumps_model D base v = r.
Proof. intros. eexists. reflexivity. Qed.
Print Assumptions C04_dump_pure.

(* ---- one refutation per known corruption class: the dump succeeds, the load succeeds, the value differs ---- *)
Definition corrupts (w : pval) : Prop :=
  match rt w with Ok v' => negb (same v' w) | Raise _ => false end = true.

Theorem C04_frozenset_refuted : corrupts w_frozenset.                      (* D09  frozenset({1}) -> frozenset() *)
Proof. vm_compute. reflexivity. Qed.
Theorem C04_deque_refuted : corrupts w_deque.                              (* D09  deque([1,2]) -> deque([]) *)
Proof. vm_compute. reflexivity. Qed.
Theorem C04_property_value_refuted : corrupts w_property_value.            (* D26  {'a': property, 'b': 2} -> {'b': 2} *)
Proof. vm_compute. reflexivity. Qed.
Theorem C04_scalar_subclass_refuted : corrupts w_myint /\ corrupts w_mystr.  (* MyInt(5) -> 5, MyStr('s') -> 's' *)
Proof. split; vm_compute; reflexivity. Qed.
Theorem C04_surrogates_refuted : corrupts w_surrogates.                    (* '😀' (2 code points) -> 1 code point *)
Proof. vm_compute. reflexivity. Qed.
Print Assumptions C04_frozenset_refuted.

(* non-vacuity with user objects: both guards hold of a value with shared objects, non-dict / falsy / None states, an object without
   state and a __reduce__ constructor, and the conclusion computes *)
Example C04_faithful_objects_nonvacuous :
  c04_ok wf w_objects = true /\ c05_guard wf (wd Snapshot.current) wbase w_objects = true /\ rt w_objects = Ok w_objects.
Proof. repeat split; vm_compute; reflexivity. Qed.

(* the guard excludes every witness *)
Theorem C04_guard_excludes_witnesses :
  forallb (fun w => negb (c04_ok wf w))
    [w_frozenset; w_deque; w_property_value; w_myint; w_mystr;
     w_surrogates] = true.
Proof. vm_compute. reflexivity. Qed.

(* D08, fixed in the repository (fix: refuse to persist a dict two of whose keys have the same JSON spelling): the former
   witness {1:'a','1':'b'} (it loaded as {1:'b'}) now makes dumps raise ValueError, and so do the other shapes of the
   collision (str first, float, bool, defaultdict, nested behind entries that are written first); the guard c04_ok
   does not have to exclude them any more *)
Theorem C04_colliding_keys_refused :
  dumps_model (wd Snapshot.current) wbase w_colliding_keys = Raise EValue
  /\ forallb (fun w => match dumps_model (wd Snapshot.current) wbase w with Raise EValue => true | _ => false end) w_colliding_more = true
  /\ c04_ok wf w_colliding_keys = true /\ forallb (c04_ok wf) w_colliding_more = true.
Proof. repeat split; vm_compute; reflexivity. Qed.
Print Assumptions C04_colliding_keys_refused.

(* In general: a dict or defaultdict two of whose kept keys (entries whose value is not a property; keys json can write)
   have the same JSON spelling is refused -- whatever its values are and wherever it sits inside the value that is
   dumped (at any position the dumper serialises), dumps raises: the ValueError of dict_get_state, unless the key
   types or a value serialised before the second key is reached raise first.  By induction on the entries
   (coq/io/CodecCollideFacts.v) and on the position (coq/io/CodecInsideFacts.v). *)
Theorem C04_same_spelling_refused :
  forall (D : denv) (base : Z) (x v : pval),
    same_spelling_dict x = true -> inside x v -> exists e, dumps_model D base v = Raise e.
Proof. exact same_spelling_dumps_raises. Qed.
Print Assumptions C04_same_spelling_refused.

(* the order of effects: an earlier value's own exception wins, a later value is not reached; a property value is
   skipped before its key is looked at ({1: property, '1': 'b'} has one kept key: no collision, the old D26 behaviour) *)
Example C04_same_spelling_order :
  dumps_model (wd Snapshot.current) wbase w_colliding_earlier_raises = Raise EUnsupported
  /\ dumps_model (wd Snapshot.current) wbase w_colliding_later_unsup = Raise EValue
  /\ same_spelling_dict w_colliding_skipped = false
  /\ match dumps_model (wd Snapshot.current) wbase w_colliding_skipped with Ok _ => true | Raise _ => false end = true.
Proof. repeat split; vm_compute; reflexivity. Qed.

(* non-vacuity of C04_same_spelling_refused: the witnesses satisfy its premise *)
Example C04_same_spelling_nonvacuous :
  same_spelling_dict w_colliding_keys = true /\ inside w_colliding_keys w_colliding_keys
  /\ (exists x, same_spelling_dict x = true /\ inside x (plist 9 [pint 7; x; w_nested])).
Proof.
  split; [vm_compute; reflexivity|]. split; [apply in_here|].
  exists w_colliding_keys. split; [vm_compute; reflexivity|]. eapply in_seq; [right; left; reflexivity|apply in_here].
Qed.

(* D10 (and the rank-0 part, C13-F1), fixed in the repository (fix: object arrays of every rank keep their shape): the loader
   no longer rebuilds the array with np.array(nested lists) -- which turned cells that are lists / tuples into further axes:
   the former witness, shape (2,2) of lists, came back with shape (2,2,2) -- but fills np.empty(shape) cell by cell from the
   lists tolist() wrote; a rank-0 array is dumped as a one-element list around its cell.  The former witness and the other
   shapes of the defect (a rank-0 array holding a list / the empty tuple, tuples in a (1,2,1) array, arrays with a zero-length
   axis, an object array nested in an object array) load as themselves, identity labels included; the guard no longer
   excludes them *)
Example C04_objarray_fixed :
  rt w_objarr_seq = Ok w_objarr_seq /\ c04_ok wf w_objarr_seq = true
  /\ forallb (fun w => match rt w with Ok v' => pval_eqb v' w | Raise _ => false end) w_objarr_more = true
  /\ forallb (c04_ok wf) w_objarr_more = true.
Proof. repeat split; vm_compute; reflexivity. Qed.

(* D07, fixed in the repository (fix: dict with bool keys ...): {False:'x', True:'y'} now loads as itself *)
Theorem C04_bool_keys_fixed : rt w_bool_keys = Ok w_bool_keys /\ c04_ok wf w_bool_keys = true.
Proof. split; vm_compute; reflexivity. Qed.

(* C04-F3, fixed in the repository (fix: a tuple subclass loads as an instance of that subclass): MyTuple((1, 2)) now
   loads as itself, like list and set subclasses do *)
Theorem C04_tuple_subclass_fixed : rt w_tuple_subclass = Ok w_tuple_subclass /\ c04_ok wf w_tuple_subclass = true.
Proof. split; vm_compute; reflexivity. Qed.

(* C04-F2, fixed in the repository (fix: a defaultdict subclass loads as an instance of that subclass) *)
Theorem C04_defaultdict_subclass_fixed : rt w_defaultdict_subclass = Ok w_defaultdict_subclass /\ c04_ok wf w_defaultdict_subclass = true.
Proof. split; vm_compute; reflexivity. Qed.

(* non-vacuity of the guard: a nested value of the full grammar satisfies it and round-trips exactly *)
Example C04_nonvacuous : c04_ok wf w_nested = true /\ rt w_nested = Ok w_nested.
Proof. split; vm_compute; reflexivity. Qed.
