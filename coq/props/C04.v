(* C04 -- supported data round-trips exactly, and stably. *)
From Skv Require Import CodecGuards.
From Gen Require Import Snapshot.

Theorem C04_placeholder : True. Proof. exact I. Qed.
Print Assumptions C04_placeholder.
