(* C11 -- nothing outside the documented families is trusted by default. *)
From Skv Require Import PyStr Json Node GetTree Unsafe UnsafeFacts NodeInd Families TreeWf TreeIds GraphAudit.
From Gen Require Import Snapshot.

(* per-run obligation over the ~550 default-trusted names extracted from /repo: each carries a family
   tag admissible for the node kind that trusts it (tags: harness/families.py on the resolved object) *)
Theorem C11_defaults_in_families :
  defaults_in_families Snapshot.classes Snapshot.family_tags = true.
Proof. vm_compute. reflexivity. Qed.
Print Assumptions C11_defaults_in_families.

Theorem C11_every_default_is_in_a_family :
  forall tag u d x n, In (tag, (u, d, x)) Snapshot.classes -> In n (d ++ x) ->
    exists k t, kind_of_class tag = Some k /\ dget n Snapshot.family_tags = Some t /\ family_ok k t = true.
Proof. exact (defaults_in_families_spec _ _ C11_defaults_in_families). Qed.
Print Assumptions C11_every_default_is_in_a_family.

(* every node of every tree (any depth, any position) whose audited name is outside its trusted
   list is reported.  The kinds that audit the header's own module.class are all kinds but JsonNode (no name is
   audited or resolved) and FunctionNode (next theorem) -- SliceNode included since the D31-SliceNode repair: its
   get_unsafe_set used to return set() whatever the header named *)
Theorem C11_kinds_auditing_their_name :
  forall k, names_own k = true <-> (k <> KJson /\ k <> KFunction /\ k <> KFunctionV0).
Proof. exact names_own_kinds. Qed.
Print Assumptions C11_kinds_auditing_their_name.

Theorem C11_outside_reported :
  forall E T t u, leafy t = true -> unsafe_tree E T t = Ok u ->
  forall h subs nm, sub (Node h subs) t -> names_own (h_kind h) = true ->
    node_name h = Ok nm -> mem nm (node_trusted E T h) = false -> In nm u.
Proof.
  intros E T t u Hl Hu h subs nm Hs UK Hn Hm.
  eapply unsafe_tree_complete; eauto. apply named_contributes; assumption.
Qed.
Print Assumptions C11_outside_reported.

(* the same on the real audit (graph walk with its cycle guard) of any archive: a SliceNode, or any other node that
   audits its own name, sitting anywhere in the tree with a name it does not trust is in get_untrusted_types *)
Theorem C11_outside_reported_by_get_untrusted_types :
  forall E schema G, get_untrusted_types E schema = Ok G ->
  exists t m, root_tree E schema = Ok (t, m) /\
    forall h subs nm, sub (Node h subs) t -> names_own (h_kind h) = true ->
      node_name h = Ok nm -> mem nm (node_trusted E None h) = false -> In nm G.
Proof.
  intros E schema G HG. destruct (report_complete E schema G HG) as [t [m [RT Hc]]]. exists t, m. split; [exact RT|].
  intros h subs nm Hs UK Hn Hm. eapply Hc; [exact Hs|]. apply named_contributes; assumption.
Qed.
Print Assumptions C11_outside_reported_by_get_untrusted_types.

(* non-vacuity: a SliceNode naming x.y below a list, no trusted list *)
Example C11_slice_outside_reported_example :
  let hs := {| h_slot := SElem (s "content"); h_kind := KSlice; h_tag := s "_general.SliceNode"; h_id := None; h_extra := [];
               h_class := JStr (s "y"); h_module := JStr (s "x"); h_aux := JNull |} in
  let hl := {| h_slot := SOne (s "root"); h_kind := KList; h_tag := s "_general.ListNode"; h_id := None; h_extra := [];
               h_class := JStr (s "list"); h_module := JStr (s "builtins"); h_aux := JNull |} in
  let E := {| e_reg := Snapshot.registry; e_cur := Snapshot.current; e_classes := Snapshot.classes;
              e_unavailable := Snapshot.unavailable; e_members := []; e_resolve := [] |} in
  let t := Node hl [Node hs [Leaf (SOne (s "start")) (LRaw JNull); Leaf (SOne (s "stop")) (LRaw JNull); Leaf (SOne (s "step")) (LRaw JNull)]] in
  names_own (h_kind hs) = true /\ leafy t = true /\ unsafe_tree E None t = Ok [s "x.y"] /\ unsafe E None t t = Ok [s "x.y"].
Proof. vm_compute. repeat split; reflexivity. Qed.

Theorem C11_function_outside_reported :
  forall E T t u, leafy t = true -> unsafe_tree E T t = Ok u ->
  forall h subs fn, sub (Node h subs) t -> ukind_of (h_kind h) = UFunction ->
    function_name h subs = Ok fn -> mem fn (node_trusted E T h) = false -> In fn u.
Proof.
  intros E T t u Hl Hu h subs fn Hs UK Hn Hm.
  eapply unsafe_tree_complete; eauto. cbn [contributes]. rewrite UK. unfold fn_unsafe. rewrite Hn. cbn [bind].
  rewrite Hm. exists [fn]. split; [reflexivity | left; reflexivity].
Qed.
Print Assumptions C11_function_outside_reported.

(* ... and nothing else is: a reported name is the audited name of some node that does not trust it *)
Theorem C11_reported_only_named :
  forall E T t u, unsafe_tree E T t = Ok u ->
  forall nm, In nm u -> exists n, sub n t /\ contributes E T n nm.
Proof. exact unsafe_tree_sound. Qed.
Print Assumptions C11_reported_only_named.

(* with no trusted list, what a node trusts is exactly its defaults plus what ancestors hand down *)
Theorem C11_no_list_trusts_defaults_only :
  forall E h, node_trusted E None h = (if uses_T E (h_tag h) then h_extra h else []) ++ defaults E (h_tag h).
Proof. intros E h. unfold node_trusted. destruct (uses_T E (h_tag h)); reflexivity. Qed.
Print Assumptions C11_no_list_trusts_defaults_only.

(* On the REAL audit (the graph walk with its cycle guard, shared and cyclic ids included), for every archive:
   get_untrusted_types reports exactly the audited names of the nodes of the tree that do not trust them. *)
Theorem C11_report_exact :
  forall E schema G, get_untrusted_types E schema = Ok G ->
  exists t m, root_tree E schema = Ok (t, m) /\
    forall nm, In nm G <-> exists x, sub x t /\ contributes E None x nm.
Proof. exact report_exact. Qed.
Print Assumptions C11_report_exact.
