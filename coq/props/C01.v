(* C01 -- loading never uses code or objects the caller did not vouch for. *)
From Skv Require Import PyStr Json Node GetTree Unsafe UnsafeFacts AuditFacts NodeInd Families TreeWf TreeIds
     GraphAudit Walk Construct ConstructFacts IoShow.
From Gen Require Import Snapshot.

(* Every tree get_tree builds, from ANY JSON: memoised ids are pairwise distinct, and the node kinds whose
   audit does not look at children (Json, Slice, Function) have only raw leaves below them (a SliceNode audits its
   own name, not its bounds). *)
Theorem C01_tree_invariants :
  forall E schema t m, root_tree E schema = Ok (t, m) -> wf_node t = true /\ NoDup (ids t).
Proof. intros E schema t m H. split; [eapply root_tree_wf | eapply root_tree_ids_unique]; eauto. Qed.
Print Assumptions C01_tree_invariants.

(* When load's audit passes, no node anywhere in the tree -- any depth, any slot, shared or cyclic ids --
   has an audited name outside its trusted list: the cycle guard never hides an unexamined node. *)
Theorem C01_audit_examines_every_node :
  forall E schema T t, load_audit E schema (TList T) = Ok t ->
  forall x nm, sub x t -> contributes E T x nm -> False.
Proof. exact audit_pass_nothing_contributes. Qed.
Print Assumptions C01_audit_examines_every_node.

(* in particular every node that names its own type -- every kind but JsonNode and FunctionNode; SliceNode included since
   the D31-SliceNode repair (its get_unsafe_set used to return set() whatever the header named) -- carries, after a
   passed audit, a name its own trusted list contains *)
Theorem C01_audit_pass_names_trusted :
  forall E schema T t, load_audit E schema (TList T) = Ok t ->
  forall h subs nm, sub (Node h subs) t -> names_own (h_kind h) = true -> node_name h = Ok nm ->
    mem nm (node_trusted E T h) = true.
Proof.
  intros E schema T t LA h subs nm Hs NO Hn.
  destruct (mem nm (node_trusted E T h)) eqn:M; [reflexivity|]. exfalso.
  eapply (audit_pass_nothing_contributes E schema T t LA (Node h subs) nm Hs). apply named_contributes; assumption.
Qed.
Print Assumptions C01_audit_pass_names_trusted.
Example C01_slice_names_own : names_own KSlice = true. Proof. reflexivity. Qed.

(* The name that was audited is the name that is resolved: after the audit has passed, every
   gettype/_import_obj call of construct() whose two names come from the archive resolves a name that
   is in the trusted list (caller's list ++ inherited ++ the kind's defaults) of the node making the call. *)
Theorem C01_resolve_vouched :
  forall E schema T t fuel es d,
    load_audit E schema (TList T) = Ok t ->
    ctrace t fuel [] [] t = Ok (es, d) ->
    forall h m c, In (h, EvResolve m c) es ->
    forall nm, jqual m c = Ok nm -> mem nm (node_trusted E T h) = true.
Proof. exact load_resolves_only_vouched. Qed.
Print Assumptions C01_resolve_vouched.

(* every such call is made by a node of the tree (nothing is constructed that the audit cannot see) *)
Theorem C01_no_unaudited_children :
  forall root, wf_node root = true ->
  forall fuel path d n es d', sub n root -> ctrace root fuel path d n = Ok (es, d') ->
  Forall (good root) es.
Proof. exact ctrace_good. Qed.
Print Assumptions C01_no_unaudited_children.

(* ---- the full statement "every name-bearing event is vouched" is FALSE of the faithful model: ---- *)
Definition envS : env :=
  {| e_reg := Snapshot.registry; e_cur := Snapshot.current; e_classes := Snapshot.classes;
     e_unavailable := Snapshot.unavailable; e_members := []; e_resolve := [] |}.
Definition J (v : pstr) : json :=
  JObj [(s "__class__", JStr (s "str")); (s "__module__", JStr (s "builtins")); (s "__loader__", JStr (s "JsonNode"));
        (s "content", JStr v)].

Definition ev_tag (te : tev) : pstr :=
  match snd te with EvFixed c => s "F:" ++ c | _ => show_ev te end.
(* the audit passes with trusted list T, and construct() then performs the event `needle` *)
Definition passes_and_performs (schema : json) (T : trust) (needle : pstr) : bool :=
  match load_audit envS schema (TList T) with
  | Ok t => match ctrace t 50 [] [] t with
            | Ok (es, _) => existsb (fun te => pstr_eqb (ev_tag te) needle) es
            | Raise _ => false
            end
  | Raise _ => false
  end.

(* D01: MethodNode -- getattr(<constructed object>, <any attribute name from the archive>); the audited
   name "y.x" says nothing about it *)
Definition w_method : json :=
  JObj [(s "__class__", JStr (s "x")); (s "__module__", JStr (s "y")); (s "__loader__", JStr (s "MethodNode"));
        (s "__id__", JInt 1%Z); (s "protocol", JInt Snapshot.current);
        (s "content", JObj [(s "func", JStr (s "__class__")); (s "obj", J (s "1"))])].
Theorem C01_method_attr_refuted : passes_and_performs w_method (Some [s "y.x"]) (s "A:__class__") = true.
Proof. vm_compute. reflexivity. Qed.
Print Assumptions C01_method_attr_refuted.

(* D03 (repaired in /repo: only numpy BitGenerator classes may now be CALLED; the harness observes calls): the model still
   records that RandomGeneratorNode RESOLVES numpy.random.<name from the archive> without any audit, with an
   empty trusted list: here the name \"default_rng\" sits in the bit-generator state *)
Definition Dn (id : Z) (kv : list (pstr * json)) : json :=
  JObj [(s "__class__", JStr (s "dict")); (s "__module__", JStr (s "builtins")); (s "__loader__", JStr (s "DictNode"));
        (s "__id__", JInt id); (s "content", JObj kv);
        (s "key_types", JObj [(s "__class__", JStr (s "list")); (s "__module__", JStr (s "builtins")); (s "__loader__", JStr (s "ListNode"));
                               (s "__id__", JInt (id + 1)%Z);
                               (s "content", JArr (map (fun _ => JObj [(s "__class__", JStr (s "str")); (s "__module__", JStr (s "builtins"));
                                                                        (s "__loader__", JStr (s "TypeNode"))]) kv))])].
Definition w_bitgen : json :=
  JObj [(s "__class__", JStr (s "Generator")); (s "__module__", JStr (s "numpy.random._generator"));
        (s "__loader__", JStr (s "RandomGeneratorNode")); (s "__id__", JInt 1%Z); (s "protocol", JInt Snapshot.current);
        (s "content", JObj [(s "bit_generator", Dn 10 [(s "bit_generator", J [34; 100; 101; 102; 97; 117; 108; 116; 95; 114; 110; 103; 34]%N)]);
                            (s "seed_seq", Dn 20 [(s "entropy", J (s "1"))])])].
Theorem C01_bitgen_refuted : passes_and_performs w_bitgen None (s "M:numpy.random|*") = true.
Proof. vm_compute. reflexivity. Qed.
Print Assumptions C01_bitgen_refuted.

(* D04: a fixed constructor under a foreign audited name: the caller vouches for "foo.bar" and what is
   built is functools.partial *)
Definition w_partial : json :=
  let L := JObj [(s "__class__", JStr (s "list")); (s "__module__", JStr (s "builtins")); (s "__loader__", JStr (s "ListNode")); (s "content", JArr [])] in
  JObj [(s "__class__", JStr (s "bar")); (s "__module__", JStr (s "foo")); (s "__loader__", JStr (s "PartialNode"));
        (s "__id__", JInt 1%Z); (s "protocol", JInt Snapshot.current);
        (s "content", JObj [(s "func", J (s "1")); (s "args", L); (s "kwds", L); (s "namespace", L)])].
Theorem C01_fixed_ctor_refuted : passes_and_performs w_partial (Some [s "foo.bar"]) (s "F:functools.partial") = true.
Proof. vm_compute. reflexivity. Qed.
Print Assumptions C01_fixed_ctor_refuted.
