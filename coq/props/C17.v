(* C17 -- `skops convert` produces an equivalent, auditable archive.
   Only statements.  Model: coq/sys/Convert.v (skops/cli/_convert.py); the serialiser
   and the audit enter as oracles (k_saved, k_untrusted). *)
From Skv Require Import PyStr Json Fs FsFacts Convert ConvertFacts.
From Skv Require CodecDump CodecLoad CodecShareFacts CodecFacts SinkFacts CliCodecFacts.

(* no -o (or -o ""): the archive goes to <cwd>/<stem of the input's last component>.skops *)
Theorem C17_default_path : forall c,
  given_output c = None ->
  out_path c = k_cwd c ++ [stem (pname (parse_path (k_input c))) ++ dot_skops]
  /\ out_text c = slash :: join [slash] (k_cwd c ++ [stem (pname (parse_path (k_input c))) ++ dot_skops]).
Proof. exact convert_default_path. Qed.
Print Assumptions C17_default_path.

(* PurePath.stem: the last suffix only; leading / trailing dots are not separators *)
Theorem C17_stem : 
  (forall a b, a <> [] -> b <> [] -> no_dot b -> stem (a ++ dot :: b) = a)
  /\ (forall t, no_dot t -> stem t = t)
  /\ (forall b, no_dot b -> stem (dot :: b) = dot :: b)
  /\ (forall a, stem (a ++ [dot]) = a ++ [dot]).
Proof. exact (conj stem_ext (conj stem_no_dot (conj stem_leading_dot stem_trailing_dot))). Qed.
Print Assumptions C17_stem.

Theorem C17_default_path_examples :
  map (fun i => show_path (out_path (mkccfg [s "S"; s "cwd"] i None 0 (Ok []) [] true)))
      [s "model.pkl"; s "a/b/model.tar.gz"; s "/abs/.hidden"; s "noext"; s "dir/x."; s "./m.pickle"]
  = [s "/S/cwd/model.skops"; s "/S/cwd/model.tar.skops"; s "/S/cwd/.hidden.skops";
     s "/S/cwd/noext.skops"; s "/S/cwd/x..skops"; s "/S/cwd/m.skops"].
Proof. exact default_path_examples. Qed.
Print Assumptions C17_default_path_examples.

(* read the pickle, serialise, and only then open the output *)
Theorem C17_order : forall c,
  convert_ops c =
    if same_file c then [] else
    ReadAll (in_path c) ::
    match k_saved c with
    | Raise _ => []
    | Ok b => if k_outdir_ok c then [OpenTrunc (out_path c); Append (out_path c) b; Close (out_path c)]
              else [OpenTrunc (out_path c)]
    end.
Proof. exact convert_order. Qed.
Print Assumptions C17_order.

(* the object cannot be persisted: its exception escapes and nothing is created
   or altered at any moment *)
Theorem C17_failure_inert : forall e c x,
  k_saved c = Raise x ->
  (same_file c = false -> snd (convert_run c) = CExc x)
  /\ forall st pre, crash_of (convert_ops c) pre -> apply_ops e st pre = st.
Proof. exact convert_failure_inert. Qed.
Print Assumptions C17_failure_inert.

(* FULL STATEMENT (D29 repaired in /repo: convert refuses when the output is the input itself):
   the input file is never altered, at any crash point, whatever the output option *)
Theorem C17_input_untouched : forall e c,
  forall st pre, crash_of (convert_ops c) pre ->
    fget (in_path c) (files (apply_ops e st pre)) = fget (in_path c) (files st).
Proof. exact convert_input_untouched. Qed.
Print Assumptions C17_input_untouched.

(* the output IS the input (e.g. a pickle file named m.skops in the cwd and no -o): nothing is read, logged or written *)
Theorem C17_same_file_refused : forall c,
  same_file c = true -> convert_run c = ([], CExc EValue) /\ convert_ops c = [].
Proof. exact convert_same_file_refused. Qed.
Print Assumptions C17_same_file_refused.

(* the former D29 witness *)
Theorem C17_input_clobber_repaired :
  cfits clobber_cfg clobber_fs = true
  /\ out_path clobber_cfg = in_path clobber_cfg
  /\ convert_run clobber_cfg = ([], CExc EValue)
  /\ apply_ops (mkenv None) clobber_fs (convert_ops clobber_cfg) = clobber_fs.
Proof. exact convert_input_clobber_repaired. Qed.
Print Assumptions C17_input_clobber_repaired.

(* success: the output holds exactly the bytes dumps returned; nothing else changed *)
Theorem C17_completes : forall e c st b,
  cfits c st = true -> same_file c = false -> k_saved c = Ok b -> k_outdir_ok c = true ->
  let fin := apply_ops e st (convert_ops c) in
  snd (convert_run c) = CDone
  /\ errs_of e st (convert_ops c) = [None; None; None; None]
  /\ (forall p, fget p (files fin) = if path_eqb p (out_path c) then Some b else fget p (files st))
  /\ dirs fin = dirs st.
Proof. exact convert_completes. Qed.
Print Assumptions C17_completes.

(* a WARNING record exists, at every verbosity, iff dumps succeeded and the audit's
   list is non-empty; it is the single record built from exactly that list *)
Theorem C17_warning_iff : forall c,
  warnings (fst (convert_run c)) =
    if same_file c then [] else
    match k_saved c, k_untrusted c with
    | Ok _, _ :: _ => [warn_text c]
    | _, _ => []
    end.
Proof. exact convert_warning_iff. Qed.
Print Assumptions C17_warning_iff.

Theorem C17_warning_text : forall c,
  warn_text c = s "While converting " ++ k_input c ++ s ", the following unknown types were found: "
                ++ join comma_sp (k_untrusted c) ++ s ". When loading " ++ out_text c
                ++ s " with skops.load, these types must be specified as 'trusted'".
Proof. exact warn_text_shape. Qed.
Print Assumptions C17_warning_text.

(* log filtering never hides a file operation *)
Theorem C17_run_ops : forall c, ops_of (fst (convert_run c)) = convert_ops c.
Proof. exact convert_run_ops. Qed.
Print Assumptions C17_run_ops.

(* the file written is dumps(obj), and loading it while trusting exactly what the
   audit reports gives an equivalent object; `dumps`, `loads`, `untrusted` are oracles
   for skops' codec and `roundtrip` is C05's statement, taken as the visible premise *)
Theorem C17_equiv :
  forall (obj : Type) (dumps : obj -> res bytes) (loads : bytes -> list pstr -> res obj)
         (untrusted : bytes -> list pstr) (equiv : obj -> obj -> Prop),
  (forall o b, dumps o = Ok b -> exists o', loads b (untrusted b) = Ok o' /\ equiv o' o) ->
  forall e c st o b,
    cfits c st = true -> same_file c = false -> k_saved c = dumps o -> dumps o = Ok b -> k_outdir_ok c = true ->
    fget (out_path c) (files (apply_ops e st (convert_ops c))) = Some b
    /\ exists o', loads b (untrusted b) = Ok o' /\ equiv o' o.
Proof. exact convert_equiv. Qed.
Print Assumptions C17_equiv.

(* the hypotheses (cfits, output <> input) are satisfiable and the warning case occurs *)
Theorem C17_nonvacuous :
  forallb (fun c => cfits c ex_cfs && negb (path_eqb (out_path c) (in_path c)))
    [ex_ccfg (Some (s "out.skops")) (Ok [9]); ex_ccfg None (Ok [9]); ex_ccfg (Some (s "sub/o.skops")) (Raise EUnsupported)] = true
  /\ warnings (fst (convert_run (ex_ccfg None (Ok [9])))) <> [].
Proof. exact cfits_examples. Qed.
Print Assumptions C17_nonvacuous.

(* C17_equiv with the oracle premise discharged on the C05 fragment: k_saved is instantiated with the dump model and the
   zip container (read-back oracle); the output file then unzips to an archive that the load model maps back to the
   unpickled value v itself *)
Theorem C17_result_loads_equal_partial :
  forall (zipc : nat -> nat -> CodecDump.archive -> bytes) (unzip : bytes -> option CodecDump.archive),
    (forall method level a, unzip (zipc method level a) = Some a) ->
    forall e c st reg cur (F : CodecLoad.cfacts) (D : CodecDump.denv) base v method level b,
    cfits c st = true -> same_file c = false -> k_outdir_ok c = true ->
    CodecDump.dn_cur D = cur -> CodecShareFacts.reg_ok reg cur = true -> CodecShareFacts.facts_sane F = true ->
    CodecFacts.c05_guard F D base v = true ->
    k_saved c = SinkFacts.save_model zipc D base v method level -> k_saved c = Ok b ->
    let fin := apply_ops e st (convert_ops c) in
    exists a, fget (out_path c) (files fin) = Some b
              /\ unzip b = Some a
              /\ CodecLoad.loads_model (CodecLoad.cenv_of reg cur F a) (CodecDump.a_schema a) = Ok v.
Proof. exact CliCodecFacts.convert_result_loads_equal_partial. Qed.
Print Assumptions C17_result_loads_equal_partial.
