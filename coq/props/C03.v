(* C03 -- the audit verdict is exact and load enforces exactly that verdict. *)
From Skv Require Import PyStr Json Node GetTree Unsafe UnsafeFacts AuditFacts SortFacts.
From Coq Require Import Sorted.
From Gen Require Import Snapshot.

(* Every archive, every fuel/path, every T: auditing with T = auditing without, minus T
   (same order, same exceptions) -- provided every node class builds its list from T. *)
Theorem C03_audit_is_filter :
  forall E T root, (forall tag, uses_T E tag = true) ->
  forall fuel path n,
    unsafe_g E (Some T) root fuel path n = map_res (filter (notin T)) (unsafe_g E None root fuel path n).
Proof. exact unsafe_g_filter. Qed.
Print Assumptions C03_audit_is_filter.

(* per-run obligation on the class table extracted from /repo: no class ignores the caller's list *)
Theorem C03_classes_use_T : forallb (fun e => fst (fst (snd e))) Snapshot.classes = true.
Proof. vm_compute. reflexivity. Qed.
Print Assumptions C03_classes_use_T.

(* load raises UntrustedTypesFoundException exactly when get_untrusted_types has a name not in T,
   and the exception names exactly the missing names; otherwise the audit does not block *)
Theorem C03_exact :
  forall E, e_classes E = Snapshot.classes ->
  forall j T G, get_untrusted_types E j = Ok G ->
    (exists t, load_audit E j (TList (Some T)) = Ok t /\ forall x, In x G -> In x T)
    \/ (exists U, load_audit E j (TList (Some T)) = Raise (EUntrusted U)
                  /\ U <> [] /\ forall x, In x U <-> In x G /\ ~ In x T).
Proof.
  intros E HE. apply load_verdict. unfold all_use_T. rewrite HE. exact C03_classes_use_T.
Qed.
Print Assumptions C03_exact.

Theorem C03_not_blocked :
  forall E, e_classes E = Snapshot.classes ->
  forall j T G, get_untrusted_types E j = Ok G -> (forall x, In x G -> In x T) ->
    exists t, load_audit E j (TList (Some T)) = Ok t.
Proof.
  intros E HE. apply load_not_blocked. unfold all_use_T. rewrite HE. exact C03_classes_use_T.
Qed.
Print Assumptions C03_not_blocked.

Theorem C03_blocked_exactly :
  forall E, e_classes E = Snapshot.classes ->
  forall j T G x, get_untrusted_types E j = Ok G -> In x G -> ~ In x T ->
    exists U, load_audit E j (TList (Some T)) = Raise (EUntrusted U) /\ In x U.
Proof.
  intros E HE. apply load_blocked_exactly. unfold all_use_T. rewrite HE. exact C03_classes_use_T.
Qed.
Print Assumptions C03_blocked_exactly.

(* enlarging T never changes a successfully audited tree (hence never the constructed result) *)
Theorem C03_monotone :
  forall E, e_classes E = Snapshot.classes ->
  forall j T T' t, (forall x, In x T -> In x T') ->
    load_audit E j (TList (Some T)) = Ok t -> load_audit E j (TList (Some T')) = Ok t.
Proof.
  intros E HE. apply load_monotone. unfold all_use_T. rewrite HE. exact C03_classes_use_T.
Qed.
Print Assumptions C03_monotone.

(* order, duplicates, list-vs-tuple of T are irrelevant *)
Theorem C03_T_as_set :
  forall E, e_classes E = Snapshot.classes ->
  forall j T T', (forall x, In x T <-> In x T') ->
    load_audit E j (TList (Some T)) = load_audit E j (TList (Some T')).
Proof.
  intros E HE j T T'. apply load_T_extensional. unfold all_use_T. rewrite HE. exact C03_classes_use_T.
Qed.
Print Assumptions C03_T_as_set.

Theorem C03_no_list :
  forall E j G, get_untrusted_types E j = Ok G ->
    match G with
    | [] => exists t, load_audit E j (TList None) = Ok t
    | _ => load_audit E j (TList None) = Raise (EUntrusted G)
    end.
Proof. exact load_none. Qed.
Print Assumptions C03_no_list.

(* an archive on which inspection raises makes load raise the same exception, whatever T *)
Theorem C03_error_same :
  forall E, e_classes E = Snapshot.classes ->
  forall j T e, get_untrusted_types E j = Raise e -> load_audit E j (TList T) = Raise e.
Proof.
  intros E HE. apply inspect_error_same. unfold all_use_T. rewrite HE. exact C03_classes_use_T.
Qed.
Print Assumptions C03_error_same.

Theorem C03_true_rejected : forall E j, load_audit E j TTrue = Raise ETrustedTrue.
Proof. exact trusted_true_rejected. Qed.
Print Assumptions C03_true_rejected.

(* the reported list has exactly the elements of the unsafe set *)
Theorem C03_report_elements : forall y l, In y (sort_dedup l) <-> In y l.
Proof. exact sort_dedup_In. Qed.
Print Assumptions C03_report_elements.

(* ... and it is strictly increasing in Python's string order: sorted and duplicate-free *)
Theorem C03_report_canonical :
  forall E schema G, get_untrusted_types E schema = Ok G -> StronglySorted plt G /\ NoDup G.
Proof.
  intros E schema G. unfold get_untrusted_types. destruct (root_tree E schema) as [[t m]|]; cbn [bind]; [|discriminate].
  unfold untrusted_of. destruct (unsafe E None t t); cbn [bind]; [|discriminate].
  intros X; injection X as <-. split; [apply sort_dedup_sorted | apply sort_dedup_nodup].
Qed.
Print Assumptions C03_report_canonical.

(* non-vacuity: a two-node archive naming an untrusted function *)
Definition ex_env : env :=
  {| e_reg := Snapshot.registry; e_cur := Snapshot.current; e_classes := Snapshot.classes;
     e_unavailable := Snapshot.unavailable; e_members := []; e_resolve := [] |}.
Definition ex_schema : json :=
  JObj [(s "__class__", JStr (s "list")); (s "__module__", JStr (s "builtins"));
        (s "__loader__", JStr (s "ListNode")); (s "__id__", JInt 1%Z);
        (s "content", JArr [JObj [(s "__class__", JStr (s "getcwd")); (s "__module__", JStr (s "os"));
                                  (s "__loader__", JStr (s "FunctionNode")); (s "__id__", JInt 2%Z)]]);
        (s "protocol", JInt Snapshot.current)].
Example C03_nonvacuous :
  get_untrusted_types ex_env ex_schema = Ok [s "os.getcwd"]
  /\ load_audit ex_env ex_schema (TList (Some [])) = Raise (EUntrusted [s "os.getcwd"])
  /\ exists t, load_audit ex_env ex_schema (TList (Some [s "x.y"; s "os.getcwd"])) = Ok t.
Proof. split; [vm_compute; reflexivity|]. split; [vm_compute; reflexivity|]. eexists. vm_compute. reflexivity. Qed.
