(* Python strings as lists of code points, with the handful of str methods
   the modelled code uses.  Model only: proofs live in *Facts.v files. *)
From Coq Require Export String Ascii.
From Coq Require Export List NArith ZArith Bool.
Export ListNotations.
Open Scope N_scope.

Definition pstr := list N.

Fixpoint pstr_eqb (a b : pstr) : bool :=
  match a, b with
  | [], [] => true
  | x :: a', y :: b' => N.eqb x y && pstr_eqb a' b'
  | _, _ => false
  end.

(* ASCII literals written in generated files:  (s "numpy.ndarray") *)
Fixpoint of_ascii (t : string) : pstr :=
  match t with
  | EmptyString => []
  | String c t' => N_of_ascii c :: of_ascii t'
  end.
Notation s := of_ascii (only parsing).

Definition dot : N := 46.
Definition slash : N := 47.
Definition backslash : N := 92.

(* module_name + "." + type_name *)
Definition qual (m c : pstr) : pstr := m ++ dot :: c.

Fixpoint mem (x : pstr) (l : list pstr) : bool :=
  match l with
  | [] => false
  | y :: l' => pstr_eqb x y || mem x l'
  end.

(* str.isspace() for a single code point: exactly the code points stripped by
   str.strip() with no argument (CPython _PyUnicode_IsWhitespace). *)
Definition is_space (c : N) : bool :=
  ((9 <=? c) && (c <=? 13)) || ((28 <=? c) && (c <=? 32))
  || (c =? 133) || (c =? 160) || (c =? 5760)
  || ((8192 <=? c) && (c <=? 8202))
  || (c =? 8232) || (c =? 8233) || (c =? 8239) || (c =? 8287) || (c =? 12288).

Fixpoint lstrip (a : pstr) : pstr :=
  match a with
  | c :: a' => if is_space c then lstrip a' else a
  | [] => []
  end.
Definition rstrip (a : pstr) : pstr := rev (lstrip (rev a)).
Definition strip (a : pstr) : pstr := rstrip (lstrip a).

(* str.split(sep) for a one-character separator: never returns []. *)
Fixpoint split_on (sep : N) (a : pstr) : list pstr :=
  match a with
  | [] => [[]]
  | c :: a' =>
      if N.eqb c sep then [] :: split_on sep a'
      else match split_on sep a' with
           | p :: ps => (c :: p) :: ps
           | [] => [[c]]            (* unreachable: split_on never returns [] *)
           end
  end.

(* str.join *)
Fixpoint join (sep : pstr) (l : list pstr) : pstr :=
  match l with
  | [] => []
  | [x] => x
  | x :: l' => x ++ sep ++ join sep l'
  end.

(* lexicographic order on code points = Python's str ordering *)
Fixpoint pstr_ltb (a b : pstr) : bool :=
  match a, b with
  | [], [] => false
  | [], _ :: _ => true
  | _ :: _, [] => false
  | x :: a', y :: b' => if x <? y then true else if y <? x then false else pstr_ltb a' b'
  end.

Fixpoint insert_sorted (x : pstr) (l : list pstr) : list pstr :=
  match l with
  | [] => [x]
  | y :: l' => if pstr_eqb x y then l
               else if pstr_ltb x y then x :: l else y :: insert_sorted x l'
  end.
(* sorted(set(l)) *)
Definition sort_dedup (l : list pstr) : list pstr := fold_right insert_sorted [] l.
