From Skv Require Import PyStr.
From Coq Require Import Lia.

Lemma pstr_eqb_eq a b : pstr_eqb a b = true <-> a = b.
Proof.
  revert b; induction a as [|x a IH]; intros [|y b]; simpl; split; intro H;
    try reflexivity; try discriminate.
  - apply andb_true_iff in H as [H1 H2]. apply N.eqb_eq in H1. apply IH in H2. congruence.
  - injection H as -> ->. rewrite N.eqb_refl. simpl. apply IH. reflexivity.
Qed.

Lemma pstr_eqb_refl a : pstr_eqb a a = true.
Proof. apply pstr_eqb_eq. reflexivity. Qed.

Lemma pstr_eqb_neq a b : pstr_eqb a b = false <-> a <> b.
Proof.
  split; intro H.
  - intro E. apply pstr_eqb_eq in E. congruence.
  - destruct (pstr_eqb a b) eqn:E; [apply pstr_eqb_eq in E; contradiction | reflexivity].
Qed.

Lemma pstr_eqb_sym a b : pstr_eqb a b = pstr_eqb b a.
Proof.
  destruct (pstr_eqb a b) eqn:E.
  - apply pstr_eqb_eq in E. subst. symmetry. apply pstr_eqb_refl.
  - symmetry. apply pstr_eqb_neq. apply pstr_eqb_neq in E. congruence.
Qed.

Lemma mem_In x l : mem x l = true <-> In x l.
Proof.
  induction l as [|y l IH]; simpl.
  - split; [discriminate | tauto].
  - rewrite orb_true_iff, IH, pstr_eqb_eq. split; intros [H|H]; auto.
Qed.

Lemma mem_app x l1 l2 : mem x (l1 ++ l2) = mem x l1 || mem x l2.
Proof. induction l1 as [|y l1 IH]; simpl; [reflexivity|]. rewrite IH. apply orb_assoc. Qed.
