(* sort_dedup returns a strictly increasing list (hence sorted and duplicate-free) with the same elements. *)
From Skv Require Import PyStr PyStrFacts.
From Coq Require Import Lia Sorted.

Definition plt (a b : pstr) : Prop := pstr_ltb a b = true.

Lemma ltb_irrefl a : pstr_ltb a a = false.
Proof. induction a as [|x a IH]; cbn [pstr_ltb]; [reflexivity|]. rewrite N.ltb_irrefl. exact IH. Qed.

Lemma ltb_trans : forall a b c, plt a b -> plt b c -> plt a c.
Proof.
  unfold plt. induction a as [|x a IH]; intros [|y b] [|z c]; cbn [pstr_ltb]; intros H1 H2; try discriminate; try reflexivity.
  destruct (N.ltb_spec x y) as [Lxy|Gxy].
  - destruct (N.ltb_spec y z) as [Lyz|Gyz].
    + assert (x < z)%N by lia. destruct (N.ltb_spec x z); [reflexivity | lia].
    + destruct (N.ltb_spec z y); [discriminate|]. assert (y = z) by lia. subst.
      destruct (N.ltb_spec x z); [reflexivity | lia].
  - destruct (N.ltb_spec y x); [discriminate|]. assert (x = y) by lia. subst.
    destruct (N.ltb_spec y z) as [Lyz|Gyz]; [reflexivity|].
    destruct (N.ltb_spec z y); [discriminate|]. eapply IH; eauto.
Qed.

Lemma ltb_total : forall a b, pstr_ltb a b = false -> pstr_eqb a b = false -> pstr_ltb b a = true.
Proof.
  induction a as [|x a IH]; intros [|y b]; cbn [pstr_ltb pstr_eqb]; intros H1 H2; try discriminate; try reflexivity.
  destruct (N.ltb_spec x y); [discriminate|]. destruct (N.ltb_spec y x); [reflexivity|].
  assert (x = y) by lia. subst. rewrite N.eqb_refl in H2. cbn [andb] in H2. apply IH; assumption.
Qed.

Lemma ltb_neq a b : plt a b -> a <> b.
Proof. intros H ->. unfold plt in H. rewrite ltb_irrefl in H. discriminate. Qed.

Lemma insert_sorted_lb x l y :
  plt y x -> Forall (plt y) l -> Forall (plt y) (insert_sorted x l).
Proof.
  intros Hyx. induction l as [|z l IH]; intros Hl; cbn [insert_sorted]; [constructor; [exact Hyx | constructor]|].
  destruct (pstr_eqb x z); [exact Hl|]. destruct (pstr_ltb x z).
  - constructor; [exact Hyx | exact Hl].
  - inversion Hl; subst. constructor; [assumption | apply IH; assumption].
Qed.

Lemma insert_sorted_sorted x l : StronglySorted plt l -> StronglySorted plt (insert_sorted x l).
Proof.
  induction l as [|z l IH]; intros Hs; cbn [insert_sorted]; [repeat constructor|].
  destruct (pstr_eqb x z) eqn:E; [exact Hs|]. destruct (pstr_ltb x z) eqn:L.
  - constructor; [exact Hs|]. inversion Hs as [|? ? Hs' Hall]; subst. constructor; [exact L|].
    eapply Forall_impl; [|exact Hall]. intros w Hw. eapply ltb_trans; eauto.
  - inversion Hs as [|? ? Hs' Hall]; subst. constructor; [apply IH; exact Hs'|].
    apply insert_sorted_lb; [|exact Hall]. apply ltb_total; [exact L|]. rewrite pstr_eqb_sym in E.
    rewrite pstr_eqb_sym. exact E.
Qed.

Theorem sort_dedup_sorted l : StronglySorted plt (sort_dedup l).
Proof. induction l as [|x l IH]; cbn; [constructor | apply insert_sorted_sorted; exact IH]. Qed.

Theorem sort_dedup_nodup l : NoDup (sort_dedup l).
Proof.
  pose proof (sort_dedup_sorted l) as H. induction H as [|x l' Hs IH Hall]; constructor; [|exact IH].
  intro Hin. rewrite Forall_forall in Hall. apply (ltb_neq x x (Hall x Hin)). reflexivity.
Qed.
