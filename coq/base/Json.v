(* Results with a Python-exception enum; JSON values after json.loads; and the
   duck-typed accessor layer that the Node constructors apply to a state. *)
From Skv Require Export PyStr Corr.

Inductive err :=
| EUntrusted (names : list pstr)   (* UntrustedTypesFoundException, sorted names *)
| ENoLoader (loader : pstr)        (* TypeError "Can't find loader" *)
| ETrustedTrue                     (* TypeError: trusted=True *)
| EKey | EType | EValue | EAttr | EImport | ERecursion | EUnsupported | EOther
| EFuel                            (* model artefact: excluded by every theorem *)
| EDomain.                         (* input outside the modelled domain (e.g. repr of a container in a name slot) *)

Inductive res (A : Type) := Ok (a : A) | Raise (e : err).
Arguments Ok {A} a.
Arguments Raise {A} e.

Definition bind {A B} (r : res A) (f : A -> res B) : res B :=
  match r with Ok a => f a | Raise e => Raise e end.
Notation "'do' x <- r ; k" := (bind r (fun x => k))
  (at level 200, x pattern, r at level 100, k at level 200, right associativity).

(* Floats that occur in hand-built archives are modelled as half-integers
   (value = twice/2): enough for Python's cross-type numeric equality
   1 == 1.0 == True on ids / protocol numbers, and for truthiness. *)
Inductive json :=
| JNull
| JBool (b : bool)
| JInt (z : Z)
| JFloat (twice : Z)
| JStr (t : pstr)
| JArr (l : list json)
| JObj (kv : list (pstr * json)).

Fixpoint dget {A} (k : pstr) (d : list (pstr * A)) : option A :=
  match d with
  | [] => None
  | (k', v) :: d' => if pstr_eqb k k' then Some v else dget k d'
  end.

(* state[k] with k a str *)
Definition jindex (j : json) (k : pstr) : res json :=
  match j with
  | JObj kv => match dget k kv with Some v => Ok v | None => Raise EKey end
  | JArr _ | JStr _ => Raise EType      (* list/str indices must be integers *)
  | _ => Raise EType                    (* not subscriptable *)
  end.

(* state.get(k) *)
Definition jget (j : json) (k : pstr) : res json :=
  match j with
  | JObj kv => match dget k kv with Some v => Ok v | None => Ok JNull end
  | _ => Raise EAttr
  end.

(* state.items() *)
Definition jitems (j : json) : res (list (pstr * json)) :=
  match j with JObj kv => Ok kv | _ => Raise EAttr end.

(* for v in state *)
Definition jiter (j : json) : res (list json) :=
  match j with
  | JArr l => Ok l
  | JObj kv => Ok (map (fun p => JStr (fst p)) kv)
  | JStr t => Ok (map (fun c => JStr [c]) t)
  | _ => Raise EType
  end.

(* bool(state) *)
Definition jtruthy (j : json) : bool :=
  match j with
  | JNull => false
  | JBool b => b
  | JInt z => negb (Z.eqb z 0)
  | JFloat t => negb (Z.eqb t 0)
  | JStr t => match t with [] => false | _ => true end
  | JArr l => match l with [] => false | _ => true end
  | JObj kv => match kv with [] => false | _ => true end
  end.

(* Hashable scalar keys, as Python's dict sees them: numbers (bool, int,
   integral and non-integral float) compare by value across types. *)
Inductive hkey := HNone | HNum (twice : Z) | HStr (t : pstr).

Definition jhash (j : json) : res hkey :=
  match j with
  | JNull => Ok HNone
  | JBool b => Ok (HNum (if b then 2 else 0))
  | JInt z => Ok (HNum (2 * z))
  | JFloat t => Ok (HNum t)
  | JStr t => Ok (HStr t)
  | JArr _ | JObj _ => Raise EType     (* unhashable *)
  end.

Definition hkey_eqb (a b : hkey) : bool :=
  match a, b with
  | HNone, HNone => true
  | HNum x, HNum y => Z.eqb x y
  | HStr x, HStr y => pstr_eqb x y
  | _, _ => false
  end.

(* x == "literal" for an arbitrary JSON value x *)
Definition jstr_eqb (j : json) (t : pstr) : bool :=
  match j with JStr u => pstr_eqb u t | _ => false end.

(* str + str concatenation as used in  module + "." + cls  : TypeError unless both str *)
Definition jqual (m c : json) : res pstr :=
  match m, c with
  | JStr a, JStr b => Ok (qual a b)
  | _, _ => Raise EType
  end.

Fixpoint jdepth (j : json) : nat :=
  match j with
  | JArr l => S (fold_right (fun x acc => Nat.max (jdepth x) acc) O l)
  | JObj kv => S (fold_right (fun p acc => Nat.max (jdepth (snd p)) acc) O kv)
  | _ => O
  end.

(* f"{x}" for the JSON values whose formatting is modelled *)
Definition jfmt (j : json) : option pstr :=
  match j with
  | JNull => Some (s "None")
  | JBool true => Some (s "True")
  | JBool false => Some (s "False")
  | JStr t => Some t
  | JInt z => Some (show_Z z)
  | JFloat t =>        (* half-integers: repr is d.0 or d.5 *)
      let a := Z.abs t in
      Some ((if (t <? 0)%Z then [45%N] else []) ++ show_Z (a / 2)
            ++ (if (a mod 2 =? 0)%Z then s ".0" else s ".5"))
  | _ => None          (* repr of a container in a name slot: outside the modelled domain *)
  end.


Definition show_json_short (j : json) : pstr :=
  match jfmt j with Some t => t | None => s "?" end.
