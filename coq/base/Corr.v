(* Correspondence plumbing: the harness writes (input, implementation's
   canonical output) pairs; the model's canonical output is computed here and
   only the disagreements are printed, as one flat list of numbers
   [index; length; code points ...; index; length; ...]. *)
From Skv Require Export PyStr.

Fixpoint mismatches_from {A} (run : A -> pstr) (i : N) (cases : list (A * pstr)) : list N :=
  match cases with
  | [] => []
  | (a, expected) :: cs =>
      let got := run a in
      if pstr_eqb got expected then mismatches_from run (i + 1) cs
      else i :: N.of_nat (length got) :: got ++ mismatches_from run (i + 1) cs
  end.
Definition mismatches {A} (run : A -> pstr) (cases : list (A * pstr)) : list N :=
  mismatches_from run 0 cases.

(* decimal rendering of numbers inside canonical outputs *)
Fixpoint show_pos_fuel (fuel : nat) (n : N) (acc : pstr) : pstr :=
  match fuel with
  | O => acc
  | S f => let d := (48 + n mod 10)%N in
           if (n <? 10)%N then d :: acc else show_pos_fuel f (n / 10)%N (d :: acc)
  end.
Definition show_N (n : N) : pstr := show_pos_fuel (S (N.to_nat (N.log2 n))) n [].
Definition show_Z (z : Z) : pstr :=
  match z with
  | Z0 => [48%N]
  | Zpos p => show_N (Npos p)
  | Zneg p => 45%N :: show_N (Npos p)
  end.
Definition show_bool (b : bool) : pstr := if b then [49%N] else [48%N].
