(* skops/card/_parser.py : PandocParser.generate as an executable function on
   the typed pandoc block list, plus the canonical texts used by the
   correspondence.  Follows the tree with the fixes for D18 (sections are
   addressed by title lists, never by a "/"-joined key) and D19 (the header
   trace keeps the levels and pops every entry that is not of a lower level).
   Model only -- proofs are in ParserFacts.v. *)
From Skv Require Export PyStr Json Markup ParserCard.
Open Scope N_scope.

(* PandocParser._post_process *)
Definition post (t : pstr) : pstr :=
  replace [45; 32; 9744] (s "- [ ]") (replace [45; 32; 9746] (s "- [x]") (replace1 160 [32] t)).

(* section_levels / section_trace, LAST entry FIRST *)
Definition trace := list (Z * pstr).

(* while section_levels and section_levels[-1] >= level: pop *)
Fixpoint popge (lvl : Z) (tr : trace) : trace :=
  match tr with
  | [] => []
  | (l, t) :: tr' => if (lvl <=? l)%Z then popge lvl tr' else tr
  end.

Definition trace_path (tr : trace) : list pstr := rev (map snd tr).

(* loop state of generate: the card, the header trace, Markdown._indent_trace.
   `section` (the current Section object) is the one at trace_path tr; it is
   None exactly as long as no header was seen, i.e. while tr = []. *)
Fixpoint gen (bs : list block) (card : secs) (tr : trace) (st : stack) : stack * res secs :=
  match bs with
  | [] => (st, Ok card)
  | b :: bs' =>
      match mdb b st with
      | (st', Raise e) => (st', Raise e)
      | (st', Ok text) =>
          let r := post text in
          match b with
          | Header lvl _ _ =>
              let tr' := (lvl, r) :: popge lvl tr in
              gen bs' (add_section (trace_path tr') card) tr' st'
          | _ =>
              match tr with
              | [] => (st', Raise EValue)      (* "Trying to add content but there is no current section" *)
              | _ => gen bs' (add_content (trace_path tr) r card) tr st'
              end
          end
      end
  end.

Definition generate (bs : list block) : res secs := snd (gen bs [] [] []).

(* ------------------------------------------------------------------ *)
(* the same loop on already converted blocks (no Markdown instance)     *)

Inductive item := IH (lvl : Z) (title : pstr) | IC (text : pstr).

Fixpoint build (its : list item) (card : secs) (tr : trace) : res secs :=
  match its with
  | [] => Ok card
  | IH lvl t :: its' =>
      let tr' := (lvl, t) :: popge lvl tr in
      build its' (add_section (trace_path tr') card) tr'
  | IC t :: its' =>
      match tr with
      | [] => Raise EValue
      | _ => build its' (add_content (trace_path tr) t card) tr
      end
  end.

(* what a block contributes when it is converted by a FRESH Markdown instance *)
Definition item_of (b : block) : list item :=
  match snd (mdb b []) with
  | Ok t => match b with Header lvl _ _ => [IH lvl (post t)] | _ => [IC (post t)] end
  | Raise _ => []
  end.
Definition doc_items (bs : list block) : list item := flat_map item_of bs.

(* ------------------------------------------------------------------ *)
(* SPECIFICATION (property C15): one section per header, nested under   *)
(* the nearest preceding header of lower level, title verbatim; every   *)
(* other block's text once, in order, in the section it follows         *)

(* prev_rev = the headers before this one, NEAREST FIRST.  The chain of
   ancestors of a header of level lvl: the nearest preceding header of a
   lower level, then that one's nearest preceding header of lower level ... *)
Fixpoint ancs (prev_rev : list (Z * pstr)) (lvl : Z) : list (Z * pstr) :=
  match prev_rev with
  | [] => []
  | (l, t) :: r => if (l <? lvl)%Z then (l, t) :: ancs r l else ancs r lvl
  end.
Definition spec_path (prev_rev : list (Z * pstr)) (lvl : Z) (t : pstr) : list pstr :=
  rev (map snd (ancs prev_rev lvl)) ++ [t].

Fixpoint texts_until_header (its : list item) : list pstr :=
  match its with
  | IC t :: r => t :: texts_until_header r
  | _ => []
  end.

(* Section.content after _add_content was called with each text in turn *)
Definition acc_content (ts : list pstr) : pstr := fold_left add_text ts [].

Fixpoint spec_sections (prev_rev : list (Z * pstr)) (its : list item) : list (list pstr * pstr) :=
  match its with
  | [] => []
  | IH l t :: r => (spec_path prev_rev l t, acc_content (texts_until_header r))
                   :: spec_sections ((l, t) :: prev_rev) r
  | IC _ :: r => spec_sections prev_rev r
  end.
Definition spec_outline (its : list item) : list (list pstr) := map fst (spec_sections [] its).

(* the guard left by D20: no two headers with the same title under the same parent *)
Fixpoint path_eqb (a b : list pstr) : bool :=
  match a, b with
  | [], [] => true
  | x :: a', y :: b' => pstr_eqb x y && path_eqb a' b'
  | _, _ => false
  end.
Fixpoint path_mem (p : list pstr) (l : list (list pstr)) : bool :=
  match l with [] => false | q :: l' => path_eqb p q || path_mem p l' end.
Fixpoint nodupb (l : list (list pstr)) : bool :=
  match l with [] => true | p :: l' => negb (path_mem p l') && nodupb l' end.
Definition headers_ok (bs : list block) : bool := nodupb (spec_outline (doc_items bs)).

(* the dropped leading empty texts of acc_content *)
Fixpoint drop_empty (ts : list pstr) : list pstr :=
  match ts with [] :: r => drop_empty r | _ => ts end.

(* ------------------------------------------------------------------ *)
(* canonical texts for the correspondence                              *)

Definition show_err (e : err) : pstr :=
  match e with
  | EKey => s "EKey" | EType => s "EType" | EValue => s "EValue" | EAttr => s "EAttr"
  | EFuel => s "EFuel"
  | _ => s "EOther"
  end.

Definition show_res (r : res pstr) : pstr :=
  match r with Ok t => s "OK:" ++ t | Raise e => s "E:" ++ show_err e end.

Definition show_sections (d : secs) : pstr :=
  concat (map (fun ps => join [1] (fst ps) ++ [2] ++
                         sec_title (snd ps) ++ [2] ++ sec_content (snd ps) ++ [3]) (walk d)).

Definition show_card (r : res secs) : pstr :=
  match r with
  | Raise e => s "E:" ++ show_err e
  | Ok d => s "OK" ++ [0] ++ get_toc d ++ [0] ++ render d ++ [0] ++ show_sections d
            ++ [0] ++ concat (map (fun p => join [1] p ++ [3]) (outline d))
  end.

Definition show_generate (bs : list block) : pstr := show_card (generate bs).

(* several __call__s on one Markdown instance: results separated by U+0000,
   followed by the final indentation trace *)
Definition show_seq (xs : list elem) : pstr :=
  let '(st, rs) := md_seq [] xs in
  concat (map (fun r => show_res r ++ [0]) rs) ++ s "STACK:" ++ join [44] (map show_Z (rev st)).

(* Corr.mismatches with the model's text cut to its first n code points: canonical
   texts of whole cards are long, and printing many of them overflows coqc's stack *)
Fixpoint mismatches_trunc_from {A} (n : nat) (run : A -> pstr) (i : N) (cases : list (A * pstr)) : list N :=
  match cases with
  | [] => []
  | (a, expected) :: cs =>
      let got := run a in
      if pstr_eqb got expected then mismatches_trunc_from n run (i + 1) cs
      else let g := firstn n got in
           i :: N.of_nat (length g) :: g ++ mismatches_trunc_from n run (i + 1) cs
  end.
Definition mismatches_trunc {A} (n : nat) (run : A -> pstr) (cases : list (A * pstr)) : list N :=
  mismatches_trunc_from n run 0 cases.
