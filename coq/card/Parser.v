(* skops/card/_parser.py : PandocParser.generate as an executable function on
   the typed pandoc block list, plus the canonical texts used by the
   correspondence.  Follows the tree with the fixes for D18 (sections are
   addressed by title lists, never by a "/"-joined key) and D19 (the header
   trace keeps the levels and pops every entry that is not of a lower level).
   Model only -- proofs are in ParserFacts.v. *)
From Skv Require Export PyStr Json Markup ParserCard.
Open Scope N_scope.

(* PandocParser._post_process *)
Definition post (t : pstr) : pstr :=
  replace [45; 32; 9744] (s "- [ ]") (replace [45; 32; 9746] (s "- [x]") (replace1 160 [32] t)).

(* section_levels / section_trace, LAST entry FIRST *)
Definition trace := list (Z * pstr).

(* while section_levels and section_levels[-1] >= level: pop *)
Fixpoint popge (lvl : Z) (tr : trace) : trace :=
  match tr with
  | [] => []
  | (l, t) :: tr' => if (lvl <=? l)%Z then popge lvl tr' else tr
  end.

Definition trace_path (tr : trace) : list pstr := rev (map snd tr).

(* loop state of generate: the card, the header trace, Markdown._indent_trace.
   `section` (the current Section object) is the one at trace_path tr; it is
   None exactly as long as no header was seen, i.e. while tr = []. *)
Fixpoint gen (bs : list block) (card : secs) (tr : trace) (st : stack) : stack * res secs :=
  match bs with
  | [] => (st, Ok card)
  | b :: bs' =>
      match mdb b st with
      | (st', Raise e) => (st', Raise e)
      | (st', Ok text) =>
          let r := post text in
          match b with
          | Header lvl _ _ =>
              let tr' := (lvl, r) :: popge lvl tr in
              gen bs' (add_section (trace_path tr') card) tr' st'
          | _ =>
              match tr with
              | [] => (st', Raise EValue)      (* "Trying to add content but there is no current section" *)
              | _ => gen bs' (add_content (trace_path tr) r card) tr st'
              end
          end
      end
  end.

Definition generate (bs : list block) : res secs := snd (gen bs [] [] []).

(* ------------------------------------------------------------------ *)
(* canonical texts for the correspondence                              *)

Definition show_err (e : err) : pstr :=
  match e with
  | EKey => s "EKey" | EType => s "EType" | EValue => s "EValue" | EAttr => s "EAttr"
  | EFuel => s "EFuel"
  | _ => s "EOther"
  end.

Definition show_res (r : res pstr) : pstr :=
  match r with Ok t => s "OK:" ++ t | Raise e => s "E:" ++ show_err e end.

Definition show_sections (d : secs) : pstr :=
  concat (map (fun ps => join [1] (fst ps) ++ [2] ++
                         sec_title (snd ps) ++ [2] ++ sec_content (snd ps) ++ [3]) (walk d)).

Definition show_card (r : res secs) : pstr :=
  match r with
  | Raise e => s "E:" ++ show_err e
  | Ok d => s "OK" ++ [0] ++ get_toc d ++ [0] ++ render d ++ [0] ++ show_sections d
            ++ [0] ++ concat (map (fun p => join [1] p ++ [3]) (outline d))
  end.

Definition show_generate (bs : list block) : pstr := show_card (generate bs).

(* several __call__s on one Markdown instance: results separated by U+0000,
   followed by the final indentation trace *)
Definition show_seq (xs : list elem) : pstr :=
  let '(st, rs) := md_seq [] xs in
  concat (map (fun r => show_res r ++ [0]) rs) ++ s "STACK:" ++ join [44] (map show_Z (rev st)).
