(* Canonical text of what the correspondence observes after every operation.
   Separators are numbers >= 0x110000, which no Python str can contain.
   harness/impl_card.py computes the same text from the real Card. *)
From Skv Require Export Ops Render Init.
Open Scope N_scope.

Definition U (n : N) : N := 1114112 + n.

Definition show_flag (b : bool) : pstr := if b then [49] else [48].

Definition show_err (e : err) : pstr :=
  match e with
  | EKey => s "KeyError"
  | EValue => s "ValueError"
  | EType => s "TypeError"
  | _ => s "other"
  end.

Definition show_kind (k : kind) : pstr :=
  match k with
  | KText => [84]
  | KPlot p a => [80] ++ [U 4] ++ p ++ [U 4] ++ a
  | KTable cols =>
      [66] ++ concat (map (fun col => U 4 :: fst col ++ concat (map (fun cell => U 5 :: cell) (snd col))) cols)
  end.

Definition show_node (x : section) : pstr :=
  title x ++ [U 0] ++ content x ++ [U 0] ++ show_flag (visible x) ++ show_flag (folded x) ++ [U 0]
  ++ show_kind (skind x) ++ [U 0] ++ concat (map (fun k => U 3 :: k) (keys (subs x))).

Definition show_outcome (r : outcome) : pstr :=
  match r with
  | Done => s "ok"
  | Selected x => s "sel" ++ [U 0] ++ show_node x
  | Failed e => show_err e
  end.

Definition show_opt (o : option pstr) : pstr := match o with Some t => t | None => [U 9] end.

Record obs_mode := mkMode {
  m_toc : bool; m_render : bool; m_save : bool; m_nodes : bool; m_addr : bool; m_format : bool; m_metrics : bool }.

(* the oracle as a finite table recorded from the real PrettyTable in this run *)
Fixpoint cols_eqb (a b : list (list pstr)) : bool :=
  match a, b with
  | [], [] => true
  | x :: a', y :: b' => path_eqb x y && cols_eqb a' b'
  | _, _ => false
  end.
Definition oracle_table := list ((list pstr * list (list pstr)) * option pstr).
Fixpoint pretty_of (tab : oracle_table) (h : list pstr) (c : list (list pstr)) : option pstr :=
  match tab with
  | [] => Some [U 8]                       (* inputs the real code never handed to PrettyTable *)
  | ((h', c'), out) :: tab' => if path_eqb h h' && cols_eqb c c' then out else pretty_of tab' h c
  end.

Section Obs.
Variable pretty : list pstr -> list (list pstr) -> option pstr.
Variable mode : obs_mode.

Definition show_select (r : res section) : pstr :=
  match r with Ok x => s "sel" ++ [U 0] ++ show_node x | Raise e => show_err e end.

Definition show_path_node (d : dict) (p : list pstr) : pstr :=
  U 2 :: concat (map (fun k => U 3 :: k) p) ++ [U 0]
  ++ match lookup p d with
     | Some x =>
         show_node x
         ++ (if m_addr mode then U 6 :: show_select (card_select (path_string p) d) else [])
         ++ (if m_format mode then U 6 :: show_opt (format pretty x) else [])
     | None => [U 8]
     end.

Definition show_state (c : card) : pstr :=
  let d := data c in
  (if m_toc mode then U 1 :: get_toc d else [])
  ++ (if m_render mode then U 1 :: show_opt (render pretty d) else [])
  ++ (if m_save mode then U 1 :: match save_bytes pretty false d with Some b => b | None => [U 9] end else [])
  ++ (if m_nodes mode then U 1 :: concat (map (show_path_node d) (paths d)) else [])
  ++ (if m_metrics mode
      then U 1 :: concat (map (fun kv => U 3 :: fst kv ++ [U 4] ++ snd kv) (metrics c)) else []).

Fixpoint show_run (ops : list op) (c : card) : pstr :=
  match ops with
  | [] => []
  | o :: ops' => let (c1, r) := run_op o c in
                 U 7 :: show_outcome r ++ show_state c1 ++ show_run ops' c1
  end.
End Obs.

(* one correspondence case: the card constructed from (template, model_diagram, get_params oracle, HTML oracle) -- step 0,
   with the constructor's outcome and the state of the new card -- then the operation sequence, with this run's oracle
   table.  When the constructor raises there is no card: nothing else is observed.  cfg = this run's Gen/CardSnapshot.cfg.
   init_spec (TNone, DBool false, [], []) is Card(model, template=None, model_diagram=False): the empty card. *)
Definition init_spec := (template * diagram * list (pstr * pstr) * pstr)%type.

Definition show_case (cfg : config) (mode : obs_mode) (cs : oracle_table * init_spec * list op) : pstr :=
  let '(tab, (t, dg, params, html), ops) := cs in
  let (c0, r) := init_card cfg t dg params html in
  U 7 :: show_outcome r
  ++ match r with
     | Failed _ => []
     | _ => show_state (pretty_of tab) mode c0 ++ show_run (pretty_of tab) mode ops c0
     end.

(* Compact disagreement report (the observations are long): for every case whose text differs,
   [case index; index of the first differing step; length; the model's text of that step]. *)
Fixpoint first_diff (i : N) (xs ys : list pstr) : option (N * pstr) :=
  match xs, ys with
  | [], [] => None
  | x :: xs', y :: ys' => if pstr_eqb x y then first_diff (i + 1) xs' ys' else Some (i, y)
  | [], y :: _ => Some (i, y)
  | _ :: _, [] => Some (i, [])
  end.

Fixpoint report_from {A} (run : A -> pstr) (i : N) (cases : list (A * pstr)) : list N :=
  match cases with
  | [] => []
  | (a, expected) :: cs =>
      let got := run a in
      if pstr_eqb got expected then report_from run (i + 1) cs
      else match first_diff 0 (split_on (U 7) expected) (split_on (U 7) got) with
           | Some (step, txt) => i :: step :: N.of_nat (length txt) :: txt ++ report_from run (i + 1) cs
           | None => i :: 0 :: 0 :: report_from run (i + 1) cs
           end
  end.
Definition report {A} (run : A -> pstr) (cases : list (A * pstr)) : list N := report_from run 0 cases.

(* The same report for very long observations (real sklearn diagrams: ~50k code points per step): tail recursive
   throughout, and instead of the whole step only a window of the model's text around the first differing position:
   [case index; step; 1 + window length; offset of the window in the step; window]. *)
Fixpoint split_tr (sep : N) (a cur : pstr) (acc : list pstr) : list pstr :=
  match a with
  | [] => rev_append acc [rev_append cur []]
  | c :: a' => if c =? sep then split_tr sep a' [] (rev_append cur [] :: acc) else split_tr sep a' (c :: cur) acc
  end.

Fixpoint first_diff2 (i : N) (xs ys : list pstr) : option (N * pstr * pstr) :=
  match xs, ys with
  | [], [] => None
  | x :: xs', y :: ys' => if pstr_eqb x y then first_diff2 (i + 1) xs' ys' else Some (i, x, y)
  | [], y :: _ => Some (i, [], y)
  | x :: _, [] => Some (i, x, [])
  end.

Fixpoint diff_pos (i : N) (a b : pstr) : N :=
  match a, b with
  | x :: a', y :: b' => if x =? y then diff_pos (i + 1) a' b' else i
  | _, _ => i
  end.

Fixpoint take_tr (n : nat) (a acc : pstr) : pstr :=
  match n, a with
  | S n', c :: a' => take_tr n' a' (c :: acc)
  | _, _ => rev_append acc []
  end.

Fixpoint report_clipped_from {A} (cap : N) (run : A -> pstr) (i : N) (cases : list (A * pstr)) (acc : list N) : list N :=
  match cases with
  | [] => rev_append acc []
  | (a, expected) :: cs =>
      let got := run a in
      if pstr_eqb got expected then report_clipped_from cap run (i + 1) cs acc
      else match first_diff2 0 (split_tr (U 7) expected [] []) (split_tr (U 7) got [] []) with
           | Some (step, x, y) =>
               let p := diff_pos 0 x y in
               let off := p - N.min p 60 in
               let w := take_tr (N.to_nat cap) (skipn (N.to_nat off) y) [] in
               report_clipped_from cap run (i + 1) cs
                 (rev_append (i :: step :: N.of_nat (S (length w)) :: off :: w) acc)
           | None => report_clipped_from cap run (i + 1) cs (0 :: 0 :: i :: acc)
           end
  end.
Definition report_clipped {A} (cap : N) (run : A -> pstr) (cases : list (A * pstr)) : list N :=
  report_clipped_from cap run 0 cases [].
