(* Facts about the public operations: select/delete characterisations, chained select,
   every operation as a list of primitive actions, and the history theorem
   (what select returns after ANY sequence of operations). *)
From Skv Require Import PyStr PyStrFacts CardStr Path PathFacts Json Tree TreeFacts Ops Render Spec.
From Coq Require Import Lia.
Open Scope N_scope.

Lemma shallow_of_eq x : shallow_of x = shallow x.
Proof. reflexivity. Qed.

(* ------------------------------------------------------------------ select / delete *)
Theorem card_select_spec key d :
  card_select key d =
  if is_empty key || is_empty (last (split_names key) []) then Raise EKey
  else match lookup (split_names key) d with Some x => Ok x | None => Raise EKey end.
Proof.
  unfold card_select. destruct (is_empty key); [reflexivity|]. cbn [orb].
  pose proof (split_names_nonnil key) as Hne.
  pose proof (unsnoc_app _ Hne) as Happ. pose proof (unsnoc_last (split_names key)) as Hlast.
  destruct (unsnoc (split_names key)) as [parents leaf]. cbn [fst snd] in *.
  rewrite <- Hlast. destruct (is_empty leaf); [reflexivity|].
  rewrite <- Happ. rewrite <- descend_lookup. destruct (descend parents d) as [pd|]; [|reflexivity].
  destruct (dget leaf pd); reflexivity.
Qed.

Theorem card_delete_spec key d :
  card_delete key d =
  if is_empty key || is_empty (last (split_names key) []) then Raise EKey
  else match delete_path (split_names key) d with Some d' => Ok d' | None => Raise EKey end.
Proof.
  unfold card_delete. destruct (is_empty key); [reflexivity|]. cbn [orb].
  rewrite unsnoc_last. reflexivity.
Qed.

(* C09_delete_list_verbatim: the list form uses its names as they are *)
Theorem card_delete_list_spec names d :
  card_delete_list names d =
  if is_empty (last names []) then Raise EKey
  else match delete_path names d with Some d' => Ok d' | None => Raise EKey end.
Proof.
  unfold card_delete_list. destruct names as [|n names]; [reflexivity|].
  rewrite unsnoc_last. reflexivity.
Qed.

(* C09_errors_pure: select never changes the card, and it fails exactly on an empty key,
   an empty last name or a path that does not lead to a section; always with KeyError *)
Theorem select_errors key c :
  fst (run_op (OSelect key) c) = c /\
  (snd (run_op (OSelect key) c) = Failed EKey <->
     key = [] \/ last (split_names key) [] = [] \/ lookup (split_names key) (data c) = None) /\
  (forall e, snd (run_op (OSelect key) c) = Failed e -> e = EKey).
Proof.
  cbn [run_op]. rewrite card_select_spec.
  destruct key as [|ch key].
  - cbn [is_empty orb]. repeat split; auto. intros e H. injection H as <-. reflexivity.
  - cbn [is_empty orb]. destruct (last (split_names (ch :: key)) []) as [|l0 l] eqn:El; cbn [is_empty].
    + repeat split; auto. intros e H. injection H as <-. reflexivity.
    + destruct (lookup (split_names (ch :: key)) (data c)) as [x|] eqn:E; cbn [fst snd].
      * repeat split; [discriminate | intros [H|[H|H]]; discriminate | intros e H; discriminate].
      * repeat split; auto. intros e H. injection H as <-. reflexivity.
Qed.

Theorem delete_errors key c :
  (snd (run_op (ODelete key) c) = Failed EKey <->
     key = [] \/ last (split_names key) [] = [] \/ lookup (split_names key) (data c) = None) /\
  (forall e, snd (run_op (ODelete key) c) = Failed e -> e = EKey /\ fst (run_op (ODelete key) c) = c).
Proof.
  cbn [run_op]. rewrite card_delete_spec.
  destruct key as [|ch key].
  - cbn [is_empty orb fst snd]. split; [split; auto|]. intros e H. injection H as <-. auto.
  - cbn [is_empty orb]. destruct (last (split_names (ch :: key)) []) as [|l0 l] eqn:El; cbn [is_empty].
    + cbn [fst snd]. split; [split; auto|]. intros e H. injection H as <-. auto.
    + destruct (delete_path (split_names (ch :: key)) (data c)) as [d'|] eqn:E; cbn [fst snd].
      * assert (Hl : lookup (split_names (ch :: key)) (data c) <> None).
        { intros Hn. apply delete_none_iff in Hn. congruence. }
        split; [split; [discriminate | intros [H|[H|H]]; [discriminate | discriminate | contradiction]]|].
        intros e H; discriminate.
      * apply delete_none_iff in E. split; [split; auto|]. intros e H. injection H as <-. auto.
Qed.

Lemma last_app_ne {A} (l r : list A) d : r <> [] -> last (l ++ r) d = last r d.
Proof.
  intros Hr. induction l as [|a l IH]; [reflexivity|]. cbn [app].
  change (last (a :: l ++ r) d) with (match l ++ r with [] => a | _ :: _ => last (l ++ r) d end).
  destruct (l ++ r) eqn:E; [destruct l; [contradiction | discriminate]|]. exact IH.
Qed.

Lemma last_in {A} (l : list A) d : l <> [] -> In (last l d) l.
Proof.
  induction l as [|a l IH]; [congruence|]. intros _.
  destruct l as [|b l]; [left; reflexivity|]. right. apply IH. discriminate.
Qed.

(* ------------------------------------------------------------------ chained select *)
(* C09_chain (guarded): select(p + "/" + q) = select(p).select(q) *)
Theorem chain_partial p q d :
  ends_with_backslash p = false ->
  last (split_names p) [] <> [] ->
  forallb nonempty (split_names q) = true ->
  card_select (p ++ slash :: q) d =
  match card_select p d with Ok x => section_select q x | Raise e => Raise e end.
Proof.
  intros Hbs Hlast Hq. rewrite !card_select_spec. rewrite split_names_app by exact Hbs.
  pose proof (split_names_nonnil p) as Hp. pose proof (split_names_nonnil q) as Hqn.
  assert (Hpne : is_empty p = false).
  { destruct p; [|reflexivity]. exfalso. apply Hlast. reflexivity. }
  rewrite Hpne. cbn [orb].
  assert (Hl1 : is_empty (last (split_names p) []) = false).
  { destruct (last (split_names p) []); [congruence | reflexivity]. }
  rewrite Hl1.
  assert (Hne : is_empty (p ++ slash :: q) = false) by (destruct p; reflexivity).
  rewrite Hne. cbn [orb].
  assert (Hl2 : is_empty (last (split_names p ++ split_names q) []) = false).
  { rewrite last_app_ne by exact Hqn. rewrite forallb_forall in Hq.
    specialize (Hq _ (last_in (split_names q) [] Hqn)). unfold nonempty in Hq. destruct (is_empty _); [discriminate|reflexivity]. }
  rewrite Hl2. rewrite lookup_app by assumption.
  unfold section_select. rewrite Hq.
  destruct (lookup (split_names p) d); reflexivity.
Qed.

(* ... and without the guard on the names it is false: C09-F1 *)
Definition card_a__b : dict := add_single (of_ascii "a//b") (text_section (of_ascii "a//b") [120] false) [].

Theorem chain_refuted :
  exists d p q, ends_with_backslash p = false /\
    card_select (p ++ slash :: q) d <>
    match card_select p d with Ok x => section_select q x | Raise e => Raise e end.
Proof.
  exists card_a__b, [97], [47; 98]. split; [reflexivity|]. vm_compute. discriminate.
Qed.

(* selecting a path with an empty name in the middle does not raise KeyError once such a section exists *)
Theorem select_empty_middle_refuted :
  exists x, card_select (of_ascii "a//b") card_a__b = Ok x /\ In [] (split_names (of_ascii "a//b")).
Proof. eexists. split; [vm_compute; reflexivity | vm_compute; auto]. Qed.

(* the resolution of a chain: static checks on the names, then one lookup of the concatenated path *)
Definition lookup_from (p : list pstr) (x : section) : option section :=
  match p with [] => Some x | _ :: _ => lookup p (subs x) end.

Lemma lookup_from_app p r x :
  p <> [] ->
  lookup_from (p ++ r) x = match lookup p (subs x) with Some y => lookup_from r y | None => None end.
Proof.
  intros Hp. destruct r as [|a r].
  - rewrite app_nil_r. unfold lookup_from. destruct p; [congruence|].
    destruct (lookup _ _); reflexivity.
  - unfold lookup_from. destruct (p ++ a :: r) as [|b l] eqn:E; [destruct p; discriminate|].
    rewrite <- E. rewrite lookup_app by (assumption || discriminate). reflexivity.
Qed.

Lemma chain_rest_spec ks abs x :
  chain_rest ks abs x =
  match (if forallb (fun k' => forallb nonempty (split_names k')) ks
         then lookup_from (flat_map split_names ks) x else None) with
  | Some y => Ok (abs ++ flat_map split_names ks, y)
  | None => Raise EKey
  end.
Proof.
  revert abs x; induction ks as [|k ks IH]; intros abs x.
  - cbn. rewrite app_nil_r. reflexivity.
  - cbn [chain_rest forallb flat_map]. unfold section_select.
    destruct (forallb nonempty (split_names k)) eqn:Ek; [|reflexivity]. cbn [andb].
    pose proof (split_names_nonnil k) as Hk.
    rewrite (lookup_from_app _ _ _ Hk).
    destruct (lookup (split_names k) (subs x)) as [y|] eqn:El.
    + rewrite IH. rewrite app_assoc. reflexivity.
    + destruct (forallb _ ks); reflexivity.
Qed.

Lemma lookup_from_root p d x0 : subs x0 = d -> p <> [] -> lookup_from p x0 = lookup p d.
Proof. intros <- Hp. destruct p; [congruence | reflexivity]. Qed.

Theorem chain_select_spec ks d :
  ks <> [] ->
  chain_select ks d =
  if chain_ok ks
  then match lookup (chain_path ks) d with Some x => Ok (chain_path ks, x) | None => Raise EKey end
  else Raise EKey.
Proof.
  destruct ks as [|k ks]; [congruence|]. intros _.
  unfold chain_select, chain_ok, chain_path. cbn [flat_map]. rewrite card_select_spec.
  pose proof (split_names_nonnil k) as Hk.
  unfold nonempty. destruct (is_empty k); [reflexivity|].
  destruct (is_empty (last (split_names k) [])); [reflexivity|]. cbn [orb negb andb].
  assert (Hroot : lookup (split_names k ++ flat_map split_names ks) d =
                  match lookup (split_names k) d with
                  | Some y => lookup_from (flat_map split_names ks) y | None => None end).
  { rewrite <- (lookup_from_app _ _ (fresh [] d) Hk). symmetry. apply lookup_from_root; [reflexivity|].
    destruct (split_names k); [contradiction|discriminate]. }
  rewrite Hroot.
  destruct (lookup (split_names k) d) as [x|] eqn:El.
  - rewrite chain_rest_spec. destruct (forallb _ ks); [|reflexivity].
    destruct (lookup_from _ x); reflexivity.
  - destruct (forallb _ ks); reflexivity.
Qed.

(* ------------------------------------------------------------------ operations as actions *)
Lemma apply_actions_app a b d : apply_actions (a ++ b) d = apply_actions b (apply_actions a d).
Proof. unfold apply_actions. apply fold_left_app. Qed.

Lemma dset_same {A} k (x : A) d : dget k d = Some x -> dset k x d = d.
Proof.
  induction d as [|[k' v'] d IH]; cbn [dget dset]; [discriminate|].
  destruct (pstr_eqb_spec k k') as [->|N]; intros H.
  - injection H as ->. reflexivity.
  - f_equal. apply IH. exact H.
Qed.

Lemma update_missing p f d : lookup p d = None -> update_path p f d = d.
Proof.
  revert d; induction p as [|k p IH]; intros d; [reflexivity|].
  rewrite lookup_cons, update_path_cons. destruct (dget k d) as [x|] eqn:E; [|reflexivity].
  destruct p as [|k2 p]; [discriminate|]. intros H.
  rewrite IH by exact H. rewrite set_subs_subs. apply dset_same. exact E.
Qed.

Lemma add_texts_actions fold kvs d :
  add_texts fold kvs d =
  apply_actions (map (fun kv => AAdd (split_names (fst kv)) (text_section (fst kv) (snd kv) fold)) kvs) d.
Proof.
  unfold add_texts, apply_actions. revert d; induction kvs as [|kv kvs IH]; intros d; [reflexivity|].
  cbn [fold_left map]. rewrite IH. reflexivity.
Qed.

Lemma add_plots_actions desc alt fold kvs d :
  fst (add_plots desc alt fold kvs d) = apply_actions (plot_actions desc alt fold kvs) d.
Proof.
  revert d; induction kvs as [|[key path] kvs IH]; intros d; [reflexivity|].
  cbn [add_plots plot_actions]. destruct (is_empty path); [reflexivity|].
  rewrite IH. reflexivity.
Qed.

Lemma add_tables_actions desc fold kvs d :
  fst (add_tables desc fold kvs d) = apply_actions (table_actions desc fold kvs) d.
Proof.
  revert d; induction kvs as [|[key t] kvs IH]; intros d; [reflexivity|].
  cbn [add_tables table_actions]. destruct t; [reflexivity|].
  rewrite IH. reflexivity.
Qed.

Lemma chain_ok_nonnil ks : chain_ok ks = true -> ks <> [] /\ chain_path ks <> [].
Proof.
  destruct ks as [|k ks]; [discriminate|]. intros _. split; [discriminate|].
  unfold chain_path. cbn [flat_map]. pose proof (split_names_nonnil k).
  destruct (split_names k); [contradiction|discriminate].
Qed.

Lemma chain_not_ok ks d : chain_ok ks = false -> exists e, chain_select ks d = Raise e.
Proof.
  intros H. destruct ks as [|k ks]; [eexists; reflexivity|].
  rewrite chain_select_spec by discriminate. rewrite H. eexists; reflexivity.
Qed.

Theorem run_op_actions o c :
  data (fst (run_op o c)) = apply_actions (op_actions o (metrics c)) (data c) /\
  metrics (fst (run_op o c)) = op_metrics o (metrics c).
Proof.
  destruct o as [fold kvs|desc alt fold kvs|desc fold kvs|sect desc kvs|sect desc params|sect desc html|key|ks|key|names|ks b|ks b|ks t];
    cbn [run_op op_actions op_metrics].
  - cbn [fst data metrics set_data]. split; [apply add_texts_actions|reflexivity].
  - pose proof (add_plots_actions desc alt fold kvs (data c)) as H.
    destruct (add_plots desc alt fold kvs (data c)) as [d r]. cbn [fst data metrics set_data] in *. auto.
  - pose proof (add_tables_actions desc fold kvs (data c)) as H.
    destruct (add_tables desc fold kvs (data c)) as [d r]. cbn [fst data metrics set_data] in *. auto.
  - cbn [fst data metrics]. split; reflexivity.
  - cbn [fst data metrics set_data]. split; reflexivity.
  - cbn [fst data metrics set_data]. split; reflexivity.
  - destruct (card_select key (data c)); cbn [fst]; split; reflexivity.
  - destruct (chain_select ks (data c)) as [[p x]|e]; cbn [fst]; split; reflexivity.
  - rewrite card_delete_spec.
    destruct (is_empty key || is_empty (last (split_names key) [])); [split; reflexivity|].
    cbn [apply_actions fold_left apply_action].
    destruct (delete_path (split_names key) (data c)); cbn [fst data metrics set_data]; split; reflexivity.
  - rewrite card_delete_list_spec.
    destruct (is_empty (last names [])); [split; reflexivity|].
    cbn [apply_actions fold_left apply_action].
    destruct (delete_path names (data c)); cbn [fst data metrics set_data]; split; reflexivity.
  - destruct (chain_ok ks) eqn:Eok.
    + destruct (chain_ok_nonnil ks Eok) as [Hks Hp].
      rewrite chain_select_spec by exact Hks. rewrite Eok.
      cbn [apply_actions fold_left apply_action].
      destruct (lookup (chain_path ks) (data c)) as [x|] eqn:El; cbn [fst data metrics set_data].
      * split; reflexivity.
      * split; [|reflexivity]. symmetry. apply update_missing. exact El.
    + destruct (chain_not_ok ks (data c) Eok) as [e He]. rewrite He. split; reflexivity.
  - destruct (chain_ok ks) eqn:Eok.
    + destruct (chain_ok_nonnil ks Eok) as [Hks Hp].
      rewrite chain_select_spec by exact Hks. rewrite Eok.
      cbn [apply_actions fold_left apply_action].
      destruct (lookup (chain_path ks) (data c)) as [x|] eqn:El; cbn [fst data metrics set_data].
      * split; reflexivity.
      * split; [|reflexivity]. symmetry. apply update_missing. exact El.
    + destruct (chain_not_ok ks (data c) Eok) as [e He]. rewrite He. split; reflexivity.
  - destruct (chain_ok ks) eqn:Eok.
    + destruct (chain_ok_nonnil ks Eok) as [Hks Hp].
      rewrite chain_select_spec by exact Hks. rewrite Eok.
      cbn [apply_actions fold_left apply_action].
      destruct (lookup (chain_path ks) (data c)) as [x|] eqn:El; cbn [fst data metrics set_data].
      * split; reflexivity.
      * split; [|reflexivity]. symmetry. apply update_missing. exact El.
    + destruct (chain_not_ok ks (data c) Eok) as [e He]. rewrite He. split; reflexivity.
Qed.

Lemma run_card_cons o ops c : run_card (o :: ops) c = run_card ops (fst (run_op o c)).
Proof.
  unfold run_card. cbn [run]. destruct (run_op o c) as [c1 r]. cbn [fst].
  destruct (run ops c1) as [c2 rs]. reflexivity.
Qed.

Theorem run_history ops c :
  data (run_card ops c) = apply_actions (history ops (metrics c)) (data c).
Proof.
  revert c; induction ops as [|o ops IH]; intros c; [reflexivity|].
  rewrite run_card_cons. cbn [history]. rewrite apply_actions_app.
  destruct (run_op_actions o c) as [H1 H2]. rewrite IH, H1, H2. reflexivity.
Qed.

(* ------------------------------------------------------------------ invariants *)
Lemma upd_fun_subs vis fold ttl x : subs (upd_fun vis fold ttl x) = subs x.
Proof. destruct x, vis, fold, ttl; reflexivity. Qed.

Lemma wf_apply_action a d : action_ok a -> wf_dict d -> wf_dict (apply_action a d).
Proof.
  destruct a as [p new|p|p vis fold ttl]; cbn [action_ok apply_action]; intros Hok Hd.
  - destruct Hok as [_ Hs]. apply wf_add_path; [exact Hd|]. rewrite Hs. constructor.
  - destruct (delete_path p d) as [d'|] eqn:E; [eapply wf_delete_path; eauto | exact Hd].
  - apply wf_update_path; [apply upd_fun_subs | exact Hd].
Qed.

Lemma wf_apply_actions acts d : Forall action_ok acts -> wf_dict d -> wf_dict (apply_actions acts d).
Proof.
  intros H. revert d; induction H as [|a acts Ha _ IH]; intros d Hd; [exact Hd|].
  cbn [apply_actions fold_left]. apply IH. apply wf_apply_action; assumption.
Qed.

Lemma op_actions_ok o m : Forall action_ok (op_actions o m).
Proof.
  destruct o as [fold kvs|desc alt fold kvs|desc fold kvs|sect desc kvs|sect desc params|sect desc html|key|ks|key|names|ks b|ks b|ks t];
    cbn [op_actions].
  - induction kvs as [|kv kvs IH]; cbn [map]; constructor; [|exact IH].
    split; [apply split_names_nonnil | reflexivity].
  - induction kvs as [|[key path] kvs IH]; cbn [plot_actions]; [constructor|].
    destruct (is_empty path); constructor; [|exact IH]. split; [apply split_names_nonnil | reflexivity].
  - induction kvs as [|[key t] kvs IH]; cbn [table_actions]; [constructor|].
    destruct t; constructor; [|exact IH]. split; [apply split_names_nonnil | reflexivity].
  - constructor; [|constructor]. split; [apply split_names_nonnil | reflexivity].
  - constructor; [|constructor]. split; [apply split_names_nonnil | reflexivity].
  - constructor; [|constructor]. split; [apply split_names_nonnil | reflexivity].
  - constructor.
  - constructor.
  - destruct (_ || _); constructor; [|constructor]. apply split_names_nonnil.
  - destruct names as [|n names]; [constructor|].
    destruct (is_empty _); constructor; [|constructor]. discriminate.
  - destruct (chain_ok ks) eqn:E; constructor; [|constructor]. apply chain_ok_nonnil. exact E.
  - destruct (chain_ok ks) eqn:E; constructor; [|constructor]. apply chain_ok_nonnil. exact E.
  - destruct (chain_ok ks) eqn:E; constructor; [|constructor]. apply chain_ok_nonnil. exact E.
Qed.

Lemma history_ok ops m : Forall action_ok (history ops m).
Proof.
  revert m; induction ops as [|o ops IH]; intros m; cbn [history]; [constructor|].
  apply Forall_app. split; [apply op_actions_ok | apply IH].
Qed.

(* every card reachable through the API has unique keys at every level *)
Theorem reachable_wf ops : wf_dict (data (run_card ops empty_card)).
Proof. rewrite run_history. apply wf_apply_actions; [apply history_ok | constructor]. Qed.

(* ------------------------------------------------------------------ the history theorem *)
Lemma upd_shal_shallow vis fold ttl x : shallow (upd_fun vis fold ttl x) = upd_shal vis fold ttl (shallow x).
Proof. destruct x, vis, fold, ttl; reflexivity. Qed.

Lemma is_prefix_split q p : is_prefix q p = true -> path_eqb q p = false -> exists r, r <> [] /\ p = q ++ r.
Proof.
  intros H N. apply is_prefix_iff in H as [r ->]. exists r. split; [|reflexivity].
  intros ->. rewrite app_nil_r, path_eqb_refl in N. discriminate.
Qed.

Lemma path_eqb_prefix q p : path_eqb q p = true -> is_prefix q p = true.
Proof. intros H. apply path_eqb_eq in H. subst. apply is_prefix_refl. Qed.

Theorem val_step a d p :
  wf_dict d -> action_ok a -> p <> [] ->
  forall rest d0,
  (forall q, q <> [] -> option_map shallow (lookup q d) = val q rest d0) ->
  option_map shallow (lookup p (apply_action a d)) = val p (a :: rest) d0.
Proof.
  intros Hd Hok Hp rest d0 IH.
  destruct a as [q new|q|q vis fold]; cbn [val apply_action action_ok] in *.
  - destruct Hok as [Hq Hnew].
    destruct (path_eqb q p) eqn:Eqp.
    + apply path_eqb_eq in Eqp. subst q. rewrite lookup_add_same by exact Hp.
      cbn [option_map]. rewrite shallow_set_subs. reflexivity.
    + destruct (is_prefix p q) eqn:Epre.
      * assert (Eqp' : path_eqb p q = false).
        { destruct (path_eqb p q) eqn:E; [|reflexivity]. apply path_eqb_eq in E. subst.
          rewrite path_eqb_refl in Eqp. discriminate. }
        destruct (is_prefix_split _ _ Epre Eqp') as [r [Hr ->]].
        destruct (lookup_add_ancestor p r new d Hp Hr) as [y [H1 H2]].
        rewrite H1. cbn [option_map]. rewrite H2. rewrite <- (IH p Hp).
        destruct (lookup p d); reflexivity.
      * rewrite lookup_add_frame by assumption. apply IH. exact Hp.
  - destruct (delete_path q d) as [d'|] eqn:Edel.
    + assert (Hex : lookup q d <> None).
      { intros Hn. apply delete_none_iff in Hn. congruence. }
      destruct (is_prefix q p) eqn:Epre.
      * rewrite <- (IH q Hok). destruct (lookup q d); [|congruence]. cbn [option_map].
        apply is_prefix_iff in Epre as [r ->].
        rewrite (lookup_delete_below q r d d' Hd Edel). reflexivity.
      * destruct (is_prefix p q) eqn:Epre2.
        -- assert (Eqp' : path_eqb p q = false).
           { destruct (path_eqb p q) eqn:E; [|reflexivity]. apply path_eqb_eq in E. subst.
             rewrite is_prefix_refl in Epre. discriminate. }
           destruct (is_prefix_split _ _ Epre2 Eqp') as [r [Hr ->]].
           destruct (lookup_delete_ancestor p r d d' Hp Hr Edel) as [x [y [H1 [H2 H3]]]].
           rewrite H2. cbn [option_map]. rewrite H3. rewrite <- (IH p Hp), H1. reflexivity.
        -- rewrite (lookup_delete_frame q p d d' Edel Epre Epre2). apply IH. exact Hp.
    + apply delete_none_iff in Edel.
      destruct (is_prefix q p); [|apply IH; exact Hp].
      rewrite <- (IH q Hok), Edel. cbn [option_map]. apply IH. exact Hp.
  - destruct (path_eqb q p) eqn:Eqp.
    + apply path_eqb_eq in Eqp. subst q.
      rewrite lookup_update_same by apply upd_fun_subs. rewrite <- (IH p Hp).
      destruct (lookup p d); cbn [option_map]; [|reflexivity]. rewrite upd_shal_shallow. reflexivity.
    + destruct (is_prefix p q) eqn:Epre.
      * assert (Eqp' : path_eqb p q = false).
        { destruct (path_eqb p q) eqn:E; [|reflexivity]. apply path_eqb_eq in E. subst.
          rewrite path_eqb_refl in Eqp. discriminate. }
        destruct (is_prefix_split _ _ Epre Eqp') as [r [Hr ->]].
        rewrite lookup_update_ancestor by (apply upd_fun_subs || assumption). apply IH. exact Hp.
      * rewrite lookup_update_frame by (apply upd_fun_subs || assumption). apply IH. exact Hp.
Qed.

Theorem val_correct acts d0 :
  wf_dict d0 -> Forall action_ok acts ->
  forall p, p <> [] ->
  option_map shallow (lookup p (apply_actions acts d0)) = val p (rev acts) d0.
Proof.
  intros Hd0. induction acts as [|a acts IH] using rev_ind; intros Hok p Hp.
  - reflexivity.
  - apply Forall_app in Hok as [Hacts Ha]. inversion Ha as [|? ? Hoka _]; subst.
    rewrite apply_actions_app, rev_app_distr. cbn [rev app apply_actions fold_left].
    apply val_step; try assumption.
    + apply wf_apply_actions; assumption.
    + intros q Hq. apply IH; assumption.
Qed.

(* C09_select_last: after ANY sequence of operations on the empty card, the section at p is
   what the history says (last add at p, unless a later delete of p or of an ancestor removed it;
   created empty by an add below it; flags as last assigned) *)
Theorem select_last ops p :
  p <> [] ->
  option_map shallow (lookup p (data (run_card ops empty_card))) = val p (rev (history ops [])) [].
Proof.
  intros Hp. rewrite run_history. apply val_correct; [constructor | apply history_ok | exact Hp].
Qed.

(* the same, seen through Card.select on a key string *)
Corollary select_after ops key :
  key <> [] -> last (split_names key) [] <> [] ->
  match snd (run_op (OSelect key) (run_card ops empty_card)) with
  | Selected x => val (split_names key) (rev (history ops [])) [] = Some (shallow x)
  | Failed e => e = EKey /\ val (split_names key) (rev (history ops [])) [] = None
  | Done => False
  end.
Proof.
  intros Hk Hl. cbn [run_op]. rewrite card_select_spec.
  destruct key as [|ch key]; [congruence|]. cbn [is_empty orb].
  destruct (last (split_names (ch :: key)) []) eqn:El; [congruence|]. cbn [is_empty].
  rewrite <- (select_last ops (split_names (ch :: key)) (split_names_nonnil _)).
  destruct (lookup _ _); cbn [snd option_map]; auto.
Qed.

(* ------------------------------------------------------------------ concrete witnesses *)
(* list-form delete does not strip: [" a"] misses the section "a" that the string " a" finds *)
Lemma delete_list_verbatim_example :
  let d := add_single (of_ascii "a") (text_section (of_ascii "a") [] false) [] in
  card_delete_list [of_ascii " a"] d = Raise EKey /\ card_delete (of_ascii " a") d = Ok [].
Proof. split; vm_compute; reflexivity. Qed.

(* a history on which every hypothesis used above holds and every clause is exercised *)
Definition demo_ops : list op :=
  [ OAdd false [(of_ascii "A", of_ascii "1"); (of_ascii "A/B", of_ascii "2"); (of_ascii " C \/ D / E", of_ascii "3")];
    OAdd true [(of_ascii "A", of_ascii "4")];
    ODelete (of_ascii "A/B");
    OAdd false [(of_ascii "A/B/F", of_ascii "5")] ].

Lemma nonvacuous :
  let d := data (run_card demo_ops empty_card) in
  keys d = [of_ascii "A"; of_ascii "C / D"]
  /\ option_map shallow (lookup [of_ascii "A"] d) = Some (of_ascii "A", of_ascii "4", true, true, KText)
  /\ children [of_ascii "A"] d = Some [of_ascii "B"]
  /\ option_map content (lookup [of_ascii "A"; of_ascii "B"] d) = Some []
  /\ option_map content (lookup [of_ascii "C / D"; of_ascii "E"] d) = Some (of_ascii "3")
  /\ snd (run_op (OSelect (of_ascii "A/X")) (run_card demo_ops empty_card)) = Failed EKey
  /\ snd (run_op (OSelectChain [of_ascii "C \/ D"; of_ascii "E"]) (run_card demo_ops empty_card))
     = snd (run_op (OSelect (of_ascii "C \/ D/E")) (run_card demo_ops empty_card)).
Proof. repeat split; vm_compute; reflexivity. Qed.
