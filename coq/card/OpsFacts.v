(* Facts about the public operations: select/delete characterisations, chained select,
   every operation as a list of primitive actions, and the history theorem
   (what select returns after ANY sequence of operations). *)
From Skv Require Import PyStr PyStrFacts CardStr Path PathFacts Json Tree TreeFacts Ops Render Spec.
From Coq Require Import Lia.
Open Scope N_scope.

Lemma shallow_of_eq x : shallow_of x = shallow x.
Proof. reflexivity. Qed.

(* ------------------------------------------------------------------ select / delete *)
(* the checks of Card.select / Card.delete (`not leaf or not all(parents)`) = every name non-empty *)
Lemma unsnoc_checks (l : list pstr) : l <> [] ->
  is_empty (snd (unsnoc l)) || negb (forallb nonempty (fst (unsnoc l))) = negb (forallb nonempty l).
Proof.
  intros Hne. rewrite <- (unsnoc_app l Hne) at 3. rewrite forallb_app. cbn [forallb].
  change (nonempty (snd (unsnoc l))) with (negb (is_empty (snd (unsnoc l)))).
  destruct (is_empty (snd (unsnoc l))), (forallb nonempty (fst (unsnoc l))); reflexivity.
Qed.

(* the empty key splits into the one empty name: the `if not key` test is subsumed by the test of the names *)
Lemma names_ok_nonempty key : forallb nonempty (split_names key) = true -> is_empty key = false.
Proof. destruct key; [vm_compute; discriminate | reflexivity]. Qed.

Lemma forallb_nonempty_iff (l : list pstr) : forallb nonempty l = false <-> In [] l.
Proof.
  induction l as [|a l IH]; cbn [forallb In]; [split; [discriminate | contradiction]|].
  destruct a as [|c a]; cbn [nonempty is_empty negb andb].
  - split; auto.
  - rewrite IH. split; [auto | intros [H|H]; [discriminate | exact H]].
Qed.

Theorem card_select_spec key d :
  card_select key d =
  if forallb nonempty (split_names key)
  then match lookup (split_names key) d with Some x => Ok x | None => Raise EKey end
  else Raise EKey.
Proof.
  unfold card_select. pose proof (names_ok_nonempty key) as Hk.
  pose proof (split_names_nonnil key) as Hne.
  pose proof (unsnoc_app _ Hne) as Happ. pose proof (unsnoc_checks _ Hne) as Hchk.
  destruct (unsnoc (split_names key)) as [parents leaf]. cbn [fst snd] in *.
  rewrite Hchk. destruct (forallb nonempty (split_names key)).
  - rewrite Hk by reflexivity. cbn [negb].
    rewrite <- Happ. rewrite <- descend_lookup. destruct (descend parents d) as [pd|]; [|reflexivity].
    destruct (dget leaf pd); reflexivity.
  - destruct (is_empty key); reflexivity.
Qed.

Theorem card_delete_spec key d :
  card_delete key d =
  if forallb nonempty (split_names key)
  then match delete_path (split_names key) d with Some d' => Ok d' | None => Raise EKey end
  else Raise EKey.
Proof.
  unfold card_delete. pose proof (names_ok_nonempty key) as Hk.
  pose proof (unsnoc_checks _ (split_names_nonnil key)) as Hchk.
  destruct (unsnoc (split_names key)) as [parents leaf]. cbn [fst snd] in *.
  rewrite Hchk. destruct (forallb nonempty (split_names key)).
  - rewrite Hk by reflexivity. reflexivity.
  - destruct (is_empty key); reflexivity.
Qed.

(* C09_delete_list_verbatim: the list form uses its names as they are *)
Theorem card_delete_list_spec names d :
  card_delete_list names d =
  match names with
  | [] => Raise EKey
  | _ :: _ => if forallb nonempty names
              then match delete_path names d with Some d' => Ok d' | None => Raise EKey end
              else Raise EKey
  end.
Proof.
  unfold card_delete_list. destruct names as [|n names]; [reflexivity|].
  assert (Hne : n :: names <> []) by discriminate.
  pose proof (unsnoc_checks _ Hne) as Hchk.
  destruct (unsnoc (n :: names)) as [parents leaf]. cbn [fst snd] in *.
  rewrite Hchk. destruct (forallb nonempty (n :: names)); reflexivity.
Qed.

(* C09_errors_pure: select never changes the card, and it fails exactly on an empty key, an empty name
   anywhere in the path or a path that does not lead to a section; always with KeyError *)
Theorem select_errors key c :
  fst (run_op (OSelect key) c) = c /\
  (snd (run_op (OSelect key) c) = Failed EKey <->
     key = [] \/ In [] (split_names key) \/ lookup (split_names key) (data c) = None) /\
  (forall e, snd (run_op (OSelect key) c) = Failed e -> e = EKey).
Proof.
  cbn [run_op]. rewrite card_select_spec.
  destruct (forallb nonempty (split_names key)) eqn:Ef.
  - assert (Hin : ~ In [] (split_names key)).
    { intros H. apply forallb_nonempty_iff in H. congruence. }
    assert (Hk : key <> []).
    { intros ->. apply names_ok_nonempty in Ef. discriminate. }
    destruct (lookup (split_names key) (data c)) as [x|] eqn:E; cbn [fst snd].
    + repeat split; [discriminate | intros [H|[H|H]]; [contradiction | contradiction | discriminate] | intros e H; discriminate].
    + repeat split; auto. intros e H. injection H as <-. reflexivity.
  - apply forallb_nonempty_iff in Ef. cbn [fst snd]. repeat split; auto. intros e H. injection H as <-. reflexivity.
Qed.

Theorem delete_errors key c :
  (snd (run_op (ODelete key) c) = Failed EKey <->
     key = [] \/ In [] (split_names key) \/ lookup (split_names key) (data c) = None) /\
  (forall e, snd (run_op (ODelete key) c) = Failed e -> e = EKey /\ fst (run_op (ODelete key) c) = c).
Proof.
  cbn [run_op]. rewrite card_delete_spec.
  destruct (forallb nonempty (split_names key)) eqn:Ef.
  - assert (Hin : ~ In [] (split_names key)).
    { intros H. apply forallb_nonempty_iff in H. congruence. }
    assert (Hk : key <> []).
    { intros ->. apply names_ok_nonempty in Ef. discriminate. }
    destruct (delete_path (split_names key) (data c)) as [d'|] eqn:E; cbn [fst snd].
    + assert (Hl : lookup (split_names key) (data c) <> None).
      { intros Hn. apply delete_none_iff in Hn. congruence. }
      split; [split; [discriminate | intros [H|[H|H]]; contradiction]|].
      intros e H; discriminate.
    + apply delete_none_iff in E. split; [split; auto|]. intros e H. injection H as <-. auto.
  - apply forallb_nonempty_iff in Ef. cbn [fst snd]. split; [split; auto|]. intros e H. injection H as <-. auto.
Qed.

(* the list form: fails exactly on the empty list, an empty name anywhere or a missing path *)
Theorem delete_list_errors names c :
  (snd (run_op (ODeleteList names) c) = Failed EKey <->
     names = [] \/ In [] names \/ lookup names (data c) = None) /\
  (forall e, snd (run_op (ODeleteList names) c) = Failed e -> e = EKey /\ fst (run_op (ODeleteList names) c) = c).
Proof.
  cbn [run_op]. rewrite card_delete_list_spec.
  destruct names as [|n names].
  - cbn [fst snd]. split; [split; auto|]. intros e H. injection H as <-. auto.
  - destruct (forallb nonempty (n :: names)) eqn:Ef.
    + assert (Hin : ~ In [] (n :: names)).
      { intros H. apply forallb_nonempty_iff in H. congruence. }
      destruct (delete_path (n :: names) (data c)) as [d'|] eqn:E; cbn [fst snd].
      * assert (Hl : lookup (n :: names) (data c) <> None).
        { intros Hn. apply delete_none_iff in Hn. congruence. }
        split; [split; [discriminate | intros [H|[H|H]]; [discriminate | contradiction | contradiction]]|].
        intros e H; discriminate.
      * apply delete_none_iff in E. split; [split; auto|]. intros e H. injection H as <-. auto.
    + apply forallb_nonempty_iff in Ef. cbn [fst snd]. split; [split; auto|]. intros e H. injection H as <-. auto.
Qed.

(* a successful select / delete: what it returns / leaves *)
Theorem select_ok key c x :
  snd (run_op (OSelect key) c) = Selected x <->
  key <> [] /\ ~ In [] (split_names key) /\ lookup (split_names key) (data c) = Some x.
Proof.
  cbn [run_op]. rewrite card_select_spec.
  destruct (forallb nonempty (split_names key)) eqn:Ef.
  - assert (Hin : ~ In [] (split_names key)).
    { intros H. apply forallb_nonempty_iff in H. congruence. }
    assert (Hk : key <> []).
    { intros ->. apply names_ok_nonempty in Ef. discriminate. }
    destruct (lookup (split_names key) (data c)) as [y|]; cbn [snd].
    + split; [intros H; injection H as ->; auto | intros [_ [_ H]]; injection H as ->; reflexivity].
    + split; [discriminate | intros [_ [_ H]]; discriminate].
  - apply forallb_nonempty_iff in Ef. cbn [snd]. split; [discriminate | intros [_ [H _]]; contradiction].
Qed.

(* ------------------------------------------------------------------ chained select *)
(* C09_chain: select(p + "/" + q) = select(p).select(q), for every p (not ending in a backslash, which would
   escape the joining slash), every q and every card -- no guard on the names is left (C09-F1 repaired) *)
Theorem chain_full p q d :
  ends_with_backslash p = false ->
  card_select (p ++ slash :: q) d =
  match card_select p d with Ok x => section_select q x | Raise e => Raise e end.
Proof.
  intros Hbs. rewrite !card_select_spec. rewrite split_names_app by exact Hbs.
  pose proof (split_names_nonnil p) as Hp. pose proof (split_names_nonnil q) as Hqn.
  rewrite forallb_app. unfold section_select.
  destruct (forallb nonempty (split_names p)); cbn [andb]; [|reflexivity].
  destruct (forallb nonempty (split_names q)).
  - rewrite lookup_app by assumption. destruct (lookup (split_names p) d); reflexivity.
  - destruct (lookup (split_names p) d); reflexivity.
Qed.

(* the guard on p is the path syntax, not a defect: "a\" + "/" + "b" spells the ONE name "a/b" *)
Lemma chain_backslash_example :
  let d := add_single (of_ascii "a\/b") (text_section (of_ascii "a\/b") [120] false) [] in
  exists x, card_select (of_ascii "a\" ++ slash :: of_ascii "b") d = Ok x /\ card_select (of_ascii "a\") d = Raise EKey.
Proof. eexists. split; vm_compute; reflexivity. Qed.

(* the former witness of C09-F1: add can still create a section under an empty name ... *)
Definition card_a__b : dict := add_single (of_ascii "a//b") (text_section (of_ascii "a//b") [120] false) [].

(* ... but no public path leads to it any more: Card.select, Card.delete (both forms) and the chained
   select all raise KeyError and leave the card as it is, although lookup finds the section *)
Theorem select_empty_middle_fixed :
  lookup (split_names (of_ascii "a//b")) card_a__b <> None
  /\ In [] (split_names (of_ascii "a//b"))
  /\ card_select (of_ascii "a//b") card_a__b = Raise EKey
  /\ card_delete (of_ascii "a//b") card_a__b = Raise EKey
  /\ card_delete_list [of_ascii "a"; []; of_ascii "b"] card_a__b = Raise EKey
  /\ (match card_select (of_ascii "a") card_a__b with Ok x => section_select (of_ascii "/b") x | Raise e => Raise e end)
     = Raise EKey
  /\ (exists d', card_delete (of_ascii "a") card_a__b = Ok d' /\ d' = []).
Proof.
  repeat split; try (vm_compute; reflexivity); try (vm_compute; discriminate).
  - vm_compute. auto.
  - eexists. split; vm_compute; reflexivity.
Qed.

(* the resolution of a chain: static checks on the names, then one lookup of the concatenated path *)
Definition lookup_from (p : list pstr) (x : section) : option section :=
  match p with [] => Some x | _ :: _ => lookup p (subs x) end.

Lemma lookup_from_app p r x :
  p <> [] ->
  lookup_from (p ++ r) x = match lookup p (subs x) with Some y => lookup_from r y | None => None end.
Proof.
  intros Hp. destruct r as [|a r].
  - rewrite app_nil_r. unfold lookup_from. destruct p; [congruence|].
    destruct (lookup _ _); reflexivity.
  - unfold lookup_from. destruct (p ++ a :: r) as [|b l] eqn:E; [destruct p; discriminate|].
    rewrite <- E. rewrite lookup_app by (assumption || discriminate). reflexivity.
Qed.

Lemma chain_rest_spec ks abs x :
  chain_rest ks abs x =
  match (if forallb (fun k' => forallb nonempty (split_names k')) ks
         then lookup_from (flat_map split_names ks) x else None) with
  | Some y => Ok (abs ++ flat_map split_names ks, y)
  | None => Raise EKey
  end.
Proof.
  revert abs x; induction ks as [|k ks IH]; intros abs x.
  - cbn. rewrite app_nil_r. reflexivity.
  - cbn [chain_rest forallb flat_map]. unfold section_select.
    destruct (forallb nonempty (split_names k)) eqn:Ek; [|reflexivity]. cbn [andb].
    pose proof (split_names_nonnil k) as Hk.
    rewrite (lookup_from_app _ _ _ Hk).
    destruct (lookup (split_names k) (subs x)) as [y|] eqn:El.
    + rewrite IH. rewrite app_assoc. reflexivity.
    + destruct (forallb _ ks); reflexivity.
Qed.

Lemma lookup_from_root p d x0 : subs x0 = d -> p <> [] -> lookup_from p x0 = lookup p d.
Proof. intros <- Hp. destruct p; [congruence | reflexivity]. Qed.

Theorem chain_select_spec ks d :
  ks <> [] ->
  chain_select ks d =
  if chain_ok ks
  then match lookup (chain_path ks) d with Some x => Ok (chain_path ks, x) | None => Raise EKey end
  else Raise EKey.
Proof.
  destruct ks as [|k ks]; [congruence|]. intros _.
  unfold chain_select, chain_ok, chain_path. cbn [flat_map forallb]. rewrite card_select_spec.
  pose proof (split_names_nonnil k) as Hk.
  destruct (forallb nonempty (split_names k)); [|reflexivity]. cbn [andb].
  assert (Hroot : lookup (split_names k ++ flat_map split_names ks) d =
                  match lookup (split_names k) d with
                  | Some y => lookup_from (flat_map split_names ks) y | None => None end).
  { rewrite <- (lookup_from_app _ _ (fresh [] d) Hk). symmetry. apply lookup_from_root; [reflexivity|].
    destruct (split_names k); [contradiction|discriminate]. }
  rewrite Hroot.
  destruct (lookup (split_names k) d) as [x|] eqn:El.
  - rewrite chain_rest_spec. destruct (forallb _ ks); [|reflexivity].
    destruct (lookup_from _ x); reflexivity.
  - destruct (forallb _ ks); reflexivity.
Qed.

(* a chain fails statically exactly when some key of it has an empty name (the empty key included) *)
Lemma chain_ok_iff ks : ks <> [] ->
  (chain_ok ks = false <-> exists k, In k ks /\ (k = [] \/ In [] (split_names k))).
Proof.
  intros Hks. destruct ks as [|k0 ks]; [congruence|]. unfold chain_ok.
  set (l := k0 :: ks). clearbody l. clear. induction l as [|k l IH]; cbn [forallb].
  - split; [discriminate | intros [k [[] _]]].
  - destruct (forallb nonempty (split_names k)) eqn:Ek; cbn [andb].
    + rewrite IH. split.
      * intros [k' [Hin H]]. exists k'. split; [right; exact Hin | exact H].
      * intros [k' [[<-|Hin] H]]; [|exists k'; auto].
        exfalso. destruct H as [->|H]; [apply names_ok_nonempty in Ek; discriminate|].
        apply forallb_nonempty_iff in H. congruence.
    + split; [|reflexivity]. intros _. exists k. split; [left; reflexivity|].
      right. apply forallb_nonempty_iff. exact Ek.
Qed.

(* ------------------------------------------------------------------ operations as actions *)
Lemma apply_actions_app a b d : apply_actions (a ++ b) d = apply_actions b (apply_actions a d).
Proof. unfold apply_actions. apply fold_left_app. Qed.

Lemma dset_same {A} k (x : A) d : dget k d = Some x -> dset k x d = d.
Proof.
  induction d as [|[k' v'] d IH]; cbn [dget dset]; [discriminate|].
  destruct (pstr_eqb_spec k k') as [->|N]; intros H.
  - injection H as ->. reflexivity.
  - f_equal. apply IH. exact H.
Qed.

Lemma update_missing p f d : lookup p d = None -> update_path p f d = d.
Proof.
  revert d; induction p as [|k p IH]; intros d; [reflexivity|].
  rewrite lookup_cons, update_path_cons. destruct (dget k d) as [x|] eqn:E; [|reflexivity].
  destruct p as [|k2 p]; [discriminate|]. intros H.
  rewrite IH by exact H. rewrite set_subs_subs. apply dset_same. exact E.
Qed.

Lemma add_texts_actions fold kvs d :
  add_texts fold kvs d =
  apply_actions (map (fun kv => AAdd (split_names (fst kv)) (text_section (fst kv) (snd kv) fold)) kvs) d.
Proof.
  unfold add_texts, apply_actions. revert d; induction kvs as [|kv kvs IH]; intros d; [reflexivity|].
  cbn [fold_left map]. rewrite IH. reflexivity.
Qed.

Lemma add_plots_actions desc alt fold kvs d :
  fst (add_plots desc alt fold kvs d) = apply_actions (plot_actions desc alt fold kvs) d.
Proof.
  revert d; induction kvs as [|[key path] kvs IH]; intros d; [reflexivity|].
  cbn [add_plots plot_actions]. destruct (is_empty path); [reflexivity|].
  rewrite IH. reflexivity.
Qed.

Lemma add_tables_actions desc fold kvs d :
  fst (add_tables desc fold kvs d) = apply_actions (table_actions desc fold kvs) d.
Proof.
  revert d; induction kvs as [|[key t] kvs IH]; intros d; [reflexivity|].
  cbn [add_tables table_actions]. destruct t; [reflexivity|].
  rewrite IH. reflexivity.
Qed.

Lemma chain_ok_nonnil ks : chain_ok ks = true -> ks <> [] /\ chain_path ks <> [].
Proof.
  destruct ks as [|k ks]; [discriminate|]. intros _. split; [discriminate|].
  unfold chain_path. cbn [flat_map]. pose proof (split_names_nonnil k).
  destruct (split_names k); [contradiction|discriminate].
Qed.

Lemma chain_not_ok ks d : chain_ok ks = false -> exists e, chain_select ks d = Raise e.
Proof.
  intros H. destruct ks as [|k ks]; [eexists; reflexivity|].
  rewrite chain_select_spec by discriminate. rewrite H. eexists; reflexivity.
Qed.

Theorem run_op_actions o c :
  data (fst (run_op o c)) = apply_actions (op_actions o (metrics c)) (data c) /\
  metrics (fst (run_op o c)) = op_metrics o (metrics c).
Proof.
  destruct o as [fold kvs|desc alt fold kvs|desc fold kvs|sect desc kvs|sect desc params|sect desc html|key|ks|key|names|ks b|ks b|ks t];
    cbn [run_op op_actions op_metrics].
  - cbn [fst data metrics set_data]. split; [apply add_texts_actions|reflexivity].
  - pose proof (add_plots_actions desc alt fold kvs (data c)) as H.
    destruct (add_plots desc alt fold kvs (data c)) as [d r]. cbn [fst data metrics set_data] in *. auto.
  - pose proof (add_tables_actions desc fold kvs (data c)) as H.
    destruct (add_tables desc fold kvs (data c)) as [d r]. cbn [fst data metrics set_data] in *. auto.
  - cbn [fst data metrics]. split; reflexivity.
  - cbn [fst data metrics set_data]. split; reflexivity.
  - cbn [fst data metrics set_data]. split; reflexivity.
  - destruct (card_select key (data c)); cbn [fst]; split; reflexivity.
  - destruct (chain_select ks (data c)) as [[p x]|e]; cbn [fst]; split; reflexivity.
  - rewrite card_delete_spec.
    destruct (forallb nonempty (split_names key)); [|split; reflexivity].
    cbn [apply_actions fold_left apply_action].
    destruct (delete_path (split_names key) (data c)); cbn [fst data metrics set_data]; split; reflexivity.
  - rewrite card_delete_list_spec. destruct names as [|n names]; [split; reflexivity|].
    destruct (forallb nonempty (n :: names)); [|split; reflexivity].
    cbn [apply_actions fold_left apply_action].
    destruct (delete_path (n :: names) (data c)); cbn [fst data metrics set_data]; split; reflexivity.
  - destruct (chain_ok ks) eqn:Eok.
    + destruct (chain_ok_nonnil ks Eok) as [Hks Hp].
      rewrite chain_select_spec by exact Hks. rewrite Eok.
      cbn [apply_actions fold_left apply_action].
      destruct (lookup (chain_path ks) (data c)) as [x|] eqn:El; cbn [fst data metrics set_data].
      * split; reflexivity.
      * split; [|reflexivity]. symmetry. apply update_missing. exact El.
    + destruct (chain_not_ok ks (data c) Eok) as [e He]. rewrite He. split; reflexivity.
  - destruct (chain_ok ks) eqn:Eok.
    + destruct (chain_ok_nonnil ks Eok) as [Hks Hp].
      rewrite chain_select_spec by exact Hks. rewrite Eok.
      cbn [apply_actions fold_left apply_action].
      destruct (lookup (chain_path ks) (data c)) as [x|] eqn:El; cbn [fst data metrics set_data].
      * split; reflexivity.
      * split; [|reflexivity]. symmetry. apply update_missing. exact El.
    + destruct (chain_not_ok ks (data c) Eok) as [e He]. rewrite He. split; reflexivity.
  - destruct (chain_ok ks) eqn:Eok.
    + destruct (chain_ok_nonnil ks Eok) as [Hks Hp].
      rewrite chain_select_spec by exact Hks. rewrite Eok.
      cbn [apply_actions fold_left apply_action].
      destruct (lookup (chain_path ks) (data c)) as [x|] eqn:El; cbn [fst data metrics set_data].
      * split; reflexivity.
      * split; [|reflexivity]. symmetry. apply update_missing. exact El.
    + destruct (chain_not_ok ks (data c) Eok) as [e He]. rewrite He. split; reflexivity.
Qed.

Lemma run_card_cons o ops c : run_card (o :: ops) c = run_card ops (fst (run_op o c)).
Proof.
  unfold run_card. cbn [run]. destruct (run_op o c) as [c1 r]. cbn [fst].
  destruct (run ops c1) as [c2 rs]. reflexivity.
Qed.

Theorem run_history ops c :
  data (run_card ops c) = apply_actions (history ops (metrics c)) (data c).
Proof.
  revert c; induction ops as [|o ops IH]; intros c; [reflexivity|].
  rewrite run_card_cons. cbn [history]. rewrite apply_actions_app.
  destruct (run_op_actions o c) as [H1 H2]. rewrite IH, H1, H2. reflexivity.
Qed.

(* ------------------------------------------------------------------ invariants *)
Lemma upd_fun_subs vis fold ttl x : subs (upd_fun vis fold ttl x) = subs x.
Proof. destruct x, vis, fold, ttl; reflexivity. Qed.

Lemma wf_apply_action a d : action_ok a -> wf_dict d -> wf_dict (apply_action a d).
Proof.
  destruct a as [p new|p|p vis fold ttl]; cbn [action_ok apply_action]; intros Hok Hd.
  - destruct Hok as [_ Hs]. apply wf_add_path; [exact Hd|]. rewrite Hs. constructor.
  - destruct (delete_path p d) as [d'|] eqn:E; [eapply wf_delete_path; eauto | exact Hd].
  - apply wf_update_path; [apply upd_fun_subs | exact Hd].
Qed.

Lemma wf_apply_actions acts d : Forall action_ok acts -> wf_dict d -> wf_dict (apply_actions acts d).
Proof.
  intros H. revert d; induction H as [|a acts Ha _ IH]; intros d Hd; [exact Hd|].
  cbn [apply_actions fold_left]. apply IH. apply wf_apply_action; assumption.
Qed.

Lemma op_actions_ok o m : Forall action_ok (op_actions o m).
Proof.
  destruct o as [fold kvs|desc alt fold kvs|desc fold kvs|sect desc kvs|sect desc params|sect desc html|key|ks|key|names|ks b|ks b|ks t];
    cbn [op_actions].
  - induction kvs as [|kv kvs IH]; cbn [map]; constructor; [|exact IH].
    split; [apply split_names_nonnil | reflexivity].
  - induction kvs as [|[key path] kvs IH]; cbn [plot_actions]; [constructor|].
    destruct (is_empty path); constructor; [|exact IH]. split; [apply split_names_nonnil | reflexivity].
  - induction kvs as [|[key t] kvs IH]; cbn [table_actions]; [constructor|].
    destruct t; constructor; [|exact IH]. split; [apply split_names_nonnil | reflexivity].
  - constructor; [|constructor]. split; [apply split_names_nonnil | reflexivity].
  - constructor; [|constructor]. split; [apply split_names_nonnil | reflexivity].
  - constructor; [|constructor]. split; [apply split_names_nonnil | reflexivity].
  - constructor.
  - constructor.
  - destruct (forallb _ _); constructor; [|constructor]. apply split_names_nonnil.
  - destruct names as [|n names]; [constructor|].
    destruct (forallb _ _); constructor; [|constructor]. discriminate.
  - destruct (chain_ok ks) eqn:E; constructor; [|constructor]. apply chain_ok_nonnil. exact E.
  - destruct (chain_ok ks) eqn:E; constructor; [|constructor]. apply chain_ok_nonnil. exact E.
  - destruct (chain_ok ks) eqn:E; constructor; [|constructor]. apply chain_ok_nonnil. exact E.
Qed.

Lemma history_ok ops m : Forall action_ok (history ops m).
Proof.
  revert m; induction ops as [|o ops IH]; intros m; cbn [history]; [constructor|].
  apply Forall_app. split; [apply op_actions_ok | apply IH].
Qed.

(* every card reachable through the API has unique keys at every level *)
Theorem reachable_wf ops : wf_dict (data (run_card ops empty_card)).
Proof. rewrite run_history. apply wf_apply_actions; [apply history_ok | constructor]. Qed.

(* ------------------------------------------------------------------ the history theorem *)
Lemma upd_shal_shallow vis fold ttl x : shallow (upd_fun vis fold ttl x) = upd_shal vis fold ttl (shallow x).
Proof. destruct x, vis, fold, ttl; reflexivity. Qed.

Lemma is_prefix_split q p : is_prefix q p = true -> path_eqb q p = false -> exists r, r <> [] /\ p = q ++ r.
Proof.
  intros H N. apply is_prefix_iff in H as [r ->]. exists r. split; [|reflexivity].
  intros ->. rewrite app_nil_r, path_eqb_refl in N. discriminate.
Qed.

Lemma path_eqb_prefix q p : path_eqb q p = true -> is_prefix q p = true.
Proof. intros H. apply path_eqb_eq in H. subst. apply is_prefix_refl. Qed.

Theorem val_step a d p :
  wf_dict d -> action_ok a -> p <> [] ->
  forall rest d0,
  (forall q, q <> [] -> option_map shallow (lookup q d) = val q rest d0) ->
  option_map shallow (lookup p (apply_action a d)) = val p (a :: rest) d0.
Proof.
  intros Hd Hok Hp rest d0 IH.
  destruct a as [q new|q|q vis fold]; cbn [val apply_action action_ok] in *.
  - destruct Hok as [Hq Hnew].
    destruct (path_eqb q p) eqn:Eqp.
    + apply path_eqb_eq in Eqp. subst q. rewrite lookup_add_same by exact Hp.
      cbn [option_map]. rewrite shallow_set_subs. reflexivity.
    + destruct (is_prefix p q) eqn:Epre.
      * assert (Eqp' : path_eqb p q = false).
        { destruct (path_eqb p q) eqn:E; [|reflexivity]. apply path_eqb_eq in E. subst.
          rewrite path_eqb_refl in Eqp. discriminate. }
        destruct (is_prefix_split _ _ Epre Eqp') as [r [Hr ->]].
        destruct (lookup_add_ancestor p r new d Hp Hr) as [y [H1 H2]].
        rewrite H1. cbn [option_map]. rewrite H2. rewrite <- (IH p Hp).
        destruct (lookup p d); reflexivity.
      * rewrite lookup_add_frame by assumption. apply IH. exact Hp.
  - destruct (delete_path q d) as [d'|] eqn:Edel.
    + assert (Hex : lookup q d <> None).
      { intros Hn. apply delete_none_iff in Hn. congruence. }
      destruct (is_prefix q p) eqn:Epre.
      * rewrite <- (IH q Hok). destruct (lookup q d); [|congruence]. cbn [option_map].
        apply is_prefix_iff in Epre as [r ->].
        rewrite (lookup_delete_below q r d d' Hd Edel). reflexivity.
      * destruct (is_prefix p q) eqn:Epre2.
        -- assert (Eqp' : path_eqb p q = false).
           { destruct (path_eqb p q) eqn:E; [|reflexivity]. apply path_eqb_eq in E. subst.
             rewrite is_prefix_refl in Epre. discriminate. }
           destruct (is_prefix_split _ _ Epre2 Eqp') as [r [Hr ->]].
           destruct (lookup_delete_ancestor p r d d' Hp Hr Edel) as [x [y [H1 [H2 H3]]]].
           rewrite H2. cbn [option_map]. rewrite H3. rewrite <- (IH p Hp), H1. reflexivity.
        -- rewrite (lookup_delete_frame q p d d' Edel Epre Epre2). apply IH. exact Hp.
    + apply delete_none_iff in Edel.
      destruct (is_prefix q p); [|apply IH; exact Hp].
      rewrite <- (IH q Hok), Edel. cbn [option_map]. apply IH. exact Hp.
  - destruct (path_eqb q p) eqn:Eqp.
    + apply path_eqb_eq in Eqp. subst q.
      rewrite lookup_update_same by apply upd_fun_subs. rewrite <- (IH p Hp).
      destruct (lookup p d); cbn [option_map]; [|reflexivity]. rewrite upd_shal_shallow. reflexivity.
    + destruct (is_prefix p q) eqn:Epre.
      * assert (Eqp' : path_eqb p q = false).
        { destruct (path_eqb p q) eqn:E; [|reflexivity]. apply path_eqb_eq in E. subst.
          rewrite path_eqb_refl in Eqp. discriminate. }
        destruct (is_prefix_split _ _ Epre Eqp') as [r [Hr ->]].
        rewrite lookup_update_ancestor by (apply upd_fun_subs || assumption). apply IH. exact Hp.
      * rewrite lookup_update_frame by (apply upd_fun_subs || assumption). apply IH. exact Hp.
Qed.

Theorem val_correct acts d0 :
  wf_dict d0 -> Forall action_ok acts ->
  forall p, p <> [] ->
  option_map shallow (lookup p (apply_actions acts d0)) = val p (rev acts) d0.
Proof.
  intros Hd0. induction acts as [|a acts IH] using rev_ind; intros Hok p Hp.
  - reflexivity.
  - apply Forall_app in Hok as [Hacts Ha]. inversion Ha as [|? ? Hoka _]; subst.
    rewrite apply_actions_app, rev_app_distr. cbn [rev app apply_actions fold_left].
    apply val_step; try assumption.
    + apply wf_apply_actions; assumption.
    + intros q Hq. apply IH; assumption.
Qed.

(* C09_select_last: after ANY sequence of operations on the empty card, the section at p is
   what the history says (last add at p, unless a later delete of p or of an ancestor removed it;
   created empty by an add below it; flags as last assigned) *)
Theorem select_last ops p :
  p <> [] ->
  option_map shallow (lookup p (data (run_card ops empty_card))) = val p (rev (history ops [])) [].
Proof.
  intros Hp. rewrite run_history. apply val_correct; [constructor | apply history_ok | exact Hp].
Qed.

(* the same, seen through Card.select on a key string: for EVERY key without an empty name
   (the others raise KeyError: select_errors) *)
Corollary select_after ops key :
  ~ In [] (split_names key) ->
  match snd (run_op (OSelect key) (run_card ops empty_card)) with
  | Selected x => val (split_names key) (rev (history ops [])) [] = Some (shallow x)
  | Failed e => e = EKey /\ val (split_names key) (rev (history ops [])) [] = None
  | Done => False
  end.
Proof.
  intros Hin. cbn [run_op]. rewrite card_select_spec.
  destruct (forallb nonempty (split_names key)) eqn:Ef; [|apply forallb_nonempty_iff in Ef; contradiction].
  rewrite <- (select_last ops (split_names key) (split_names_nonnil _)).
  destruct (lookup _ _); cbn [snd option_map]; auto.
Qed.

(* ------------------------------------------------------------------ concrete witnesses *)
(* list-form delete does not strip: [" a"] misses the section "a" that the string " a" finds *)
Lemma delete_list_verbatim_example :
  let d := add_single (of_ascii "a") (text_section (of_ascii "a") [] false) [] in
  card_delete_list [of_ascii " a"] d = Raise EKey /\ card_delete (of_ascii " a") d = Ok [].
Proof. split; vm_compute; reflexivity. Qed.

(* a history on which every hypothesis used above holds and every clause is exercised *)
Definition demo_ops : list op :=
  [ OAdd false [(of_ascii "A", of_ascii "1"); (of_ascii "A/B", of_ascii "2"); (of_ascii " C \/ D / E", of_ascii "3")];
    OAdd true [(of_ascii "A", of_ascii "4")];
    ODelete (of_ascii "A/B");
    OAdd false [(of_ascii "A/B/F", of_ascii "5")] ].

Lemma nonvacuous :
  let d := data (run_card demo_ops empty_card) in
  keys d = [of_ascii "A"; of_ascii "C / D"]
  /\ option_map shallow (lookup [of_ascii "A"] d) = Some (of_ascii "A", of_ascii "4", true, true, KText)
  /\ children [of_ascii "A"] d = Some [of_ascii "B"]
  /\ option_map content (lookup [of_ascii "A"; of_ascii "B"] d) = Some []
  /\ option_map content (lookup [of_ascii "C / D"; of_ascii "E"] d) = Some (of_ascii "3")
  /\ snd (run_op (OSelect (of_ascii "A/X")) (run_card demo_ops empty_card)) = Failed EKey
  /\ snd (run_op (OSelectChain [of_ascii "C \/ D"; of_ascii "E"]) (run_card demo_ops empty_card))
     = snd (run_op (OSelect (of_ascii "C \/ D/E")) (run_card demo_ops empty_card)).
Proof. repeat split; vm_compute; reflexivity. Qed.
