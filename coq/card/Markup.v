(* skops/card/_markup.py : the pandoc AST (typed view of pandoc's JSON) and
   Markdown.__call__ with every _xxx method, as an executable Gallina function.
   Model only -- proofs are in MarkupFacts.v.

   The indentation stack `Markdown._indent_trace` is threaded explicitly:
     md : stack -> elem -> stack * res pstr
   `stack` lists the trace with the LAST appended entry FIRST.
   The model follows the tree with the fix for D21 (the context manager
   `_indented` pops in a `finally`), so the pop happens on both paths.

   Python exceptions are mapped to Json.err:
     ValueError -> EValue, KeyError -> EKey, TypeError -> EType,
     AttributeError -> EAttr, anything else (IndexError here) -> EOther.     *)
From Skv Require Export PyStr Json Corr.
Open Scope N_scope.

(* ------------------------------------------------------------------ *)
(* str helpers                                                         *)

Definition len (t : pstr) : Z := Z.of_nat (length t).
(* " " * n  (n <= 0 gives "") *)
Definition spaces (n : Z) : pstr := repeat 32 (Z.to_nat n).

(* t.replace(c, rep) for a one-character pattern *)
Fixpoint replace1 (c : N) (rep : pstr) (t : pstr) : pstr :=
  match t with
  | [] => []
  | x :: t' => if N.eqb x c then rep ++ replace1 c rep t' else x :: replace1 c rep t'
  end.

Fixpoint is_prefix (p t : pstr) : bool :=
  match p, t with
  | [], _ => true
  | a :: p', b :: t' => N.eqb a b && is_prefix p' t'
  | _ :: _, [] => false
  end.

(* t.replace(pat, rep), pat non-empty: leftmost, non-overlapping.
   `skip` = characters of an already matched occurrence still to drop. *)
Fixpoint replace_go (pat rep : pstr) (skip : nat) (t : pstr) : pstr :=
  match t with
  | [] => []
  | c :: t' =>
      match skip with
      | S k => replace_go pat rep k t'
      | O => if is_prefix pat t then rep ++ replace_go pat rep (pred (length pat)) t'
             else c :: replace_go pat rep O t'
      end
  end.
Definition replace (pat rep t : pstr) : pstr := replace_go pat rep O t.

Definition zsum (l : list Z) : Z := fold_right Z.add 0%Z l.

(* ------------------------------------------------------------------ *)
(* The pandoc AST.  Only what _markup.py looks at is kept; slots it     *)
(* ignores (list number style, column alignments, captions, ...) are    *)
(* generated on the Python side but have no counterpart here.           *)

(* Attr = (identifier, classes, key-value pairs) *)
Definition attr := (pstr * list pstr * list (pstr * pstr))%type.

Inductive quote := QSingle | QDouble | QOther (name : pstr).

Inductive inline :=
| Str (t : pstr)
| Space | SoftBreak | LineBreak
| Emph (xs : list inline) | Strong (xs : list inline) | Strikeout (xs : list inline)
| Code (a : attr) (t : pstr)
| RawInline (fmt t : pstr)
| Link (a : attr) (xs : list inline) (url title : pstr)
| Image (a : attr) (xs : list inline) (url title : pstr)
| Quoted (q : quote) (xs : list inline)
(* an inline type that is not in Markdown.mapping and whose "c" is a list of
   inlines: Underline, SmallCaps, Superscript, Subscript *)
| IUnsup (name : pstr) (xs : list inline).

Inductive block :=
| Plain (xs : list inline)
| Para (xs : list inline)
| Header (lvl : Z) (a : attr) (xs : list inline)
| CodeBlock (a : attr) (t : pstr)
| RawBlock (fmt t : pstr)
| BlockQuote (bs : list block)
| BulletList (items : list (list block))
| OrderedList (start : Z) (items : list (list block))
| Div (a : attr) (bs : list block)
(* pandoc-types < 1.21: [caption, aligns, widths, header cells, rows]; a cell is a list of blocks *)
| TableOld (heads : list (list block)) (rows : list (list (list block)))
(* pandoc-types >= 1.21: [attr, caption, colspecs, head, bodies, foot];
   hrows = rows of the TableHead, a row = list of cells, a cell = its blocks;
   bodies = for every TableBody its body rows *)
| TableNew (hrows : list (list (list block))) (bodies : list (list (list (list block))))
(* pandoc >= 3: [attr, caption, blocks] *)
| Figure (a : attr) (bs : list block)
(* a block type that is not in Markdown.mapping: HorizontalRule, Null, LineBlock, DefinitionList ... *)
| BUnsup (name : pstr).

Inductive elem := EB (b : block) | EI (i : inline).

(* ------------------------------------------------------------------ *)
(* sequencing                                                          *)

Section MapR.
  Context {A B : Type} (f : A -> res B).
  Fixpoint mapR (l : list A) : res (list B) :=
    match l with
    | [] => Ok []
    | x :: l' => match f x with
                 | Ok y => match mapR l' with Ok ys => Ok (y :: ys) | Raise e => Raise e end
                 | Raise e => Raise e
                 end
    end.
End MapR.

Definition stack := list Z.
Definition M (A : Type) := stack -> stack * res A.
Definition ret {A} (a : A) : M A := fun st => (st, Ok a).
Definition raise {A} (e : err) : M A := fun st => (st, Raise e).
Definition bindM {A B} (m : M A) (f : A -> M B) : M B :=
  fun st => match m st with
            | (st', Ok a) => f a st'
            | (st', Raise e) => (st', Raise e)
            end.
Definition lift {A} (r : res A) : M A := fun st => (st, r).

Section MapM.
  Context {A B : Type} (f : A -> M B).
  Fixpoint mapM (l : list A) : M (list B) :=
    match l with
    | [] => ret []
    | x :: l' => bindM (f x) (fun y => bindM (mapM l') (fun ys => ret (y :: ys)))
    end.
End MapM.

Section MapMi.
  Context {A B : Type} (f : Z -> A -> M B).
  (* for i, x in enumerate(l, start=i) *)
  Fixpoint mapMi (i : Z) (l : list A) : M (list B) :=
    match l with
    | [] => ret []
    | x :: l' => bindM (f i x) (fun y => bindM (mapMi (i + 1)%Z l') (fun ys => ret (y :: ys)))
    end.
End MapMi.

(* with self._indented(spaces=n): body      (try: yield / finally: pop(-1)) *)
Definition indented {A} (n : Z) (body : M A) : M A :=
  fun st => let '(st', r) := body (n :: st) in
            match st' with
            | [] => ([], Raise EOther)       (* pop from empty list: IndexError replaces whatever was in flight *)
            | _ :: st'' => (st'', r)
            end.

(* self._get_indent(incr=0): " " * sum(self._indent_trace[:-1]) *)
Definition get_indent (st : stack) : Z := zsum (tl st).
(* _soft_break: incr = trace[-1] if trace else 0;  incr + sum(trace[:-1]) *)
Definition soft_indent (st : stack) : Z :=
  match st with [] => 0%Z | top :: rest => (top + zsum rest)%Z end.

(* ------------------------------------------------------------------ *)
(* inlines: they only read the stack                                    *)

Definition wrap (l : pstr) (r : res pstr) (rr : pstr) : res pstr :=
  match r with Ok t => Ok (l ++ t ++ rr) | Raise e => Raise e end.

(* _image after the tuple unpacking *)
(* D27 repaired: any title and an empty alt text are accepted; the title is not written *)
Definition image_core (cat : list inline -> res pstr) (xs : list inline) (url title : pstr) : res pstr :=
  match cat xs with
  | Ok cap => Ok (s "![" ++ cap ++ s "](" ++ url ++ s ")")
  | Raise e => Raise e
  end.

Fixpoint mdi (st : stack) (x : inline) {struct x} : res pstr :=
  let cat := fun xs => match mapR (mdi st) xs with Ok ps => Ok (concat ps) | Raise e => Raise e end in
  match x with
  | Str t => Ok (replace1 92 [92; 92] t)
  | Space => Ok [32]
  | SoftBreak => Ok (10 :: spaces (soft_indent st))
  | LineBreak => Ok [10]
  | Emph xs => wrap (s "_") (cat xs) (s "_")
  | Strong xs => wrap (s "**") (cat xs) (s "**")
  | Strikeout xs => wrap (s "~~") (cat xs) (s "~~")
  | Code _ t => Ok (96 :: t ++ [96])
  | RawInline _ t => Ok t
  | Link _ xs url _ => wrap [91] (cat xs) (s "](" ++ url ++ s ")")
  | Image _ xs url title => image_core cat xs url title
  | Quoted q xs =>
      match q with
      | QDouble => wrap [34] (cat xs) [34]
      | QSingle => wrap [39] (cat xs) [39]
      | QOther _ => Raise EValue        (* KeyError inside the mapped function -> ValueError in __call__ *)
      end
  | IUnsup _ _ => Raise EValue          (* "... is not supported yet" *)
  end.

Definition cat_inlines (st : stack) (xs : list inline) : res pstr :=
  match mapR (mdi st) xs with Ok ps => Ok (concat ps) | Raise e => Raise e end.

(* _figure:  plain_fig = body["c"][0]["c"]; plain_fig[2][1] = "fig:"; self._image(plain_fig)
   -- what happens depends on the JSON shape of the first inline of the Plain *)
Definition figure_first (st : stack) (x : inline) : res pstr :=
  match x with
  | Image _ xs url _ | Link _ xs url _ => image_core (cat_inlines st) xs url (s "fig:")
  | Str t => if (length t <? 3)%nat then Raise EOther (* IndexError *) else Raise EType (* str item assignment *)
  | Space | SoftBreak | LineBreak => Raise EValue            (* KeyError 'c' -> ValueError *)
  | Emph xs | Strong xs | Strikeout xs | IUnsup _ xs =>
      if (length xs <? 3)%nat then Raise EOther              (* IndexError *)
      else Raise EValue                                      (* tuple unpacking in _image *)
  | Code _ _ | RawInline _ _ | Quoted _ _ => Raise EOther    (* "c" has two entries: IndexError *)
  end.

(* ------------------------------------------------------------------ *)
(* TableSection(title="", content="", table=table).format()             *)
(* PrettyTable 3.x, TableStyle.MARKDOWN, centre alignment.  Display      *)
(* width (wcwidth) is modelled as the number of code points: exact for   *)
(* single-width characters without tab / escape / line separators; the   *)
(* correspondence generates table cells in that class only.              *)

Fixpoint dset {A} (k : pstr) (v : A) (d : list (pstr * A)) : list (pstr * A) :=
  match d with
  | [] => [(k, v)]
  | (k', v') :: d' => if pstr_eqb k k' then (k, v) :: d' else (k', v') :: dset k v d'
  end.

Definition zmax_list (l : list Z) : Z := fold_right Z.max 0%Z l.
Definition text_width (t : pstr) : Z := zmax_list (map len (split_on 10 t)).

(* wcwidth.center / str.center *)
Definition center (t : pstr) (w : Z) : pstr :=
  let pad := Z.max 0 (w - len t) in
  let left := (pad / 2 + (if Z.odd pad && Z.odd w then 1 else 0))%Z in
  spaces left ++ t ++ spaces (pad - left).

Definition col_width (has_rows : bool) (col : pstr * list pstr) : Z :=
  let h := text_width (fst col) in
  if has_rows then Z.max 3 (Z.max h (zmax_list (map text_width (snd col)))) else h.

Definition hrule_cell (w : Z) : pstr :=
  firstn (Z.to_nat w) (s " :" ++ repeat 45 (Z.to_nat w)) ++ s ": ".

(* column-major <-> row-major for n entries per list *)
(* column-major <-> row-major for n entries per list *)
Fixpoint columns_of (n : nat) (rows : list (list pstr)) : list (list pstr) :=
  match n with
  | O => []
  | S n' => map (fun r => hd [] r) rows :: columns_of n' (map (@tl pstr) rows)
  end.

Definition pretty_md (table : list (pstr * list pstr)) : pstr :=
  let nrows := match table with [] => O | c :: _ => length (snd c) end in
  let has_rows := negb (Nat.eqb nrows 0) in
  let ws := map (col_width has_rows) table in
  let line := fun (cells : list pstr) =>
    124 :: concat (map (fun cw => 32 :: center (fst cw) (snd cw) ++ [32; 124]) (combine cells ws)) in
  let header := line (map fst table) in
  let hrule := 124 :: concat (map (fun w => hrule_cell w ++ [124]) ws) in
  let rows := columns_of nrows (map snd table) in
  join [10] (header :: hrule :: map line rows).

(* zip( *body ): as many columns as the shortest row has cells *)
Definition min_len (rows : list (list pstr)) : nat :=
  match rows with
  | [] => O
  | r :: rs => fold_right (fun r' acc => Nat.min (length r') acc) (length r) rs
  end.
Definition table_format (columns : list pstr) (body : list (list pstr)) : res pstr :=
  let table :=
    match body with
    | [] => fold_left (fun d k => dset k [] d) columns []
    | _ => fold_left (fun d kv => dset (fst kv) (snd kv) d)
                     (combine columns (columns_of (min_len body) body)) []
    end in
  match table with
  | [] => Raise EValue                     (* "Trying to add table with no columns" *)
  | _ => Ok (pretty_md (map (fun kv => (fst kv, map (replace1 10 (s "<br />")) (snd kv))) table))
  end.

(* ------------------------------------------------------------------ *)
(* blocks                                                              *)

Definition div_open (a : attr) : pstr :=
  let '(ident, classes, kvs) := a in
  s "<div"
  ++ (match ident with [] => [] | _ => s " id=""" ++ ident ++ [34] end)
  ++ (match classes with [] => [] | _ => s " class=""" ++ join [32] classes ++ [34] end)
  ++ (match kvs with
      | [] => []
      | _ => 32 :: join [32] (map (fun kv => match snd kv with
                                             | [] => fst kv
                                             | v => fst kv ++ s "=""" ++ v ++ [34]
                                             end) kvs)
      end)
  ++ s ">".

Definition code_block (a : attr) (t : pstr) : pstr :=
  let '(_, classes, _) := a in
  join [10] [s "```" ++ join (s ", ") classes; t; s "```"].

Fixpoint mdb (x : block) {struct x} : M pstr :=
  (* _make_list_item *)
  let list_item := fun (marker : pstr) (item : list block) =>
    bindM (mapM mdb item) (fun parts st =>
      (st, Ok (spaces (get_indent st) ++ marker ++ 32 :: join [10] parts))) in
  (* "".join(fn(part) for part in content) *)
  let cell_new := fun (cell : list block) => bindM (mapM mdb cell) (fun ps => ret (concat ps)) in
  match x with
  | Plain xs | Para xs | Header _ _ xs => fun st => (st, cat_inlines st xs)
  | CodeBlock a t => ret (code_block a t)
  | RawBlock _ t => ret t
  | BlockQuote bs =>
      bindM (mapM mdb bs) (fun parts =>
        ret (s "> " ++ join [10; 62; 32] (map (replace1 10 [10; 62; 32]) parts)))
  | BulletList items =>
      bindM (indented 2 (mapM (list_item [45]) items)) (fun parts => ret (join [10] parts))
  | OrderedList start items =>
      bindM (indented 3 (mapMi (fun i item => list_item (show_Z i ++ [46]) item) start items))
            (fun parts => ret (join [10] parts))
  | Div a bs =>
      bindM (mapM (fun b => indented 2 (mdb b)) bs) (fun middle =>
        ret (div_open a ++ concat middle ++ s "</div>"))
  | TableOld heads rows =>
      bindM (mapM (fun cell => match cell with
                               | [b] => mdb b
                               | _ => raise EValue            (* for (content,) in items *)
                               end) heads) (fun columns =>
      bindM (mapM (mapM (fun cell => match cell with
                                     | [] => ret []           (* content = "" ; __call__("") *)
                                     | b :: _ => mdb b
                                     end)) rows) (fun body =>
      lift (table_format columns body)))
  | TableNew hrows bodies =>
      match hrows with
      | [] => raise EOther                                    (* thead_bodies[0]: IndexError *)
      | hrow :: _ =>
          bindM (mapM cell_new hrow) (fun columns =>
          match bodies with
          | [] => raise EOther                                (* tbody[0]: IndexError *)
          | trows :: _ =>
              bindM (mapM (mapM cell_new) trows) (fun body =>
              lift (table_format columns body))
          end)
      end
  | Figure _ bs =>
      match bs with
      | [Plain []] => raise EOther                            (* body["c"][0]: IndexError *)
      | [Plain (x :: _)] => fun st => (st, figure_first st x)
      | _ => raise EValue                                     (* (body,) = ... / body type is not Plain *)
      end
  | BUnsup _ => raise EValue
  end.

(* Markdown.__call__ *)
Definition md (st : stack) (x : elem) : stack * res pstr :=
  match x with
  | EB b => mdb b st
  | EI i => (st, mdi st i)
  end.

(* several calls on ONE Markdown instance *)
Fixpoint md_seq (st : stack) (xs : list elem) : stack * list (res pstr) :=
  match xs with
  | [] => (st, [])
  | x :: xs' => let '(st', r) := md st x in
                let '(st'', rs) := md_seq st' xs' in (st'', r :: rs)
  end.
