(* split_subsection_names (code) = token-level specification, for every key;
   consequences used by the tree theorems. *)
From Skv Require Import PyStr PyStrFacts CardStr Path.
From Coq Require Import Lia.
Open Scope N_scope.

Lemma split_unesc_from_nonnil b a : split_unesc_from b a <> [].
Proof.
  revert b; induction a as [|c a IH]; intros b; cbn [split_unesc_from]; [discriminate|].
  destruct ((c =? slash) && negb b); [discriminate|].
  destruct (split_unesc_from (c =? backslash) a); discriminate.
Qed.

Lemma split_toks_nonnil l : split_toks l <> [].
Proof.
  induction l as [|[|c] l IH]; cbn [split_toks]; try discriminate.
  destruct (split_toks l); discriminate.
Qed.

(* the look-behind flag only matters when the next character is a slash *)
Lemma split_unesc_from_flag b d a :
  d <> slash -> split_unesc_from b (d :: a) = split_unesc_from false (d :: a).
Proof.
  intros Hd. cbn [split_unesc_from].
  apply N.eqb_neq in Hd. rewrite Hd. reflexivity.
Qed.

Lemma unescape_cons_other c p :
  c <> backslash -> unescape (c :: p) = c :: unescape p.
Proof.
  intros Hc. apply N.eqb_neq in Hc. cbn [unescape]. destruct p as [|d p]; [reflexivity|].
  rewrite Hc. reflexivity.
Qed.

Lemma unescape_cons_noslash c d p :
  d <> slash -> unescape (c :: d :: p) = c :: unescape (d :: p).
Proof.
  intros Hd. apply N.eqb_neq in Hd. cbn [unescape]. rewrite Hd, andb_false_r. reflexivity.
Qed.

(* first piece of a split starts with the first character unless that is a separator *)
Lemma split_unesc_head d a :
  d <> slash -> exists p ps, split_unesc_from false (d :: a) = (d :: p) :: ps.
Proof.
  intros Hd. cbn [split_unesc_from]. apply N.eqb_neq in Hd. rewrite Hd. cbn [andb].
  destruct (split_unesc_from (d =? backslash) a) as [|p ps] eqn:E.
  - exfalso. eapply split_unesc_from_nonnil; eauto.
  - eauto.
Qed.

(* strong induction in steps of one or two characters *)
Lemma pstr_two_step_ind (P : pstr -> Prop) :
  P [] -> (forall c, P [c]) ->
  (forall c d a, P a -> P (d :: a) -> P (c :: d :: a)) ->
  forall a, P a.
Proof.
  intros H0 H1 H2 a.
  assert (H : P a /\ forall c, P (c :: a)).
  { induction a as [|d a [IHa IHc]].
    - split; auto.
    - split; [apply IHc|]. intros c. apply H2; auto. }
  apply H.
Qed.

Lemma tokens_cons2 c d a :
  tokens (c :: d :: a) =
  if (c =? backslash) && (d =? slash) then TChr slash :: tokens a else tok_of c :: tokens (d :: a).
Proof. reflexivity. Qed.

Lemma split_unesc_from_cons b c a :
  split_unesc_from b (c :: a) =
  if (c =? slash) && negb b then [] :: split_unesc_from false a
  else match split_unesc_from (c =? backslash) a with
       | p :: ps => (c :: p) :: ps
       | [] => [[c]]
       end.
Proof. reflexivity. Qed.

Lemma unescape_split_tokens a :
  map unescape (split_unesc_from false a) = split_toks (tokens a).
Proof.
  induction a as [| c | c d a IHa IHda] using pstr_two_step_ind.
  - reflexivity.
  - cbn [split_unesc_from tokens negb andb]. rewrite andb_true_r. unfold tok_of.
    destruct (c =? slash) eqn:Ec; reflexivity.
  - rewrite tokens_cons2.
    destruct ((c =? backslash) && (d =? slash)) eqn:Eesc.
    + (* escaped slash: one token *)
      apply andb_true_iff in Eesc as [Ec Ed].
      apply N.eqb_eq in Ec. apply N.eqb_eq in Ed. subst c d.
      rewrite split_unesc_from_cons. change (backslash =? slash) with false. cbn [andb].
      change (backslash =? backslash) with true.
      rewrite split_unesc_from_cons.
      change (slash =? slash) with true. cbn [negb andb].
      change (slash =? backslash) with false.
      cbn [split_toks]. rewrite <- IHa.
      destruct (split_unesc_from false a) as [|p ps] eqn:E.
      * exfalso. eapply split_unesc_from_nonnil; eauto.
      * cbn [map]. f_equal.
    + unfold tok_of. destruct (c =? slash) eqn:Ec.
      * (* separator *)
        rewrite split_unesc_from_cons. rewrite Ec. cbn [negb andb]. cbn [split_toks map].
        f_equal. exact IHda.
      * (* ordinary character (possibly a backslash not followed by a slash) *)
        cbn [split_toks]. rewrite <- IHda.
        assert (Hstep : split_unesc_from false (c :: d :: a) =
                match split_unesc_from false (d :: a) with
                | p :: ps => (c :: p) :: ps | [] => [[c]] end).
        { rewrite split_unesc_from_cons. rewrite Ec. cbn [andb].
          destruct (c =? backslash) eqn:Eb.
          - cbn [andb] in Eesc. rewrite split_unesc_from_flag; [reflexivity|].
            apply N.eqb_neq. exact Eesc.
          - reflexivity. }
        rewrite Hstep.
        destruct (split_unesc_from false (d :: a)) as [|p ps] eqn:E.
        -- exfalso. eapply split_unesc_from_nonnil; eauto.
        -- cbn [map]. f_equal.
           destruct (c =? backslash) eqn:Eb.
           ++ cbn [andb] in Eesc. apply N.eqb_neq in Eesc.
              destruct (split_unesc_head d a Eesc) as [p' [ps' E']].
              rewrite E in E'. injection E' as -> ->.
              apply unescape_cons_noslash. exact Eesc.
           ++ apply unescape_cons_other. apply N.eqb_neq. exact Eb.
Qed.

(* C09_split_spec: for EVERY key (no well-formedness guard is needed after the D13 fix) *)
Theorem split_spec key : split_names key = spec_split key.
Proof.
  unfold split_names, spec_split, split_unesc.
  rewrite <- unescape_split_tokens. rewrite map_map. reflexivity.
Qed.

Lemma split_names_nonnil key : split_names key <> [].
Proof.
  unfold split_names, split_unesc. intros H. apply map_eq_nil in H.
  eapply split_unesc_from_nonnil; eauto.
Qed.

(* the three clauses of the property on the witnesses of the old defect D13 *)
Lemma split_examples :
  split_names [97; 92; 47] = [[97; 47]]                                     (* "a\\/"      -> ["a/"]        *)
  /\ split_names [120; 47; 32; 92; 47; 32; 47; 121] = [[120]; [47]; [121]]    (* "x/ \\/ /y" -> ["x","/","y"] *)
  /\ split_names [97; 31; 98] = [[97; 31; 98]]                                (* U+001F stays itself          *)
  /\ split_names [32; 97; 32; 47; 160; 98; 31] = [[97]; [98]].                (* blanks incl. U+00A0, U+001F stripped *)
Proof. repeat split; vm_compute; reflexivity. Qed.

(* ---- splitting a concatenation  p ++ "/" ++ q ------------------------------ *)
Lemma ends_with_backslash_cons c d p :
  ends_with_backslash (c :: d :: p) = ends_with_backslash (d :: p).
Proof.
  unfold ends_with_backslash. change (rev (c :: d :: p)) with (rev (d :: p) ++ [c]).
  destruct (rev (d :: p)) as [|e r] eqn:Er.
  - exfalso. apply (f_equal (@length N)) in Er. rewrite rev_length in Er. discriminate.
  - reflexivity.
Qed.

Lemma split_unesc_from_app b p q :
  ends_with_backslash p = false ->
  (p = [] -> b = false) ->
  split_unesc_from b (p ++ slash :: q) = split_unesc_from b p ++ split_unesc_from false q.
Proof.
  revert b; induction p as [|c p IH]; intros b Hend Hb.
  - rewrite (Hb eq_refl). cbn [app]. rewrite split_unesc_from_cons.
    change (slash =? slash) with true. reflexivity.
  - cbn [app]. rewrite !split_unesc_from_cons.
    destruct p as [|d p].
    + (* p = [c]: c is not a backslash, so the following slash separates *)
      assert (Hc : (c =? backslash) = false) by exact Hend.
      cbn [app]. rewrite !split_unesc_from_cons. rewrite Hc.
      change (slash =? slash) with true. cbn [negb andb].
      destruct ((c =? slash) && negb b); reflexivity.
    + rewrite ends_with_backslash_cons in Hend.
      rewrite !IH by (exact Hend || discriminate).
      destruct ((c =? slash) && negb b); [reflexivity|].
      destruct (split_unesc_from (c =? backslash) (d :: p)) as [|x xs] eqn:E.
      * exfalso. eapply split_unesc_from_nonnil; eauto.
      * reflexivity.
Qed.

(* split(p + "/" + q) = split(p) ++ split(q)   unless p ends with a backslash *)
Theorem split_names_app p q :
  ends_with_backslash p = false ->
  split_names (p ++ slash :: q) = split_names p ++ split_names q.
Proof.
  intros H. unfold split_names, split_unesc.
  rewrite split_unesc_from_app; [|exact H|reflexivity].
  apply map_app.
Qed.

(* ... and the guard is necessary *)
Lemma split_names_app_refuted :
  split_names ([97; 92] ++ slash :: [98]) <> split_names [97; 92] ++ split_names [98].
Proof. vm_compute. discriminate. Qed.

(* ---- every list of names has a key: escape each '/', join with "/" ---------- *)
Definition starts_with_slash (a : pstr) : bool := match a with c :: _ => c =? slash | [] => false end.

Lemma escape_no_leading_slash a : starts_with_slash (escape a) = false.
Proof.
  destruct a as [|c a]; [reflexivity|]. cbn [escape].
  destruct (c =? slash) eqn:E; cbn [starts_with_slash]; [reflexivity | exact E].
Qed.

Lemma unescape_cons_noslash' c e : starts_with_slash e = false -> unescape (c :: e) = c :: unescape e.
Proof.
  intros H. destruct e as [|d e]; [reflexivity|]. cbn [starts_with_slash] in H.
  apply unescape_cons_noslash. apply N.eqb_neq. exact H.
Qed.

Lemma unescape_escape a : unescape (escape a) = a.
Proof.
  induction a as [|c a IH]; [reflexivity|]. cbn [escape].
  destruct (c =? slash) eqn:E.
  - apply N.eqb_eq in E. subst c. cbn [unescape].
    change (backslash =? backslash) with true. change (slash =? slash) with true. cbn [andb].
    f_equal. exact IH.
  - rewrite unescape_cons_noslash' by apply escape_no_leading_slash. f_equal. exact IH.
Qed.

Lemma split_unesc_escape b a : split_unesc_from b (escape a) = [escape a].
Proof.
  revert b; induction a as [|c a IH]; intros b; [reflexivity|]. cbn [escape].
  destruct (c =? slash) eqn:E.
  - rewrite !split_unesc_from_cons. change (backslash =? slash) with false. cbn [andb].
    change (backslash =? backslash) with true. change (slash =? slash) with true. cbn [negb andb].
    change (slash =? backslash) with false. rewrite IH. reflexivity.
  - rewrite split_unesc_from_cons. rewrite E. cbn [andb]. rewrite IH. reflexivity.
Qed.

Lemma split_names_escape a : split_names (escape a) = [strip a].
Proof.
  unfold split_names, split_unesc. rewrite split_unesc_escape. cbn [map]. rewrite unescape_escape. reflexivity.
Qed.

Lemma escape_nonnil c a : escape (c :: a) <> [].
Proof. cbn [escape]. destruct (c =? slash); discriminate. Qed.

Lemma ends_with_backslash_cons' c e : e <> [] -> ends_with_backslash (c :: e) = ends_with_backslash e.
Proof. destruct e as [|d e]; [congruence|]. intros _. apply ends_with_backslash_cons. Qed.

Lemma ends_with_backslash_escape a : ends_with_backslash (escape a) = ends_with_backslash a.
Proof.
  induction a as [|c a IH]; [reflexivity|]. cbn [escape].
  destruct a as [|d a].
  - cbn [escape]. destruct (c =? slash) eqn:E; [|reflexivity].
    apply N.eqb_eq in E. subst c. reflexivity.
  - rewrite (ends_with_backslash_cons c d a). rewrite <- IH.
    destruct (c =? slash).
    + rewrite !ends_with_backslash_cons' by (apply escape_nonnil || discriminate). reflexivity.
    + rewrite ends_with_backslash_cons' by apply escape_nonnil. reflexivity.
Qed.

(* C09 "stable addressing": the key spelled from a list of names leads back to exactly those names,
   stripped -- provided no name but the last ends in a backslash (there is no escape for a backslash) *)
Theorem split_path_string names :
  names <> [] ->
  Forall (fun n => ends_with_backslash n = false) (removelast names) ->
  split_names (path_string names) = map strip names.
Proof.
  unfold path_string. induction names as [|n names IH]; intros Hne Hbs; [congruence|].
  destruct names as [|n2 names].
  - cbn [map join]. apply split_names_escape.
  - cbn [removelast] in Hbs. inversion Hbs as [|? ? Hn Hrest]; subst.
    change (map escape (n :: n2 :: names)) with (escape n :: escape n2 :: map escape names).
    change (join [slash] (escape n :: escape n2 :: map escape names))
      with (escape n ++ slash :: join [slash] (map escape (n2 :: names))).
    rewrite split_names_app by (rewrite ends_with_backslash_escape; exact Hn).
    rewrite split_names_escape. cbn [map app]. f_equal.
    apply IH; [discriminate | exact Hrest].
Qed.

(* the guard is necessary: a name ending in a backslash swallows the following separator *)
Lemma split_path_string_refuted :
  split_names (path_string [[97; 92]; [98]]) <> map strip [[97; 92]; [98]].
Proof. vm_compute. discriminate. Qed.
