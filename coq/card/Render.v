(* Rendering: Section.format / PlotSection.format / TableSection.format,
   Card._generate_content, _generate_card, render, save, _iterate_key_section_content, get_toc.
   PrettyTable's markdown layout is an ORACLE (Section variable `pretty`): only the
   header and cell texts handed to it are modelled.  None = PrettyTable raised. *)
From Skv Require Export Tree.
Open Scope N_scope.

Definition details_open : pstr :=
  (* "<details>\n<summary> Click to expand </summary>\n\n" *)
  s "<details>" ++ [LF] ++ s "<summary> Click to expand </summary>" ++ [LF; LF].
Definition details_close : pstr := [LF; LF] ++ s "</details>".

Definition wrap_details (text : pstr) (fold : bool) : pstr :=
  if fold then details_open ++ text ++ details_close else text.

(* what TableSection.format hands to PrettyTable: field names in order and, per
   column, [str(value).replace("\n", "<br />") for value in values] *)
Definition table_header (cols : list (pstr * list pstr)) : list pstr := map fst cols.
Definition table_cells (cols : list (pstr * list pstr)) : list (list pstr) :=
  map (fun col => map replace_lf (snd col)) cols.

(* if self.content: val = f"{self.content}\n\n{val}" *)
Definition with_description (desc val : pstr) : pstr :=
  if is_empty desc then val else desc ++ [LF; LF] ++ val.

Section Oracle.
Variable pretty : list pstr -> list (list pstr) -> option pstr.

(* x.format() ; None = the call raises (PrettyTable refused the columns) *)
Definition format (x : section) : option pstr :=
  match skind x with
  | KText => Some (wrap_details (content x) (folded x))
  | KPlot path alt =>
      let alt' := if is_empty alt then path else alt in
      let text := [33; 91] ++ alt' ++ [93; 40] ++ path ++ [41] in       (* ![alt](path) *)
      Some (with_description (content x) (wrap_details text (folded x)))
  | KTable cols =>
      match pretty (table_header cols) (table_cells cols) with
      | Some tab => Some (with_description (content x) (wrap_details tab (folded x)))
      | None => None
      end
  end.

(* Card._generate_content as the list of sections it visits with their depth:
   invisible sections are skipped with their subtree; a folded section is emitted
   but not descended into. *)
Fixpoint sec_events (depth : nat) (x : section) : list (nat * section) :=
  match x with
  | Sec _ _ v f _ sd =>
      if v then (depth, x) :: (if f then [] else flat_map (fun kv => sec_events (S depth) (snd kv)) sd)
      else []
  end.
Definition events_at (depth : nat) (d : dict) : list (nat * section) :=
  flat_map (fun kv => sec_events depth (snd kv)) d.
Definition render_events (d : dict) : list (nat * section) := events_at 1 d.

(* f"{depth * '#'} {section.title}" *)
Definition heading (depth : nat) (x : section) : pstr := rep depth HASH ++ [SP] ++ title x.

(* the strings yielded by _generate_content, in order; None = some format() raised *)
Fixpoint lines_of (evs : list (nat * section)) : option (list pstr) :=
  match evs with
  | [] => Some []
  | (depth, x) :: evs' =>
      match format x, lines_of evs' with
      | Some body, Some rest => Some (heading depth x :: body :: rest)
      | _, _ => None
      end
  end.

(* "\n".join(_generate_card()):  every non-empty line l contributes "\n" + l, then "" is
   appended and everything is joined by "\n" -- i.e. each kept line is "\n" l "\n". *)
Definition card_text (lines : list pstr) : pstr :=
  join [LF] (map (fun l => LF :: l) (filter nonempty lines) ++ [[]]).

Definition render (d : dict) : option pstr :=
  match lines_of (render_events d) with Some ls => Some (card_text ls) | None => None end.

(* Card.save(path, copy_files): the text is produced by the same generator; with
   copy_files the path of every rendered PlotSection is copied next to the file. *)
Definition plot_path (x : section) : list pstr :=
  match skind x with KPlot p _ => [p] | _ => [] end.
Definition save_text (copy_files : bool) (d : dict) : option pstr := render d.
Definition save_copies (copy_files : bool) (d : dict) : list pstr :=
  if copy_files then flat_map (fun e => plot_path (snd e)) (render_events d) else [].
(* bytes written: None = format raised or the text has no UTF-8 encoding *)
Definition save_bytes (copy_files : bool) (d : dict) : option (list N) :=
  match save_text copy_files d with Some t => utf8 t | None => None end.

(* Card._iterate_key_section_content (after the D14 fix it stops at folded sections) *)
Fixpoint sec_toc (level : nat) (x : section) : list (pstr * nat) :=
  match x with
  | Sec t _ v f _ sd =>
      if v then (t, level) :: (if f then [] else flat_map (fun kv => sec_toc (S level) (snd kv)) sd)
      else []
  end.
Definition toc_events_at (level : nat) (d : dict) : list (pstr * nat) :=
  flat_map (fun kv => sec_toc level (snd kv)) d.
Definition toc_events (d : dict) : list (pstr * nat) := toc_events_at 0 d.

(* f"{'  ' * level}- {title}" joined by "\n" *)
Definition toc_line (e : pstr * nat) : pstr := rep (2 * snd e) SP ++ [45; SP] ++ fst e.
Definition get_toc (d : dict) : pstr := join [LF] (map toc_line (toc_events d)).

End Oracle.
