(* Specification-side definitions (no proofs): the history semantics against which the
   tree operations are proved (C09_select_last), the static decomposition of every
   operation into primitive tree actions, the visible-tree specification of rendering
   (C10) and the first-seen/latest-value specification of metric accumulation (C14). *)
From Skv Require Export Ops Render.
Open Scope N_scope.

(* ---- operations as primitive actions (depends on the accumulated metrics only) --- *)
Fixpoint plot_actions (desc alt : option pstr) (fold : bool) (kvs : list (pstr * pstr)) : list action :=
  match kvs with
  | [] => []
  | (key, path) :: kvs' =>
      if is_empty path then []
      else AAdd (split_names key) (plot_section desc alt fold key path) :: plot_actions desc alt fold kvs'
  end.

Fixpoint table_actions (desc : option pstr) (fold : bool) (kvs : list (pstr * table)) : list action :=
  match kvs with
  | [] => []
  | (key, t) :: kvs' =>
      match t with
      | [] => []
      | _ :: _ => AAdd (split_names key) (table_section desc fold key t) :: table_actions desc fold kvs'
      end
  end.

(* static part of card.select(k1).select(k2)...: the checks on the names.  Card.select and Section.select
   both reject a key one of whose names is empty (the empty key splits into the one empty name) *)
Definition chain_ok (ks : list pstr) : bool :=
  match ks with
  | [] => false
  | _ :: _ => forallb (fun k => forallb nonempty (split_names k)) ks
  end.
Definition chain_path (ks : list pstr) : list pstr := flat_map split_names ks.

Definition op_actions (o : op) (m : list (pstr * pstr)) : list action :=
  match o with
  | OAdd fold kvs =>
      map (fun kv => AAdd (split_names (fst kv)) (text_section (fst kv) (snd kv) fold)) kvs
  | OAddPlot desc alt fold kvs => plot_actions desc alt fold kvs
  | OAddTable desc fold kvs => table_actions desc fold kvs
  | OAddMetrics sect desc kvs =>
      [AAdd (split_names sect) (table_section desc false sect (metrics_table (dupdate m kvs)))]
  | OAddHyperparams sect desc params =>
      [AAdd (split_names sect) (table_section desc true sect (hyperparam_table params))]
  | OAddModelPlot sect desc html =>
      [AAdd (split_names sect) (model_plot_section sect desc html)]
  | OSelect _ | OSelectChain _ => []
  | ODelete key =>
      if forallb nonempty (split_names key) then [ADel (split_names key)] else []
  | ODeleteList names =>
      match names with
      | [] => []
      | _ :: _ => if forallb nonempty names then [ADel names] else []
      end
  | OSetVisible ks b => if chain_ok ks then [AUpd (chain_path ks) (Some b) None None] else []
  | OSetFolded ks b => if chain_ok ks then [AUpd (chain_path ks) None (Some b) None] else []
  | OSetTitle ks t => if chain_ok ks then [AUpd (chain_path ks) None None (Some t)] else []
  end.

(* histories made of builder / select / delete / flag operations only (no direct assignment to .title) *)
Definition no_retitle (ops : list op) : bool :=
  forallb (fun o => match o with OSetTitle _ _ => false | _ => true end) ops.

Definition op_metrics (o : op) (m : list (pstr * pstr)) : list (pstr * pstr) :=
  match o with OAddMetrics _ _ kvs => dupdate m kvs | _ => m end.

(* all primitive writes of an operation sequence, in order *)
Fixpoint history (ops : list op) (m : list (pstr * pstr)) : list action :=
  match ops with
  | [] => []
  | o :: ops' => op_actions o m ++ history ops' (op_metrics o m)
  end.

(* ---- what a path holds after a history (most recent action first) ---------- *)
Definition shal := (pstr * pstr * bool * bool * kind)%type.
Definition shallow_of (x : section) : shal := (title x, content x, visible x, folded x, skind x).
Definition upd_shal (vis fold : option bool) (ttl : option pstr) (v : shal) : shal :=
  match v with
  | (t, c, vi, fo, k) =>
      (match ttl with Some t' => t' | None => t end, c,
       match vis with Some b => b | None => vi end, match fold with Some b => b | None => fo end, k)
  end.

Fixpoint val (p : list pstr) (racts : list action) (d0 : dict) : option shal :=
  match racts with
  | [] => option_map shallow_of (lookup p d0)
  | a :: rest =>
      let before := val p rest d0 in
      match a with
      | AAdd q new =>
          if path_eqb q p then Some (shallow_of new)                 (* the last add at p *)
          else if is_prefix p q                                      (* an add below p creates p if missing *)
          then Some (match before with Some v => v | None => shallow_of (fresh (last p []) []) end)
          else before
      | ADel q =>
          if is_prefix q p                                           (* a delete of p or of an ancestor ... *)
          then match val q rest d0 with Some _ => None | None => before end   (* ... that existed *)
          else before
      | AUpd q vis fold ttl =>
          if path_eqb q p then option_map (upd_shal vis fold ttl) before else before
      end
  end.

(* side conditions on actions that every operation of the API satisfies *)
Definition action_ok (a : action) : Prop :=
  match a with
  | AAdd p new => p <> [] /\ subs new = []
  | ADel p => p <> []
  | AUpd p _ _ _ => p <> []
  end.

(* ---- C10: which paths are rendered ---------------------------------------- *)
(* q is shown: the section at q is visible and every proper ancestor is visible and not folded *)
Fixpoint shown (q : list pstr) (d : dict) : bool :=
  match q with
  | [] => false
  | k :: q' =>
      match dget k d with
      | None => false
      | Some x => visible x && match q' with
                               | [] => true
                               | _ :: _ => negb (folded x) && shown q' (subs x)
                               end
      end
  end.

(* the renderer's walk, recording paths instead of sections *)
Fixpoint sec_event_paths (x : section) : list (list pstr) :=
  match x with
  | Sec _ _ v f _ sd =>
      if v then [] :: (if f then [] else flat_map (fun kv => map (cons (fst kv)) (sec_event_paths (snd kv))) sd)
      else []
  end.
Definition event_paths (d : dict) : list (list pstr) :=
  flat_map (fun kv => map (cons (fst kv)) (sec_event_paths (snd kv))) d.

(* ---- C14: metric accumulation ----------------------------------------------- *)
(* each name once, in order of first occurrence *)
Fixpoint first_seen (l : list pstr) : list pstr :=
  match l with
  | [] => []
  | n :: l' => n :: filter (fun n' => negb (pstr_eqb n n')) (first_seen l')
  end.

(* the value given last for a name *)
Definition latest (n : pstr) (kvs : list (pstr * pstr)) : option pstr := dget n (rev kvs).

Fixpoint metric_updates (ops : list op) : list (pstr * pstr) :=
  match ops with
  | [] => []
  | OAddMetrics _ _ kvs :: ops' => kvs ++ metric_updates ops'
  | _ :: ops' => metric_updates ops'
  end.
