(* String helpers used by the model-card model (model only; proofs in CardStrFacts.v).
   Additions to base/PyStr.v that the card code needs: str.replace for the two
   patterns that occur, re.split on unescaped slashes, UTF-8 encoding, '#'*n. *)
From Skv Require Export PyStr.
Open Scope N_scope.

Definition LF : N := 10.
Definition SP : N := 32.
Definition HASH : N := 35.

Definition is_empty (a : pstr) : bool := match a with [] => true | _ => false end.
Definition nonempty (a : pstr) : bool := negb (is_empty a).

(* "<br />" *)
Definition br : pstr := [60; 98; 114; 32; 47; 62].

(* value.replace("\n", "<br />") *)
Fixpoint replace_lf (a : pstr) : pstr :=
  match a with
  | [] => []
  | c :: a' => if c =? LF then br ++ replace_lf a' else c :: replace_lf a'
  end.

(* part.replace("\\/", "/"): leftmost, non-overlapping occurrences of backslash-slash *)
Fixpoint unescape (a : pstr) : pstr :=
  match a with
  | [] => []
  | c :: a' =>
      match a' with
      | d :: a'' => if (c =? backslash) && (d =? slash) then slash :: unescape a''
                    else c :: unescape a'
      | [] => [c]
      end
  end.

(* re.split(r"(?<!\\)/", a): split at every '/' whose predecessor is not a
   backslash.  prev_bs = "the previous character was a backslash". *)
Fixpoint split_unesc_from (prev_bs : bool) (a : pstr) : list pstr :=
  match a with
  | [] => [[]]
  | c :: a' =>
      if (c =? slash) && negb prev_bs then [] :: split_unesc_from false a'
      else match split_unesc_from (c =? backslash) a' with
           | p :: ps => (c :: p) :: ps
           | [] => [[c]]          (* unreachable *)
           end
  end.
Definition split_unesc (a : pstr) : list pstr := split_unesc_from false a.

(* inverse direction, used to address a section by a string: "/" -> "\/" *)
Fixpoint escape (a : pstr) : pstr :=
  match a with
  | [] => []
  | c :: a' => if c =? slash then backslash :: slash :: escape a' else c :: escape a'
  end.

(* n * ch *)
Fixpoint rep (n : nat) (ch : N) : pstr :=
  match n with O => [] | S n' => ch :: rep n' ch end.

(* list equality on pstr lists *)
Fixpoint path_eqb (p q : list pstr) : bool :=
  match p, q with
  | [], [] => true
  | a :: p', b :: q' => pstr_eqb a b && path_eqb p' q'
  | _, _ => false
  end.

(* q is a (not necessarily proper) prefix of p *)
Fixpoint is_prefix (q p : list pstr) : bool :=
  match q, p with
  | [], _ => true
  | a :: q', b :: p' => pstr_eqb a b && is_prefix q' p'
  | _ :: _, [] => false
  end.

(* *init, last = l   (l non-empty) *)
Fixpoint unsnoc (l : list pstr) : list pstr * pstr :=
  match l with
  | [] => ([], [])                (* unreachable for split results *)
  | [x] => ([], x)
  | x :: l' => let (i, z) := unsnoc l' in (x :: i, z)
  end.

(* text.encode("utf-8"); None = UnicodeEncodeError (lone surrogate) *)
Definition utf8_char (c : N) : option (list N) :=
  if c <? 128 then Some [c]
  else if c <? 2048 then Some [192 + c / 64; 128 + c mod 64]
  else if c <? 65536 then
    if (55296 <=? c) && (c <=? 57343) then None
    else Some [224 + c / 4096; 128 + (c / 64) mod 64; 128 + c mod 64]
  else if c <? 1114112 then
    Some [240 + c / 262144; 128 + (c / 4096) mod 64; 128 + (c / 64) mod 64; 128 + c mod 64]
  else None.

Fixpoint utf8 (a : pstr) : option (list N) :=
  match a with
  | [] => Some []
  | c :: a' => match utf8_char c, utf8 a' with
               | Some b, Some r => Some (b ++ r)
               | _, _ => None
               end
  end.
