(* Facts about Parser.generate: under the guard left by D20 (no two headers
   with the same title under the same parent) the parsed card has exactly the
   sections, nesting, titles and contents the specification asks for. *)
From Skv Require Import PyStr PyStrFacts Json Markup MarkupFacts ParserCard Parser.
From Coq Require Import Lia.
Open Scope N_scope.

(* ------------------------------------------------------------------ *)
(* ordered dicts                                                       *)

Lemma dget_app_none {A} k (d0 d1 : list (pstr * A)) :
  dget k d0 = None -> dget k (d0 ++ d1) = dget k d1.
Proof.
  induction d0 as [|[k' v'] d0 IH]; cbn [dget app]; [reflexivity|].
  destruct (pstr_eqb k k'); [discriminate | exact IH].
Qed.

Lemma dset_app_none {A} k (v : A) d0 d1 :
  dget k d0 = None -> dset k v (d0 ++ d1) = d0 ++ dset k v d1.
Proof.
  induction d0 as [|[k' v'] d0 IH]; cbn [dget dset app]; [reflexivity|].
  destruct (pstr_eqb k k'); [discriminate|]. intro H. rewrite IH by exact H. reflexivity.
Qed.

Lemma dset_fresh {A} k (v : A) d : dget k d = None -> dset k v d = d ++ [(k, v)].
Proof.
  intro H. rewrite <- (app_nil_r d) at 1. rewrite dset_app_none by exact H. reflexivity.
Qed.

Lemma dget_last {A} k (v : A) d0 : dget k d0 = None -> dget k (d0 ++ [(k, v)]) = Some v.
Proof.
  intro H. rewrite dget_app_none by exact H. cbn [dget]. rewrite pstr_eqb_refl. reflexivity.
Qed.

Lemma dset_last {A} k (v v' : A) d0 :
  dget k d0 = None -> dset k v' (d0 ++ [(k, v)]) = d0 ++ [(k, v')].
Proof.
  intro H. rewrite dset_app_none by exact H. cbn [dset]. rewrite pstr_eqb_refl. reflexivity.
Qed.

Lemma dget_In {A} k (x : A) d : dget k d = Some x -> In (k, x) d.
Proof.
  induction d as [|[k' v'] d IH]; cbn [dget]; [discriminate|].
  destruct (pstr_eqb k k') eqn:E.
  - intro H; injection H as ->. apply pstr_eqb_eq in E. subst. left. reflexivity.
  - intro H. right. auto.
Qed.

(* ------------------------------------------------------------------ *)
(* well-formed cards: every key is the title of its section            *)

Inductive wf : secs -> Prop :=
| wf_nil : wf []
| wf_cons k c subs d : wf subs -> wf d -> wf ((k, Sec k c subs) :: d).

Lemma wf_app a b : wf (a ++ b) <-> wf a /\ wf b.
Proof.
  induction a as [|[k x] a IH]; cbn [app].
  - split; [intro H; split; [constructor | exact H] | intros [_ H]; exact H].
  - split.
    + intro H. inversion H; subst. apply IH in H4 as [Ha Hb]. split; [constructor; assumption | assumption].
    + intros [Ha Hb]. inversion Ha; subst. constructor; [assumption|]. apply IH. split; assumption.
Qed.

Lemma wf_In d k x : wf d -> In (k, x) d -> exists c subs, x = Sec k c subs /\ wf subs.
Proof.
  induction 1 as [|k' c subs d Hs _ Hd IH]; cbn [In]; [tauto|].
  intros [E|I].
  - injection E as <- <-. eauto.
  - auto.
Qed.

(* ------------------------------------------------------------------ *)
(* the rightmost spine                                                 *)

(* q leads down the LAST entries of the nested dicts *)
Fixpoint on_spine (q : list pstr) (d : secs) : Prop :=
  match q with
  | [] => True
  | n :: rest => exists d0 c subs, d = d0 ++ [(n, Sec n c subs)] /\ dget n d0 = None /\ on_spine rest subs
  end.

(* ... and ends in a section without subsections (the section added last) *)
Fixpoint spine_end (p : list pstr) (d : secs) : Prop :=
  match p with
  | [] => False
  | n :: rest => exists d0 c subs, d = d0 ++ [(n, Sec n c subs)] /\ dget n d0 = None /\
                                   match rest with [] => subs = [] | _ => spine_end rest subs end
  end.

Lemma spine_prefix q r d : spine_end (q ++ r) d -> on_spine q d.
Proof.
  revert d; induction q as [|n q IH]; intros d H; cbn [on_spine]; [exact I|].
  cbn [app spine_end] in H. destruct H as (d0 & c & subs & E & N & H).
  exists d0, c, subs. repeat split; try assumption.
  specialize (IH subs). remember (q ++ r) as l eqn:Eq. destruct l as [|m l].
  - destruct q; [exact I | discriminate].
  - apply IH. exact H.
Qed.

(* the dict reached by following the keys q *)
Fixpoint kids (q : list pstr) (d : secs) : secs :=
  match q with
  | [] => d
  | n :: rest => match dget n d with Some x => kids rest (sec_subs x) | None => [] end
  end.

Lemma sections_from_app prefix a b :
  sections_from prefix (a ++ b) = sections_from prefix a ++ sections_from prefix b.
Proof. unfold sections_from. apply flat_map_app. Qed.

Lemma sections_from_one prefix k t c subs :
  sections_from prefix [(k, Sec t c subs)] = (prefix ++ [t], c) :: sections_from (prefix ++ [t]) subs.
Proof. unfold sections_from. cbn [flat_map snd sections_sec]. rewrite app_nil_r. reflexivity. Qed.

Lemma app_cons_assoc {A} (a : list A) x b y : (a ++ x :: b) ++ [y] = a ++ x :: b ++ [y].
Proof. rewrite <- app_assoc. reflexivity. Qed.

Lemma path_assoc (prefix : list pstr) n r : (prefix ++ [n]) ++ r = prefix ++ n :: r.
Proof. rewrite <- app_assoc. reflexivity. Qed.

(* an existing child is listed among the sections *)
Lemma child_listed q : forall d prefix t x,
  wf d -> on_spine q d -> dget t (kids q d) = Some x ->
  In (prefix ++ q ++ [t]) (map fst (sections_from prefix d)).
Proof.
  induction q as [|n q IH]; intros d prefix t x W S G.
  - cbn [kids] in G. apply dget_In in G. destruct (wf_In _ _ _ W G) as (c & subs & -> & _).
    cbn [app]. apply in_map_iff. exists (prefix ++ [t], c). split; [reflexivity|].
    unfold sections_from. apply in_flat_map. exists (t, Sec t c subs). split; [exact G|].
    cbn [snd sections_sec]. left. reflexivity.
  - cbn [on_spine] in S. destruct S as (d0 & c & subs & -> & N & S).
    cbn [kids] in G. rewrite dget_last in G by exact N. cbn [sec_subs] in G.
    apply wf_app in W as [W0 W1]. inversion W1; subst.
    rewrite sections_from_app, sections_from_one, map_app. apply in_or_app. right.
    cbn [map]. right. cbn [app]. replace (prefix ++ n :: q ++ [t]) with ((prefix ++ [n]) ++ q ++ [t])
      by (rewrite <- app_assoc; reflexivity).
    eapply IH; eassumption.
Qed.

(* PandocParser._add_section with a title that is new under its parent *)
Lemma add_section_spine q : forall d prefix t,
  wf d -> on_spine q d -> dget t (kids q d) = None ->
  sections_from prefix (update_at q (put_section t) d)
    = sections_from prefix d ++ [(prefix ++ q ++ [t], [])]
  /\ wf (update_at q (put_section t) d)
  /\ spine_end (q ++ [t]) (update_at q (put_section t) d).
Proof.
  induction q as [|n q IH]; intros d prefix t W S G.
  - cbn [kids] in G. cbn [update_at]. unfold put_section. rewrite G.
    rewrite dset_fresh by exact G. repeat split.
    + rewrite sections_from_app, sections_from_one. cbn [sections_from flat_map app]. reflexivity.
    + apply wf_app. split; [exact W|]. repeat constructor.
    + cbn [app spine_end]. exists d, [], []. repeat split. exact G.
  - cbn [on_spine] in S. destruct S as (d0 & c & subs & -> & N & S).
    cbn [kids] in G. rewrite dget_last in G by exact N. cbn [sec_subs] in G.
    apply wf_app in W as [W0 W1]. inversion W1; subst.
    cbn [update_at]. rewrite dget_last by exact N. rewrite dset_last by exact N.
    destruct (IH subs (prefix ++ [n]) t ltac:(assumption) S G) as (E1 & E2 & E3).
    repeat split.
    + rewrite !sections_from_app, !sections_from_one, E1.
      rewrite app_cons_assoc, path_assoc. reflexivity.
    + apply wf_app. split; [exact W0|]. constructor; [exact E2 | constructor].
    + cbn [app spine_end]. exists d0, c, (update_at q (put_section t) subs).
      repeat split; try assumption.
      destruct (q ++ [t]) eqn:Eq; [destruct q; discriminate|]. exact E3.
Qed.

(* PandocParser._add_content on the section added last *)
Lemma add_content_spine p : forall d prefix t,
  wf d -> spine_end p d ->
  exists l c, sections_from prefix d = l ++ [(prefix ++ p, c)]
    /\ sections_from prefix (add_content p t d) = l ++ [(prefix ++ p, add_text c t)]
    /\ wf (add_content p t d) /\ spine_end p (add_content p t d).
Proof.
  unfold add_content.
  induction p as [|n p IH]; intros d prefix t W S; [destruct S|].
  cbn [spine_end] in S. destruct S as (d0 & c & subs & -> & N & S).
  apply wf_app in W as [W0 W1]. inversion W1; subst.
  destruct p as [|m p].
  - subst subs. cbn [update_sec]. rewrite dget_last by exact N. rewrite dset_last by exact N.
    exists (sections_from prefix d0), c. repeat split.
    + rewrite sections_from_app, sections_from_one. reflexivity.
    + rewrite sections_from_app, sections_from_one. reflexivity.
    + apply wf_app. split; [exact W0|]. repeat constructor.
    + cbn [spine_end]. exists d0, (add_text c t), []. repeat split. exact N.
  - destruct (IH subs (prefix ++ [n]) t ltac:(assumption) S) as (l & c' & E1 & E2 & E3 & E4).
    change (update_sec (n :: m :: p) ?f ?dd)
      with (match dget n dd with
            | Some (Sec t0 c0 subs0) => dset n (Sec t0 c0 (update_sec (m :: p) f subs0)) dd
            | None => dd end).
    rewrite dget_last by exact N. rewrite dset_last by exact N.
    exists (sections_from prefix d0 ++ (prefix ++ [n], c) :: l), c'. repeat split.
    + rewrite sections_from_app, sections_from_one, E1. rewrite app_cons_assoc, path_assoc. reflexivity.
    + rewrite sections_from_app, sections_from_one, E2. rewrite app_cons_assoc, path_assoc. reflexivity.
    + apply wf_app. split; [exact W0|]. constructor; [exact E3 | constructor].
    + cbn [spine_end]. eexists d0, c, _. repeat split; [exact N | exact E4].
Qed.

(* ------------------------------------------------------------------ *)
(* the header trace                                                    *)

(* the trace after the headers prev_rev (nearest first) *)
Definition stack_of (prev_rev : list (Z * pstr)) : trace :=
  match prev_rev with
  | [] => []
  | (l, t) :: r => (l, t) :: ancs r l
  end.

Lemma popge_ancs_le r : forall l lvl, (lvl <= l)%Z -> popge lvl (ancs r l) = ancs r lvl.
Proof.
  induction r as [|[l' t'] r IH]; intros l lvl H; cbn [ancs]; [reflexivity|].
  destruct (Z.ltb_spec l' l) as [H1|H1]; destruct (Z.ltb_spec l' lvl) as [H2|H2]; try lia.
  - cbn [popge]. destruct (Z.leb_spec lvl l'); [lia | reflexivity].
  - cbn [popge]. destruct (Z.leb_spec lvl l'); [|lia]. apply IH. lia.
  - apply IH. lia.
Qed.

Lemma popge_stack_of prev lvl : popge lvl (stack_of prev) = ancs prev lvl.
Proof.
  destruct prev as [|[l t] r]; cbn [stack_of ancs popge]; [reflexivity|].
  destruct (Z.leb_spec lvl l) as [H|H]; destruct (Z.ltb_spec l lvl) as [H'|H']; try lia.
  - apply popge_ancs_le. exact H.
  - reflexivity.
Qed.

Lemma popge_suffix lvl tr : exists pre, tr = pre ++ popge lvl tr.
Proof.
  induction tr as [|[l t] tr IH]; cbn [popge]; [exists []; reflexivity|].
  destruct (lvl <=? l)%Z.
  - destruct IH as [pre E]. exists ((l, t) :: pre). cbn [app]. f_equal. exact E.
  - exists []. reflexivity.
Qed.

Lemma trace_path_stack_of l t prev : trace_path (stack_of ((l, t) :: prev)) = spec_path prev l t.
Proof. reflexivity. Qed.

(* ------------------------------------------------------------------ *)
(* build = specification, under the no-duplicate guard                 *)

Lemma spec_sections_paths_IC prev t r : spec_sections prev (IC t :: r) = spec_sections prev r.
Proof. reflexivity. Qed.

Lemma build_spec : forall its h prev0 card l c card',
  let prev := h :: prev0 in
  wf card -> spine_end (trace_path (stack_of prev)) card ->
  sections card = l ++ [(trace_path (stack_of prev), c)] ->
  NoDup (map fst (sections card) ++ map fst (spec_sections prev its)) ->
  build its card (stack_of prev) = Ok card' ->
  sections card' = l ++ [(trace_path (stack_of prev), fold_left add_text (texts_until_header its) c)]
                     ++ spec_sections prev its.
Proof.
  induction its as [|[lvl t|t] its IHits]; intros h prev0 card l c card' prev W S E ND B.
  - cbn [build] in B. injection B as <-. cbn [texts_until_header fold_left spec_sections]. rewrite app_nil_r. exact E.
  - (* a header *)
    cbn [build] in B. rewrite popge_stack_of in B.
    change ((lvl, t) :: ancs prev lvl) with (stack_of ((lvl, t) :: prev)) in B.
    set (q := rev (map snd (ancs prev lvl))).
    assert (Hp : trace_path (stack_of ((lvl, t) :: prev)) = q ++ [t]) by reflexivity.
    rewrite Hp in B. unfold add_section in B. rewrite removelast_last, last_last in B.
    (* q is a prefix of the current path *)
    assert (Sq : on_spine q card).
    { destruct (popge_suffix lvl (stack_of prev)) as [pre Epre]. rewrite popge_stack_of in Epre.
      apply (spine_prefix q (rev (map snd pre))). unfold trace_path in S. rewrite Epre in S.
      rewrite map_app, rev_app_distr in S. exact S. }
    (* the title is new under q *)
    assert (Fr : dget t (kids q card) = None).
    { destruct (dget t (kids q card)) as [x|] eqn:G; [|reflexivity]. exfalso.
      pose proof (child_listed q card [] t x W Sq G) as I. cbn [app] in I.
      cbn [spec_sections map fst] in ND. apply NoDup_remove_2 in ND. apply ND.
      apply in_or_app. left. exact I. }
    destruct (add_section_spine q card [] t W Sq Fr) as (E1 & W1 & S1). cbn [app] in E1.
    cbn [texts_until_header fold_left spec_sections].
    specialize (IHits (lvl, t) prev (update_at q (put_section t) card) (l ++ [(trace_path (stack_of prev), c)]) [] card').
    cbn zeta in IHits. rewrite Hp in IHits.
    rewrite IHits; try assumption.
    + rewrite <- !app_assoc. reflexivity.
    + unfold sections. rewrite E1. fold (sections card). rewrite E. reflexivity.
    + unfold sections. rewrite E1. fold (sections card). rewrite map_app. cbn [map fst].
      rewrite <- app_assoc. cbn [app]. cbn [spec_sections map fst] in ND. exact ND.
  - (* a content block *)
    cbn [build] in B.
    assert (Hne : stack_of prev <> []) by (destruct h; discriminate).
    destruct (stack_of prev) as [|e tr] eqn:Etr; [congruence|]. rewrite <- Etr in *. clear Hne.
    destruct (add_content_spine (trace_path (stack_of prev)) card [] t W S) as (l2 & c2 & E1 & E2 & W2 & S2).
    cbn [app] in E1, E2. fold (sections card) in E1.
    rewrite E in E1. apply app_inj_tail in E1 as [<- E1]. injection E1 as <-.
    cbn [texts_until_header fold_left]. rewrite spec_sections_paths_IC.
    eapply IHits; try eassumption.
    unfold sections. rewrite E2. fold (sections card). rewrite E in ND.
    rewrite !map_app in *. cbn [map fst] in *. exact ND.
Qed.

Lemma nodupb_NoDup l : nodupb l = true -> NoDup l.
Proof.
  assert (Peq : forall a b, path_eqb a b = true <-> a = b).
  { induction a as [|x a IH]; intros [|y b]; cbn [path_eqb]; split; intro H; try reflexivity; try discriminate.
    - apply andb_true_iff in H as [H1 H2]. apply pstr_eqb_eq in H1. apply IH in H2. congruence.
    - injection H as -> ->. rewrite pstr_eqb_refl. apply IH. reflexivity. }
  assert (Pm : forall p l, path_mem p l = false -> ~ In p l).
  { intros p l0; induction l0 as [|q l0 IH]; cbn [path_mem In]; [tauto|].
    intros H [E|I]; apply orb_false_iff in H as [H1 H2].
    - subst. assert (path_eqb p p = true) by (apply Peq; reflexivity). congruence.
    - exact (IH H2 I). }
  induction l as [|p l IH]; cbn [nodupb]; intro H; constructor.
  - apply andb_true_iff in H as [H _]. apply Pm. destruct (path_mem p l); [discriminate | reflexivity].
  - apply andb_true_iff in H as [_ H]. auto.
Qed.

Theorem build_sections its card :
  build its [] [] = Ok card -> NoDup (map fst (spec_sections [] its)) ->
  sections card = spec_sections [] its.
Proof.
  destruct its as [|[lvl t|t] its]; cbn [build]; intros B ND.
  - injection B as <-. reflexivity.
  - cbn [popge] in B.
    change (trace_path [(lvl, t)]) with ([] ++ [t]) in B.
    unfold add_section in B. rewrite removelast_last, last_last in B.
    cbn [update_at put_section dget dset] in B.
    pose proof (build_spec its (lvl, t) [] [(t, Sec t [] [])] [] [] card) as H. cbn zeta in H.
    cbn [spec_sections]. rewrite H; try assumption.
    + reflexivity.
    + repeat constructor.
    + cbn. exists [], [], []. repeat split.
    + reflexivity.
  - discriminate.
Qed.

(* ------------------------------------------------------------------ *)
(* generate runs build on the blocks as a fresh Markdown instance converts them *)

Lemma gen_build : forall bs card tr st r,
  gen bs card tr [] = (st, Ok r) -> build (doc_items bs) card tr = Ok r.
Proof.
  induction bs as [|b bs IH]; intros card tr st r H.
  - cbn [gen] in H. injection H as _ <-. reflexivity.
  - cbn [gen] in H. unfold doc_items. cbn [flat_map]. fold (doc_items bs). unfold item_of.
    pose proof (mdb_pres b []) as P.
    destruct (mdb b []) as [st' [text|e]] eqn:Em; cbn [fst snd] in *; subst st'; [|discriminate].
    destruct b; cbn [app build];
      try (destruct tr as [|e0 tr0]; [discriminate | eapply IH; exact H]).
    eapply IH; exact H.
Qed.

Theorem generate_sections bs card :
  generate bs = Ok card -> headers_ok bs = true ->
  sections card = spec_sections [] (doc_items bs).
Proof.
  unfold generate, headers_ok, spec_outline. intros G ND.
  destruct (gen bs [] [] []) as [st r] eqn:E. cbn [snd] in G. subst r.
  apply gen_build in E. apply build_sections; [exact E | apply nodupb_NoDup; exact ND].
Qed.

Corollary generate_outline bs card :
  generate bs = Ok card -> headers_ok bs = true -> outline card = spec_outline (doc_items bs).
Proof. intros G H. unfold outline, spec_outline. rewrite (generate_sections _ _ G H). reflexivity. Qed.

(* ------------------------------------------------------------------ *)
(* "exactly once, in order": the accumulated content is the texts joined by a blank line *)

Lemma join_cons2 sep (x y : pstr) l : join sep (x :: y :: l) = x ++ sep ++ join sep (y :: l).
Proof. reflexivity. Qed.

Lemma fold_add_text_nonempty ts : forall c, c <> [] -> fold_left add_text ts c = join [10; 10] (c :: ts).
Proof.
  induction ts as [|t ts IH]; intros c Hc; cbn [fold_left]; [reflexivity|].
  assert (E : add_text c t = c ++ [10; 10] ++ t) by (destruct c; [congruence | reflexivity]).
  rewrite E, IH by (destruct c; [congruence | discriminate]).
  rewrite join_cons2. destruct ts as [|u ts]; [reflexivity|].
  rewrite !join_cons2. rewrite <- !app_assoc. reflexivity.
Qed.

Theorem acc_content_join ts : acc_content ts = join [10; 10] (drop_empty ts).
Proof.
  unfold acc_content. induction ts as [|t ts IH]; [reflexivity|].
  cbn [fold_left add_text]. destruct t as [|a t]; cbn [drop_empty]; [exact IH|].
  apply fold_add_text_nonempty. discriminate.
Qed.

(* ------------------------------------------------------------------ *)
(* rendering: the headings yielded by _generate_content are the outline *)

Section SecInd.
  Variable P : sec -> Prop.
  Hypothesis H : forall t c l, Forall (fun kv => P (snd kv)) l -> P (Sec t c l).
  Fixpoint sec_ind' (x : sec) : P x :=
    match x with
    | Sec t c l =>
        H t c l ((fix go (l : list (pstr * sec)) : Forall (fun kv => P (snd kv)) l :=
                    match l with
                    | [] => Forall_nil _
                    | kv :: l' => Forall_cons kv (sec_ind' (snd kv)) (go l')
                    end) l)
    end.
End SecInd.

Definition head_of (p : list pstr) : nat * pstr := (length p, last p []).

Lemma headings_app a b : headings (a ++ b) = headings a ++ headings b.
Proof. unfold headings. apply flat_map_app. Qed.

Lemma flat_map_ext_Forall {A B} (f g : A -> list B) l :
  Forall (fun a => f a = g a) l -> flat_map f l = flat_map g l.
Proof. induction 1 as [|a l Ha _ IH]; cbn [flat_map]; [reflexivity|]. rewrite Ha, IH. reflexivity. Qed.

Lemma headings_flat_map {A} (f : A -> list ritem) l :
  headings (flat_map f l) = flat_map (fun a => headings (f a)) l.
Proof. induction l as [|a l IH]; cbn [flat_map]; [reflexivity|]. rewrite headings_app, IH. reflexivity. Qed.

Lemma map_flat_map {A B C} (g : B -> C) (f : A -> list B) l :
  map g (flat_map f l) = flat_map (fun a => map g (f a)) l.
Proof. induction l as [|a l IH]; cbn [flat_map]; [reflexivity|]. rewrite map_app, IH. reflexivity. Qed.

Lemma render_sec_headings x : forall prefix,
  headings (render_sec (S (length prefix)) x) = map (fun pc => head_of (fst pc)) (sections_sec prefix x).
Proof.
  induction x as [t c l IH] using sec_ind'. intro prefix.
  cbn [render_sec sections_sec map fst].
  change (RHead (S (length prefix)) t :: RBody c :: ?r) with ([RHead (S (length prefix)) t; RBody c] ++ r).
  rewrite headings_app. cbn [headings flat_map app].
  unfold head_of at 1. rewrite app_length, last_last. cbn [length]. rewrite Nat.add_1_r. f_equal.
  rewrite headings_flat_map, map_flat_map. apply flat_map_ext_Forall.
  eapply Forall_impl; [|exact IH]. intros kv Hkv. cbn beta in Hkv.
  specialize (Hkv (prefix ++ [t])). rewrite app_length in Hkv. cbn [length] in Hkv. rewrite Nat.add_1_r in Hkv.
  exact Hkv.
Qed.

Theorem render_headings_outline d : headings (render_items d) = map head_of (outline d).
Proof.
  unfold render_items, outline, sections, sections_from. rewrite headings_flat_map, map_map, map_flat_map.
  apply flat_map_ext_Forall. apply Forall_forall. intros kv _. apply (render_sec_headings (snd kv) []).
Qed.

Corollary generate_render_outline bs card :
  generate bs = Ok card -> headers_ok bs = true ->
  headings (render_items card) = map head_of (spec_outline (doc_items bs)).
Proof. intros G H. rewrite render_headings_outline, (generate_outline _ _ G H). reflexivity. Qed.

(* ------------------------------------------------------------------ *)
(* witnesses                                                           *)

Definition h (l : Z) (t : string) : block := Header l (s "", [], []) [Str (s t)].
Definition para (t : string) : block := Para [Str (s t)].

(* D20 (open): a repeated sibling heading replaces the earlier section *)
Definition dup_doc : list block := [h 1 "A"; para "a1"; h 1 "B"; h 1 "A"; para "a2"].

Theorem dup_refuted :
  exists bs card, generate bs = Ok card /\ headers_ok bs = false
    /\ sections card <> spec_sections [] (doc_items bs)
    /\ outline card <> spec_outline (doc_items bs)
    /\ sections card = [([s "A"], s "a2"); ([s "B"], [])].
Proof.
  exists dup_doc. eexists. split; [vm_compute; reflexivity|].
  split; [vm_compute; reflexivity|]. split; [|split]; vm_compute; try discriminate. reflexivity.
Qed.

(* the guard is satisfiable by a document with level jumps, a deeper first header,
   slashes, backslashes, edge blanks and U+001F in titles, and repeated titles under different parents *)
Definition jumpy_doc : list block :=
  [h 2 "A"; para "a"; h 3 "In/Out"; para "x"; para "y"; h 3 " pad "; h 6 "deep\"; h 4 "A"; h 1 "B"; h 3 "A";
   Header 3 (s "", [], []) [Str [31; 47]]; BulletList [[para "i"; BulletList [[para "j"]]]]].

Example guard_non_vacuous :
  headers_ok jumpy_doc = true /\
  exists card, generate jumpy_doc = Ok card /\
    outline card = [[s "A"]; [s "A"; s "In/Out"]; [s "A"; s " pad "]; [s "A"; s " pad "; s "deep\\"];
                    [s "A"; s " pad "; s "A"]; [s "B"]; [s "B"; s "A"]; [s "B"; [31; 47]]].
Proof. split; [vm_compute; reflexivity|]. eexists. split; vm_compute; reflexivity. Qed.

(* former D18 / D19 witnesses on the fixed tree *)
Example slash_title_kept :
  exists card, generate [h 1 "In/Out"; para "x"; h 2 " pad "] = Ok card
    /\ sections card = [([s "In/Out"], s "x"); ([s "In/Out"; s " pad "], [])].
Proof. eexists. split; vm_compute; reflexivity. Qed.

Example deep_first_siblings :
  exists card, generate [h 2 "A"; h 3 "B"; h 3 "C"] = Ok card
    /\ outline card = [[s "A"]; [s "A"; s "B"]; [s "A"; s "C"]].
Proof. eexists. split; vm_compute; reflexivity. Qed.

Example skipped_level_siblings :
  exists card, generate [h 1 "A"; h 3 "B"; h 3 "C"; h 2 "D"] = Ok card
    /\ outline card = [[s "A"]; [s "A"; s "B"]; [s "A"; s "C"]; [s "A"; s "D"]].
Proof. eexists. split; vm_compute; reflexivity. Qed.

(* ------------------------------------------------------------------ *)
(* get_toc lists the same outline                                      *)

Definition toc_line (p : list pstr) : pstr :=
  concat (repeat [32; 32] (pred (length p))) ++ 45 :: 32 :: last p [].

Lemma toc_sec_outline x : forall prefix,
  toc_sec (length prefix) x = map (fun pc => toc_line (fst pc)) (sections_sec prefix x).
Proof.
  induction x as [t c l IH] using sec_ind'. intro prefix.
  cbn [toc_sec sections_sec map fst]. unfold toc_line at 1.
  rewrite app_length, last_last. cbn [length]. rewrite Nat.add_1_r. cbn [pred]. f_equal.
  rewrite map_flat_map. apply flat_map_ext_Forall.
  eapply Forall_impl; [|exact IH]. intros kv Hkv. cbn beta in Hkv.
  specialize (Hkv (prefix ++ [t])). rewrite app_length in Hkv. cbn [length] in Hkv. rewrite Nat.add_1_r in Hkv.
  exact Hkv.
Qed.

Theorem toc_outline d : get_toc d = join [10] (map toc_line (outline d)).
Proof.
  unfold get_toc, outline, sections, sections_from. f_equal. rewrite map_map, map_flat_map.
  apply flat_map_ext_Forall. apply Forall_forall. intros kv _. apply (toc_sec_outline (snd kv) []).
Qed.

(* ------------------------------------------------------------------ *)
(* generate succeeds on every document of convertible blocks that starts with a header *)

Definition convertible (b : block) : Prop := exists t, snd (mdb b []) = Ok t.
Definition starts_with_header (bs : list block) : Prop :=
  match bs with [] => True | Header _ _ _ :: _ => True | _ => False end.

Lemma gen_total : forall bs card tr,
  Forall convertible bs -> (tr <> [] \/ starts_with_header bs) ->
  exists r, gen bs card tr [] = ([], Ok r).
Proof.
  induction bs as [|b bs IHbs]; intros card tr F S.
  - eexists. reflexivity.
  - inversion F as [|? ? [t Ht] F']; subst. cbn [gen].
    pose proof (mdb_pres b []) as P. destruct (mdb b []) as [st' r] eqn:Em. cbn [fst snd] in *. subst st' r.
    destruct b; try (destruct tr as [|e tr0];
                     [destruct S as [S|S]; [congruence | destruct S] | apply IHbs; [exact F' | left; discriminate]]).
    apply IHbs; [exact F' | left; discriminate].
Qed.

Theorem generate_total bs :
  Forall convertible bs -> starts_with_header bs -> exists card, generate bs = Ok card.
Proof.
  intros F S. destruct (gen_total bs [] [] F (or_intror S)) as [r E]. exists r. unfold generate. rewrite E. reflexivity.
Qed.

(* D28 (open): an element of a supported type, of a shape pandoc emits, that is rejected; D27 (inline images with
   another title than "fig:" or without alt text) was repaired in /repo: the badge document now converts *)
Definition badge_doc : list block :=
  [h 1 "T"; Para [Str (s "build"); Space; Image (s "", [], []) [Str (s "badge")] (s "https://x/y.svg") (s "")]].
Definition headerless_table_doc : list block :=
  [h 1 "T"; TableNew [] [[[[Plain [Str (s "a")]]; [Plain [Str (s "b")]]]]]].

Theorem generate_total_refuted :
  starts_with_header headerless_table_doc /\ generate headerless_table_doc = Raise EOther.
Proof. repeat split; vm_compute; reflexivity. Qed.
Theorem badge_doc_converts :
  starts_with_header badge_doc /\ exists card, generate badge_doc = Ok card.
Proof. split; [vm_compute; reflexivity | eexists; vm_compute; reflexivity]. Qed.
