(* Card._add_model_plot: what is done to str(estimator_html_repr(model)) before it becomes the
   content of the "Model Plot" section.  sklearn's HTML itself is NOT modelled: the string `html`
   is an oracle input.  Model only; proofs in ModelPlotFacts.v.

     model_plot_div = re.sub(r"\n\s+", "", html)
     if model_plot_div.count("sk-top-container") == 1:
         model_plot_div = model_plot_div.replace("sk-top-container", 'sk-top-container" style="overflow: auto;')
     content = f"{description}\n\n{model_plot_div}" if description else model_plot_div              *)
From Skv Require Export CardStr.
Open Scope N_scope.

Definition starts_space (a : pstr) : bool :=
  match a with c :: _ => is_space c | [] => false end.

(* re.sub(r"\n\s+", "", a).  For a str pattern \s is exactly the set of str.isspace() code points
   (is_space; LF itself is in it).  The scan is one pass, left to right:
     skip = true  : we are inside a match, consuming its greedy \s+ run;
     skip = false : a match starts at an LF that is directly followed by a whitespace character. *)
Fixpoint resub_go (skip : bool) (a : pstr) : pstr :=
  match a with
  | [] => []
  | c :: a' =>
      if skip && is_space c then resub_go true a'
      else if (c =? LF) && starts_space a' then resub_go true a'
      else c :: resub_go false a'
  end.
Definition strip_indent (a : pstr) : pstr := resub_go false a.

(* the same substitution written as the regex engine proceeds: at the leftmost position where the
   pattern matches, drop the LF and the maximal whitespace run after it (lstrip), continue behind it.
   fuel = an upper bound on the number of steps (length a suffices). *)
Fixpoint resub_ref (fuel : nat) (a : pstr) : pstr :=
  match fuel with
  | O => a
  | S f =>
      match a with
      | [] => []
      | c :: a' => if (c =? LF) && starts_space a' then resub_ref f (lstrip a') else c :: resub_ref f a'
      end
  end.

(* a.startswith(p) *)
Fixpoint starts_with (p a : pstr) : bool :=
  match p, a with
  | [], _ => true
  | x :: p', y :: a' => (x =? y) && starts_with p' a'
  | _ :: _, [] => false
  end.

(* a.count(sub) and a.replace(sub, new) for a NON-EMPTY literal sub: occurrences are found left to
   right and do not overlap (after a hit the scan continues behind it).  skip = number of characters
   of the current hit still to be passed over. *)
Fixpoint count_go (sub : pstr) (skip : nat) (a : pstr) : N :=
  match a with
  | [] => 0
  | _ :: a' =>
      match skip with
      | S k => count_go sub k a'
      | O => if starts_with sub a then 1 + count_go sub (length sub - 1) a' else count_go sub O a'
      end
  end.
Definition count_sub (sub a : pstr) : N := count_go sub O a.

Fixpoint replace_go (sub new : pstr) (skip : nat) (a : pstr) : pstr :=
  match a with
  | [] => []
  | c :: a' =>
      match skip with
      | S k => replace_go sub new k a'
      | O => if starts_with sub a then new ++ replace_go sub new (length sub - 1) a'
             else c :: replace_go sub new O a'
      end
  end.
Definition replace_sub (sub new a : pstr) : pstr := replace_go sub new O a.

Definition sk_top : pstr := s "sk-top-container".
Definition sk_top_styled : pstr := s "sk-top-container"" style=""overflow: auto;".

(* the style is added only when the class name occurs exactly once *)
Definition fix_container (t : pstr) : pstr :=
  if count_sub sk_top t =? 1 then replace_sub sk_top sk_top_styled t else t.

Definition model_plot_div (html : pstr) : pstr := fix_container (strip_indent html).

(* `if description:` -- None and "" are both falsy *)
Definition model_plot_content (desc : option pstr) (html : pstr) : pstr :=
  match desc with
  | Some (c :: d) => (c :: d) ++ [LF; LF] ++ model_plot_div html
  | _ => model_plot_div html
  end.

(* the code points c < n with is_space c, ascending: compared per run with the set that the
   implementation's `re` module matches with \s (harness/props/c14.py) *)
Definition spaces_below (n : N) : list N :=
  rev (snd (N.iter n (fun st : N * list N =>
                        let (c, acc) := st in (c + 1, if is_space c then c :: acc else acc)) (0, []))).
