(* The card's section tree: Card._data is a dict title -> Section, nested through
   Section.subsections; dict order is document order.  Python dicts are modelled
   as association lists whose keys are unique (invariant wf_dict, TreeFacts.v).
   All tree operations recurse over the PATH (list of names), one dict level per
   step, exactly as Card._select walks. *)
From Skv Require Export Json Path.
Open Scope N_scope.

(* Section / PlotSection / TableSection.  A table is the list of its columns:
   (column name, str(value) of every cell) -- str() of a cell is Python's, not skops'. *)
Inductive kind :=
| KText
| KPlot (path alt : pstr)
| KTable (cols : list (pstr * list pstr)).

Inductive section :=
| Sec (title content : pstr) (visible folded : bool) (k : kind) (subs : list (pstr * section)).

Definition dict := list (pstr * section).

Definition title (x : section) : pstr := match x with Sec t _ _ _ _ _ => t end.
Definition content (x : section) : pstr := match x with Sec _ c _ _ _ _ => c end.
Definition visible (x : section) : bool := match x with Sec _ _ v _ _ _ => v end.
Definition folded (x : section) : bool := match x with Sec _ _ _ f _ _ => f end.
Definition skind (x : section) : kind := match x with Sec _ _ _ _ k _ => k end.
Definition subs (x : section) : dict := match x with Sec _ _ _ _ _ d => d end.

Definition set_subs (x : section) (d : dict) : section :=
  match x with Sec t c v f k _ => Sec t c v f k d end.
Definition set_visible (b : bool) (x : section) : section :=
  match x with Sec t c _ f k d => Sec t c b f k d end.
Definition set_folded (b : bool) (x : section) : section :=
  match x with Sec t c v _ k d => Sec t c v b k d end.
(* card.select(...).title = t : the heading changes, the key under which the section is stored does not *)
Definition set_title (t : pstr) (x : section) : section :=
  match x with Sec _ c v f k d => Sec t c v f k d end.

(* Section(title=name, content="") as created by _select(create=True) *)
Definition fresh (name : pstr) (d : dict) : section := Sec name [] true false KText d.

(* ---- ordered dict --------------------------------------------------------- *)
(* d[k] = v : overwrite in place, else append *)
Fixpoint dset {A} (k : pstr) (v : A) (d : list (pstr * A)) : list (pstr * A) :=
  match d with
  | [] => [(k, v)]
  | (k', v') :: d' => if pstr_eqb k k' then (k', v) :: d' else (k', v') :: dset k v d'
  end.

(* del d[k]  (caller checks membership) *)
Fixpoint ddel {A} (k : pstr) (d : list (pstr * A)) : list (pstr * A) :=
  match d with
  | [] => []
  | (k', v') :: d' => if pstr_eqb k k' then d' else (k', v') :: ddel k d'
  end.

Definition dhas {A} (k : pstr) (d : list (pstr * A)) : bool :=
  match dget k d with Some _ => true | None => false end.

Definition keys {A} (d : list (pstr * A)) : list pstr := map fst d.

(* d.update(kvs) *)
Definition dupdate {A} (d kvs : list (pstr * A)) : list (pstr * A) :=
  fold_left (fun acc kv => dset (fst kv) (snd kv) acc) kvs d.

(* ---- addressing ------------------------------------------------------------ *)
(* the section at a non-empty path of names *)
Fixpoint lookup (p : list pstr) (d : dict) : option section :=
  match p with
  | [] => None
  | k :: p' =>
      match dget k d with
      | None => None
      | Some x => match p' with [] => Some x | _ :: _ => lookup p' (subs x) end
      end
  end.

(* Card._select(names, create=False): the dict reached; None = KeyError *)
Fixpoint descend (p : list pstr) (d : dict) : option dict :=
  match p with
  | [] => Some d
  | k :: p' => match dget k d with Some x => descend p' (subs x) | None => None end
  end.

(* Card._select(parents, create=True) followed by the assignment of _add_single:
     - missing ancestors are created as Section(title=name, content="") at the END of their parent,
     - an existing entry keeps its position and hands its subsections to the new section. *)
Fixpoint add_path (p : list pstr) (new : section) (d : dict) : dict :=
  match p with
  | [] => d                                   (* unreachable: split never returns [] *)
  | k :: p' =>
      match p' with
      | [] => dset k (set_subs new (match dget k d with
                                    | Some old => subs old
                                    | None => subs new
                                    end)) d
      | _ :: _ =>
          match dget k d with
          | Some x => dset k (set_subs x (add_path p' new (subs x))) d
          | None => dset k (fresh k (add_path p' new [])) d
          end
      end
  end.

(* Card._select(parents, create=False) followed by  del parent[leaf] ; None = KeyError *)
Fixpoint delete_path (p : list pstr) (d : dict) : option dict :=
  match p with
  | [] => None
  | k :: p' =>
      match p' with
      | [] => if dhas k d then Some (ddel k d) else None
      | _ :: _ =>
          match dget k d with
          | Some x => match delete_path p' (subs x) with
                      | Some sd => Some (dset k (set_subs x sd) d)
                      | None => None
                      end
          | None => None
          end
      end
  end.

(* attribute assignment on the Section object found at p (select(...).visible = b) *)
Fixpoint update_path (p : list pstr) (f : section -> section) (d : dict) : dict :=
  match p with
  | [] => d
  | k :: p' =>
      match dget k d with
      | None => d
      | Some x => match p' with
                  | [] => dset k (f x) d
                  | _ :: _ => dset k (set_subs x (update_path p' f (subs x))) d
                  end
      end
  end.

(* ---- the public entry points ---------------------------------------------- *)
(* Card.select(key): the whole key, then every name of the path, must be non-empty
   (`if not leaf_node_name or not all(subsection_names)`; repair of finding C09-F1) *)
Definition card_select (key : pstr) (d : dict) : res section :=
  if is_empty key then Raise EKey
  else let (parents, leaf) := unsnoc (split_names key) in
       if is_empty leaf || negb (forallb nonempty parents) then Raise EKey
       else match descend parents d with
            | None => Raise EKey
            | Some pd => match dget leaf pd with Some x => Ok x | None => Raise EKey end
            end.

(* Section.select(key): every name must be non-empty *)
Definition section_select (key : pstr) (x : section) : res section :=
  let names := split_names key in
  if forallb nonempty names
  then match lookup names (subs x) with Some y => Ok y | None => Raise EKey end
  else Raise EKey.

(* card.select(k1).select(k2)...   : the section found and its absolute path *)
Fixpoint chain_rest (ks : list pstr) (abs : list pstr) (x : section) : res (list pstr * section) :=
  match ks with
  | [] => Ok (abs, x)
  | k :: ks' => match section_select k x with
                | Ok y => chain_rest ks' (abs ++ split_names k) y
                | Raise e => Raise e
                end
  end.
Definition chain_select (ks : list pstr) (d : dict) : res (list pstr * section) :=
  match ks with
  | [] => Raise EOther                      (* the harness never sends an empty chain *)
  | k :: ks' => match card_select k d with
                | Ok x => chain_rest ks' (split_names k) x
                | Raise e => Raise e
                end
  end.

(* Card.delete(key) with key a str: same checks as Card.select *)
Definition card_delete (key : pstr) (d : dict) : res dict :=
  if is_empty key then Raise EKey
  else let names := split_names key in
       let (parents, leaf) := unsnoc names in
       if is_empty leaf || negb (forallb nonempty parents) then Raise EKey
       else match delete_path names d with Some d' => Ok d' | None => Raise EKey end.

(* Card.delete(key) with key a list of str: names are used verbatim (no split, no strip);
   an empty list is an empty key, then every name must be non-empty *)
Definition card_delete_list (names : list pstr) (d : dict) : res dict :=
  match names with
  | [] => Raise EKey
  | _ :: _ => let (parents, leaf) := unsnoc names in
              if is_empty leaf || negb (forallb nonempty parents) then Raise EKey
              else match delete_path names d with Some d' => Ok d' | None => Raise EKey end
  end.

(* Card._add_single(key, section) *)
Definition add_single (key : pstr) (new : section) (d : dict) : dict :=
  add_path (split_names key) new d.

(* all paths of the tree in document order (pre-order, as Card._iterate_content walks) *)
Fixpoint sec_paths (x : section) : list (list pstr) :=
  match x with
  | Sec _ _ _ _ _ sd =>
      flat_map (fun kv => [fst kv] :: map (cons (fst kv)) (sec_paths (snd kv))) sd
  end.
Definition paths (d : dict) : list (list pstr) :=
  flat_map (fun kv => [fst kv] :: map (cons (fst kv)) (sec_paths (snd kv))) d.
