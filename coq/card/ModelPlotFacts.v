(* Facts about the string processing of Card._add_model_plot (ModelPlot.v):
   - re.sub(r"\n\s+", "", .): for EVERY input the result has no LF directly followed by a whitespace
     character, it is the input with some whitespace characters dropped, it is the input itself when the
     input has no such pair, and it equals the leftmost/greedy reference formulation;
   - str.count / str.replace of a non-empty literal: leftmost occurrence, then continue behind it;
   - the style attribute is added iff "sk-top-container" is counted exactly once. *)
From Skv Require Import PyStr PyStrFacts CardStr ModelPlot.
From Coq Require Import Lia.
Open Scope N_scope.

(* ------------------------------------------------------------------ re.sub(r"\n\s+", "", a) *)
(* somewhere in a: a line feed directly followed by a whitespace character *)
Definition nl_space_pair (a : pstr) : Prop :=
  exists pre c post, a = pre ++ LF :: c :: post /\ is_space c = true.

(* b is a with some WHITESPACE characters left out (in particular b is a subsequence of a) *)
Inductive drops_spaces : pstr -> pstr -> Prop :=
| ds_nil : drops_spaces [] []
| ds_keep c a b : drops_spaces a b -> drops_spaces (c :: a) (c :: b)
| ds_drop c a b : is_space c = true -> drops_spaces a b -> drops_spaces (c :: a) b.

Inductive subseq : pstr -> pstr -> Prop :=
| ss_nil : subseq [] []
| ss_keep c a b : subseq a b -> subseq (c :: a) (c :: b)
| ss_drop c a b : subseq a b -> subseq (c :: a) b.

Lemma drops_spaces_subseq a b : drops_spaces a b -> subseq a b.
Proof. induction 1; constructor; assumption. Qed.

Fixpoint has_pair (a : pstr) : bool :=
  match a with
  | [] => false
  | c :: a' => ((c =? LF) && starts_space a') || has_pair a'
  end.

Lemma has_pair_iff a : has_pair a = true <-> nl_space_pair a.
Proof.
  induction a as [|c a IH]; cbn [has_pair].
  - split; [discriminate|]. intros [pre [c [post [H _]]]]. destruct pre; discriminate.
  - rewrite orb_true_iff, andb_true_iff, IH. split.
    + intros [[Hc Hs]|[pre [d [post [-> Hd]]]]].
      * apply N.eqb_eq in Hc. subst c. destruct a as [|d a]; [discriminate|].
        exists [], d, a. split; [reflexivity | exact Hs].
      * exists (c :: pre), d, post. split; [reflexivity | exact Hd].
    + intros [pre [d [post [H Hd]]]]. destruct pre as [|c' pre]; cbn [app] in H.
      * injection H as -> ->. left. split; [reflexivity | exact Hd].
      * injection H as -> ->. right. exists pre, d, post. split; [reflexivity | exact Hd].
Qed.

Lemma is_space_LF : is_space LF = true.
Proof. reflexivity. Qed.

Lemma not_space_not_LF c : is_space c = false -> (c =? LF) = false.
Proof. intros H. destruct (N.eqb_spec c LF) as [->|N]; [rewrite is_space_LF in H; discriminate | reflexivity]. Qed.

Lemma resub_go_drops skip a : drops_spaces a (resub_go skip a).
Proof.
  revert skip; induction a as [|c a IH]; intros skip; cbn [resub_go]; [constructor|].
  destruct (skip && is_space c) eqn:E1.
  - apply andb_true_iff in E1 as [_ E1]. apply ds_drop; [exact E1 | apply IH].
  - destruct ((c =? LF) && starts_space a) eqn:E2.
    + apply andb_true_iff in E2 as [E2 _]. apply N.eqb_eq in E2. subst c.
      apply ds_drop; [exact is_space_LF | apply IH].
    + apply ds_keep. apply IH.
Qed.

Lemma starts_space_resub a : starts_space a = false -> starts_space (resub_go false a) = false.
Proof.
  destruct a as [|d a]; [reflexivity|]. cbn [starts_space resub_go andb]. intros Hd.
  rewrite (not_space_not_LF d Hd). cbn [andb starts_space]. exact Hd.
Qed.

Lemma resub_go_no_pair skip a : has_pair (resub_go skip a) = false.
Proof.
  revert skip; induction a as [|c a IH]; intros skip; cbn [resub_go]; [reflexivity|].
  destruct (skip && is_space c) eqn:E1; [apply IH|].
  destruct ((c =? LF) && starts_space a) eqn:E2; [apply IH|].
  cbn [has_pair]. rewrite IH, orb_false_r.
  destruct (c =? LF); [|reflexivity]. cbn [andb] in *. apply starts_space_resub. exact E2.
Qed.

Lemma resub_go_id a : has_pair a = false -> resub_go false a = a.
Proof.
  induction a as [|c a IH]; [reflexivity|]. cbn [has_pair resub_go andb]. intros H.
  apply orb_false_iff in H as [H1 H2]. rewrite H1. f_equal. apply IH. exact H2.
Qed.

(* the output contains no "\n" directly followed by a whitespace character *)
Theorem strip_indent_no_pair a : ~ nl_space_pair (strip_indent a).
Proof. intros H. apply has_pair_iff in H. unfold strip_indent in H. rewrite resub_go_no_pair in H. discriminate. Qed.

(* the output is the input with some whitespace characters left out *)
Theorem strip_indent_drops_spaces a : drops_spaces a (strip_indent a).
Proof. apply resub_go_drops. Qed.

Theorem strip_indent_subseq a : subseq a (strip_indent a).
Proof. apply drops_spaces_subseq, strip_indent_drops_spaces. Qed.

(* identity exactly on the strings without such a pair *)
Theorem strip_indent_id a : ~ nl_space_pair a -> strip_indent a = a.
Proof.
  intros H. apply resub_go_id. destruct (has_pair a) eqn:E; [|reflexivity].
  exfalso. apply H. apply has_pair_iff. exact E.
Qed.

Theorem strip_indent_fixed_iff a : strip_indent a = a <-> ~ nl_space_pair a.
Proof.
  split; [|apply strip_indent_id]. intros H. rewrite <- H. apply strip_indent_no_pair.
Qed.

Corollary strip_indent_idem a : strip_indent (strip_indent a) = strip_indent a.
Proof. apply strip_indent_id, strip_indent_no_pair. Qed.

(* every character that is not whitespace survives, in order *)
Lemma drops_spaces_filter a b :
  drops_spaces a b -> filter (fun c => negb (is_space c)) b = filter (fun c => negb (is_space c)) a.
Proof.
  induction 1 as [|c a b _ IH|c a b Hc _ IH]; cbn [filter]; [reflexivity| |].
  - rewrite IH. reflexivity.
  - rewrite Hc. cbn [negb]. exact IH.
Qed.

Theorem strip_indent_keeps_nonspace a :
  filter (fun c => negb (is_space c)) (strip_indent a) = filter (fun c => negb (is_space c)) a.
Proof. apply drops_spaces_filter, strip_indent_drops_spaces. Qed.

(* the one-pass scan = leftmost match, greedy \s+ (drop the LF and the maximal whitespace run behind it) *)
Lemma resub_go_true a : resub_go true a = resub_go false (lstrip a).
Proof.
  induction a as [|c a IH]; [reflexivity|]. cbn [lstrip].
  destruct (is_space c) eqn:E.
  - cbn [resub_go andb]. rewrite E. exact IH.
  - cbn [resub_go andb]. rewrite E. reflexivity.
Qed.

Lemma length_lstrip a : (length (lstrip a) <= length a)%nat.
Proof.
  induction a as [|c a IH]; [apply le_n|]. cbn [lstrip]. destruct (is_space c); [|apply le_n].
  cbn [length]. lia.
Qed.

Lemma resub_ref_go fuel a : (length a <= fuel)%nat -> resub_ref fuel a = resub_go false a.
Proof.
  revert a; induction fuel as [|f IH]; intros a Hl.
  - destruct a; [reflexivity | cbn [length] in Hl; lia].
  - destruct a as [|c a]; [reflexivity|]. cbn [resub_ref resub_go andb]. cbn [length] in Hl.
    destruct ((c =? LF) && starts_space a).
    + rewrite resub_go_true. apply IH. pose proof (length_lstrip a). lia.
    + f_equal. apply IH. lia.
Qed.

Theorem strip_indent_ref a : strip_indent a = resub_ref (length a) a.
Proof. symmetry. apply resub_ref_go. apply le_n. Qed.

(* ------------------------------------------------------------------ str.count / str.replace *)
Definition occurs (sub a : pstr) : Prop := exists pre post, a = pre ++ sub ++ post.

Lemma starts_with_iff p a : starts_with p a = true <-> exists post, a = p ++ post.
Proof.
  revert a; induction p as [|x p IH]; intros a; cbn [starts_with].
  - split; [intros _; exists a; reflexivity | reflexivity].
  - destruct a as [|y a].
    + split; [discriminate | intros [post H]; discriminate].
    + rewrite andb_true_iff, IH, N.eqb_eq. split.
      * intros [-> [post ->]]. exists post. reflexivity.
      * intros [post H]. cbn [app] in H. injection H as -> ->. split; [reflexivity | exists post; reflexivity].
Qed.

Lemma skipn_length_app {A} (l r : list A) : skipn (length l) (l ++ r) = r.
Proof. induction l as [|x l IH]; [reflexivity | exact IH]. Qed.

Lemma count_go_skip sub k a : count_go sub k a = count_go sub O (skipn k a).
Proof.
  revert a; induction k as [|k IH]; intros a; [reflexivity|].
  destruct a as [|c a]; [reflexivity|]. cbn [count_go skipn]. apply IH.
Qed.

Lemma replace_go_skip sub new k a : replace_go sub new k a = replace_go sub new O (skipn k a).
Proof.
  revert a; induction k as [|k IH]; intros a; [reflexivity|].
  destruct a as [|c a]; [reflexivity|]. cbn [replace_go skipn]. apply IH.
Qed.

(* a hit at the front: count it / write `new`, continue behind the hit *)
Lemma count_sub_hit sub post : sub <> [] -> count_sub sub (sub ++ post) = 1 + count_sub sub post.
Proof.
  destruct sub as [|x sub]; [congruence|]. intros _. unfold count_sub. cbn [app count_go].
  assert (H : starts_with (x :: sub) (x :: sub ++ post) = true) by (apply starts_with_iff; exists post; reflexivity).
  rewrite H. cbn [length]. rewrite Nat.sub_succ, Nat.sub_0_r, count_go_skip, skipn_length_app. reflexivity.
Qed.

Lemma replace_sub_hit sub new post :
  sub <> [] -> replace_sub sub new (sub ++ post) = new ++ replace_sub sub new post.
Proof.
  destruct sub as [|x sub]; [congruence|]. intros _. unfold replace_sub. cbn [app replace_go].
  assert (H : starts_with (x :: sub) (x :: sub ++ post) = true) by (apply starts_with_iff; exists post; reflexivity).
  rewrite H. cbn [length]. rewrite Nat.sub_succ, Nat.sub_0_r, replace_go_skip, skipn_length_app. reflexivity.
Qed.

(* no hit at the front: keep the character, move on by one *)
Lemma count_sub_miss sub c a : starts_with sub (c :: a) = false -> count_sub sub (c :: a) = count_sub sub a.
Proof. intros H. unfold count_sub. cbn [count_go]. rewrite H. reflexivity. Qed.

Lemma replace_sub_miss sub new c a :
  starts_with sub (c :: a) = false -> replace_sub sub new (c :: a) = c :: replace_sub sub new a.
Proof. intros H. unfold replace_sub. cbn [replace_go]. rewrite H. reflexivity. Qed.

(* Python's definition of count/replace for a non-empty literal: either sub does not occur (count 0, text
   unchanged), or a = pre ++ sub ++ post where this is the LEFTMOST occurrence, and counting / replacing
   continue in post alone (occurrences do not overlap) *)
Theorem count_replace_step sub new a :
  sub <> [] ->
  (count_sub sub a = 0 /\ replace_sub sub new a = a /\ ~ occurs sub a)
  \/ exists pre post,
       a = pre ++ sub ++ post
       /\ (forall p q, a = p ++ sub ++ q -> (length pre <= length p)%nat)
       /\ count_sub sub a = 1 + count_sub sub post
       /\ replace_sub sub new a = pre ++ new ++ replace_sub sub new post.
Proof.
  intros Hsub. induction a as [|c a IH].
  - left. repeat split. intros [pre [post H]]. symmetry in H.
    apply app_eq_nil in H as [_ H]. apply app_eq_nil in H as [H _]. contradiction.
  - destruct (starts_with sub (c :: a)) eqn:E.
    + apply starts_with_iff in E as [post E]. right. exists [], post. cbn [app length]. rewrite E.
      repeat split.
      * intros p q _. apply Nat.le_0_l.
      * apply count_sub_hit. exact Hsub.
      * apply replace_sub_hit. exact Hsub.
    + assert (Hfront : forall p q, c :: a = p ++ sub ++ q -> exists p', p = c :: p' /\ a = p' ++ sub ++ q).
      { intros p q H. destruct p as [|c' p].
        - exfalso. cbn [app] in H. assert (Hs : starts_with sub (c :: a) = true) by (apply starts_with_iff; exists q; exact H).
          congruence.
        - cbn [app] in H. injection H as <- ->. exists p. split; reflexivity. }
      rewrite (count_sub_miss _ _ _ E), (replace_sub_miss _ _ _ _ E).
      destruct IH as [[H0 [H1 H2]]|[pre [post [Ha [Hleft [Hc Hr]]]]]].
      * left. repeat split; [exact H0 | rewrite H1; reflexivity|].
        intros [p [q H]]. destruct (Hfront p q H) as [p' [_ H']]. apply H2. exists p', q. exact H'.
      * right. exists (c :: pre), post. repeat split.
        -- cbn [app]. rewrite <- Ha. reflexivity.
        -- intros p q H. destruct (Hfront p q H) as [p' [-> H']]. cbn [length]. apply le_n_S. apply Hleft with q. exact H'.
        -- exact Hc.
        -- rewrite Hr. reflexivity.
Qed.

Theorem count_zero_iff sub a : sub <> [] -> (count_sub sub a = 0 <-> ~ occurs sub a).
Proof.
  intros Hsub. destruct (count_replace_step sub [] a Hsub) as [[H0 [_ H2]]|[pre [post [Ha [_ [Hc _]]]]]].
  - tauto.
  - split; [intros H; lia|]. intros H. exfalso. apply H. exists pre, post. exact Ha.
Qed.

Theorem replace_none sub new a : sub <> [] -> count_sub sub a = 0 -> replace_sub sub new a = a.
Proof.
  intros Hsub H. destruct (count_replace_step sub new a Hsub) as [[_ [H1 _]]|[pre [post [_ [_ [Hc _]]]]]]; [exact H1 | lia].
Qed.

(* counted exactly once: one occurrence is replaced, and there is none behind it *)
Theorem replace_once sub new a :
  sub <> [] -> count_sub sub a = 1 ->
  exists pre post, a = pre ++ sub ++ post
    /\ (forall p q, a = p ++ sub ++ q -> (length pre <= length p)%nat)
    /\ ~ occurs sub post
    /\ replace_sub sub new a = pre ++ new ++ post.
Proof.
  intros Hsub H. destruct (count_replace_step sub new a Hsub) as [[H0 _]|[pre [post [Ha [Hleft [Hc Hr]]]]]]; [lia|].
  assert (Hp : count_sub sub post = 0) by lia.
  exists pre, post. repeat split; [exact Ha | exact Hleft | apply count_zero_iff; assumption|].
  rewrite Hr, (replace_none _ _ _ Hsub Hp). reflexivity.
Qed.

(* ------------------------------------------------------------------ the style attribute *)
Lemma sk_top_nonnil : sk_top <> [].
Proof. discriminate. Qed.

(* the replace happens iff the class name is counted exactly once; 0 or >= 2 leave the text unchanged *)
Theorem fix_container_spec t :
  (count_sub sk_top t = 1 ->
     exists pre post, t = pre ++ sk_top ++ post
       /\ (forall p q, t = p ++ sk_top ++ q -> (length pre <= length p)%nat)
       /\ ~ occurs sk_top post
       /\ fix_container t = pre ++ sk_top_styled ++ post)
  /\ (count_sub sk_top t <> 1 -> fix_container t = t)
  /\ (fix_container t <> t <-> count_sub sk_top t = 1).
Proof.
  unfold fix_container. destruct (N.eqb_spec (count_sub sk_top t) 1) as [E|N].
  - destruct (replace_once sk_top sk_top_styled t sk_top_nonnil E) as [pre [post [Ha [Hleft [Hno Hr]]]]].
    split; [|split].
    + intros _. exists pre, post. auto.
    + congruence.
    + split; [intros _; exact E|]. intros _. rewrite Hr. intros H. rewrite Ha in H.
      apply app_inv_head in H. apply (f_equal (@length N)) in H. rewrite !app_length in H.
      vm_compute (length sk_top) in H. vm_compute (length sk_top_styled) in H. lia.
  - split; [|split].
    + intros H. contradiction.
    + reflexivity.
    + split; [intros H; exfalso; apply H; reflexivity | intros H; contradiction].
Qed.

Theorem fix_container_absent t : ~ occurs sk_top t -> fix_container t = t.
Proof.
  intros H. apply fix_container_spec. apply (count_zero_iff sk_top t sk_top_nonnil) in H. rewrite H. discriminate.
Qed.

(* ------------------------------------------------------------------ the content rule *)
Theorem model_plot_content_spec desc html :
  model_plot_content desc html =
  match desc with
  | None | Some [] => fix_container (strip_indent html)
  | Some d => d ++ [LF; LF] ++ fix_container (strip_indent html)
  end.
Proof. destruct desc as [[|c d]|]; reflexivity. Qed.

(* ------------------------------------------------------------------ concrete strings *)
Definition demo_html : pstr :=
  s "<div class=""sk-top-container"">" ++ [10; 32; 32; 32] ++ s "<p>" ++ [10; 9; 160] ++ s "x </p>"
  ++ [10; 10] ++ s "</div>" ++ [10].

Example demo_html_div :
  nl_space_pair demo_html
  /\ count_sub sk_top (strip_indent demo_html) = 1
  /\ model_plot_div demo_html = s "<div class=""sk-top-container"" style=""overflow: auto;""><p>x </p></div>" ++ [10]
  /\ model_plot_content (Some (s "The model")) demo_html
     = s "The model" ++ [10; 10] ++ s "<div class=""sk-top-container"" style=""overflow: auto;""><p>x </p></div>" ++ [10]
  /\ model_plot_content (Some []) demo_html = model_plot_div demo_html.
Proof.
  split; [apply has_pair_iff; vm_compute; reflexivity|]. repeat split; vm_compute; reflexivity.
Qed.

(* two occurrences (as in sklearn >= 1.3 where the class name also appears in the style sheet): no style attribute *)
Example demo_two_occurrences :
  let t := s ".sk-top-container {}" ++ [10; 32] ++ s "<div class=""sk-top-container"">" in
  count_sub sk_top (strip_indent t) = 2
  /\ model_plot_div t = s ".sk-top-container {}<div class=""sk-top-container"">".
Proof. split; vm_compute; reflexivity. Qed.
