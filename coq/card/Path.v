(* skops.card._model_card.split_subsection_names, as the code computes it
   (after the D13 fix: regex split on unescaped '/', then per part
   replace("\\/", "/") and strip()), and the property's wording as an
   independent token-level specification. *)
From Skv Require Export CardStr.
Open Scope N_scope.

(* the code:  [part.replace("\\/", "/").strip() for part in re.split(r"(?<!\\)/", key)] *)
Definition split_names (key : pstr) : list pstr :=
  map (fun part => strip (unescape part)) (split_unesc key).

(* the specification: scan left to right; backslash-slash is ONE token (a literal
   slash), any other '/' separates, every other character stands for itself. *)
Inductive tok := TSep | TChr (c : N).

Definition tok_of (c : N) : tok := if c =? slash then TSep else TChr c.

Fixpoint tokens (a : pstr) : list tok :=
  match a with
  | [] => []
  | c :: a' =>
      match a' with
      | d :: a'' => if (c =? backslash) && (d =? slash) then TChr slash :: tokens a''
                    else tok_of c :: tokens a'
      | [] => [tok_of c]
      end
  end.

Fixpoint split_toks (l : list tok) : list pstr :=
  match l with
  | [] => [[]]
  | TSep :: l' => [] :: split_toks l'
  | TChr c :: l' => match split_toks l' with
                    | p :: ps => (c :: p) :: ps
                    | [] => [[c]]
                    end
  end.

Definition spec_split (key : pstr) : list pstr := map strip (split_toks (tokens key)).

(* the path string that addresses a list of names: escape every '/' and join with "/" *)
Definition path_string (names : list pstr) : pstr := join [slash] (map escape names).

Definition ends_with_backslash (a : pstr) : bool :=
  match rev a with c :: _ => c =? backslash | [] => false end.
