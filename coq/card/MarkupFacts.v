(* Facts about Markup.md: the indentation stack is balanced after EVERY call
   (also a raising one, since D21 is fixed), hence a conversion is a function
   of the element alone and independent of what the instance converted before. *)
From Skv Require Import PyStr PyStrFacts Json Markup.
From Coq Require Import Lia.
Open Scope N_scope.

(* ------------------------------------------------------------------ *)
(* induction principle for the nested block type                       *)

Definition list_forall {A} (P : A -> Prop) (f : forall a, P a) : forall l, Forall P l :=
  fix go l := match l with
              | [] => Forall_nil P
              | x :: l' => Forall_cons x (f x) (go l')
              end.

Section BlockInd.
  Variable P : block -> Prop.
  Hypothesis HPlain : forall xs, P (Plain xs).
  Hypothesis HPara : forall xs, P (Para xs).
  Hypothesis HHeader : forall l a xs, P (Header l a xs).
  Hypothesis HCodeBlock : forall a t, P (CodeBlock a t).
  Hypothesis HRawBlock : forall f t, P (RawBlock f t).
  Hypothesis HBlockQuote : forall bs, Forall P bs -> P (BlockQuote bs).
  Hypothesis HBulletList : forall items, Forall (Forall P) items -> P (BulletList items).
  Hypothesis HOrderedList : forall st items, Forall (Forall P) items -> P (OrderedList st items).
  Hypothesis HDiv : forall a bs, Forall P bs -> P (Div a bs).
  Hypothesis HTableOld : forall heads rows,
      Forall (Forall P) heads -> Forall (Forall (Forall P)) rows -> P (TableOld heads rows).
  Hypothesis HTableNew : forall hrows bodies,
      Forall (Forall (Forall P)) hrows -> Forall (Forall (Forall (Forall P))) bodies -> P (TableNew hrows bodies).
  Hypothesis HFigure : forall a bs, Forall P bs -> P (Figure a bs).
  Hypothesis HBUnsup : forall n, P (BUnsup n).

  Fixpoint block_ind' (b : block) : P b :=
    match b with
    | Plain xs => HPlain xs
    | Para xs => HPara xs
    | Header l a xs => HHeader l a xs
    | CodeBlock a t => HCodeBlock a t
    | RawBlock f t => HRawBlock f t
    | BlockQuote bs => HBlockQuote bs (list_forall P block_ind' bs)
    | BulletList items => HBulletList items (list_forall _ (list_forall P block_ind') items)
    | OrderedList st items => HOrderedList st items (list_forall _ (list_forall P block_ind') items)
    | Div a bs => HDiv a bs (list_forall P block_ind' bs)
    | TableOld heads rows =>
        HTableOld heads rows (list_forall _ (list_forall P block_ind') heads)
                  (list_forall _ (list_forall _ (list_forall P block_ind')) rows)
    | TableNew hrows bodies =>
        HTableNew hrows bodies (list_forall _ (list_forall _ (list_forall P block_ind')) hrows)
                  (list_forall _ (list_forall _ (list_forall _ (list_forall P block_ind'))) bodies)
    | Figure a bs => HFigure a bs (list_forall P block_ind' bs)
    | BUnsup n => HBUnsup n
    end.
End BlockInd.

(* ------------------------------------------------------------------ *)
(* state preservation                                                  *)

Definition pres {A} (m : M A) : Prop := forall st, fst (m st) = st.

Lemma pres_ret {A} (a : A) : pres (ret a).
Proof. intro st. reflexivity. Qed.
Lemma pres_raise {A} e : pres (@raise A e).
Proof. intro st. reflexivity. Qed.
Lemma pres_lift {A} (r : res A) : pres (lift r).
Proof. intro st. reflexivity. Qed.
Lemma pres_read {A} (f : stack -> res A) : pres (fun st => (st, f st)).
Proof. intro st. reflexivity. Qed.

Lemma pres_bind {A B} (m : M A) (f : A -> M B) :
  pres m -> (forall a, pres (f a)) -> pres (bindM m f).
Proof.
  intros Hm Hf st. unfold bindM. specialize (Hm st).
  destruct (m st) as [st' [a|e]]; cbn [fst] in *; subst.
  - apply Hf.
  - reflexivity.
Qed.

Lemma pres_mapM {A B} (f : A -> M B) l : Forall (fun x => pres (f x)) l -> pres (mapM f l).
Proof.
  induction 1 as [|x l Hx Hl IH]; cbn [mapM].
  - apply pres_ret.
  - apply pres_bind; [exact Hx|]. intro y. apply pres_bind; [exact IH|]. intro ys. apply pres_ret.
Qed.

Lemma pres_mapMi {A B} (f : Z -> A -> M B) l :
  Forall (fun x => forall i, pres (f i x)) l -> forall i, pres (mapMi f i l).
Proof.
  induction 1 as [|x l Hx Hl IH]; intro i; cbn [mapMi].
  - apply pres_ret.
  - apply pres_bind; [apply Hx|]. intro y. apply pres_bind; [apply IH|]. intro ys. apply pres_ret.
Qed.

Lemma pres_indented {A} n (m : M A) : pres m -> pres (indented n m).
Proof.
  intros Hm st. unfold indented. specialize (Hm (n :: st)).
  destruct (m (n :: st)) as [st' r]. cbn [fst] in Hm. subst. reflexivity.
Qed.

Lemma Forall_impl' {A} (P Q : A -> Prop) l : (forall a, P a -> Q a) -> Forall P l -> Forall Q l.
Proof. intros H F. eapply Forall_impl; eauto. Qed.

(* _make_list_item *)
Lemma pres_list_item marker item :
  Forall (fun b => pres (mdb b)) item ->
  pres (bindM (mapM mdb item) (fun parts st =>
          (st, Ok (spaces (get_indent st) ++ marker ++ 32 :: join [10] parts)))).
Proof.
  intro H. apply pres_bind; [apply pres_mapM; exact H|]. intros parts st. reflexivity.
Qed.

Lemma pres_cell_new cell :
  Forall (fun b => pres (mdb b)) cell ->
  pres (bindM (mapM mdb cell) (fun ps => ret (concat ps))).
Proof.
  intro H. apply pres_bind; [apply pres_mapM; exact H|]. intro. apply pres_ret.
Qed.

Theorem mdb_pres : forall b, pres (mdb b).
Proof.
  induction b using block_ind'; cbn [mdb].
  - apply pres_read.
  - apply pres_read.
  - apply pres_read.
  - apply pres_ret.
  - apply pres_ret.
  - (* BlockQuote *)
    apply pres_bind; [apply pres_mapM; assumption|]. intro. apply pres_ret.
  - (* BulletList *)
    apply pres_bind; [|intro; apply pres_ret].
    apply pres_indented. apply pres_mapM.
    eapply Forall_impl'; [|eassumption]. intros item Hi. apply pres_list_item. exact Hi.
  - (* OrderedList *)
    apply pres_bind; [|intro; apply pres_ret].
    apply pres_indented. apply pres_mapMi.
    eapply Forall_impl'; [|eassumption]. intros item Hi i. apply pres_list_item. exact Hi.
  - (* Div *)
    apply pres_bind; [|intro; apply pres_ret].
    apply pres_mapM. eapply Forall_impl'; [|eassumption]. intros b Hb. apply pres_indented. exact Hb.
  - (* TableOld *)
    apply pres_bind.
    + apply pres_mapM. eapply Forall_impl'; [|eassumption]. intros cell Hc.
      destruct cell as [|b [|b' cell]]; try apply pres_raise.
      inversion Hc; subst; assumption.
    + intro columns. apply pres_bind; [|intro; apply pres_lift].
      apply pres_mapM. eapply Forall_impl'; [|eassumption]. intros row Hr.
      apply pres_mapM. eapply Forall_impl'; [|eassumption]. intros cell Hc.
      destruct cell as [|b cell]; [apply pres_ret|]. inversion Hc; subst; assumption.
  - (* TableNew *)
    destruct hrows as [|hrow hrows]; [apply pres_raise|].
    apply pres_bind.
    + apply pres_mapM. match goal with H : Forall _ (hrow :: hrows) |- _ => inversion H as [|? ? Hrow ?]; subst end.
      eapply Forall_impl'; [|eassumption]. intros cell Hc. apply pres_cell_new. exact Hc.
    + intro columns. destruct bodies as [|trows bodies]; [apply pres_raise|].
      apply pres_bind; [|intro; apply pres_lift].
      match goal with H : Forall _ (trows :: bodies) |- _ => inversion H as [|? ? Htr ?]; subst end.
      apply pres_mapM. eapply Forall_impl'; [|eassumption]. intros row Hr.
      apply pres_mapM. eapply Forall_impl'; [|eassumption]. intros cell Hc. apply pres_cell_new. exact Hc.
  - (* Figure *)
    destruct bs as [|b0 bs']; [apply pres_raise|].
    destruct b0; destruct bs'; try apply pres_raise;
      destruct xs; first [apply pres_raise | apply pres_read].
  - apply pres_raise.
Qed.

(* C15_md_state at full strength (D21 fixed): the stack is restored on every path *)
Theorem md_state_all : forall st x st' r, md st x = (st', r) -> st' = st.
Proof.
  intros st [b|i] st' r H; cbn [md] in H.
  - pose proof (mdb_pres b st) as P. rewrite H in P. exact P.
  - injection H as <- _. reflexivity.
Qed.

Corollary md_state : forall st x st' t, md st x = (st', Ok t) -> st' = st.
Proof. intros. eapply md_state_all; eassumption. Qed.

(* what one call returns, as a function of the stack it starts from and the element *)
Definition md_result (st : stack) (x : elem) : res pstr := snd (md st x).

Lemma md_eq st x : md st x = (st, md_result st x).
Proof.
  unfold md_result. destruct (md st x) as [st' r] eqn:E. apply md_state_all in E. subst. reflexivity.
Qed.

(* history independence: any sequence of calls on one instance returns, call by
   call, what a fresh instance returns, and leaves the instance as it was *)
Theorem md_history_independent :
  forall st xs, md_seq st xs = (st, map (md_result st) xs).
Proof.
  intros st xs. induction xs as [|x xs IH]; cbn [md_seq map]; [reflexivity|].
  rewrite (md_eq st x), IH. reflexivity.
Qed.

Corollary md_call_order_irrelevant :
  forall before1 before2 x,
    nth_error (snd (md_seq [] (before1 ++ [x]))) (length before1)
    = nth_error (snd (md_seq [] (before2 ++ [x]))) (length before2).
Proof.
  intros. rewrite !md_history_independent. cbn [snd]. rewrite !map_app.
  rewrite !nth_error_app2 by (rewrite map_length; lia). rewrite !map_length, !Nat.sub_diag. reflexivity.
Qed.

(* the former D21 witness: a list conversion that raises leaves nothing behind,
   and the next list is rendered without extra indentation *)
Example former_leak_witness :
  md_seq [] [EB (BulletList [[Para [Str (s "x")]; BUnsup (s "HorizontalRule")]]);
             EB (BulletList [[Para [Str (s "y")]; BulletList [[Para [Str (s "z")]]]]])]
  = ([], [Raise EValue; Ok (s "- y" ++ [10] ++ s "  - z")]).
Proof. vm_compute. reflexivity. Qed.

(* soft breaks and nested lists do read the stack: the balance is what makes the result stable *)
Example stack_matters :
  md_result [2%Z] (EI SoftBreak) <> md_result [] (EI SoftBreak).
Proof. vm_compute. discriminate. Qed.
