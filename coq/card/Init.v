(* Card(model, template=..., model_diagram=...): Card.__init__ -> Card._populate_template, as a total function.

   The constructor is modelled as the run of an explicit list of EXISTING operations (OAdd, OAddHyperparams,
   OAddModelPlot: init_plan) on the empty card, so that every "after any operation sequence" theorem of the card model
   speaks about constructed cards as well (InitFacts.v).

   What the code reads from module-level data is a parameter (`config`): SKOPS_TEMPLATE in dict order, VALID_TEMPLATES,
   Templates.skops.value, the default `section=` arguments of add_hyperparams / add_model_plot, and the parameter names of
   Card.add (a template key equal to one of them makes `self.add(folded=False, **template)` a TypeError before anything is
   added).  harness/card_snapshot.py regenerates these from the live code on every run (Gen/CardSnapshot.v).
   Oracles: params = get_params(deep=True) as (name, str(value)); html = str(estimator_html_repr(model)).

   Arguments outside the model: template values that are neither None, a str nor a Mapping with str keys and str contents;
   model_diagram values that are neither a bool nor a str; a model given as a path (loaded by _load_model). *)
From Skv Require Export Ops.
Open Scope N_scope.

Inductive template :=
| TNone                                   (* template=None *)
| TStr (name : pstr)                      (* template="skops", or any other str *)
| TMap (kvs : list (pstr * pstr)).        (* a Mapping section key -> content, in dict order *)

Inductive diagram :=
| DBool (b : bool)                        (* model_diagram=True / False *)
| DStr (sect : pstr).                     (* model_diagram="auto", or a section name *)

Record config := mkConfig {
  skops_template : list (pstr * pstr);    (* SKOPS_TEMPLATE.items() *)
  valid_templates : list pstr;            (* VALID_TEMPLATES *)
  skops_name : pstr;                      (* Templates.skops.value *)
  hyper_section : pstr;                   (* default of add_hyperparams(section=) *)
  plot_section : pstr;                    (* default of add_model_plot(section=) *)
  add_params : list pstr                  (* named parameters of Card.add: self, folded *)
}.

Definition auto : pstr := s "auto".

(* the model_diagram handling; `skops` = the branch of the default template *)
Definition diagram_ops (cfg : config) (skops : bool) (dg : diagram) (html : pstr) : list op :=
  match dg with
  | DBool true => [OAddModelPlot (plot_section cfg) None html]            (* add_model_plot() *)
  | DBool false => []
  | DStr sect =>
      if pstr_eqb sect auto
      then (if skops then [OAddModelPlot (plot_section cfg) None html] else [])
      else [OAddModelPlot sect None html]                                  (* add_model_plot(section=model_diagram) *)
  end.

(* a keyword that is also a named parameter of Card.add: the call itself is a TypeError *)
Definition key_clash (cfg : config) (kvs : list (pstr * pstr)) : bool :=
  existsb (fun kv => mem (fst kv) (add_params cfg)) kvs.

(* the operations the constructor performs, or the exception it raises before performing any *)
Definition init_plan (cfg : config) (t : template) (dg : diagram) (params : list (pstr * pstr)) (html : pstr)
  : res (list op) :=
  match t with
  | TStr name =>
      if negb (mem name (valid_templates cfg)) then Raise EValue
      else if pstr_eqb name (skops_name cfg)
      then Ok (OAdd false (skops_template cfg)
               :: OAddHyperparams (hyper_section cfg) None params
               :: diagram_ops cfg true dg html)
      else Ok (diagram_ops cfg false dg html)           (* a valid name other than the skops one: nothing is prefilled *)
  | TMap kvs =>
      if key_clash cfg kvs then Raise EType
      else Ok (OAdd false kvs :: diagram_ops cfg false dg html)
  | TNone => Ok (diagram_ops cfg false dg html)
  end.

Fixpoint first_failure (rs : list outcome) : outcome :=
  match rs with
  | [] => Done
  | Failed e :: _ => Failed e
  | _ :: rs' => first_failure rs'
  end.

(* the constructed card and the constructor's outcome.  When the constructor raises there is no card: the first
   component is then the empty card (nothing was added before the exception).  No planned operation can fail
   (InitFacts.init_ops_done), so running all of them is running them until the first failure. *)
Definition init_card (cfg : config) (t : template) (dg : diagram) (params : list (pstr * pstr)) (html : pstr)
  : card * outcome :=
  match init_plan cfg t dg params html with
  | Ok ops => let (c, rs) := run ops empty_card in (c, first_failure rs)
  | Raise e => (empty_card, Failed e)
  end.

(* the operations of the plan (none when the constructor raises) *)
Definition init_ops (cfg : config) (t : template) (dg : diagram) (params : list (pstr * pstr)) (html : pstr) : list op :=
  match init_plan cfg t dg params html with Ok ops => ops | Raise _ => [] end.

(* ---- the outline of a card: (path, heading) of every section in document order ---------------- *)
Fixpoint sec_outline (x : section) : list (list pstr * pstr) :=
  match x with
  | Sec _ _ _ _ _ sd =>
      flat_map (fun kv => ([fst kv], title (snd kv))
                          :: map (fun e => (fst kv :: fst e, snd e)) (sec_outline (snd kv))) sd
  end.
Definition outline (d : dict) : list (list pstr * pstr) :=
  flat_map (fun kv => ([fst kv], title (snd kv))
                      :: map (fun e => (fst kv :: fst e, snd e)) (sec_outline (snd kv))) d.

(* what a template listing promises: its keys, split, each with its last part *)
Definition listed (kvs : list (pstr * pstr)) : list (list pstr * pstr) :=
  map (fun kv => (split_names (fst kv), leaf_title (fst kv))) kvs.
