(* Card state, the public mutating API (add, add_plot, add_table, add_metrics,
   add_hyperparams, add_model_plot, select, chained select, delete, flag assignment through select)
   and the interpreter of operation sequences.  Every mutation is expressed through
   the three tree primitives of Tree.v (add_path / delete_path / update_path). *)
From Skv Require Export Tree ModelPlot.
Open Scope N_scope.

Record card := mkCard { data : dict ; metrics : list (pstr * pstr) }.
Definition empty_card : card := mkCard [] [].

(* x or ""  /  alt_text or title *)
Definition or_else (o : option pstr) (dflt : pstr) : pstr :=
  match o with
  | Some t => if is_empty t then dflt else t
  | None => dflt
  end.

Definition table := list (pstr * list pstr).

Inductive op :=
| OAdd (fold : bool) (kvs : list (pstr * pstr))                    (* card.add(folded=, **kvs) *)
| OAddPlot (desc alt : option pstr) (fold : bool) (kvs : list (pstr * pstr))   (* name -> plot path *)
| OAddTable (desc : option pstr) (fold : bool) (kvs : list (pstr * table))
| OAddMetrics (sect : pstr) (desc : option pstr) (kvs : list (pstr * pstr)) (* metric -> str(value) *)
| OAddHyperparams (sect : pstr) (desc : option pstr) (params : list (pstr * pstr)) (* get_params(deep=True): oracle *)
| OAddModelPlot (sect : pstr) (desc : option pstr) (html : pstr)    (* html = str(estimator_html_repr(model)): oracle *)
| OSelect (key : pstr)
| OSelectChain (ks : list pstr)
| ODelete (key : pstr)
| ODeleteList (names : list pstr)
| OSetVisible (ks : list pstr) (b : bool)                           (* card.select(k1).select(k2)....visible = b *)
| OSetFolded (ks : list pstr) (b : bool)
| OSetTitle (ks : list pstr) (t : pstr).                            (* card.select(k1)....title = t *)

Inductive outcome :=
| Done                                    (* returned normally *)
| Selected (x : section)                  (* select returned this section *)
| Failed (e : err).                       (* raised *)

(* last path part = title of the section a builder creates *)
Definition leaf_title (key : pstr) : pstr := last (split_names key) [].

(* Section(title=leaf, content=val, folded=folded) *)
Definition text_section (key val : pstr) (fold : bool) : section :=
  Sec (leaf_title key) val true fold KText [].

(* card.add(folded, **kvs) *)
Definition add_texts (fold : bool) (kvs : list (pstr * pstr)) (d : dict) : dict :=
  fold_left (fun acc kv => add_single (fst kv) (text_section (fst kv) (snd kv) fold) acc) kvs d.

(* PlotSection(title, content=description, alt_text=alt_text or title, path, folded);
   __post_init__ raises TypeError when the path is falsy *)
Definition plot_section (desc alt : option pstr) (fold : bool) (key path : pstr) : section :=
  Sec (leaf_title key) (or_else desc []) true fold (KPlot path (or_else alt (leaf_title key))) [].

Fixpoint add_plots (desc alt : option pstr) (fold : bool) (kvs : list (pstr * pstr)) (d : dict)
  : dict * outcome :=
  match kvs with
  | [] => (d, Done)
  | (key, path) :: kvs' =>
      if is_empty path then (d, Failed EType)
      else add_plots desc alt fold kvs' (add_single key (plot_section desc alt fold key path) d)
  end.

(* TableSection(title, content=description, table, folded); _check_table raises
   ValueError for a table without columns *)
Definition table_section (desc : option pstr) (fold : bool) (key : pstr) (t : table) : section :=
  Sec (leaf_title key) (or_else desc []) true fold (KTable t) [].

Fixpoint add_tables (desc : option pstr) (fold : bool) (kvs : list (pstr * table)) (d : dict)
  : dict * outcome :=
  match kvs with
  | [] => (d, Done)
  | (key, t) :: kvs' =>
      match t with
      | [] => (d, Failed EValue)
      | _ :: _ => add_tables desc fold kvs' (add_single key (table_section desc fold key t) d)
      end
  end.

(* _add_metrics: the accumulated metrics transposed into two columns *)
Definition metrics_table (m : list (pstr * pstr)) : table :=
  [([77; 101; 116; 114; 105; 99], map fst m); ([86; 97; 108; 117; 101], map snd m)].   (* "Metric", "Value" *)

Definition hyperparam_table (params : list (pstr * pstr)) : table :=
  [(s "Hyperparameter", map fst params); ([86; 97; 108; 117; 101], map snd params)].

(* _add_model_plot: Section(title=leaf, content=...) -- a plain text section, visible, not folded *)
Definition model_plot_section (sect : pstr) (desc : option pstr) (html : pstr) : section :=
  Sec (leaf_title sect) (model_plot_content desc html) true false KText [].

Definition set_data (c : card) (d : dict) : card := mkCard d (metrics c).

Definition run_op (o : op) (c : card) : card * outcome :=
  match o with
  | OAdd fold kvs => (set_data c (add_texts fold kvs (data c)), Done)
  | OAddPlot desc alt fold kvs =>
      let (d, r) := add_plots desc alt fold kvs (data c) in (set_data c d, r)
  | OAddTable desc fold kvs =>
      let (d, r) := add_tables desc fold kvs (data c) in (set_data c d, r)
  | OAddMetrics sect desc kvs =>
      let m := dupdate (metrics c) kvs in
      (mkCard (add_single sect (table_section desc false sect (metrics_table m)) (data c)) m, Done)
  | OAddHyperparams sect desc params =>
      (set_data c (add_single sect (table_section desc true sect (hyperparam_table params)) (data c)), Done)
  | OAddModelPlot sect desc html =>
      (set_data c (add_single sect (model_plot_section sect desc html) (data c)), Done)
  | OSelect key =>
      match card_select key (data c) with Ok x => (c, Selected x) | Raise e => (c, Failed e) end
  | OSelectChain ks =>
      match chain_select ks (data c) with Ok (_, x) => (c, Selected x) | Raise e => (c, Failed e) end
  | ODelete key =>
      match card_delete key (data c) with Ok d => (set_data c d, Done) | Raise e => (c, Failed e) end
  | ODeleteList names =>
      match card_delete_list names (data c) with Ok d => (set_data c d, Done) | Raise e => (c, Failed e) end
  | OSetVisible ks b =>
      match chain_select ks (data c) with
      | Ok (p, _) => (set_data c (update_path p (set_visible b) (data c)), Done)
      | Raise e => (c, Failed e)
      end
  | OSetFolded ks b =>
      match chain_select ks (data c) with
      | Ok (p, _) => (set_data c (update_path p (set_folded b) (data c)), Done)
      | Raise e => (c, Failed e)
      end
  | OSetTitle ks t =>
      match chain_select ks (data c) with
      | Ok (p, _) => (set_data c (update_path p (set_title t) (data c)), Done)
      | Raise e => (c, Failed e)
      end
  end.

(* the card after a sequence of operations, with the outcome of each *)
Fixpoint run (ops : list op) (c : card) : card * list outcome :=
  match ops with
  | [] => (c, [])
  | o :: ops' => let (c1, r) := run_op o c in
                 let (c2, rs) := run ops' c1 in (c2, r :: rs)
  end.
Definition run_card (ops : list op) (c : card) : card := fst (run ops c).

(* ---- the same effects as a list of primitive tree actions ------------------ *)
Inductive action :=
| AAdd (p : list pstr) (new : section)
| ADel (p : list pstr)
| AUpd (p : list pstr) (vis : option bool) (fold : option bool) (ttl : option pstr).

Definition upd_fun (vis fold : option bool) (ttl : option pstr) (x : section) : section :=
  let x1 := match vis with Some b => set_visible b x | None => x end in
  let x2 := match fold with Some b => set_folded b x1 | None => x1 end in
  match ttl with Some t => set_title t x2 | None => x2 end.

Definition apply_action (a : action) (d : dict) : dict :=
  match a with
  | AAdd p new => add_path p new d
  | ADel p => match delete_path p d with Some d' => d' | None => d end
  | AUpd p vis fold ttl => update_path p (upd_fun vis fold ttl) d
  end.
Definition apply_actions (acts : list action) (d : dict) : dict :=
  fold_left (fun acc a => apply_action a acc) acts d.
