(* Facts about the ordered dict and the three tree primitives (add_path, delete_path,
   update_path): what each does to `lookup` at every path, to the order of children,
   and to well-formedness.  All by induction over the path, for dicts of any size. *)
From Skv Require Import PyStr PyStrFacts CardStr Path PathFacts Json Tree.
From Coq Require Import Lia.
Open Scope N_scope.

(* ------------------------------------------------------------------ equality tests *)
Lemma pstr_eqb_spec a b : reflect (a = b) (pstr_eqb a b).
Proof.
  destruct (pstr_eqb a b) eqn:E; constructor.
  - apply pstr_eqb_eq; exact E.
  - apply pstr_eqb_neq; exact E.
Qed.

Lemma path_eqb_eq p q : path_eqb p q = true <-> p = q.
Proof.
  revert q; induction p as [|a p IH]; intros [|b q]; cbn [path_eqb]; split; intro H;
    try reflexivity; try discriminate.
  - apply andb_true_iff in H as [H1 H2]. apply pstr_eqb_eq in H1. apply IH in H2. congruence.
  - injection H as -> ->. rewrite pstr_eqb_refl. cbn [andb]. apply IH. reflexivity.
Qed.

Lemma path_eqb_refl p : path_eqb p p = true.
Proof. apply path_eqb_eq. reflexivity. Qed.

Lemma is_prefix_iff q p : is_prefix q p = true <-> exists r, p = q ++ r.
Proof.
  revert p; induction q as [|a q IH]; intros p; cbn [is_prefix].
  - split; [intros _; exists p; reflexivity | reflexivity].
  - destruct p as [|b p].
    + split; [discriminate | intros [r H]; discriminate].
    + rewrite andb_true_iff, pstr_eqb_eq, IH. split.
      * intros [-> [r ->]]. exists r. reflexivity.
      * intros [r H]. injection H as -> ->. split; [reflexivity | exists r; reflexivity].
Qed.

Lemma is_prefix_refl p : is_prefix p p = true.
Proof. apply is_prefix_iff. exists []. symmetry. apply app_nil_r. Qed.

Lemma is_prefix_app q r : is_prefix q (q ++ r) = true.
Proof. apply is_prefix_iff. exists r. reflexivity. Qed.

(* ------------------------------------------------------------------ ordered dict *)
Section Dict.
Context {A : Type}.
Implicit Types (d : list (pstr * A)) (k : pstr) (v : A).

Lemma dget_dset_same k v d : dget k (dset k v d) = Some v.
Proof.
  induction d as [|[k' v'] d IH]; cbn [dset dget].
  - rewrite pstr_eqb_refl. reflexivity.
  - destruct (pstr_eqb_spec k k') as [->|N]; cbn [dget].
    + rewrite pstr_eqb_refl. reflexivity.
    + destruct (pstr_eqb_spec k k'); [contradiction | exact IH].
Qed.

Lemma dget_dset_other k k' v d : k <> k' -> dget k' (dset k v d) = dget k' d.
Proof.
  intros N. induction d as [|[k2 v2] d IH]; cbn [dset dget].
  - destruct (pstr_eqb_spec k' k); [congruence | reflexivity].
  - destruct (pstr_eqb_spec k k2) as [->|N2]; cbn [dget].
    + destruct (pstr_eqb_spec k' k2); [congruence | reflexivity].
    + destruct (pstr_eqb_spec k' k2); [reflexivity | exact IH].
Qed.

Lemma dget_in k d : dget k d <> None <-> In k (keys d).
Proof.
  induction d as [|[k' v'] d IH]; cbn [dget keys map fst In].
  - split; [congruence | tauto].
  - destruct (pstr_eqb_spec k k') as [->|N].
    + split; [auto | discriminate].
    + rewrite IH. split; [auto | intros [E|H]; [congruence | exact H]].
Qed.

Lemma dget_none k d : dget k d = None <-> ~ In k (keys d).
Proof.
  rewrite <- dget_in. destruct (dget k d); split; try congruence; intros H; exfalso; apply H; discriminate.
Qed.

Lemma dhas_in k d : dhas k d = true <-> In k (keys d).
Proof.
  unfold dhas. rewrite <- dget_in. destruct (dget k d); split; try congruence; discriminate.
Qed.

Lemma dget_some_in k v d : dget k d = Some v -> In (k, v) d.
Proof.
  induction d as [|[k' v'] d IH]; cbn [dget]; [discriminate|].
  destruct (pstr_eqb_spec k k') as [->|N]; intros H.
  - injection H as ->. left. reflexivity.
  - right. auto.
Qed.

(* position: an existing key keeps its place, a new key goes to the end *)
Lemma keys_dset k v d :
  keys (dset k v d) = if dhas k d then keys d else keys d ++ [k].
Proof.
  unfold dhas. induction d as [|[k' v'] d IH]; cbn [dset dget keys map fst app]; [reflexivity|].
  destruct (pstr_eqb_spec k k') as [->|N]; cbn [keys map fst]; [reflexivity|].
  fold (keys (dset k v d)). rewrite IH. fold (keys d).
  destruct (dget k d); reflexivity.
Qed.

Lemma dget_ddel_other k k' d : k <> k' -> dget k' (ddel k d) = dget k' d.
Proof.
  intros N. induction d as [|[k2 v2] d IH]; cbn [ddel dget]; [reflexivity|].
  destruct (pstr_eqb_spec k k2) as [->|N2]; cbn [dget].
  - destruct (pstr_eqb_spec k' k2); [congruence | reflexivity].
  - destruct (pstr_eqb_spec k' k2); [reflexivity | exact IH].
Qed.

Lemma keys_ddel_notin k d : ~ In k (keys d) -> ddel k d = d.
Proof.
  induction d as [|[k2 v2] d IH]; cbn [ddel keys map fst In]; [reflexivity|].
  intros H. destruct (pstr_eqb_spec k k2) as [->|N]; [tauto|]. f_equal. apply IH. tauto.
Qed.

Lemma in_keys_ddel k k' d : In k' (keys (ddel k d)) -> In k' (keys d).
Proof.
  induction d as [|[k2 v2] d IH]; cbn [ddel keys map fst In]; [tauto|].
  destruct (pstr_eqb_spec k k2) as [->|N]; cbn [keys map fst In]; [tauto|].
  intros [E|H]; [left; exact E | right; apply IH; exact H].
Qed.

Lemma dget_ddel_same k d : NoDup (keys d) -> dget k (ddel k d) = None.
Proof.
  induction d as [|[k2 v2] d IH]; cbn [ddel dget keys map fst]; [reflexivity|].
  intros H. inversion H as [|? ? Hn Hd]; subst.
  destruct (pstr_eqb_spec k k2) as [->|N]; cbn [dget].
  - apply dget_none. exact Hn.
  - destruct (pstr_eqb_spec k k2); [contradiction | apply IH; exact Hd].
Qed.

(* deleting keeps the relative order of everything else *)
Lemma keys_ddel k d :
  NoDup (keys d) -> keys (ddel k d) = filter (fun k' => negb (pstr_eqb k k')) (keys d).
Proof.
  induction d as [|[k2 v2] d IH]; cbn [ddel keys map fst filter]; [reflexivity|].
  intros H. inversion H as [|? ? Hn Hd]; subst.
  destruct (pstr_eqb_spec k k2) as [->|N]; cbn [negb keys map fst].
  - fold (keys d). clear IH H Hd. induction d as [|[k3 v3] d IH]; cbn [keys map fst filter]; [reflexivity|].
    cbn [keys map fst In] in Hn.
    destruct (pstr_eqb_spec k2 k3) as [->|N3]; [tauto|]. cbn [negb]. f_equal. apply IH. tauto.
  - f_equal. apply IH. exact Hd.
Qed.

Lemma nodup_dset k v d : NoDup (keys d) -> NoDup (keys (dset k v d)).
Proof.
  intros H. rewrite keys_dset. destruct (dhas k d) eqn:E; [exact H|].
  assert (Hn : ~ In k (keys d)).
  { intros Hin. apply dhas_in in Hin. congruence. }
  clear E. induction (keys d) as [|a l IH]; cbn [app].
  - constructor; [tauto | constructor].
  - inversion H as [|? ? Ha Hl]; subst. constructor.
    + rewrite in_app_iff. cbn [In]. intros [Hin|[E|[]]]; [tauto|]. subst. apply Hn. left. reflexivity.
    + apply IH; [exact Hl|]. intros Hin. apply Hn. right. exact Hin.
Qed.

Lemma nodup_ddel k d : NoDup (keys d) -> NoDup (keys (ddel k d)).
Proof.
  induction d as [|[k2 v2] d IH]; cbn [ddel keys map fst]; [auto|].
  intros H. inversion H as [|? ? Hn Hd]; subst.
  destruct (pstr_eqb_spec k k2) as [->|N]; [exact Hd|].
  cbn [keys map fst]. constructor; [|apply IH; exact Hd].
  intros Hin. apply Hn. eapply in_keys_ddel. exact Hin.
Qed.
End Dict.

(* ------------------------------------------------------------------ sections *)
Lemma subs_set_subs x d : subs (set_subs x d) = d.
Proof. destruct x; reflexivity. Qed.

(* everything but the subsections *)
Definition shallow (x : section) : pstr * pstr * bool * bool * kind :=
  (title x, content x, visible x, folded x, skind x).

Lemma shallow_set_subs x d : shallow (set_subs x d) = shallow x.
Proof. destruct x; reflexivity. Qed.

Lemma set_subs_subs x : set_subs x (subs x) = x.
Proof. destruct x; reflexivity. Qed.

Lemma section_eq x y : shallow x = shallow y -> subs x = subs y -> x = y.
Proof. destruct x, y; unfold shallow; cbn. intros H1 H2. injection H1 as -> -> -> -> ->. subst. reflexivity. Qed.

(* unfolding lemmas: one dict level per path component *)
Lemma lookup_cons k p d :
  lookup (k :: p) d =
  match dget k d with
  | None => None
  | Some x => match p with [] => Some x | _ :: _ => lookup p (subs x) end
  end.
Proof. reflexivity. Qed.

Lemma lookup_nil d : lookup [] d = None.
Proof. reflexivity. Qed.

Lemma lookup_in_empty p : lookup p [] = None.
Proof. destruct p; reflexivity. Qed.

Lemma add_path_cons k p new d :
  add_path (k :: p) new d =
  match p with
  | [] => dset k (set_subs new (match dget k d with Some old => subs old | None => subs new end)) d
  | _ :: _ => match dget k d with
              | Some x => dset k (set_subs x (add_path p new (subs x))) d
              | None => dset k (fresh k (add_path p new [])) d
              end
  end.
Proof. reflexivity. Qed.

Lemma add_path_cons_ne k p new d :
  p <> [] ->
  add_path (k :: p) new d =
  match dget k d with
  | Some x => dset k (set_subs x (add_path p new (subs x))) d
  | None => dset k (fresh k (add_path p new [])) d
  end.
Proof. destruct p; [congruence | reflexivity]. Qed.

Lemma app_ne {A} (q r : list A) : r <> [] -> q ++ r <> [].
Proof. destruct q; [auto | discriminate]. Qed.

Lemma delete_path_cons k p d :
  delete_path (k :: p) d =
  match p with
  | [] => if dhas k d then Some (ddel k d) else None
  | _ :: _ => match dget k d with
              | Some x => match delete_path p (subs x) with
                          | Some sd => Some (dset k (set_subs x sd) d)
                          | None => None
                          end
              | None => None
              end
  end.
Proof. reflexivity. Qed.

Lemma delete_path_cons_ne k p d :
  p <> [] ->
  delete_path (k :: p) d =
  match dget k d with
  | Some x => match delete_path p (subs x) with
              | Some sd => Some (dset k (set_subs x sd) d)
              | None => None
              end
  | None => None
  end.
Proof. destruct p; [congruence | reflexivity]. Qed.

Lemma update_path_cons_ne k p f d :
  p <> [] ->
  update_path (k :: p) f d =
  match dget k d with
  | None => d
  | Some x => dset k (set_subs x (update_path p f (subs x))) d
  end.
Proof. destruct p; [congruence | reflexivity]. Qed.

Lemma update_path_cons k p f d :
  update_path (k :: p) f d =
  match dget k d with
  | None => d
  | Some x => match p with
              | [] => dset k (f x) d
              | _ :: _ => dset k (set_subs x (update_path p f (subs x))) d
              end
  end.
Proof. reflexivity. Qed.

(* lookup along a concatenated path *)
Lemma lookup_app p r d :
  p <> [] -> r <> [] ->
  lookup (p ++ r) d = match lookup p d with Some x => lookup r (subs x) | None => None end.
Proof.
  revert d; induction p as [|k p IH]; intros d Hp Hr; [congruence|].
  cbn [app]. rewrite !lookup_cons. destruct (dget k d) as [x|]; [|reflexivity].
  destruct p as [|k2 p].
  - cbn [app]. destruct r; [congruence | reflexivity].
  - cbn [app]. change (k2 :: p ++ r) with ((k2 :: p) ++ r). apply IH; [discriminate | exact Hr].
Qed.

(* descend parents, then index the leaf = lookup of the whole path *)
Lemma descend_lookup p leaf d :
  match descend p d with Some pd => dget leaf pd | None => None end = lookup (p ++ [leaf]) d.
Proof.
  revert d; induction p as [|k p IH]; intros d; cbn [descend app].
  - rewrite lookup_cons. destruct (dget leaf d); reflexivity.
  - rewrite lookup_cons. destruct (dget k d) as [x|]; [|reflexivity].
    rewrite IH. destruct p; reflexivity.
Qed.

Lemma unsnoc_app (l : list pstr) : l <> [] -> fst (unsnoc l) ++ [snd (unsnoc l)] = l.
Proof.
  induction l as [|x l IH]; [congruence|]. intros _.
  destruct l as [|y l]; [reflexivity|].
  change (unsnoc (x :: y :: l)) with (let (i, z) := unsnoc (y :: l) in (x :: i, z)).
  destruct (unsnoc (y :: l)) as [i z] eqn:E. cbn [fst snd app]. f_equal.
  apply IH. discriminate.
Qed.

Lemma unsnoc_last (l : list pstr) : snd (unsnoc l) = last l [].
Proof.
  induction l as [|x l IH]; [reflexivity|].
  destruct l as [|y l]; [reflexivity|].
  change (unsnoc (x :: y :: l)) with (let (i, z) := unsnoc (y :: l) in (x :: i, z)).
  destruct (unsnoc (y :: l)) as [i z] eqn:E. cbn [snd] in *. exact IH.
Qed.

(* ------------------------------------------------------------------ add_path *)
(* C09_add_get *)
Theorem lookup_add_same p new d :
  p <> [] ->
  lookup p (add_path p new d) =
  Some (set_subs new (match lookup p d with Some old => subs old | None => subs new end)).
Proof.
  revert d; induction p as [|k p IH]; intros d Hp; [congruence|].
  rewrite add_path_cons, !lookup_cons. destruct p as [|k2 p].
  - rewrite dget_dset_same. destruct (dget k d); reflexivity.
  - destruct (dget k d) as [x|] eqn:E; rewrite dget_dset_same.
    + rewrite subs_set_subs. apply IH. discriminate.
    + unfold fresh. cbn [subs]. rewrite IH by discriminate. rewrite lookup_in_empty. reflexivity.
Qed.

(* C09_add_frame: every path that is not a prefix of p (p itself included) is untouched;
   in particular all descendants of p, and everything in other branches *)
Theorem lookup_add_frame p q new d :
  subs new = [] -> is_prefix q p = false ->
  lookup q (add_path p new d) = lookup q d.
Proof.
  intros Hnew. revert q d; induction p as [|k p IH]; intros q d Hq.
  - reflexivity.
  - destruct q as [|k' q]; [discriminate|].
    cbn [is_prefix] in Hq. rewrite add_path_cons, !lookup_cons.
    destruct (pstr_eqb_spec k' k) as [->|N].
    + cbn [andb] in Hq.
      assert (Hq' : q <> []) by (intros ->; discriminate).
      destruct p as [|k2 p].
      * rewrite dget_dset_same, subs_set_subs.
        destruct q as [|k3 q]; [congruence|].
        destruct (dget k d) as [old|]; [reflexivity|]. rewrite Hnew. reflexivity.
      * destruct (dget k d) as [x|] eqn:E; rewrite dget_dset_same.
        -- rewrite subs_set_subs. destruct q as [|k3 q]; [congruence|]. apply IH. exact Hq.
        -- unfold fresh. cbn [subs]. destruct q as [|k3 q]; [congruence|].
           rewrite IH by exact Hq. apply lookup_in_empty.
    + assert (N' : k <> k') by congruence.
      destruct p as [|k2 p].
      * rewrite (dget_dset_other _ _ _ _ N'). reflexivity.
      * destruct (dget k d) as [x|]; rewrite (dget_dset_other _ _ _ _ N'); reflexivity.
Qed.

(* the ancestors of p: existing ones keep title/content/flags/kind, missing ones are
   created as Section(title=name, content="") *)
Theorem lookup_add_ancestor q r new d :
  q <> [] -> r <> [] ->
  exists y, lookup q (add_path (q ++ r) new d) = Some y /\
            shallow y = shallow (match lookup q d with Some x => x | None => fresh (last q []) [] end).
Proof.
  revert d; induction q as [|k q IH]; intros d Hq Hr; [congruence|].
  cbn [app]. rewrite add_path_cons, !lookup_cons.
  destruct q as [|k2 q].
  - cbn [app]. destruct r as [|k3 r]; [congruence|].
    destruct (dget k d) as [x|] eqn:E; rewrite dget_dset_same.
    + eexists. split; [reflexivity|]. apply shallow_set_subs.
    + eexists. split; [reflexivity|]. reflexivity.
  - cbn [app]. destruct (dget k d) as [x|] eqn:E; rewrite dget_dset_same.
    + rewrite subs_set_subs. change (k2 :: q ++ r) with ((k2 :: q) ++ r).
      destruct (IH (subs x) ltac:(discriminate) Hr) as [y [H1 H2]].
      exists y. split; [exact H1|]. exact H2.
    + unfold fresh at 1. cbn [subs]. change (k2 :: q ++ r) with ((k2 :: q) ++ r).
      destruct (IH [] ltac:(discriminate) Hr) as [y [H1 H2]].
      exists y. split; [exact H1|]. rewrite lookup_in_empty in H2. exact H2.
Qed.

(* ------------------------------------------------------------------ order of children *)
(* the keys below a path, in dict order; the root is the empty path *)
Definition children (q : list pstr) (d : dict) : option (list pstr) :=
  match q with
  | [] => Some (keys d)
  | _ :: _ => match lookup q d with Some x => Some (keys (subs x)) | None => None end
  end.

Definition appended (k : pstr) (ks : option (list pstr)) : list pstr :=
  match ks with
  | Some l => if mem k l then l else l ++ [k]
  | None => [k]
  end.

Lemma dhas_mem {A} k (d : list (pstr * A)) : dhas k d = mem k (keys d).
Proof.
  destruct (mem k (keys d)) eqn:E.
  - apply dhas_in. apply mem_In. exact E.
  - destruct (dhas k d) eqn:E2; [|reflexivity]. apply dhas_in in E2. apply mem_In in E2. congruence.
Qed.

Lemma children_nil d : children [] d = Some (keys d).
Proof. reflexivity. Qed.

Lemma children_cons k q d :
  q <> [] ->
  children (k :: q) d = match dget k d with Some x => children q (subs x) | None => None end.
Proof.
  intros Hq. unfold children. rewrite lookup_cons. destruct q as [|k2 q]; [congruence|].
  destruct (dget k d); reflexivity.
Qed.

Lemma children_single k d :
  children [k] d = match dget k d with Some x => Some (keys (subs x)) | None => None end.
Proof. unfold children. rewrite lookup_cons. destruct (dget k d); reflexivity. Qed.

(* C09_add_position, part 1: below every proper prefix q of p the next name of p keeps its
   place if it was there and is appended at the end otherwise *)
Theorem children_add_on_path q k r new d :
  subs new = [] ->
  children q (add_path (q ++ k :: r) new d) = Some (appended k (children q d)).
Proof.
  intros Hnew. revert d; induction q as [|k0 q IH]; intros d.
  - cbn [app children]. rewrite add_path_cons. unfold appended.
    destruct r as [|k2 r].
    + rewrite keys_dset, dhas_mem. reflexivity.
    + destruct (dget k d) as [x|] eqn:E; rewrite keys_dset; unfold dhas; rewrite E.
      * assert (H : mem k (keys d) = true).
        { rewrite <- dhas_mem. unfold dhas. rewrite E. reflexivity. }
        rewrite H. reflexivity.
      * assert (H : mem k (keys d) = false).
        { rewrite <- dhas_mem. unfold dhas. rewrite E. reflexivity. }
        rewrite H. reflexivity.
  - cbn [app]. rewrite add_path_cons_ne by (apply app_ne; discriminate).
    destruct q as [|k1 q].
    + rewrite !children_single.
      destruct (dget k0 d) as [x|] eqn:E; rewrite dget_dset_same.
      * rewrite subs_set_subs. exact (IH (subs x)).
      * unfold fresh. cbn [subs]. exact (IH []).
    + rewrite !children_cons by discriminate.
      destruct (dget k0 d) as [x|] eqn:E; rewrite dget_dset_same.
      * rewrite subs_set_subs. apply IH.
      * unfold fresh. cbn [subs]. rewrite IH.
        unfold children. rewrite lookup_in_empty. reflexivity.
Qed.

(* C09_add_position, part 2: the children of every other existing node are unchanged
   (p itself keeps its subsections; nodes off the path are not touched at all) *)
Theorem children_add_off_path q p new d :
  subs new = [] -> q <> [] ->
  (forall k r, p <> q ++ k :: r) ->
  lookup q d <> None ->
  children q (add_path p new d) = children q d.
Proof.
  intros Hnew Hq Hoff Hex. unfold children. destruct q as [|k0 q0]; [congruence|].
  set (q := k0 :: q0) in *.
  destruct (is_prefix q p) eqn:Epre.
  - apply is_prefix_iff in Epre as [r ->]. destruct r as [|k r].
    + rewrite app_nil_r. rewrite lookup_add_same by exact Hq.
      destruct (lookup q d) as [x|]; [|congruence]. rewrite subs_set_subs. reflexivity.
    + exfalso. eapply Hoff. reflexivity.
  - rewrite lookup_add_frame by assumption. reflexivity.
Qed.

(* the top-level order: existing first name keeps its place, a new one goes last *)
Corollary keys_add_path k r new d :
  subs new = [] ->
  keys (add_path (k :: r) new d) = if mem k (keys d) then keys d else keys d ++ [k].
Proof.
  intros Hnew. pose proof (children_add_on_path [] k r new d Hnew) as H.
  cbn [app children appended] in H. injection H as H. exact H.
Qed.

(* ------------------------------------------------------------------ well-formed dicts *)
Inductive wf_dict : dict -> Prop :=
| wf_nil : wf_dict []
| wf_cons k x d : ~ In k (keys d) -> wf_dict (subs x) -> wf_dict d -> wf_dict ((k, x) :: d).

Lemma wf_nodup d : wf_dict d -> NoDup (keys d).
Proof. induction 1; cbn [keys map fst]; constructor; assumption. Qed.

Lemma wf_dget k x d : wf_dict d -> dget k d = Some x -> wf_dict (subs x).
Proof.
  induction 1 as [|k' x' d Hn Hx _ Hd IH]; cbn [dget]; [discriminate|].
  destruct (pstr_eqb_spec k k'); intros H; [injection H as <-; exact Hx | auto].
Qed.

Lemma wf_dset k v d : wf_dict d -> wf_dict (subs v) -> wf_dict (dset k v d).
Proof.
  intros Hd Hv. induction Hd as [|k' x' d Hn Hx _ Hd IH]; cbn [dset].
  - constructor; [cbn; tauto | exact Hv | constructor].
  - destruct (pstr_eqb_spec k k') as [->|N].
    + constructor; assumption.
    + constructor; [|exact Hx|exact IH].
      rewrite keys_dset. destruct (dhas k d); [exact Hn|].
      rewrite in_app_iff. cbn [In]. intros [H|[H|[]]]; [tauto | congruence].
Qed.

Lemma wf_ddel k d : wf_dict d -> wf_dict (ddel k d).
Proof.
  induction 1 as [|k' x' d Hn Hx _ Hd IH]; cbn [ddel]; [constructor|].
  destruct (pstr_eqb_spec k k'); [exact Hd|].
  constructor; [|exact Hx|exact IH]. intros H. apply Hn. eapply in_keys_ddel. exact H.
Qed.

Lemma wf_add_path p new d : wf_dict d -> wf_dict (subs new) -> wf_dict (add_path p new d).
Proof.
  intros Hd Hnew. revert d Hd; induction p as [|k p IH]; intros d Hd; [exact Hd|].
  rewrite add_path_cons. destruct p as [|k2 p].
  - apply wf_dset; [exact Hd|]. rewrite subs_set_subs.
    destruct (dget k d) as [old|] eqn:E; [eapply wf_dget; eauto | exact Hnew].
  - destruct (dget k d) as [x|] eqn:E; apply wf_dset; try exact Hd.
    + rewrite subs_set_subs. apply IH. eapply wf_dget; eauto.
    + unfold fresh. cbn [subs]. apply IH. constructor.
Qed.

Lemma wf_delete_path p d d' : wf_dict d -> delete_path p d = Some d' -> wf_dict d'.
Proof.
  revert d d'; induction p as [|k p IH]; intros d d' Hd; [discriminate|].
  rewrite delete_path_cons. destruct p as [|k2 p].
  - destruct (dhas k d); [|discriminate]. intros H; injection H as <-. apply wf_ddel. exact Hd.
  - destruct (dget k d) as [x|] eqn:E; [|discriminate].
    destruct (delete_path (k2 :: p) (subs x)) as [sd|] eqn:E2; [|discriminate].
    intros H; injection H as <-. apply wf_dset; [exact Hd|]. rewrite subs_set_subs.
    eapply IH; [|exact E2]. eapply wf_dget; eauto.
Qed.

Lemma wf_update_path p f d :
  (forall x, subs (f x) = subs x) -> wf_dict d -> wf_dict (update_path p f d).
Proof.
  intros Hf. revert d; induction p as [|k p IH]; intros d Hd; [exact Hd|].
  rewrite update_path_cons. destruct (dget k d) as [x|] eqn:E; [|exact Hd].
  destruct p as [|k2 p]; apply wf_dset; try exact Hd.
  - rewrite Hf. eapply wf_dget; eauto.
  - rewrite subs_set_subs. apply IH. eapply wf_dget; eauto.
Qed.

(* ------------------------------------------------------------------ delete_path *)
(* delete fails exactly when the path does not lead to a section *)
Theorem delete_none_iff p d : delete_path p d = None <-> lookup p d = None.
Proof.
  revert d; induction p as [|k p IH]; intros d; [tauto|].
  rewrite delete_path_cons, lookup_cons. destruct p as [|k2 p].
  - unfold dhas. destruct (dget k d); split; congruence.
  - destruct (dget k d) as [x|]; [|tauto]. rewrite <- IH.
    destruct (delete_path (k2 :: p) (subs x)); split; congruence.
Qed.

(* C09_delete: the whole subtree is gone *)
Theorem lookup_delete_below p r d d' :
  wf_dict d -> delete_path p d = Some d' -> lookup (p ++ r) d' = None.
Proof.
  revert d d'; induction p as [|k p IH]; intros d d' Hd; [discriminate|].
  rewrite delete_path_cons. cbn [app]. rewrite lookup_cons. destruct p as [|k2 p].
  - destruct (dhas k d); [|discriminate]. intros H; injection H as <-.
    rewrite dget_ddel_same; [reflexivity | apply wf_nodup; exact Hd].
  - destruct (dget k d) as [x|] eqn:E; [|discriminate].
    destruct (delete_path (k2 :: p) (subs x)) as [sd|] eqn:E2; [|discriminate].
    intros H; injection H as <-. rewrite dget_dset_same, subs_set_subs.
    cbn [app]. change (k2 :: p ++ r) with ((k2 :: p) ++ r).
    eapply IH; [|exact E2]. eapply wf_dget; eauto.
Qed.

(* ... and every path that neither lies below p nor is an ancestor of p is untouched *)
Theorem lookup_delete_frame p q d d' :
  delete_path p d = Some d' -> is_prefix p q = false -> is_prefix q p = false ->
  lookup q d' = lookup q d.
Proof.
  revert q d d'; induction p as [|k p IH]; intros q d d'; [discriminate|].
  rewrite delete_path_cons. destruct q as [|k' q]; [reflexivity|].
  cbn [is_prefix]. rewrite !lookup_cons.
  destruct (pstr_eqb_spec k k') as [<-|N].
  - rewrite pstr_eqb_refl. cbn [andb]. destruct p as [|k2 p]; [discriminate|].
    destruct (dget k d) as [x|] eqn:E; [|discriminate].
    destruct (delete_path (k2 :: p) (subs x)) as [sd|] eqn:E2; [|discriminate].
    intros H Hpq Hqp; injection H as <-. rewrite dget_dset_same, subs_set_subs.
    destruct q as [|k3 q]; [discriminate|]. eapply IH; eauto.
  - intros H _ _. destruct p as [|k2 p].
    + destruct (dhas k d); [|discriminate]. injection H as <-.
      rewrite dget_ddel_other by exact N. reflexivity.
    + destruct (dget k d) as [x|] eqn:E; [|discriminate].
      destruct (delete_path (k2 :: p) (subs x)) as [sd|]; [|discriminate].
      injection H as <-. rewrite dget_dset_other by exact N. reflexivity.
Qed.

(* the ancestors of a deleted section keep everything but (part of) their subsections *)
Theorem lookup_delete_ancestor q r d d' :
  q <> [] -> r <> [] -> delete_path (q ++ r) d = Some d' ->
  exists x y, lookup q d = Some x /\ lookup q d' = Some y /\ shallow y = shallow x.
Proof.
  revert d d'; induction q as [|k q IH]; intros d d' Hq Hr; [congruence|].
  cbn [app]. rewrite delete_path_cons_ne by (apply app_ne; exact Hr). rewrite !lookup_cons.
  destruct (dget k d) as [x|] eqn:E; [|discriminate].
  destruct (delete_path (q ++ r) (subs x)) as [sd|] eqn:E2; [|discriminate].
  intros H; injection H as <-. rewrite dget_dset_same.
  destruct q as [|k2 q].
  - exists x, (set_subs x sd). repeat split. apply shallow_set_subs.
  - rewrite subs_set_subs. eapply IH; [discriminate | exact Hr | exact E2].
Qed.

(* order: below the parent of p the remaining keys keep their relative order *)
Theorem children_delete_parent q k d d' :
  wf_dict d -> delete_path (q ++ [k]) d = Some d' ->
  exists ks, children q d = Some ks /\
             children q d' = Some (filter (fun k' => negb (pstr_eqb k k')) ks).
Proof.
  revert d d'; induction q as [|k0 q IH]; intros d d' Hd.
  - cbn [app]. rewrite delete_path_cons. destruct (dhas k d); [|discriminate].
    intros H; injection H as <-. exists (keys d). split; [reflexivity|].
    cbn [children]. f_equal. apply keys_ddel. apply wf_nodup. exact Hd.
  - cbn [app]. rewrite delete_path_cons_ne by (apply app_ne; discriminate).
    destruct (dget k0 d) as [x|] eqn:E; [|discriminate].
    destruct (delete_path (q ++ [k]) (subs x)) as [sd|] eqn:E2; [|discriminate].
    intros H; injection H as <-.
    destruct (IH (subs x) sd ltac:(eapply wf_dget; eauto) E2) as [ks [H1 H2]].
    exists ks. destruct q as [|k1 q].
    + rewrite !children_single, E, dget_dset_same, subs_set_subs.
      rewrite children_nil in H1, H2. injection H1 as <-. injection H2 as H2. rewrite H2. split; reflexivity.
    + rewrite !children_cons by discriminate. rewrite E, dget_dset_same, subs_set_subs. split; assumption.
Qed.

(* ------------------------------------------------------------------ update_path *)
Theorem lookup_update_same p f d :
  (forall x, subs (f x) = subs x) ->
  lookup p (update_path p f d) = option_map f (lookup p d).
Proof.
  intros Hf. revert d; induction p as [|k p IH]; intros d; [reflexivity|].
  rewrite update_path_cons, !lookup_cons. destruct (dget k d) as [x|] eqn:E.
  - destruct p as [|k2 p]; rewrite dget_dset_same; [reflexivity|].
    rewrite subs_set_subs. apply IH.
  - rewrite E. reflexivity.
Qed.

Theorem lookup_update_frame p q f d :
  (forall x, subs (f x) = subs x) -> is_prefix q p = false ->
  lookup q (update_path p f d) = lookup q d.
Proof.
  intros Hf. revert q d; induction p as [|k p IH]; intros q d Hq; [reflexivity|].
  destruct q as [|k' q]; [discriminate|]. cbn [is_prefix] in Hq.
  rewrite update_path_cons, !lookup_cons.
  destruct (dget k d) as [x|] eqn:E; [|reflexivity].
  destruct (pstr_eqb_spec k' k) as [->|N].
  - cbn [andb] in Hq. assert (Hq' : q <> []) by (intros ->; discriminate).
    rewrite E. destruct q as [|k3 q]; [congruence|].
    destruct p as [|k2 p]; rewrite dget_dset_same.
    + rewrite Hf. reflexivity.
    + rewrite subs_set_subs. apply IH. exact Hq.
  - assert (N' : k <> k') by congruence.
    destruct p as [|k2 p]; rewrite (dget_dset_other _ _ _ _ N'); reflexivity.
Qed.

Theorem lookup_update_ancestor q r f d :
  (forall x, subs (f x) = subs x) -> q <> [] -> r <> [] ->
  option_map shallow (lookup q (update_path (q ++ r) f d)) = option_map shallow (lookup q d).
Proof.
  intros Hf. revert d; induction q as [|k q IH]; intros d Hq Hr; [congruence|].
  cbn [app]. rewrite update_path_cons_ne by (apply app_ne; exact Hr). rewrite !lookup_cons.
  destruct (dget k d) as [x|] eqn:E; [|rewrite E; reflexivity].
  rewrite dget_dset_same.
  destruct q as [|k2 q].
  - cbn [option_map]. rewrite shallow_set_subs. reflexivity.
  - rewrite subs_set_subs. apply IH; [discriminate | exact Hr].
Qed.

Theorem children_update p q f d :
  (forall x, subs (f x) = subs x) -> children q (update_path p f d) = children q d.
Proof.
  intros Hf. revert q d; induction p as [|k p IH]; intros q d; [reflexivity|].
  rewrite update_path_cons. destruct (dget k d) as [x|] eqn:E; [|reflexivity].
  assert (Hkeys : forall v, keys (dset k v d) = keys d).
  { intros v. rewrite keys_dset. unfold dhas. rewrite E. reflexivity. }
  destruct q as [|k' q].
  - cbn [children]. destruct p; rewrite Hkeys; reflexivity.
  - destruct (pstr_eqb_spec k' k) as [->|N].
    + destruct q as [|k3 q].
      * rewrite !children_single, E. destruct p as [|k2 p]; rewrite dget_dset_same.
        -- rewrite Hf. reflexivity.
        -- rewrite subs_set_subs. exact (IH [] (subs x)).
      * rewrite !children_cons by discriminate. rewrite E.
        destruct p as [|k2 p]; rewrite dget_dset_same.
        -- rewrite Hf. reflexivity.
        -- rewrite subs_set_subs. apply IH.
    + assert (N' : k <> k') by congruence.
      destruct q as [|k3 q].
      * rewrite !children_single. destruct p; rewrite (dget_dset_other _ _ _ _ N'); reflexivity.
      * rewrite !children_cons by discriminate.
        destruct p; rewrite (dget_dset_other _ _ _ _ N'); reflexivity.
Qed.
