(* The part of skops.card.Card that the pandoc parser touches, as a minimal
   executable model: the ordered section tree (dict[str, Section] in insertion
   order), Card._select(create=True), the section insertion of
   PandocParser._add_section, _add_content, _generate_content/render, get_toc.
   All parsed sections are plain `Section`s with visible=True, folded=False.
   Model only -- proofs are in ParserFacts.v. *)
From Skv Require Export PyStr Json Markup.
Open Scope N_scope.

Inductive sec := Sec (title : pstr) (content : pstr) (subs : list (pstr * sec)).
Definition secs := list (pstr * sec).        (* key -> Section, insertion order *)

Definition sec_title (x : sec) := match x with Sec t _ _ => t end.
Definition sec_content (x : sec) := match x with Sec _ c _ => c end.
Definition sec_subs (x : sec) : secs := match x with Sec _ _ l => l end.

(* apply f to the dict reached by Card._select(names) (create=True):
   existing entries are entered, missing ones are created with empty content *)
Fixpoint update_at (names : list pstr) (f : secs -> secs) (d : secs) : secs :=
  match names with
  | [] => f d
  | n :: rest =>
      match dget n d with
      | Some (Sec t c subs) => dset n (Sec t c (update_at rest f subs)) d
      | None => d ++ [(n, Sec n [] (update_at rest f []))]
      end
  end.

(* PandocParser._add_section (fixed D18): the new section is addressed by the
   list of titles; an existing entry keeps its position and its subsections
   but its content is replaced by "" (D20) *)
Definition put_section (title : pstr) (sibs : secs) : secs :=
  dset title (Sec title [] (match dget title sibs with Some x => sec_subs x | None => [] end)) sibs.

Definition add_section (path : list pstr) (card : secs) : secs :=
  update_at (removelast path) (put_section (last path [])) card.

(* PandocParser._add_content on the section object at `path` *)
Definition add_text (c t : pstr) : pstr :=
  match c with [] => t | _ => c ++ [10; 10] ++ t end.

Fixpoint update_sec (path : list pstr) (f : sec -> sec) (d : secs) : secs :=
  match path with
  | [] => d
  | [n] => match dget n d with Some x => dset n (f x) d | None => d end
  | n :: rest =>
      match dget n d with
      | Some (Sec t c subs) => dset n (Sec t c (update_sec rest f subs)) d
      | None => d
      end
  end.

Definition add_content (path : list pstr) (t : pstr) (card : secs) : secs :=
  update_sec path (fun x => match x with Sec ti c subs => Sec ti (add_text c t) subs end) card.

(* chained dict lookups  card._data[p0].subsections[p1]... *)
Fixpoint get_sec (path : list pstr) (d : secs) : option sec :=
  match path with
  | [] => None
  | [n] => dget n d
  | n :: rest => match dget n d with Some x => get_sec rest (sec_subs x) | None => None end
  end.

(* pre-order walk: (path of dict keys, section) *)
Fixpoint walk_sec (prefix : list pstr) (k : pstr) (x : sec) : list (list pstr * sec) :=
  match x with
  | Sec _ _ l =>
      (prefix ++ [k], x) :: flat_map (fun kv => walk_sec (prefix ++ [k]) (fst kv) (snd kv)) l
  end.
Definition walk (d : secs) : list (list pstr * sec) :=
  flat_map (fun kv => walk_sec [] (fst kv) (snd kv)) d.

(* pre-order list of (titles on the way to the section, its content) *)
Fixpoint sections_sec (prefix : list pstr) (x : sec) : list (list pstr * pstr) :=
  match x with
  | Sec t c l => (prefix ++ [t], c) :: flat_map (fun kv => sections_sec (prefix ++ [t]) (snd kv)) l
  end.
Definition sections_from (prefix : list pstr) (d : secs) : list (list pstr * pstr) :=
  flat_map (fun kv => sections_sec prefix (snd kv)) d.
Definition sections (d : secs) := sections_from [] d.

(* the outline: for every section in pre-order the titles on the way to it *)
Definition outline (d : secs) : list (list pstr) := map fst (sections d).

(* Card._generate_content: the yielded strings, tagged *)
Inductive ritem := RHead (depth : nat) (title : pstr) | RBody (t : pstr).

Fixpoint render_sec (depth : nat) (x : sec) : list ritem :=
  match x with
  | Sec t c l => RHead depth t :: RBody c :: flat_map (fun kv => render_sec (S depth) (snd kv)) l
  end.
Definition render_items (d : secs) : list ritem := flat_map (fun kv => render_sec 1 (snd kv)) d.

Definition ritem_text (r : ritem) : pstr :=
  match r with
  | RHead depth t => repeat 35 depth ++ 32 :: t
  | RBody c => c
  end.

(* Card.render(): "\n".join(["\n" + line for line in lines if line] + [""]) *)
Definition render (d : secs) : pstr :=
  join [10] (map (fun l => 10 :: l) (filter (fun l => match l with [] => false | _ => true end)
                                            (map ritem_text (render_items d))) ++ [[]]).

Definition headings (l : list ritem) : list (nat * pstr) :=
  flat_map (fun r => match r with RHead dp t => [(dp, t)] | RBody _ => [] end) l.

(* Card.get_toc() *)
Fixpoint toc_sec (level : nat) (x : sec) : list pstr :=
  match x with
  | Sec t _ l => (concat (repeat [32; 32] level) ++ 45 :: 32 :: t)
                 :: flat_map (fun kv => toc_sec (S level) (snd kv)) l
  end.
Definition get_toc (d : secs) : pstr := join [10] (flat_map (fun kv => toc_sec 0 (snd kv)) d).
