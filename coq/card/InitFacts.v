(* Facts about Card construction (Init.v): the constructor is the run of its planned operations on the empty card,
   so every theorem about `run_card ops empty_card` holds for `run_card ops (constructed card)`; the error table;
   every section a template lists exists afterwards under its last path part. *)
From Coq Require Import Lia.
From Skv Require Import PyStr PyStrFacts Json CardStr Path Tree ModelPlot Ops Render Spec Init
                        PathFacts TreeFacts OpsFacts RenderFacts BuildersFacts.
Open Scope N_scope.

(* ------------------------------------------------------------------ the planned operations are builders *)
Definition is_builder (o : op) : bool :=
  match o with OAdd _ _ | OAddHyperparams _ _ _ | OAddModelPlot _ _ _ => true | _ => false end.

Lemma builder_done o c : is_builder o = true -> snd (run_op o c) = Done.
Proof. destruct o; cbn [is_builder]; try discriminate; intros _; reflexivity. Qed.

Lemma run_builders_done ops c : forallb is_builder ops = true -> first_failure (snd (run ops c)) = Done.
Proof.
  revert c; induction ops as [|o ops IH]; intros c H; [reflexivity|].
  cbn [forallb] in H. apply andb_true_iff in H as [Ho Hops].
  cbn [run]. pose proof (builder_done o c Ho) as Hd. destruct (run_op o c) as [c1 r]. cbn [snd] in Hd. subst r.
  specialize (IH c1 Hops). destruct (run ops c1) as [c2 rs]. cbn [snd first_failure] in *. exact IH.
Qed.

Lemma diagram_ops_builders cfg b dg html : forallb is_builder (diagram_ops cfg b dg html) = true.
Proof.
  destruct dg as [[|]|sect]; cbn [diagram_ops]; [reflexivity|reflexivity|].
  destruct (pstr_eqb sect auto); [destruct b|]; reflexivity.
Qed.

Lemma init_ops_builders cfg t dg params html : forallb is_builder (init_ops cfg t dg params html) = true.
Proof.
  unfold init_ops, init_plan. destruct t as [|name|kvs].
  - apply diagram_ops_builders.
  - destruct (negb (mem name (valid_templates cfg))); [reflexivity|].
    destruct (pstr_eqb name (skops_name cfg)); cbn [forallb is_builder andb]; apply diagram_ops_builders.
  - destruct (key_clash cfg kvs); [reflexivity|]. cbn [forallb is_builder andb]. apply diagram_ops_builders.
Qed.

Lemma builders_no_retitle ops : forallb is_builder ops = true -> no_retitle ops = true.
Proof.
  unfold no_retitle. induction ops as [|o ops IH]; cbn [forallb]; [reflexivity|].
  intros H. apply andb_true_iff in H as [Ho Hops]. rewrite (IH Hops). destruct o; try discriminate; reflexivity.
Qed.

Lemma metric_updates_builders a b : forallb is_builder a = true -> metric_updates (a ++ b) = metric_updates b.
Proof.
  induction a as [|o a IH]; cbn [forallb app]; [reflexivity|].
  intros H. apply andb_true_iff in H as [Ho Ha]. destruct o; try discriminate; cbn [metric_updates]; exact (IH Ha).
Qed.

(* ------------------------------------------------------------------ (a) the constructor is a run *)
(* the card is the run of the planned operations on the empty card; the outcome is Done unless the plan is an exception *)
Theorem init_card_run cfg t dg params html :
  init_card cfg t dg params html =
  (run_card (init_ops cfg t dg params html) empty_card,
   match init_plan cfg t dg params html with Ok _ => Done | Raise e => Failed e end).
Proof.
  pose proof (init_ops_builders cfg t dg params html) as Hb.
  unfold init_card, init_ops in *. destruct (init_plan cfg t dg params html) as [ops|e]; [|reflexivity].
  pose proof (run_builders_done ops empty_card Hb) as Hd.
  unfold run_card. destruct (run ops empty_card) as [c rs]. cbn [fst snd] in *. rewrite Hd. reflexivity.
Qed.

Corollary init_card_fst cfg t dg params html :
  fst (init_card cfg t dg params html) = run_card (init_ops cfg t dg params html) empty_card.
Proof. rewrite init_card_run. reflexivity. Qed.

Corollary init_card_snd cfg t dg params html :
  snd (init_card cfg t dg params html) = match init_plan cfg t dg params html with Ok _ => Done | Raise e => Failed e end.
Proof. rewrite init_card_run. reflexivity. Qed.

(* a constructed card edited by ANY operation sequence = the run of (planned operations ++ that sequence) on the empty card *)
Theorem constructed_run cfg t dg params html ops :
  run_card ops (fst (init_card cfg t dg params html)) = run_card (init_ops cfg t dg params html ++ ops) empty_card.
Proof. rewrite init_card_fst, run_card_app. reflexivity. Qed.

(* ... hence the transfer of the "after any operation sequence" theorems *)
Corollary constructed_wf cfg t dg params html ops :
  wf_dict (data (run_card ops (fst (init_card cfg t dg params html)))).
Proof. rewrite constructed_run. apply reachable_wf. Qed.

Corollary constructed_titled cfg t dg params html ops :
  no_retitle ops = true -> titled (data (run_card ops (fst (init_card cfg t dg params html)))).
Proof.
  intros H. rewrite constructed_run. apply reachable_titled. unfold no_retitle in *. rewrite forallb_app, H, andb_true_r.
  apply (builders_no_retitle _ (init_ops_builders cfg t dg params html)).
Qed.

Corollary constructed_select_last cfg t dg params html ops p : p <> [] ->
  option_map shallow (lookup p (data (run_card ops (fst (init_card cfg t dg params html)))))
  = val p (rev (history (init_ops cfg t dg params html ++ ops) [])) [].
Proof. intros Hp. rewrite constructed_run. apply select_last. exact Hp. Qed.

Corollary constructed_select_after cfg t dg params html ops key : ~ In [] (split_names key) ->
  match snd (run_op (OSelect key) (run_card ops (fst (init_card cfg t dg params html)))) with
  | Selected x => val (split_names key) (rev (history (init_ops cfg t dg params html ++ ops) [])) [] = Some (shallow x)
  | Failed e => e = EKey /\ val (split_names key) (rev (history (init_ops cfg t dg params html ++ ops) [])) [] = None
  | Done => False
  end.
Proof. intros H. rewrite constructed_run. apply select_after. exact H. Qed.

(* render events = the shown paths, in tree order, each with its depth and its section *)
Corollary constructed_render cfg t dg params html ops :
  let d := data (run_card ops (fst (init_card cfg t dg params html))) in
  event_paths d = filter (fun q => shown q d) (paths d)
  /\ map (fun e => (fst e, Some (snd e))) (render_events d)
     = map (fun q => (length q, lookup q d)) (filter (fun q => shown q d) (paths d))
  /\ toc_events d = map toc_of_event (render_events d).
Proof.
  intros d. pose proof (constructed_wf cfg t dg params html ops) as Hwf. fold d in Hwf.
  split; [apply event_paths_spec; exact Hwf|]. split; [apply render_spec; exact Hwf | apply toc_agrees].
Qed.

(* the constructor adds no metrics: the accumulation theorem reads as on the empty card *)
Corollary constructed_metrics cfg t dg params html ops :
  let m := metrics (run_card ops (fst (init_card cfg t dg params html))) in
  keys m = first_seen (map fst (metric_updates ops))
  /\ NoDup (keys m)
  /\ (forall n, dget n m = latest n (metric_updates ops)).
Proof.
  cbv zeta. rewrite constructed_run.
  rewrite <- (metric_updates_builders _ ops (init_ops_builders cfg t dg params html)).
  apply metrics_spec.
Qed.

Corollary init_metrics_empty cfg t dg params html : metrics (fst (init_card cfg t dg params html)) = [].
Proof.
  rewrite init_card_fst, run_card_metrics. cbn [metrics empty_card].
  rewrite <- (app_nil_r (init_ops cfg t dg params html)), (metric_updates_builders _ [] (init_ops_builders cfg t dg params html)).
  reflexivity.
Qed.

(* ------------------------------------------------------------------ (c) the error table *)
Lemma key_clash_iff cfg kvs :
  key_clash cfg kvs = true <-> exists kv, In kv kvs /\ In (fst kv) (add_params cfg).
Proof.
  unfold key_clash. rewrite existsb_exists. split; intros [kv [H1 H2]]; exists kv; (split; [exact H1|]); apply mem_In; exact H2.
Qed.

(* the constructor raises exactly for a str template that is not a valid name (ValueError) and for a Mapping one of whose
   keys is a named parameter of Card.add (TypeError); model_diagram never makes it raise *)
Theorem init_errors cfg t dg params html e :
  snd (init_card cfg t dg params html) = Failed e <->
  (exists name, t = TStr name /\ mem name (valid_templates cfg) = false /\ e = EValue)
  \/ (exists kvs, t = TMap kvs /\ key_clash cfg kvs = true /\ e = EType).
Proof.
  rewrite init_card_snd. unfold init_plan. destruct t as [|name|kvs].
  - split; [discriminate | intros [[? [? _]]|[? [? _]]]; discriminate].
  - destruct (mem name (valid_templates cfg)) eqn:Em; cbn [negb].
    + destruct (pstr_eqb name (skops_name cfg)); (split; [discriminate|]);
        (intros [[n [Ht [Hm _]]]|[? [? _]]]; [injection Ht as <-; congruence | discriminate]).
    + split.
      * intros H; injection H as <-. left. exists name. auto.
      * intros [[n [_ [_ ->]]]|[? [? _]]]; [reflexivity | discriminate].
  - destruct (key_clash cfg kvs) eqn:Ek.
    + split.
      * intros H; injection H as <-. right. exists kvs. auto.
      * intros [[? [? _]]|[k [_ [_ ->]]]]; [discriminate | reflexivity].
    + split; [discriminate|]. intros [[? [? _]]|[k [Ht [Hk _]]]]; [discriminate | injection Ht as <-; congruence].
Qed.

(* the outcome is Done or an exception; an exception leaves no card (nothing was added before it) *)
Theorem init_outcome cfg t dg params html :
  snd (init_card cfg t dg params html) = Done
  \/ exists e, snd (init_card cfg t dg params html) = Failed e /\ fst (init_card cfg t dg params html) = empty_card.
Proof.
  rewrite init_card_run. unfold init_ops. destruct (init_plan cfg t dg params html) as [ops|e]; [left; reflexivity|].
  right. exists e. split; reflexivity.
Qed.

(* model_diagram alone: which diagram call the constructor makes *)
Theorem diagram_table cfg skops dg html :
  diagram_ops cfg skops dg html =
  match dg with
  | DBool false => []
  | DBool true => [OAddModelPlot (plot_section cfg) None html]
  | DStr sect => if pstr_eqb sect auto
                 then (if skops then [OAddModelPlot (plot_section cfg) None html] else [])
                 else [OAddModelPlot sect None html]
  end.
Proof. destruct dg as [[|]|sect]; reflexivity. Qed.

(* ------------------------------------------------------------------ where the diagram goes *)
Definition is_skops (cfg : config) (t : template) : bool :=
  match t with TStr name => pstr_eqb name (skops_name cfg) | _ => false end.

(* the operations before the diagram call *)
Definition init_prefix (cfg : config) (t : template) (params : list (pstr * pstr)) : list op :=
  match t with
  | TStr name => if pstr_eqb name (skops_name cfg)
                 then [OAdd false (skops_template cfg); OAddHyperparams (hyper_section cfg) None params] else []
  | TMap kvs => [OAdd false kvs]
  | TNone => []
  end.

Lemma init_ops_split cfg t dg params html :
  snd (init_card cfg t dg params html) = Done ->
  init_ops cfg t dg params html = init_prefix cfg t params ++ diagram_ops cfg (is_skops cfg t) dg html.
Proof.
  rewrite init_card_snd. unfold init_ops, init_plan, init_prefix, is_skops. destruct t as [|name|kvs]; [reflexivity| |].
  - destruct (negb (mem name (valid_templates cfg))); [discriminate|].
    destruct (pstr_eqb name (skops_name cfg)); reflexivity.
  - destruct (key_clash cfg kvs); [discriminate | reflexivity].
Qed.

(* whenever the constructor asks for the diagram at `sect`, the new card has it there: a plain, visible, unfolded section
   headed by the last part of sect whose content is the processed HTML without a description *)
Theorem init_diagram_placed cfg t dg params html sect :
  snd (init_card cfg t dg params html) = Done ->
  diagram_ops cfg (is_skops cfg t) dg html = [OAddModelPlot sect None html] ->
  exists x, lookup (split_names sect) (data (fst (init_card cfg t dg params html))) = Some x
            /\ shallow_of x = (leaf_title sect, model_plot_content None html, true, false, KText).
Proof.
  intros Hok Hd. rewrite init_card_fst, (init_ops_split _ _ _ _ _ Hok), Hd, run_card_app.
  set (c := run_card (init_prefix cfg t params) empty_card).
  destruct (placement_model_plot sect None html c) as [x [H1 [H2 [H3 [H4 [H5 [H6 _]]]]]]].
  exists x. split.
  - unfold run_card at 1. cbn [run]. destruct (run_op (OAddModelPlot sect None html) c) as [c1 r] eqn:E.
    cbn [fst] in *. exact H1.
  - unfold shallow_of. rewrite H2, H3, H4, H5, H6. reflexivity.
Qed.

(* ... and when it asks for none, the card is the run of the operations before it *)
Theorem init_no_diagram cfg t dg params html :
  snd (init_card cfg t dg params html) = Done ->
  diagram_ops cfg (is_skops cfg t) dg html = [] ->
  fst (init_card cfg t dg params html) = run_card (init_prefix cfg t params) empty_card.
Proof. intros Hok Hd. rewrite init_card_fst, (init_ops_split _ _ _ _ _ Hok), Hd, app_nil_r. reflexivity. Qed.

(* the plan, spelled out (it is the definition: stated so that the table is visible among the theorems) *)
Lemma init_plan_table cfg t dg params html :
  init_plan cfg t dg params html =
  match t with
  | TStr name =>
      if negb (mem name (valid_templates cfg)) then Raise EValue
      else if pstr_eqb name (skops_name cfg)
      then Ok (OAdd false (skops_template cfg) :: OAddHyperparams (hyper_section cfg) None params :: diagram_ops cfg true dg html)
      else Ok (diagram_ops cfg false dg html)
  | TMap kvs => if key_clash cfg kvs then Raise EType else Ok (OAdd false kvs :: diagram_ops cfg false dg html)
  | TNone => Ok (diagram_ops cfg false dg html)
  end.
Proof. reflexivity. Qed.

(* ------------------------------------------------------------------ the two builder sections of a default card *)
(* a closed check over the configuration (instantiated by vm_compute per run): "skops" is valid; neither default path lies
   on the other; the sections the template lists at the two default paths have no subsections of their own *)
Definition no_subs_at (p : list pstr) (d : dict) : bool :=
  match lookup p d with Some (Sec _ _ _ _ _ []) | None => true | _ => false end.

Definition default_paths_ok (cfg : config) : bool :=
  let T := add_texts false (skops_template cfg) [] in
  let hp := split_names (hyper_section cfg) in
  let pp := split_names (plot_section cfg) in
  mem (skops_name cfg) (valid_templates cfg)
  && negb (is_prefix hp pp) && negb (is_prefix pp hp) && no_subs_at hp T && no_subs_at pp T.

Lemma no_subs_at_spec p d : no_subs_at p d = true -> match lookup p d with Some old => subs old | None => [] end = [].
Proof. unfold no_subs_at. destruct (lookup p d) as [[t c v f k [|? ?]]|]; try discriminate; reflexivity. Qed.

(* on the skops template, for EVERY oracle value: the hyperparameter table -- folded, no description, rows = get_params --
   sits at the default path of add_hyperparams; when the constructor adds the diagram at add_model_plot's default path it is
   a plain unfolded section holding the processed HTML; neither has subsections *)
Theorem skops_default_sections cfg dg params html :
  default_paths_ok cfg = true ->
  let c := fst (init_card cfg (TStr (skops_name cfg)) dg params html) in
  let table := Sec (leaf_title (hyper_section cfg)) [] true true (KTable (hyperparam_table params)) [] in
  (diagram_ops cfg true dg html = [OAddModelPlot (plot_section cfg) None html] ->
     lookup (split_names (hyper_section cfg)) (data c) = Some table
     /\ lookup (split_names (plot_section cfg)) (data c)
        = Some (Sec (leaf_title (plot_section cfg)) (model_plot_content None html) true false KText []))
  /\ (diagram_ops cfg true dg html = [] ->
      lookup (split_names (hyper_section cfg)) (data c) = Some table
      /\ lookup (split_names (plot_section cfg)) (data c)
         = lookup (split_names (plot_section cfg)) (add_texts false (skops_template cfg) [])).
Proof.
  unfold default_paths_ok. cbv zeta. rewrite !andb_true_iff, !negb_true_iff.
  intros [[[[Hv Hhp] Hph] Hh] Hp].
  pose proof (no_subs_at_spec _ _ Hh) as Hh'. pose proof (no_subs_at_spec _ _ Hp) as Hp'.
  set (T := add_texts false (skops_template cfg) []) in *.
  set (H := table_section None true (hyper_section cfg) (hyperparam_table params)).
  assert (Hafter : lookup (split_names (hyper_section cfg)) (add_single (hyper_section cfg) H T)
                   = Some (Sec (leaf_title (hyper_section cfg)) [] true true (KTable (hyperparam_table params)) [])).
  { unfold add_single. rewrite lookup_add_same by apply split_names_nonnil.
    assert (E : match lookup (split_names (hyper_section cfg)) T with Some old => subs old | None => subs H end = [])
      by (destruct (lookup (split_names (hyper_section cfg)) T); [exact Hh' | reflexivity]).
    rewrite E. reflexivity. }
  assert (Hplot : lookup (split_names (plot_section cfg)) (add_single (hyper_section cfg) H T)
                  = lookup (split_names (plot_section cfg)) T).
  { unfold add_single. apply lookup_add_frame; [reflexivity | exact Hph]. }
  assert (Hdata : forall dops, diagram_ops cfg true dg html = dops ->
            data (fst (init_card cfg (TStr (skops_name cfg)) dg params html))
            = data (run_card dops (mkCard (add_single (hyper_section cfg) H T) []))).
  { intros dops Hd. rewrite init_card_fst. unfold init_ops, init_plan. rewrite Hv, pstr_eqb_refl. cbn [negb]. rewrite Hd.
    rewrite !run_card_cons. reflexivity. }
  split; intros Hd; rewrite (Hdata _ Hd).
  - rewrite run_card_cons. cbn [run_card run fst run_op set_data data]. unfold add_single at 1 3. split.
    + rewrite lookup_add_frame; [exact Hafter | reflexivity | exact Hhp].
    + rewrite lookup_add_same by apply split_names_nonnil. fold (add_single (hyper_section cfg) H T). rewrite Hplot.
      assert (E : match lookup (split_names (plot_section cfg)) T with
                      | Some old => subs old | None => subs (model_plot_section (plot_section cfg) None html) end = [])
        by (destruct (lookup (split_names (plot_section cfg)) T); [exact Hp' | reflexivity]).
      rewrite E. reflexivity.
  - cbn [run_card run fst data]. split; [exact Hafter | exact Hplot].
Qed.

(* ------------------------------------------------------------------ every listed section exists afterwards *)
(* an add never removes a section *)
Lemma lookup_add_persist p q new d :
  q <> [] -> subs new = [] -> lookup p d <> None -> lookup p (add_path q new d) <> None.
Proof.
  intros Hq Hs Hp. destruct (is_prefix p q) eqn:Epre.
  - destruct (path_eqb p q) eqn:Eeq.
    + apply path_eqb_eq in Eeq. subst q. rewrite lookup_add_same by exact Hq. discriminate.
    + destruct (is_prefix_split _ _ Epre Eeq) as [r [Hr ->]].
      assert (Hpn : p <> []) by (intros ->; rewrite lookup_nil in Hp; contradiction).
      destruct (lookup_add_ancestor p r new d Hpn Hr) as [y [Hy _]]. rewrite Hy. discriminate.
  - rewrite lookup_add_frame by assumption. exact Hp.
Qed.

Definition add_action (a : action) : Prop :=
  match a with AAdd p new => p <> [] /\ subs new = [] | _ => False end.

Lemma adds_present acts p new d :
  Forall add_action acts -> In (AAdd p new) acts -> lookup p (apply_actions acts d) <> None.
Proof.
  revert d. induction acts as [|a acts IH]; intros d Hall Hin; [contradiction|].
  inversion Hall as [|? ? Ha Hrest]; subst. cbn [apply_actions fold_left].
  assert (Hkeep : forall acts' d', Forall add_action acts' -> lookup p d' <> None -> lookup p (apply_actions acts' d') <> None).
  { clear. induction acts' as [|a' acts' IH']; intros d' Hall' Hd'; [exact Hd'|].
    inversion Hall' as [|? ? Ha' Hrest']; subst. cbn [apply_actions fold_left]. apply IH'; [exact Hrest'|].
    destruct a' as [q n| |]; cbn [add_action] in Ha'; try contradiction. destruct Ha' as [Hq Hn].
    cbn [apply_action]. apply lookup_add_persist; assumption. }
  destruct Hin as [->|Hin].
  - apply (Hkeep acts); [exact Hrest|]. cbn [add_action] in Ha. destruct Ha as [Hp Hn].
    cbn [apply_action]. rewrite lookup_add_same by exact Hp. discriminate.
  - apply IH; assumption.
Qed.

Lemma builder_actions_add o m : is_builder o = true -> Forall add_action (op_actions o m).
Proof.
  destruct o; cbn [is_builder]; try discriminate; intros _; cbn [op_actions].
  - induction kvs as [|kv kvs IH]; cbn [map]; constructor; [|exact IH]. split; [apply split_names_nonnil | reflexivity].
  - constructor; [|constructor]. split; [apply split_names_nonnil | reflexivity].
  - constructor; [|constructor]. split; [apply split_names_nonnil | reflexivity].
Qed.

Lemma builders_history_add ops m : forallb is_builder ops = true -> Forall add_action (history ops m).
Proof.
  revert m; induction ops as [|o ops IH]; intros m H; cbn [history]; [constructor|].
  cbn [forallb] in H. apply andb_true_iff in H as [Ho Hops].
  apply Forall_app. split; [apply builder_actions_add; exact Ho | apply IH; exact Hops].
Qed.

Lemma titled_lookup p x d : titled d -> lookup p d = Some x -> title x = last p [].
Proof.
  revert d x; induction p as [|k p IH]; intros d x Ht; [rewrite lookup_nil; discriminate|].
  cbn [lookup]. destruct (dget k d) as [y|] eqn:E; [|discriminate].
  destruct (titled_dget _ _ _ Ht E) as [H1 H2]. destruct p as [|k' p'].
  - intros H; injection H as <-. exact H1.
  - intros H. rewrite (IH _ _ H2 H). reflexivity.
Qed.

(* the sections a template lists: SKOPS_TEMPLATE for the skops name, the Mapping's own items, nothing otherwise *)
Definition template_items (cfg : config) (t : template) : list (pstr * pstr) :=
  match t with
  | TStr name => if mem name (valid_templates cfg) && pstr_eqb name (skops_name cfg) then skops_template cfg else []
  | TMap kvs => kvs
  | TNone => []
  end.

(* after a successful construction, and after any further builder calls, every section the template lists exists at
   split(key) and is headed by the key's last part *)
Theorem template_sections_present cfg t dg params html ops kv :
  snd (init_card cfg t dg params html) = Done -> forallb is_builder ops = true ->
  In kv (template_items cfg t) ->
  exists x, lookup (split_names (fst kv)) (data (run_card ops (fst (init_card cfg t dg params html)))) = Some x
            /\ title x = leaf_title (fst kv).
Proof.
  intros Hok Hops Hin.
  assert (Hb : forallb is_builder (init_ops cfg t dg params html ++ ops) = true)
    by (rewrite forallb_app, init_ops_builders, Hops; reflexivity).
  pose proof (constructed_titled cfg t dg params html ops (builders_no_retitle _ Hops)) as Htit.
  rewrite constructed_run in *. rewrite run_history in *. cbn [metrics data empty_card] in *.
  assert (Hact : exists new, In (AAdd (split_names (fst kv)) new) (history (init_ops cfg t dg params html ++ ops) [])).
  { exists (text_section (fst kv) (snd kv) false).
    rewrite init_card_snd in Hok. unfold init_ops, init_plan, template_items in *. destruct t as [|name|kvs]; [contradiction| |].
    - destruct (mem name (valid_templates cfg)); cbn [negb andb] in *; [|contradiction].
      destruct (pstr_eqb name (skops_name cfg)); [|contradiction].
      cbn [app history op_actions]. apply in_or_app. left.
      apply (in_map (fun kv0 => AAdd (split_names (fst kv0)) (text_section (fst kv0) (snd kv0) false))). exact Hin.
    - destruct (key_clash cfg kvs); [discriminate|].
      cbn [app history op_actions]. apply in_or_app. left.
      apply (in_map (fun kv0 => AAdd (split_names (fst kv0)) (text_section (fst kv0) (snd kv0) false))). exact Hin. }
  destruct Hact as [new Hnew].
  pose proof (adds_present _ _ _ [] (builders_history_add _ [] Hb) Hnew) as Hex.
  destruct (lookup (split_names (fst kv)) _) as [x|] eqn:E; [|contradiction].
  exists x. split; [reflexivity|]. apply (titled_lookup _ _ _ Htit E).
Qed.

(* a check over a list of template items, with exclusions, as a boolean (instantiated by vm_compute per run) *)
Definition text_kept (d : dict) (kv : pstr * pstr) : bool :=
  match lookup (split_names (fst kv)) d with
  | Some (Sec t c true false KText _) => pstr_eqb t (leaf_title (fst kv)) && pstr_eqb c (snd kv)
  | _ => false
  end.

Lemma text_kept_all d kvs excl :
  forallb (fun kv => mem (fst kv) excl || text_kept d kv) kvs = true ->
  forall kv, In kv kvs -> ~ In (fst kv) excl -> text_kept d kv = true.
Proof.
  intros H kv Hin Hex. rewrite forallb_forall in H. specialize (H kv Hin). apply orb_true_iff in H as [H|H]; [|exact H].
  apply mem_In in H. contradiction.
Qed.

Lemma text_kept_spec d kv :
  text_kept d kv = true <->
  exists sd, lookup (split_names (fst kv)) d = Some (Sec (leaf_title (fst kv)) (snd kv) true false KText sd).
Proof.
  unfold text_kept. destruct (lookup (split_names (fst kv)) d) as [[t c [|] [|] [| |] sd]|];
    try (split; [discriminate | intros [? H]; discriminate]).
  rewrite andb_true_iff, !pstr_eqb_eq. split.
  - intros [-> ->]. exists sd. reflexivity.
  - intros [sd' H]. injection H as -> -> _. auto.
Qed.

(* ------------------------------------------------------------------ non-vacuity on a small fixed configuration *)
Definition demo_cfg : config :=
  mkConfig [(s "M", s "[x]"); (s "M/H", s "[x]"); (s "M/P", s "[x]"); (s "C", s "cite")]
           [s "skops"] (s "skops") (s "M/H") (s "M/P") [s "self"; s "folded"].

Example demo_skops_auto :
  let r := init_card demo_cfg (TStr (s "skops")) (DStr (s "auto")) [(s "C", s "1.0")] (s "<div/>") in
  snd r = Done
  /\ outline (data (fst r)) = listed (skops_template demo_cfg)
  /\ lookup [s "M"; s "H"] (data (fst r))
     = Some (Sec (s "H") [] true true (KTable [(s "Hyperparameter", [s "C"]); (s "Value", [s "1.0"])]) [])
  /\ lookup [s "M"; s "P"] (data (fst r)) = Some (Sec (s "P") (s "<div/>") true false KText []).
Proof. vm_compute. repeat split; reflexivity. Qed.

(* a custom template with nested and escaped keys; model_diagram = a section name *)
Example demo_custom :
  let r := init_card demo_cfg (TMap [(s "A/B", s "b"); (s "x\/y", s "z"); (s " A ", s "a")]) (DStr (s "A/Plot")) [] (s "<p>") in
  snd r = Done
  /\ outline (data (fst r)) = [([s "A"], s "A"); ([s "A"; s "B"], s "B"); ([s "A"; s "Plot"], s "Plot"); ([s "x/y"], s "x/y")]
  /\ option_map content (lookup [s "A"] (data (fst r))) = Some (s "a")
  /\ option_map content (lookup [s "A"; s "Plot"] (data (fst r))) = Some (s "<p>").
Proof. vm_compute. repeat split; reflexivity. Qed.

(* model_diagram=True without the skops template: the default section is created together with its missing ancestors
   (the comment in _populate_template says "will trigger an error": it does not) *)
Example demo_true_without_template :
  let r := init_card demo_cfg TNone (DBool true) [] (s "<p>") in
  snd r = Done
  /\ outline (data (fst r)) = [([s "M"], s "M"); ([s "M"; s "P"], s "P")]
  /\ option_map content (lookup [s "M"] (data (fst r))) = Some []
  /\ init_card demo_cfg TNone (DStr (s "auto")) [] (s "<p>") = (empty_card, Done)
  /\ init_card demo_cfg (TMap [(s "K", s "v")]) (DStr (s "auto")) [] (s "<p>")
     = (run_card [OAdd false [(s "K", s "v")]] empty_card, Done).
Proof. vm_compute. repeat split; reflexivity. Qed.

Example demo_errors :
  init_card demo_cfg (TStr (s "nosuch")) (DBool true) [] [] = (empty_card, Failed EValue)
  /\ init_card demo_cfg (TStr []) (DBool false) [] [] = (empty_card, Failed EValue)
  /\ init_card demo_cfg (TMap [(s "A", s "a"); (s "folded", s "x")]) (DBool false) [] [] = (empty_card, Failed EType)
  /\ init_card demo_cfg (TMap [(s "self", s "x")]) (DBool false) [] [] = (empty_card, Failed EType)
  /\ snd (init_card demo_cfg (TMap [(s "Folded", s "x"); (s "folded/y", s "x")]) (DBool false) [] []) = Done.
Proof. vm_compute. repeat split; reflexivity. Qed.
