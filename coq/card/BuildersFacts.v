(* C14: what the content builders hand to PrettyTable, metric accumulation over any call
   sequence, placement and titles, alt-text default, one call with several items = one call per item. *)
From Skv Require Import PyStr PyStrFacts CardStr Path PathFacts Json Tree TreeFacts Ops Render Spec OpsFacts RenderFacts
                        ModelPlot ModelPlotFacts.
From Coq Require Import Lia.
Open Scope N_scope.

(* ------------------------------------------------------------------ C14_cells *)
Lemma replace_lf_no_lf a : ~ In LF (replace_lf a).
Proof.
  induction a as [|c a IH]; cbn [replace_lf]; [tauto|].
  destruct (N.eqb_spec c LF) as [->|N].
  - rewrite in_app_iff. intros [H|H]; [|exact (IH H)].
    cbn in H. repeat (destruct H as [H|H]; [discriminate|]). exact H.
  - cbn [In]. intros [H|H]; [congruence | exact (IH H)].
Qed.

Lemma replace_lf_id a : ~ In LF a -> replace_lf a = a.
Proof.
  induction a as [|c a IH]; [reflexivity|]. cbn [replace_lf In]. intros H.
  destruct (N.eqb_spec c LF) as [->|N]; [tauto|]. f_equal. apply IH. tauto.
Qed.

(* the header is the given column names in order; there is one cell per entry, in order;
   no cell contains a line feed; a cell without line feeds is the value's text itself *)
Theorem table_inputs cols :
  table_header cols = map fst cols
  /\ map (@length pstr) (table_cells cols) = map (fun col => length (snd col)) cols
  /\ Forall (Forall (fun cell => ~ In LF cell)) (table_cells cols)
  /\ (forall i j col cell, nth_error cols i = Some col -> nth_error (snd col) j = Some cell ->
        exists col', nth_error (table_cells cols) i = Some col' /\ nth_error col' j = Some (replace_lf cell)).
Proof.
  unfold table_header, table_cells. repeat split.
  - rewrite map_map. apply map_ext. intros col. apply map_length.
  - apply Forall_forall. intros col' H. apply in_map_iff in H as [col [<- _]].
    apply Forall_forall. intros cell H. apply in_map_iff in H as [c [<- _]]. apply replace_lf_no_lf.
  - intros i j col cell Hi Hj. exists (map replace_lf (snd col)). split.
    + rewrite nth_error_map, Hi. reflexivity.
    + rewrite nth_error_map, Hj. reflexivity.
Qed.

(* ------------------------------------------------------------------ C14_metrics *)
Lemma dupdate_cons {A} (d : list (pstr * A)) kv kvs : dupdate d (kv :: kvs) = dupdate (dset (fst kv) (snd kv) d) kvs.
Proof. reflexivity. Qed.

Lemma dupdate_app {A} (d : list (pstr * A)) a b : dupdate d (a ++ b) = dupdate (dupdate d a) b.
Proof. unfold dupdate. apply fold_left_app. Qed.

Lemma dget_app {A} k (a b : list (pstr * A)) :
  dget k (a ++ b) = match dget k a with Some v => Some v | None => dget k b end.
Proof.
  induction a as [|[k' v'] a IH]; [reflexivity|]. cbn [app dget].
  destruct (pstr_eqb k k'); [reflexivity | exact IH].
Qed.

(* latest value wins *)
Lemma dget_dupdate {A} k (d : list (pstr * A)) kvs :
  dget k (dupdate d kvs) = match dget k (rev kvs) with Some v => Some v | None => dget k d end.
Proof.
  revert d; induction kvs as [|[k' v'] kvs IH]; intros d; [reflexivity|].
  rewrite dupdate_cons, IH. cbn [rev fst snd]. rewrite dget_app.
  destruct (dget k (rev kvs)); [reflexivity|]. cbn [dget].
  destruct (pstr_eqb_spec k k') as [->|N].
  - apply dget_dset_same.
  - apply dget_dset_other. congruence.
Qed.

Lemma filter_filter {A} (f g : A -> bool) l : filter f (filter g l) = filter (fun a => g a && f a) l.
Proof.
  induction l as [|a l IH]; [reflexivity|]. cbn [filter]. destruct (g a); cbn [filter andb]; [|exact IH].
  destruct (f a); rewrite IH; reflexivity.
Qed.

Lemma mem_app_single n l k : mem n (l ++ [k]) = mem n l || pstr_eqb n k.
Proof. rewrite mem_app. cbn [mem]. rewrite orb_false_r. reflexivity. Qed.

(* first-seen order *)
Lemma keys_dupdate {A} (d : list (pstr * A)) kvs :
  keys (dupdate d kvs) = keys d ++ filter (fun n => negb (mem n (keys d))) (first_seen (map fst kvs)).
Proof.
  revert d; induction kvs as [|[k v] kvs IH]; intros d.
  - cbn. symmetry. apply app_nil_r.
  - rewrite dupdate_cons, IH. cbn [fst snd map first_seen filter]. rewrite keys_dset, dhas_mem.
    destruct (mem k (keys d)) eqn:Ek; cbn [negb].
    + f_equal. rewrite filter_filter. apply filter_ext_in'. intros n _.
      destruct (pstr_eqb_spec k n) as [<-|N]; cbn [negb andb]; [rewrite Ek; reflexivity | reflexivity].
    + rewrite <- app_assoc. cbn [app]. f_equal. f_equal.
      rewrite filter_filter. apply filter_ext. intros n. rewrite mem_app_single, negb_orb.
      rewrite (pstr_eqb_sym n k). apply andb_comm.
Qed.

Lemma first_seen_in n l : In n (first_seen l) <-> In n l.
Proof.
  induction l as [|a l IH]; [tauto|]. cbn [first_seen In]. rewrite filter_In, IH.
  destruct (pstr_eqb_spec a n) as [->|N]; cbn [negb]; [tauto|]. split; [tauto|].
  intros [H|H]; [tauto | right; auto].
Qed.

Lemma first_seen_nodup l : NoDup (first_seen l).
Proof.
  induction l as [|a l IH]; [constructor|]. cbn [first_seen]. constructor.
  - rewrite filter_In. intros [_ H]. rewrite pstr_eqb_refl in H. discriminate.
  - apply NoDup_filter. exact IH.
Qed.

(* C14_metrics: after ANY sequence of operations, each metric appears once, in first-seen
   order, with the value given last *)
Lemma run_card_metrics ops c : metrics (run_card ops c) = dupdate (metrics c) (metric_updates ops).
Proof.
  revert c; induction ops as [|o ops IH]; intros c; [reflexivity|].
  rewrite run_card_cons, IH. destruct (run_op_actions o c) as [_ H]. rewrite H.
  destruct o; cbn [op_metrics metric_updates]; try reflexivity.
  symmetry. apply dupdate_app.
Qed.

Theorem metrics_spec ops :
  let m := metrics (run_card ops empty_card) in
  keys m = first_seen (map fst (metric_updates ops))
  /\ NoDup (keys m)
  /\ (forall n, dget n m = latest n (metric_updates ops)).
Proof.
  cbn zeta. rewrite run_card_metrics. cbn [metrics empty_card].
  assert (Hk : keys (dupdate (@nil (pstr * pstr)) (metric_updates ops)) = first_seen (map fst (metric_updates ops))).
  { rewrite keys_dupdate. cbn [keys map app]. rewrite (filter_ext_in' _ (fun _ => true)); [|reflexivity].
    clear. induction (first_seen _) as [|a l IH]; [reflexivity|]. cbn [filter]. f_equal. exact IH. }
  repeat split.
  - exact Hk.
  - rewrite Hk. apply first_seen_nodup.
  - intros n. rewrite dget_dupdate. unfold latest. destruct (dget n (rev _)); reflexivity.
Qed.

(* ... and the table written by an add_metrics call shows exactly the accumulated metrics *)
Theorem metrics_table_rows ops sect desc kvs :
  let c := run_card (ops ++ [OAddMetrics sect desc kvs]) empty_card in
  exists x, lookup (split_names sect) (data c) = Some x
            /\ title x = last (split_names sect) []
            /\ skind x = KTable [(of_ascii "Metric", keys (metrics c)); (of_ascii "Value", map snd (metrics c))].
Proof.
  cbn zeta. unfold run_card. assert (Hrun : forall ops1 ops2 c0, fst (run (ops1 ++ ops2) c0) = fst (run ops2 (fst (run ops1 c0)))).
  { induction ops1 as [|o ops1 IH]; intros ops2 c0; [reflexivity|].
    cbn [app run]. destruct (run_op o c0) as [c1 r]. specialize (IH ops2 c1).
    destruct (run (ops1 ++ ops2) c1) as [c2 rs]. destruct (run ops1 c1) as [c3 rs3]. cbn [fst] in *. exact IH. }
  rewrite Hrun. set (c0 := fst (run ops empty_card)). cbn [run run_op fst data metrics].
  unfold add_single. rewrite lookup_add_same by apply split_names_nonnil.
  eexists. split; [reflexivity|]. split; destruct (lookup _ _); reflexivity.
Qed.

(* ------------------------------------------------------------------ C14_placement / C14_alt_default *)
Lemma add_single_lookup key new d :
  lookup (split_names key) (add_single key new d) =
  Some (set_subs new (match lookup (split_names key) d with Some old => subs old | None => subs new end)).
Proof. unfold add_single. apply lookup_add_same. apply split_names_nonnil. Qed.

(* each builder puts a section of its own kind at split(path), titled with the LAST path part,
   keeping the subsections of what was there *)
Theorem placement_plot desc alt fold key path c :
  path <> [] ->
  let c' := fst (run_op (OAddPlot desc alt fold [(key, path)]) c) in
  exists x, lookup (split_names key) (data c') = Some x
    /\ title x = last (split_names key) []
    /\ content x = or_else desc []
    /\ folded x = fold
    /\ skind x = KPlot path (or_else alt (title x))
    /\ subs x = match lookup (split_names key) (data c) with Some old => subs old | None => [] end.
Proof.
  intros Hp. cbn zeta. cbn [run_op add_plots]. destruct path as [|ch path]; [congruence|].
  cbn [is_empty fst data set_data]. rewrite add_single_lookup. eexists. split; [reflexivity|].
  rewrite subs_set_subs. repeat split; destruct (lookup _ _); reflexivity.
Qed.

Theorem placement_table desc fold key t c :
  t <> [] ->
  let c' := fst (run_op (OAddTable desc fold [(key, t)]) c) in
  exists x, lookup (split_names key) (data c') = Some x
    /\ title x = last (split_names key) []
    /\ content x = or_else desc []
    /\ folded x = fold
    /\ skind x = KTable t
    /\ subs x = match lookup (split_names key) (data c) with Some old => subs old | None => [] end.
Proof.
  intros Ht. cbn zeta. cbn [run_op add_tables]. destruct t as [|col t]; [congruence|].
  cbn [fst data set_data]. rewrite add_single_lookup. eexists. split; [reflexivity|].
  rewrite subs_set_subs. repeat split; destruct (lookup _ _); reflexivity.
Qed.

Theorem placement_metrics sect desc kvs c :
  let c' := fst (run_op (OAddMetrics sect desc kvs) c) in
  exists x, lookup (split_names sect) (data c') = Some x
    /\ title x = last (split_names sect) []
    /\ content x = or_else desc []
    /\ folded x = false
    /\ skind x = KTable (metrics_table (dupdate (metrics c) kvs))
    /\ subs x = match lookup (split_names sect) (data c) with Some old => subs old | None => [] end.
Proof.
  cbn zeta. cbn [run_op fst data]. rewrite add_single_lookup. eexists. split; [reflexivity|].
  rewrite subs_set_subs. repeat split; destruct (lookup _ _); reflexivity.
Qed.

(* C14_hyperparams: rows = get_params(deep=True) in order, folded *)
Theorem placement_hyperparams sect desc params c :
  let c' := fst (run_op (OAddHyperparams sect desc params) c) in
  exists x, lookup (split_names sect) (data c') = Some x
    /\ title x = last (split_names sect) []
    /\ content x = or_else desc []
    /\ folded x = true
    /\ skind x = KTable [(of_ascii "Hyperparameter", map fst params); (of_ascii "Value", map snd params)]
    /\ subs x = match lookup (split_names sect) (data c) with Some old => subs old | None => [] end.
Proof.
  cbn zeta. cbn [run_op fst data set_data]. rewrite add_single_lookup. eexists. split; [reflexivity|].
  rewrite subs_set_subs. repeat split; destruct (lookup _ _); reflexivity.
Qed.

Theorem placement_text fold key val c :
  let c' := fst (run_op (OAdd fold [(key, val)]) c) in
  exists x, lookup (split_names key) (data c') = Some x
    /\ title x = last (split_names key) [] /\ content x = val /\ folded x = fold /\ skind x = KText
    /\ subs x = match lookup (split_names key) (data c) with Some old => subs old | None => [] end.
Proof.
  cbn zeta. cbn [run_op add_texts fold_left fst snd data set_data]. rewrite add_single_lookup.
  eexists. split; [reflexivity|]. rewrite subs_set_subs. repeat split; destruct (lookup _ _); reflexivity.
Qed.

(* add_model_plot: a plain text section (visible, not folded) under the last path part; its content is the
   description rule applied to the processed HTML (ModelPlot.v); old subsections are kept *)
Theorem placement_model_plot sect desc html c :
  let c' := fst (run_op (OAddModelPlot sect desc html) c) in
  exists x, lookup (split_names sect) (data c') = Some x
    /\ title x = last (split_names sect) []
    /\ content x = model_plot_content desc html
    /\ visible x = true
    /\ folded x = false
    /\ skind x = KText
    /\ subs x = match lookup (split_names sect) (data c) with Some old => subs old | None => [] end
    /\ metrics c' = metrics c.
Proof.
  cbn zeta. cbn [run_op fst data set_data]. rewrite add_single_lookup. eexists. split; [reflexivity|].
  rewrite subs_set_subs. repeat split; destruct (lookup _ _); reflexivity.
Qed.

Lemma run_card_app ops1 ops2 c0 : run_card (ops1 ++ ops2) c0 = run_card ops2 (run_card ops1 c0).
Proof.
  revert c0; induction ops1 as [|o ops1 IH]; intros c0; [reflexivity|].
  cbn [app]. rewrite !run_card_cons. apply IH.
Qed.

(* ... the same after ANY history *)
Theorem model_plot_after_history ops sect desc html :
  let c0 := run_card ops empty_card in
  let c := run_card (ops ++ [OAddModelPlot sect desc html]) empty_card in
  exists x, lookup (split_names sect) (data c) = Some x
    /\ shallow_of x = (last (split_names sect) [], model_plot_content desc html, true, false, KText)
    /\ subs x = match lookup (split_names sect) (data c0) with Some old => subs old | None => [] end.
Proof.
  cbn zeta. rewrite run_card_app. set (c0 := run_card ops empty_card).
  rewrite run_card_cons. change (run_card [] ?c) with c.
  destruct (placement_model_plot sect desc html c0) as [x [H1 [H2 [H3 [H4 [H5 [H6 [H7 _]]]]]]]]. cbn zeta in H1.
  exists x. split; [exact H1|]. split; [|exact H7].
  unfold shallow_of. rewrite H2, H3, H4, H5, H6. reflexivity.
Qed.

(* C14_alt_default: EVERY plot written by one call without alt text carries its own title *)
Theorem alt_default desc fold kvs :
  Forall (fun a => match a with
                   | AAdd p new => exists path, skind new = KPlot path (title new) /\ title new = last p []
                   | _ => False
                   end)
         (plot_actions desc None fold kvs).
Proof.
  induction kvs as [|[key path] kvs IH]; cbn [plot_actions]; [constructor|].
  destruct (is_empty path); constructor; [|exact IH]. exists path. split; reflexivity.
Qed.

(* every heading is the name under which the section is stored: key = title, at every level *)
Inductive titled : dict -> Prop :=
| titled_nil : titled []
| titled_cons k x d : title x = k -> titled (subs x) -> titled d -> titled ((k, x) :: d).

Lemma titled_dget k x d : titled d -> dget k d = Some x -> title x = k /\ titled (subs x).
Proof.
  induction 1 as [|k' x' d Ht Hs _ Hd IH]; cbn [dget]; [discriminate|].
  destruct (pstr_eqb_spec k k') as [->|N]; intros H; [injection H as <-; auto | auto].
Qed.

Lemma titled_dset k v d : titled d -> title v = k -> titled (subs v) -> titled (dset k v d).
Proof.
  intros Hd Hv Hs. induction Hd as [|k' x' d Ht Hsx _ Hd IH]; cbn [dset].
  - constructor; [exact Hv | exact Hs | constructor].
  - destruct (pstr_eqb_spec k k') as [->|N]; constructor; auto.
Qed.

Lemma titled_ddel k d : titled d -> titled (ddel k d).
Proof.
  induction 1 as [|k' x' d Ht Hs _ Hd IH]; cbn [ddel]; [constructor|].
  destruct (pstr_eqb k k'); [exact Hd | constructor; auto].
Qed.

Lemma title_set_subs x d : title (set_subs x d) = title x.
Proof. destruct x; reflexivity. Qed.

Lemma titled_add_path p new d :
  titled d -> subs new = [] -> title new = last p [] -> titled (add_path p new d).
Proof.
  intros Hd Hs Ht. revert d Hd; induction p as [|k p IH]; intros d Hd; [exact Hd|].
  rewrite add_path_cons. destruct p as [|k2 p].
  - apply titled_dset; [exact Hd | rewrite title_set_subs; exact Ht|].
    rewrite subs_set_subs. destruct (dget k d) as [old|] eqn:E.
    + eapply titled_dget; eauto.
    + rewrite Hs. constructor.
  - assert (Ht' : title new = last (k2 :: p) []) by exact Ht.
    destruct (dget k d) as [x|] eqn:E; apply titled_dset; try exact Hd.
    + rewrite title_set_subs. eapply titled_dget; eauto.
    + rewrite subs_set_subs. apply IH; [exact Ht'|]. eapply titled_dget; eauto.
    + reflexivity.
    + unfold fresh. cbn [subs]. apply IH; [exact Ht' | constructor].
Qed.

Lemma titled_delete_path p d d' : titled d -> delete_path p d = Some d' -> titled d'.
Proof.
  revert d d'; induction p as [|k p IH]; intros d d' Hd; [discriminate|].
  rewrite delete_path_cons. destruct p as [|k2 p].
  - destruct (dhas k d); [|discriminate]. intros H; injection H as <-. apply titled_ddel. exact Hd.
  - destruct (dget k d) as [x|] eqn:E; [|discriminate].
    destruct (delete_path (k2 :: p) (subs x)) as [sd|] eqn:E2; [|discriminate].
    intros H; injection H as <-. destruct (titled_dget _ _ _ Hd E) as [H1 H2].
    apply titled_dset; [exact Hd | rewrite title_set_subs; exact H1|].
    rewrite subs_set_subs. eapply IH; eauto.
Qed.

Lemma titled_update_path p f d :
  (forall x, subs (f x) = subs x /\ title (f x) = title x) -> titled d -> titled (update_path p f d).
Proof.
  intros Hf. revert d; induction p as [|k p IH]; intros d Hd; [exact Hd|].
  rewrite update_path_cons. destruct (dget k d) as [x|] eqn:E; [|exact Hd].
  destruct (titled_dget _ _ _ Hd E) as [H1 H2]. destruct (Hf x) as [Hf1 Hf2].
  destruct p as [|k2 p]; apply titled_dset; try exact Hd.
  - congruence.
  - rewrite Hf1. exact H2.
  - rewrite title_set_subs. exact H1.
  - rewrite subs_set_subs. apply IH. exact H2.
Qed.

Definition action_titled (a : action) : Prop :=
  match a with AAdd p new => subs new = [] /\ title new = last p [] | AUpd _ _ _ ttl => ttl = None | _ => True end.

Lemma op_actions_titled o m : no_retitle [o] = true -> Forall action_titled (op_actions o m).
Proof.
  destruct o as [fold kvs|desc alt fold kvs|desc fold kvs|sect desc kvs|sect desc params|sect desc html|key|ks|key|names|ks b|ks b|ks t];
    cbn [op_actions no_retitle forallb andb]; intros Hnr.
  - induction kvs as [|kv kvs IH]; cbn [map]; constructor; [split; reflexivity | exact IH].
  - induction kvs as [|[key path] kvs IH]; cbn [plot_actions]; [constructor|].
    destruct (is_empty path); constructor; [split; reflexivity | exact IH].
  - induction kvs as [|[key t] kvs IH]; cbn [table_actions]; [constructor|].
    destruct t; constructor; [split; reflexivity | exact IH].
  - constructor; [split; reflexivity | constructor].
  - constructor; [split; reflexivity | constructor].
  - constructor; [split; reflexivity | constructor].
  - constructor.
  - constructor.
  - destruct (forallb _ _); constructor; [exact I | constructor].
  - destruct names as [|n names]; [constructor|].
    destruct (forallb _ _); constructor; [exact I | constructor].
  - destruct (chain_ok ks); constructor; [reflexivity | constructor].
  - destruct (chain_ok ks); constructor; [reflexivity | constructor].
  - discriminate Hnr.
Qed.

Lemma upd_fun_title vis fold x : title (upd_fun vis fold None x) = title x.
Proof. destruct x, vis, fold; reflexivity. Qed.

(* C14_placement, global form: in every reachable card each heading is the last path part
   under which its section is stored (no section is titled with a whole path any more: D16) *)
Theorem reachable_titled ops : no_retitle ops = true -> titled (data (run_card ops empty_card)).
Proof.
  intros Hnr. rewrite run_history. cbn [metrics empty_card data].
  assert (H : forall acts d, Forall action_titled acts -> titled d -> titled (apply_actions acts d)).
  { induction acts as [|a acts IH]; intros d Ha Hd; [exact Hd|].
    inversion Ha as [|? ? Ha1 Ha2]; subst. cbn [apply_actions fold_left]. apply IH; [exact Ha2|].
    destruct a as [p new|p|p vis fold ttl]; cbn [apply_action action_titled] in *.
    - destruct Ha1. apply titled_add_path; assumption.
    - destruct (delete_path p d) eqn:E; [eapply titled_delete_path; eauto | exact Hd].
    - subst ttl. apply titled_update_path; [|exact Hd]. intros x. split; [apply upd_fun_subs | apply upd_fun_title]. }
  apply H; [|constructor].
  generalize (@nil (pstr * pstr)). induction ops as [|o ops IH]; intros m; cbn [history]; [constructor|].
  cbn [no_retitle forallb] in Hnr. apply andb_true_iff in Hnr as [Ho Hops].
  apply Forall_app. split; [apply op_actions_titled; cbn [no_retitle forallb]; rewrite Ho; reflexivity | apply IH; exact Hops].
Qed.

(* and a direct assignment to .title is exactly what breaks it: the heading changes, the key does not *)
Example retitle_not_titled :
  let ops := [OAdd false [(of_ascii "A", of_ascii "a")]; OSetTitle [of_ascii "A"] (of_ascii "B")] in
  lookup [of_ascii "A"] (data (run_card ops empty_card)) = Some (Sec (of_ascii "B") (of_ascii "a") true false KText [])
  /\ no_retitle ops = false.
Proof. vm_compute. split; reflexivity. Qed.

(* ------------------------------------------------------------------ C14_batch *)
Theorem batch_texts fold a b d : add_texts fold (a ++ b) d = add_texts fold b (add_texts fold a d).
Proof. unfold add_texts. apply fold_left_app. Qed.

(* a call stops at the first rejected item (empty plot path / table without columns) *)
Theorem batch_plots desc alt fold a b d :
  add_plots desc alt fold (a ++ b) d =
  match add_plots desc alt fold a d with
  | (d', Done) => add_plots desc alt fold b d'
  | r => r
  end.
Proof.
  revert d; induction a as [|[key path] a IH]; intros d; [reflexivity|].
  cbn [app add_plots]. destruct (is_empty path); [reflexivity | apply IH].
Qed.

Theorem batch_tables desc fold a b d :
  add_tables desc fold (a ++ b) d =
  match add_tables desc fold a d with
  | (d', Done) => add_tables desc fold b d'
  | r => r
  end.
Proof.
  revert d; induction a as [|[key t] a IH]; intros d; [reflexivity|].
  cbn [app add_tables]. destruct t; [reflexivity | apply IH].
Qed.

Lemma add_plots_outcome desc alt fold kvs d :
  snd (add_plots desc alt fold kvs d) = Done \/ snd (add_plots desc alt fold kvs d) = Failed EType.
Proof.
  revert d; induction kvs as [|[key path] kvs IH]; intros d; [left; reflexivity|].
  cbn [add_plots]. destruct (is_empty path); [right; reflexivity | apply IH].
Qed.

(* overwriting the same path twice = overwriting once (subsections are carried over) *)
Lemma dset_dset {A} k (v1 v2 : A) d : dset k v2 (dset k v1 d) = dset k v2 d.
Proof.
  induction d as [|[k' v'] d IH]; cbn [dset].
  - rewrite pstr_eqb_refl. reflexivity.
  - destruct (pstr_eqb_spec k k') as [->|N]; cbn [dset].
    + rewrite pstr_eqb_refl. reflexivity.
    + destruct (pstr_eqb_spec k k'); [contradiction|]. f_equal. exact IH.
Qed.

Lemma add_path_twice p n1 n2 d :
  subs n1 = subs n2 -> add_path p n2 (add_path p n1 d) = add_path p n2 d.
Proof.
  intros Hs. revert d; induction p as [|k p IH]; intros d; [reflexivity|].
  rewrite !add_path_cons. destruct p as [|k2 p].
  - rewrite dget_dset_same. cbv beta iota. rewrite subs_set_subs, dset_dset.
    destruct (dget k d); [reflexivity|]. rewrite Hs. reflexivity.
  - destruct (dget k d) as [x|] eqn:E; rewrite dget_dset_same; cbv beta iota.
    + rewrite subs_set_subs, dset_dset. rewrite IH. destruct x; reflexivity.
    + rewrite dset_dset. unfold fresh. cbn [subs set_subs]. rewrite IH. reflexivity.
Qed.

(* add_metrics with the items m1 ++ m2 = add_metrics with m1, then add_metrics with m2 (same section and description) *)
Theorem batch_metrics sect desc a b c :
  fst (run_op (OAddMetrics sect desc (a ++ b)) c) =
  fst (run_op (OAddMetrics sect desc b) (fst (run_op (OAddMetrics sect desc a) c))).
Proof.
  cbn [run_op fst data metrics]. rewrite dupdate_app. f_equal.
  unfold add_single. symmetry. apply add_path_twice. reflexivity.
Qed.

(* C14_dict_df_same: the formatted text depends only on (column names, cell texts, description, folded) *)
Theorem format_depends_on_columns pretty t1 v1 s1 t2 v2 s2 desc fold cols :
  format pretty (Sec t1 desc v1 fold (KTable cols) s1) = format pretty (Sec t2 desc v2 fold (KTable cols) s2).
Proof. reflexivity. Qed.

(* the old defects D16 / D17 on their witnesses *)
Lemma nested_table_and_plots_example :
  let c := run_card [ OAddTable None false [(of_ascii "X/Y", [(of_ascii "a", [of_ascii "1"])])];
                      OAddPlot None None false [(of_ascii "P1", of_ascii "p1.png"); (of_ascii "Q/P2", of_ascii "p2.png")] ]
                    empty_card in
  option_map title (lookup [of_ascii "X"; of_ascii "Y"] (data c)) = Some (of_ascii "Y")
  /\ option_map skind (lookup [of_ascii "P1"] (data c)) = Some (KPlot (of_ascii "p1.png") (of_ascii "P1"))
  /\ option_map skind (lookup [of_ascii "Q"; of_ascii "P2"] (data c)) = Some (KPlot (of_ascii "p2.png") (of_ascii "P2")).
Proof. repeat split; vm_compute; reflexivity. Qed.

Lemma metrics_example :
  let c := run_card [ OAddMetrics (of_ascii "M") None [(of_ascii "acc", of_ascii "0.5"); (of_ascii "f1", of_ascii "x")];
                      OAdd false [(of_ascii "Z", [])];
                      OAddMetrics (of_ascii "M") None [(of_ascii "auc", of_ascii "1"); (of_ascii "acc", of_ascii "0.75")] ]
                    empty_card in
  metrics c = [(of_ascii "acc", of_ascii "0.75"); (of_ascii "f1", of_ascii "x"); (of_ascii "auc", of_ascii "1")].
Proof. vm_compute. reflexivity. Qed.

(* add_model_plot on a path whose section already has a subsection: heading = last part, style attribute added
   (one occurrence), indentation removed, description in front, the subsection kept *)
Lemma model_plot_example :
  let c := run_card [ OAdd false [(of_ascii "Model description/Training Procedure/Model Plot/Note", of_ascii "n")];
                      OAddModelPlot (of_ascii "Model description/Training Procedure/Model Plot") (Some (of_ascii "The model")) demo_html ]
                    empty_card in
  exists x, lookup [of_ascii "Model description"; of_ascii "Training Procedure"; of_ascii "Model Plot"] (data c) = Some x
    /\ title x = of_ascii "Model Plot"
    /\ content x = of_ascii "The model" ++ [10; 10]
                   ++ of_ascii "<div class=""sk-top-container"" style=""overflow: auto;""><p>x </p></div>" ++ [10]
    /\ keys (subs x) = [of_ascii "Note"].
Proof. eexists. split; [vm_compute; reflexivity|]. repeat split. Qed.
