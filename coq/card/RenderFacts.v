(* C10: rendering shows exactly the visible tree; TOC = rendered headings; details wrapping;
   text assembly; save = utf8 . render.  Induction over the section tree (any depth/width). *)
From Skv Require Import PyStr PyStrFacts CardStr Path PathFacts Json Tree TreeFacts Ops Render Spec.
From Coq Require Import Lia.
Open Scope N_scope.

(* ------------------------------------------------------------------ induction over the nested tree *)
Section SectionInd.
  Variable P : section -> Prop.
  Variable Q : dict -> Prop.
  Hypothesis Hsec : forall t c v f k sd, Q sd -> P (Sec t c v f k sd).
  Hypothesis Hnil : Q [].
  Hypothesis Hcons : forall key x d, P x -> Q d -> Q ((key, x) :: d).

  Fixpoint section_ind2 (x : section) : P x :=
    match x with
    | Sec t c v f k sd =>
        Hsec t c v f k sd
          ((fix go (d : dict) : Q d :=
              match d with
              | [] => Hnil
              | (key, y) :: d' => Hcons key y d' (section_ind2 y) (go d')
              end) sd)
    end.

  Lemma dict_ind2 d : Q d.
  Proof. induction d as [|[key x] d IH]; [exact Hnil | apply Hcons; [apply section_ind2 | exact IH]]. Qed.
End SectionInd.

(* ------------------------------------------------------------------ C10_toc_agrees *)
Definition toc_of_event (e : nat * section) : pstr * nat := (title (snd e), pred (fst e)).

Lemma toc_events_at_agrees d :
  forall l, toc_events_at l d = map toc_of_event (events_at (S l) d).
Proof.
  apply (dict_ind2
    (fun x => forall l, sec_toc l x = map toc_of_event (sec_events (S l) x))
    (fun d => forall l, toc_events_at l d = map toc_of_event (events_at (S l) d))).
  - intros t c v f k sd IH l. cbn [sec_toc sec_events].
    destruct v; [|reflexivity]. cbn [map]. unfold toc_of_event at 1. cbn [fst snd title pred]. f_equal.
    destruct f; [reflexivity|]. apply (IH (S l)).
  - intros l. reflexivity.
  - intros key x d0 Hx Hd l. unfold toc_events_at, events_at in *. cbn [flat_map snd].
    rewrite map_app. f_equal; [apply Hx | apply Hd].
Qed.

(* get_toc lists exactly the rendered headings, in the same order, at level depth-1 *)
Theorem toc_agrees d : toc_events d = map toc_of_event (render_events d).
Proof. apply toc_events_at_agrees. Qed.

(* ------------------------------------------------------------------ C10_render_spec *)
Lemma sec_paths_subs x : sec_paths x = paths (subs x).
Proof. destruct x; reflexivity. Qed.

Lemma sec_event_paths_unfold x :
  sec_event_paths x =
  if visible x then [] :: (if folded x then [] else event_paths (subs x)) else [].
Proof. destruct x; reflexivity. Qed.

Lemma paths_cons key x d :
  paths ((key, x) :: d) = ([key] :: map (cons key) (paths (subs x))) ++ paths d.
Proof. unfold paths at 1. cbn [flat_map fst snd]. rewrite sec_paths_subs. reflexivity. Qed.

Lemma event_paths_cons key x d :
  event_paths ((key, x) :: d) = map (cons key) (sec_event_paths x) ++ event_paths d.
Proof. reflexivity. Qed.

Lemma paths_head d q : In q (paths d) -> exists k q', q = k :: q' /\ In k (keys d).
Proof.
  induction d as [|[key x] d IH]; [intros []|].
  rewrite paths_cons. cbn [app In keys map fst]. rewrite in_app_iff.
  intros [H|[H|H]].
  - subst. eauto.
  - apply in_map_iff in H as [q' [<- _]]. eauto.
  - destruct (IH H) as [k [q' [-> Hk]]]. eauto.
Qed.

Lemma filter_ext_in' {A} (f g : A -> bool) l :
  (forall a, In a l -> f a = g a) -> filter f l = filter g l.
Proof.
  induction l as [|a l IH]; intros H; [reflexivity|]. cbn [filter].
  rewrite (H a (or_introl eq_refl)). rewrite IH; [reflexivity|]. intros b Hb. apply H. right. exact Hb.
Qed.

Lemma filter_map_cons {A B} (g : A -> B) (f : B -> bool) l :
  filter f (map g l) = map g (filter (fun a => f (g a)) l).
Proof.
  induction l as [|a l IH]; [reflexivity|]. cbn [map filter].
  destruct (f (g a)); cbn [map]; rewrite IH; reflexivity.
Qed.

Lemma filter_false {A} (l : list A) : filter (fun _ => false) l = [].
Proof. induction l; [reflexivity | exact IHl]. Qed.

Lemma shown_cons k q d :
  shown (k :: q) d =
  match dget k d with
  | None => false
  | Some x => visible x && match q with [] => true | _ :: _ => negb (folded x) && shown q (subs x) end
  end.
Proof. reflexivity. Qed.

(* the renderer emits exactly the paths that are shown, in document order *)
Theorem event_paths_spec d :
  wf_dict d -> event_paths d = filter (fun q => shown q d) (paths d).
Proof.
  intros Hwf. induction Hwf as [|key x d Hn Hx IHx Hd IHd]; [reflexivity|].
  rewrite event_paths_cons, paths_cons, filter_app. f_equal.
  - (* the subtree of the first entry *)
    cbn [app filter]. rewrite shown_cons. cbn [dget]. rewrite pstr_eqb_refl.
    rewrite sec_event_paths_unfold. rewrite filter_map_cons.
    destruct (visible x) eqn:Ev; cbn [andb map].
    + f_equal. destruct (folded x) eqn:Ef.
      * rewrite (filter_ext_in' _ (fun _ => false)).
        -- rewrite filter_false. reflexivity.
        -- intros q Hq. rewrite shown_cons. cbn [dget]. rewrite pstr_eqb_refl, Ev, Ef.
           destruct q; [|reflexivity]. destruct (paths_head _ _ Hq) as [k [q' [E _]]]. discriminate.
      * rewrite IHx. f_equal. apply filter_ext_in'. intros q Hq.
        rewrite shown_cons. cbn [dget]. rewrite pstr_eqb_refl, Ev, Ef.
        destruct q; [|reflexivity]. destruct (paths_head _ _ Hq) as [k [q' [E _]]]. discriminate.
    + rewrite (filter_ext_in' _ (fun _ => false)).
      * rewrite filter_false. reflexivity.
      * intros q Hq. rewrite shown_cons. cbn [dget]. rewrite pstr_eqb_refl, Ev. reflexivity.
  - (* the remaining entries: their first name differs from key *)
    rewrite IHd. apply filter_ext_in'. intros q Hq.
    destruct (paths_head _ _ Hq) as [k [q' [-> Hk]]]. rewrite !shown_cons. cbn [dget].
    destruct (pstr_eqb_spec k key) as [->|N]; [contradiction | reflexivity].
Qed.

(* ... and the emitted (depth, section) pairs are the sections at those paths, depth = path length *)
Lemma event_paths_head d q : In q (event_paths d) -> exists k q', q = k :: q' /\ In k (keys d).
Proof.
  induction d as [|[key x] d IH]; [intros []|].
  rewrite event_paths_cons, in_app_iff. cbn [keys map fst In]. intros [H|H].
  - apply in_map_iff in H as [q' [<- _]]. eauto.
  - destruct (IH H) as [k [q' [-> Hk]]]. eauto.
Qed.

Definition event_of (d : dict) (base : nat) (q : list pstr) : nat * option section :=
  ((base + length q)%nat, lookup q d).

Theorem render_events_at_spec d :
  wf_dict d -> forall base,
  map (fun e => (fst e, Some (snd e))) (events_at (S base) d) = map (event_of d base) (event_paths d).
Proof.
  intros Hwf. induction Hwf as [|key x d Hn Hx IHx Hd IHd]; intros base; [reflexivity|].
  unfold events_at in *. cbn [flat_map snd]. rewrite event_paths_cons, !map_app. f_equal.
  - rewrite map_map. rewrite sec_event_paths_unfold. destruct x as [t c v f k sd].
    cbn [sec_events visible folded subs] in *. destruct v; [|reflexivity]. cbn [map].
    f_equal.
    + unfold event_of. rewrite lookup_cons. cbn [length dget fst snd]. rewrite pstr_eqb_refl.
      f_equal; try lia; try reflexivity.
    + destruct f; [reflexivity|]. rewrite (IHx (S base)).
      apply map_ext_in. intros q Hq. unfold event_of.
      destruct (event_paths_head _ _ Hq) as [k2 [q' [-> _]]].
      rewrite (lookup_cons key). cbn [dget]. rewrite pstr_eqb_refl. cbn [subs length]. f_equal; try lia; try reflexivity.
  - rewrite IHd. apply map_ext_in. intros q Hq. unfold event_of. f_equal.
    destruct (event_paths_head _ _ Hq) as [k [q' [-> Hk]]]. rewrite !lookup_cons. cbn [dget].
    destruct (pstr_eqb_spec k key) as [->|N]; [contradiction | reflexivity].
Qed.

(* C10_render_spec: one event per section that is visible and has no invisible or folded
   ancestor, in tree order, with its depth (= length of its path) *)
Theorem render_spec d :
  wf_dict d ->
  map (fun e => (fst e, Some (snd e))) (render_events d) =
  map (fun q => (length q, lookup q d)) (filter (fun q => shown q d) (paths d)).
Proof.
  intros Hwf. unfold render_events. rewrite (render_events_at_spec d Hwf 0).
  rewrite (event_paths_spec d Hwf). apply map_ext. intros q. reflexivity.
Qed.

(* C10_hidden_absent *)
Lemma shown_prefix q r d :
  q <> [] -> r <> [] -> shown (q ++ r) d = true ->
  exists x, lookup q d = Some x /\ visible x = true /\ folded x = false.
Proof.
  revert d; induction q as [|k q IH]; intros d Hq Hr; [congruence|].
  cbn [app]. rewrite shown_cons, lookup_cons. destruct (dget k d) as [x|]; [|discriminate].
  destruct q as [|k2 q].
  - cbn [app]. destruct r; [congruence|]. intros H.
    apply andb_true_iff in H as [Hv H]. apply andb_true_iff in H as [Hf _].
    exists x. repeat split; [exact Hv|]. destruct (folded x); [discriminate|reflexivity].
  - cbn [app]. intros H. apply andb_true_iff in H as [_ H]. apply andb_true_iff in H as [_ H].
    apply (IH (subs x)); [discriminate | exact Hr | exact H].
Qed.

Lemma shown_self q d : shown q d = true -> exists x, lookup q d = Some x /\ visible x = true.
Proof.
  revert d; induction q as [|k q IH]; intros d; [discriminate|].
  rewrite shown_cons, lookup_cons. destruct (dget k d) as [x|]; [|discriminate].
  destruct q as [|k2 q].
  - rewrite andb_true_r. eauto.
  - intros H. apply andb_true_iff in H as [_ H]. apply andb_true_iff in H as [_ H]. apply IH. exact H.
Qed.

Theorem hidden_absent d q r x :
  wf_dict d -> q <> [] -> lookup q d = Some x ->
  (visible x = false -> ~ In q (event_paths d)) /\
  (visible x = false \/ folded x = true -> r <> [] -> ~ In (q ++ r) (event_paths d)).
Proof.
  intros Hwf Hq Hl. rewrite (event_paths_spec d Hwf). split.
  - intros Hv Hin. apply filter_In in Hin as [_ Hs].
    destruct (shown_self _ _ Hs) as [y [E1 E2]]. congruence.
  - intros Hvf Hr Hin. apply filter_In in Hin as [_ Hs].
    destruct (shown_prefix q r d Hq Hr Hs) as [y [E1 [E2 E3]]].
    rewrite Hl in E1. injection E1 as <-. destruct Hvf; congruence.
Qed.

(* ------------------------------------------------------------------ C10_details_iff_folded *)
Section WithOracle.
Variable pretty : list pstr -> list (list pstr) -> option pstr.

(* what is (or is not) wrapped, per variant; None = PrettyTable refused the columns *)
Definition body (x : section) : option pstr :=
  match skind x with
  | KText => Some (content x)
  | KPlot path alt => Some ([33; 91] ++ (if is_empty alt then path else alt) ++ [93; 40] ++ path ++ [41])
  | KTable cols => pretty (table_header cols) (table_cells cols)
  end.
(* the description printed before a plot / table (a plain section's content IS its body) *)
Definition lead (x : section) : pstr :=
  match skind x with KText => [] | _ => content x end.

Theorem format_wrap x :
  format pretty x =
  match body x with
  | Some b => Some (with_description (lead x) (wrap_details b (folded x)))
  | None => None
  end.
Proof.
  unfold format, body, lead. destruct (skind x) as [|path alt|cols]; reflexivity.
Qed.

Lemma body_fold_indep b x : body (set_folded b x) = body x /\ lead (set_folded b x) = lead x.
Proof. destruct x; split; reflexivity. Qed.

Theorem wrap_details_iff t :
  wrap_details t true = details_open ++ t ++ details_close /\ wrap_details t false = t.
Proof. split; reflexivity. Qed.

(* ------------------------------------------------------------------ text assembly, save *)
Lemma join_cons_ne sep (x y : pstr) l : join sep (x :: y :: l) = x ++ sep ++ join sep (y :: l).
Proof. reflexivity. Qed.

Theorem card_text_blocks ls :
  card_text ls = concat (map (fun l => LF :: l ++ [LF]) (filter nonempty ls)).
Proof.
  unfold card_text. induction (filter nonempty ls) as [|l rest IH]; [reflexivity|].
  cbn [map app concat]. destruct (map (fun l0 => LF :: l0) rest ++ [[]]) as [|y tl] eqn:E.
  - apply app_eq_nil in E as [_ E]. discriminate.
  - rewrite join_cons_ne. cbn [app]. f_equal. rewrite <- app_assoc. f_equal. cbn [app]. f_equal. exact IH.
Qed.

Lemma card_text_cons l ls :
  card_text (l :: ls) = (if nonempty l then LF :: l ++ [LF] else []) ++ card_text ls.
Proof. rewrite !card_text_blocks. cbn [filter]. destruct (nonempty l); reflexivity. Qed.

(* the rendered text, block by block: "\n" heading "\n" and, unless the body is empty, "\n" body "\n" *)
Fixpoint blocks (evs : list (nat * section)) : option pstr :=
  match evs with
  | [] => Some []
  | (depth, x) :: evs' =>
      match format pretty x, blocks evs' with
      | Some b, Some rest =>
          Some ((LF :: heading depth x ++ [LF]) ++ (if is_empty b then [] else LF :: b ++ [LF]) ++ rest)
      | _, _ => None
      end
  end.

Lemma heading_nonempty depth x : nonempty (heading depth x) = true.
Proof. unfold heading. destruct depth; reflexivity. Qed.

Theorem render_blocks d : render pretty d = blocks (render_events d).
Proof.
  unfold render. induction (render_events d) as [|[depth x] evs IH]; [reflexivity|].
  cbn [lines_of blocks]. destruct (format pretty x) as [b|]; [|reflexivity].
  destruct (lines_of pretty evs) as [ls|]; destruct (blocks evs) as [rest|]; try discriminate; try reflexivity.
  injection IH as IH. subst rest. f_equal. rewrite !card_text_cons, heading_nonempty.
  unfold nonempty. destruct (is_empty b); reflexivity.
Qed.

(* C10_save_is_render *)
Theorem save_is_render cf d :
  save_bytes pretty cf d = match render pretty d with Some t => utf8 t | None => None end.
Proof. reflexivity. Qed.

Theorem save_copies_spec d :
  save_copies false d = [] /\
  save_copies true d = flat_map (fun e => plot_path (snd e)) (render_events d).
Proof. split; reflexivity. Qed.
End WithOracle.

(* utf8 is the UTF-8 encoding on ASCII and on the usual witnesses (2-, 3-, 4-byte), and refuses surrogates *)
Lemma utf8_examples :
  utf8 [97; 233; 8364; 128512] = Some [97; 195; 169; 226; 130; 172; 240; 159; 152; 128]
  /\ utf8 [55296] = None.
Proof. split; vm_compute; reflexivity. Qed.

(* the old defect D14 on its witness: folded A with children B/C -- TOC and render now both stop at A *)
Lemma folded_parent_example :
  let d := update_path [of_ascii "A"] (set_folded true)
             (add_texts false [(of_ascii "A", of_ascii "a"); (of_ascii "A/B", of_ascii "b"); (of_ascii "A/B/C", of_ascii "c")] []) in
  toc_events d = [(of_ascii "A", O)]
  /\ map (fun e => (fst e, title (snd e))) (render_events d) = [(1%nat, of_ascii "A")]
  /\ event_paths d = [[of_ascii "A"]]
  /\ paths d = [[of_ascii "A"]; [of_ascii "A"; of_ascii "B"]; [of_ascii "A"; of_ascii "B"; of_ascii "C"]].
Proof. repeat split; vm_compute; reflexivity. Qed.
