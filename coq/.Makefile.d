base/Corr.vo base/Corr.glob base/Corr.v.beautified base/Corr.required_vo: base/Corr.v base/PyStr.vo
base/Corr.vio: base/Corr.v base/PyStr.vio
base/Corr.vos base/Corr.vok base/Corr.required_vos: base/Corr.v base/PyStr.vos
base/Json.vo base/Json.glob base/Json.v.beautified base/Json.required_vo: base/Json.v base/PyStr.vo
base/Json.vio: base/Json.v base/PyStr.vio
base/Json.vos base/Json.vok base/Json.required_vos: base/Json.v base/PyStr.vos
base/PyStr.vo base/PyStr.glob base/PyStr.v.beautified base/PyStr.required_vo: base/PyStr.v 
base/PyStr.vio: base/PyStr.v 
base/PyStr.vos base/PyStr.vok base/PyStr.required_vos: base/PyStr.v 
base/PyStrFacts.vo base/PyStrFacts.glob base/PyStrFacts.v.beautified base/PyStrFacts.required_vo: base/PyStrFacts.v base/PyStr.vo
base/PyStrFacts.vio: base/PyStrFacts.v base/PyStr.vio
base/PyStrFacts.vos base/PyStrFacts.vok base/PyStrFacts.required_vos: base/PyStrFacts.v base/PyStr.vos
io/Registry.vo io/Registry.glob io/Registry.v.beautified io/Registry.required_vo: io/Registry.v base/Json.vo
io/Registry.vio: io/Registry.v base/Json.vio
io/Registry.vos io/Registry.vok io/Registry.required_vos: io/Registry.v base/Json.vos
io/RegistryFacts.vo io/RegistryFacts.glob io/RegistryFacts.v.beautified io/RegistryFacts.required_vo: io/RegistryFacts.v base/PyStr.vo base/PyStrFacts.vo base/Json.vo io/Registry.vo
io/RegistryFacts.vio: io/RegistryFacts.v base/PyStr.vio base/PyStrFacts.vio base/Json.vio io/Registry.vio
io/RegistryFacts.vos io/RegistryFacts.vok io/RegistryFacts.required_vos: io/RegistryFacts.v base/PyStr.vos base/PyStrFacts.vos base/Json.vos io/Registry.vos
sys/Convert.vo sys/Convert.glob sys/Convert.v.beautified sys/Convert.required_vo: sys/Convert.v sys/Fs.vo
sys/Convert.vio: sys/Convert.v sys/Fs.vio
sys/Convert.vos sys/Convert.vok sys/Convert.required_vos: sys/Convert.v sys/Fs.vos
sys/ConvertFacts.vo sys/ConvertFacts.glob sys/ConvertFacts.v.beautified sys/ConvertFacts.required_vo: sys/ConvertFacts.v base/PyStr.vo base/PyStrFacts.vo base/Json.vo sys/Fs.vo sys/FsFacts.vo sys/Convert.vo
sys/ConvertFacts.vio: sys/ConvertFacts.v base/PyStr.vio base/PyStrFacts.vio base/Json.vio sys/Fs.vio sys/FsFacts.vio sys/Convert.vio
sys/ConvertFacts.vos sys/ConvertFacts.vok sys/ConvertFacts.required_vos: sys/ConvertFacts.v base/PyStr.vos base/PyStrFacts.vos base/Json.vos sys/Fs.vos sys/FsFacts.vos sys/Convert.vos
sys/Dump.vo sys/Dump.glob sys/Dump.v.beautified sys/Dump.required_vo: sys/Dump.v sys/Fs.vo
sys/Dump.vio: sys/Dump.v sys/Fs.vio
sys/Dump.vos sys/Dump.vok sys/Dump.required_vos: sys/Dump.v sys/Fs.vos
sys/DumpFacts.vo sys/DumpFacts.glob sys/DumpFacts.v.beautified sys/DumpFacts.required_vo: sys/DumpFacts.v base/PyStr.vo base/PyStrFacts.vo base/Json.vo sys/Fs.vo sys/FsFacts.vo sys/Dump.vo
sys/DumpFacts.vio: sys/DumpFacts.v base/PyStr.vio base/PyStrFacts.vio base/Json.vio sys/Fs.vio sys/FsFacts.vio sys/Dump.vio
sys/DumpFacts.vos sys/DumpFacts.vok sys/DumpFacts.required_vos: sys/DumpFacts.v base/PyStr.vos base/PyStrFacts.vos base/Json.vos sys/Fs.vos sys/FsFacts.vos sys/Dump.vos
sys/Fs.vo sys/Fs.glob sys/Fs.v.beautified sys/Fs.required_vo: sys/Fs.v base/Json.vo base/Corr.vo
sys/Fs.vio: sys/Fs.v base/Json.vio base/Corr.vio
sys/Fs.vos sys/Fs.vok sys/Fs.required_vos: sys/Fs.v base/Json.vos base/Corr.vos
sys/FsFacts.vo sys/FsFacts.glob sys/FsFacts.v.beautified sys/FsFacts.required_vo: sys/FsFacts.v base/PyStr.vo base/PyStrFacts.vo base/Json.vo sys/Fs.vo
sys/FsFacts.vio: sys/FsFacts.v base/PyStr.vio base/PyStrFacts.vio base/Json.vio sys/Fs.vio
sys/FsFacts.vos sys/FsFacts.vok sys/FsFacts.required_vos: sys/FsFacts.v base/PyStr.vos base/PyStrFacts.vos base/Json.vos sys/Fs.vos
sys/Update.vo sys/Update.glob sys/Update.v.beautified sys/Update.required_vo: sys/Update.v sys/Fs.vo
sys/Update.vio: sys/Update.v sys/Fs.vio
sys/Update.vos sys/Update.vok sys/Update.required_vos: sys/Update.v sys/Fs.vos
sys/UpdateFacts.vo sys/UpdateFacts.glob sys/UpdateFacts.v.beautified sys/UpdateFacts.required_vo: sys/UpdateFacts.v base/PyStr.vo base/PyStrFacts.vo base/Json.vo sys/Fs.vo sys/FsFacts.vo sys/Update.vo
sys/UpdateFacts.vio: sys/UpdateFacts.v base/PyStr.vio base/PyStrFacts.vio base/Json.vio sys/Fs.vio sys/FsFacts.vio sys/Update.vio
sys/UpdateFacts.vos sys/UpdateFacts.vok sys/UpdateFacts.required_vos: sys/UpdateFacts.v base/PyStr.vos base/PyStrFacts.vos base/Json.vos sys/Fs.vos sys/FsFacts.vos sys/Update.vos
