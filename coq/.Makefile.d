base/Corr.vo base/Corr.glob base/Corr.v.beautified base/Corr.required_vo: base/Corr.v base/PyStr.vo
base/Corr.vio: base/Corr.v base/PyStr.vio
base/Corr.vos base/Corr.vok base/Corr.required_vos: base/Corr.v base/PyStr.vos
base/Json.vo base/Json.glob base/Json.v.beautified base/Json.required_vo: base/Json.v base/PyStr.vo
base/Json.vio: base/Json.v base/PyStr.vio
base/Json.vos base/Json.vok base/Json.required_vos: base/Json.v base/PyStr.vos
base/PyStr.vo base/PyStr.glob base/PyStr.v.beautified base/PyStr.required_vo: base/PyStr.v 
base/PyStr.vio: base/PyStr.v 
base/PyStr.vos base/PyStr.vok base/PyStr.required_vos: base/PyStr.v 
base/PyStrFacts.vo base/PyStrFacts.glob base/PyStrFacts.v.beautified base/PyStrFacts.required_vo: base/PyStrFacts.v base/PyStr.vo
base/PyStrFacts.vio: base/PyStrFacts.v base/PyStr.vio
base/PyStrFacts.vos base/PyStrFacts.vok base/PyStrFacts.required_vos: base/PyStrFacts.v base/PyStr.vos
io/Registry.vo io/Registry.glob io/Registry.v.beautified io/Registry.required_vo: io/Registry.v base/Json.vo
io/Registry.vio: io/Registry.v base/Json.vio
io/Registry.vos io/Registry.vok io/Registry.required_vos: io/Registry.v base/Json.vos
io/RegistryFacts.vo io/RegistryFacts.glob io/RegistryFacts.v.beautified io/RegistryFacts.required_vo: io/RegistryFacts.v base/PyStr.vo base/PyStrFacts.vo base/Json.vo io/Registry.vo
io/RegistryFacts.vio: io/RegistryFacts.v base/PyStr.vio base/PyStrFacts.vio base/Json.vio io/Registry.vio
io/RegistryFacts.vos io/RegistryFacts.vok io/RegistryFacts.required_vos: io/RegistryFacts.v base/PyStr.vos base/PyStrFacts.vos base/Json.vos io/Registry.vos
