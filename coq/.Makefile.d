base/Corr.vo base/Corr.glob base/Corr.v.beautified base/Corr.required_vo: base/Corr.v base/PyStr.vo
base/Corr.vio: base/Corr.v base/PyStr.vio
base/Corr.vos base/Corr.vok base/Corr.required_vos: base/Corr.v base/PyStr.vos
base/Json.vo base/Json.glob base/Json.v.beautified base/Json.required_vo: base/Json.v base/PyStr.vo
base/Json.vio: base/Json.v base/PyStr.vio
base/Json.vos base/Json.vok base/Json.required_vos: base/Json.v base/PyStr.vos
base/PyStr.vo base/PyStr.glob base/PyStr.v.beautified base/PyStr.required_vo: base/PyStr.v 
base/PyStr.vio: base/PyStr.v 
base/PyStr.vos base/PyStr.vok base/PyStr.required_vos: base/PyStr.v 
base/PyStrFacts.vo base/PyStrFacts.glob base/PyStrFacts.v.beautified base/PyStrFacts.required_vo: base/PyStrFacts.v base/PyStr.vo
base/PyStrFacts.vio: base/PyStrFacts.v base/PyStr.vio
base/PyStrFacts.vos base/PyStrFacts.vok base/PyStrFacts.required_vos: base/PyStrFacts.v base/PyStr.vos
io/Registry.vo io/Registry.glob io/Registry.v.beautified io/Registry.required_vo: io/Registry.v base/Json.vo
io/Registry.vio: io/Registry.v base/Json.vio
io/Registry.vos io/Registry.vok io/Registry.required_vos: io/Registry.v base/Json.vos
io/RegistryFacts.vo io/RegistryFacts.glob io/RegistryFacts.v.beautified io/RegistryFacts.required_vo: io/RegistryFacts.v base/PyStr.vo base/PyStrFacts.vo base/Json.vo io/Registry.vo
io/RegistryFacts.vio: io/RegistryFacts.v base/PyStr.vio base/PyStrFacts.vio base/Json.vio io/Registry.vio
io/RegistryFacts.vos io/RegistryFacts.vok io/RegistryFacts.required_vos: io/RegistryFacts.v base/PyStr.vos base/PyStrFacts.vos base/Json.vos io/Registry.vos
card/Markup.vo card/Markup.glob card/Markup.v.beautified card/Markup.required_vo: card/Markup.v base/PyStr.vo base/Json.vo base/Corr.vo
card/Markup.vio: card/Markup.v base/PyStr.vio base/Json.vio base/Corr.vio
card/Markup.vos card/Markup.vok card/Markup.required_vos: card/Markup.v base/PyStr.vos base/Json.vos base/Corr.vos
card/MarkupFacts.vo card/MarkupFacts.glob card/MarkupFacts.v.beautified card/MarkupFacts.required_vo: card/MarkupFacts.v base/PyStr.vo base/PyStrFacts.vo base/Json.vo card/Markup.vo
card/MarkupFacts.vio: card/MarkupFacts.v base/PyStr.vio base/PyStrFacts.vio base/Json.vio card/Markup.vio
card/MarkupFacts.vos card/MarkupFacts.vok card/MarkupFacts.required_vos: card/MarkupFacts.v base/PyStr.vos base/PyStrFacts.vos base/Json.vos card/Markup.vos
card/Parser.vo card/Parser.glob card/Parser.v.beautified card/Parser.required_vo: card/Parser.v base/PyStr.vo base/Json.vo card/Markup.vo card/ParserCard.vo
card/Parser.vio: card/Parser.v base/PyStr.vio base/Json.vio card/Markup.vio card/ParserCard.vio
card/Parser.vos card/Parser.vok card/Parser.required_vos: card/Parser.v base/PyStr.vos base/Json.vos card/Markup.vos card/ParserCard.vos
card/ParserCard.vo card/ParserCard.glob card/ParserCard.v.beautified card/ParserCard.required_vo: card/ParserCard.v base/PyStr.vo base/Json.vo card/Markup.vo
card/ParserCard.vio: card/ParserCard.v base/PyStr.vio base/Json.vio card/Markup.vio
card/ParserCard.vos card/ParserCard.vok card/ParserCard.required_vos: card/ParserCard.v base/PyStr.vos base/Json.vos card/Markup.vos
card/ParserFacts.vo card/ParserFacts.glob card/ParserFacts.v.beautified card/ParserFacts.required_vo: card/ParserFacts.v base/PyStr.vo base/PyStrFacts.vo base/Json.vo card/Markup.vo card/MarkupFacts.vo card/ParserCard.vo card/Parser.vo
card/ParserFacts.vio: card/ParserFacts.v base/PyStr.vio base/PyStrFacts.vio base/Json.vio card/Markup.vio card/MarkupFacts.vio card/ParserCard.vio card/Parser.vio
card/ParserFacts.vos card/ParserFacts.vok card/ParserFacts.required_vos: card/ParserFacts.v base/PyStr.vos base/PyStrFacts.vos base/Json.vos card/Markup.vos card/MarkupFacts.vos card/ParserCard.vos card/Parser.vos
