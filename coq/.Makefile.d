base/Corr.vo base/Corr.glob base/Corr.v.beautified base/Corr.required_vo: base/Corr.v base/PyStr.vo
base/Corr.vio: base/Corr.v base/PyStr.vio
base/Corr.vos base/Corr.vok base/Corr.required_vos: base/Corr.v base/PyStr.vos
base/Json.vo base/Json.glob base/Json.v.beautified base/Json.required_vo: base/Json.v base/PyStr.vo base/Corr.vo
base/Json.vio: base/Json.v base/PyStr.vio base/Corr.vio
base/Json.vos base/Json.vok base/Json.required_vos: base/Json.v base/PyStr.vos base/Corr.vos
base/PyStr.vo base/PyStr.glob base/PyStr.v.beautified base/PyStr.required_vo: base/PyStr.v 
base/PyStr.vio: base/PyStr.v 
base/PyStr.vos base/PyStr.vok base/PyStr.required_vos: base/PyStr.v 
base/PyStrFacts.vo base/PyStrFacts.glob base/PyStrFacts.v.beautified base/PyStrFacts.required_vo: base/PyStrFacts.v base/PyStr.vo
base/PyStrFacts.vio: base/PyStrFacts.v base/PyStr.vio
base/PyStrFacts.vos base/PyStrFacts.vok base/PyStrFacts.required_vos: base/PyStrFacts.v base/PyStr.vos
io/AuditFacts.vo io/AuditFacts.glob io/AuditFacts.v.beautified io/AuditFacts.required_vo: io/AuditFacts.v base/PyStrFacts.vo io/Unsafe.vo io/UnsafeFacts.vo
io/AuditFacts.vio: io/AuditFacts.v base/PyStrFacts.vio io/Unsafe.vio io/UnsafeFacts.vio
io/AuditFacts.vos io/AuditFacts.vok io/AuditFacts.required_vos: io/AuditFacts.v base/PyStrFacts.vos io/Unsafe.vos io/UnsafeFacts.vos
io/Construct.vo io/Construct.glob io/Construct.v.beautified io/Construct.required_vo: io/Construct.v io/Walk.vo
io/Construct.vio: io/Construct.v io/Walk.vio
io/Construct.vos io/Construct.vok io/Construct.required_vos: io/Construct.v io/Walk.vos
io/Families.vo io/Families.glob io/Families.v.beautified io/Families.required_vo: io/Families.v base/PyStrFacts.vo io/Unsafe.vo io/UnsafeFacts.vo io/NodeInd.vo
io/Families.vio: io/Families.v base/PyStrFacts.vio io/Unsafe.vio io/UnsafeFacts.vio io/NodeInd.vio
io/Families.vos io/Families.vok io/Families.required_vos: io/Families.v base/PyStrFacts.vos io/Unsafe.vos io/UnsafeFacts.vos io/NodeInd.vos
io/GetTree.vo io/GetTree.glob io/GetTree.v.beautified io/GetTree.required_vo: io/GetTree.v io/Node.vo
io/GetTree.vio: io/GetTree.v io/Node.vio
io/GetTree.vos io/GetTree.vok io/GetTree.required_vos: io/GetTree.v io/Node.vos
io/Node.vo io/Node.glob io/Node.v.beautified io/Node.required_vo: io/Node.v base/Json.vo io/Registry.vo
io/Node.vio: io/Node.v base/Json.vio io/Registry.vio
io/Node.vos io/Node.vok io/Node.required_vos: io/Node.v base/Json.vos io/Registry.vos
io/NodeInd.vo io/NodeInd.glob io/NodeInd.v.beautified io/NodeInd.required_vo: io/NodeInd.v io/Node.vo
io/NodeInd.vio: io/NodeInd.v io/Node.vio
io/NodeInd.vos io/NodeInd.vok io/NodeInd.required_vos: io/NodeInd.v io/Node.vos
io/Registry.vo io/Registry.glob io/Registry.v.beautified io/Registry.required_vo: io/Registry.v base/Json.vo
io/Registry.vio: io/Registry.v base/Json.vio
io/Registry.vos io/Registry.vok io/Registry.required_vos: io/Registry.v base/Json.vos
io/RegistryFacts.vo io/RegistryFacts.glob io/RegistryFacts.v.beautified io/RegistryFacts.required_vo: io/RegistryFacts.v base/PyStr.vo base/PyStrFacts.vo base/Json.vo io/Registry.vo
io/RegistryFacts.vio: io/RegistryFacts.v base/PyStr.vio base/PyStrFacts.vio base/Json.vio io/Registry.vio
io/RegistryFacts.vos io/RegistryFacts.vok io/RegistryFacts.required_vos: io/RegistryFacts.v base/PyStr.vos base/PyStrFacts.vos base/Json.vos io/Registry.vos
io/Show.vo io/Show.glob io/Show.v.beautified io/Show.required_vo: io/Show.v io/Construct.vo base/Corr.vo
io/Show.vio: io/Show.v io/Construct.vio base/Corr.vio
io/Show.vos io/Show.vok io/Show.required_vos: io/Show.v io/Construct.vos base/Corr.vos
io/Unsafe.vo io/Unsafe.glob io/Unsafe.v.beautified io/Unsafe.required_vo: io/Unsafe.v io/GetTree.vo
io/Unsafe.vio: io/Unsafe.v io/GetTree.vio
io/Unsafe.vos io/Unsafe.vok io/Unsafe.required_vos: io/Unsafe.v io/GetTree.vos
io/UnsafeFacts.vo io/UnsafeFacts.glob io/UnsafeFacts.v.beautified io/UnsafeFacts.required_vo: io/UnsafeFacts.v base/PyStrFacts.vo io/Unsafe.vo
io/UnsafeFacts.vio: io/UnsafeFacts.v base/PyStrFacts.vio io/Unsafe.vio
io/UnsafeFacts.vos io/UnsafeFacts.vok io/UnsafeFacts.required_vos: io/UnsafeFacts.v base/PyStrFacts.vos io/Unsafe.vos
io/Walk.vo io/Walk.glob io/Walk.v.beautified io/Walk.required_vo: io/Walk.v io/Unsafe.vo
io/Walk.vio: io/Walk.v io/Unsafe.vio
io/Walk.vos io/Walk.vok io/Walk.required_vos: io/Walk.v io/Unsafe.vos
