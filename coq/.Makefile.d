base/Corr.vo base/Corr.glob base/Corr.v.beautified base/Corr.required_vo: base/Corr.v base/PyStr.vo
base/Corr.vio: base/Corr.v base/PyStr.vio
base/Corr.vos base/Corr.vok base/Corr.required_vos: base/Corr.v base/PyStr.vos
base/Json.vo base/Json.glob base/Json.v.beautified base/Json.required_vo: base/Json.v base/PyStr.vo
base/Json.vio: base/Json.v base/PyStr.vio
base/Json.vos base/Json.vok base/Json.required_vos: base/Json.v base/PyStr.vos
base/PyStr.vo base/PyStr.glob base/PyStr.v.beautified base/PyStr.required_vo: base/PyStr.v 
base/PyStr.vio: base/PyStr.v 
base/PyStr.vos base/PyStr.vok base/PyStr.required_vos: base/PyStr.v 
base/PyStrFacts.vo base/PyStrFacts.glob base/PyStrFacts.v.beautified base/PyStrFacts.required_vo: base/PyStrFacts.v base/PyStr.vo
base/PyStrFacts.vio: base/PyStrFacts.v base/PyStr.vio
base/PyStrFacts.vos base/PyStrFacts.vok base/PyStrFacts.required_vos: base/PyStrFacts.v base/PyStr.vos
io/Registry.vo io/Registry.glob io/Registry.v.beautified io/Registry.required_vo: io/Registry.v base/Json.vo
io/Registry.vio: io/Registry.v base/Json.vio
io/Registry.vos io/Registry.vok io/Registry.required_vos: io/Registry.v base/Json.vos
io/RegistryFacts.vo io/RegistryFacts.glob io/RegistryFacts.v.beautified io/RegistryFacts.required_vo: io/RegistryFacts.v base/PyStr.vo base/PyStrFacts.vo base/Json.vo io/Registry.vo
io/RegistryFacts.vio: io/RegistryFacts.v base/PyStr.vio base/PyStrFacts.vio base/Json.vio io/Registry.vio
io/RegistryFacts.vos io/RegistryFacts.vok io/RegistryFacts.required_vos: io/RegistryFacts.v base/PyStr.vos base/PyStrFacts.vos base/Json.vos io/Registry.vos
card/BuildersFacts.vo card/BuildersFacts.glob card/BuildersFacts.v.beautified card/BuildersFacts.required_vo: card/BuildersFacts.v base/PyStr.vo base/PyStrFacts.vo card/CardStr.vo card/Path.vo card/PathFacts.vo base/Json.vo card/Tree.vo card/TreeFacts.vo card/Ops.vo card/Render.vo card/Spec.vo card/OpsFacts.vo card/RenderFacts.vo
card/BuildersFacts.vio: card/BuildersFacts.v base/PyStr.vio base/PyStrFacts.vio card/CardStr.vio card/Path.vio card/PathFacts.vio base/Json.vio card/Tree.vio card/TreeFacts.vio card/Ops.vio card/Render.vio card/Spec.vio card/OpsFacts.vio card/RenderFacts.vio
card/BuildersFacts.vos card/BuildersFacts.vok card/BuildersFacts.required_vos: card/BuildersFacts.v base/PyStr.vos base/PyStrFacts.vos card/CardStr.vos card/Path.vos card/PathFacts.vos base/Json.vos card/Tree.vos card/TreeFacts.vos card/Ops.vos card/Render.vos card/Spec.vos card/OpsFacts.vos card/RenderFacts.vos
card/CardStr.vo card/CardStr.glob card/CardStr.v.beautified card/CardStr.required_vo: card/CardStr.v base/PyStr.vo
card/CardStr.vio: card/CardStr.v base/PyStr.vio
card/CardStr.vos card/CardStr.vok card/CardStr.required_vos: card/CardStr.v base/PyStr.vos
card/Ops.vo card/Ops.glob card/Ops.v.beautified card/Ops.required_vo: card/Ops.v card/Tree.vo
card/Ops.vio: card/Ops.v card/Tree.vio
card/Ops.vos card/Ops.vok card/Ops.required_vos: card/Ops.v card/Tree.vos
card/OpsFacts.vo card/OpsFacts.glob card/OpsFacts.v.beautified card/OpsFacts.required_vo: card/OpsFacts.v base/PyStr.vo base/PyStrFacts.vo card/CardStr.vo card/Path.vo card/PathFacts.vo base/Json.vo card/Tree.vo card/TreeFacts.vo card/Ops.vo card/Render.vo card/Spec.vo
card/OpsFacts.vio: card/OpsFacts.v base/PyStr.vio base/PyStrFacts.vio card/CardStr.vio card/Path.vio card/PathFacts.vio base/Json.vio card/Tree.vio card/TreeFacts.vio card/Ops.vio card/Render.vio card/Spec.vio
card/OpsFacts.vos card/OpsFacts.vok card/OpsFacts.required_vos: card/OpsFacts.v base/PyStr.vos base/PyStrFacts.vos card/CardStr.vos card/Path.vos card/PathFacts.vos base/Json.vos card/Tree.vos card/TreeFacts.vos card/Ops.vos card/Render.vos card/Spec.vos
card/Path.vo card/Path.glob card/Path.v.beautified card/Path.required_vo: card/Path.v card/CardStr.vo
card/Path.vio: card/Path.v card/CardStr.vio
card/Path.vos card/Path.vok card/Path.required_vos: card/Path.v card/CardStr.vos
card/PathFacts.vo card/PathFacts.glob card/PathFacts.v.beautified card/PathFacts.required_vo: card/PathFacts.v base/PyStr.vo base/PyStrFacts.vo card/CardStr.vo card/Path.vo
card/PathFacts.vio: card/PathFacts.v base/PyStr.vio base/PyStrFacts.vio card/CardStr.vio card/Path.vio
card/PathFacts.vos card/PathFacts.vok card/PathFacts.required_vos: card/PathFacts.v base/PyStr.vos base/PyStrFacts.vos card/CardStr.vos card/Path.vos
card/Render.vo card/Render.glob card/Render.v.beautified card/Render.required_vo: card/Render.v card/Tree.vo
card/Render.vio: card/Render.v card/Tree.vio
card/Render.vos card/Render.vok card/Render.required_vos: card/Render.v card/Tree.vos
card/RenderFacts.vo card/RenderFacts.glob card/RenderFacts.v.beautified card/RenderFacts.required_vo: card/RenderFacts.v base/PyStr.vo base/PyStrFacts.vo card/CardStr.vo card/Path.vo card/PathFacts.vo base/Json.vo card/Tree.vo card/TreeFacts.vo card/Ops.vo card/Render.vo card/Spec.vo
card/RenderFacts.vio: card/RenderFacts.v base/PyStr.vio base/PyStrFacts.vio card/CardStr.vio card/Path.vio card/PathFacts.vio base/Json.vio card/Tree.vio card/TreeFacts.vio card/Ops.vio card/Render.vio card/Spec.vio
card/RenderFacts.vos card/RenderFacts.vok card/RenderFacts.required_vos: card/RenderFacts.v base/PyStr.vos base/PyStrFacts.vos card/CardStr.vos card/Path.vos card/PathFacts.vos base/Json.vos card/Tree.vos card/TreeFacts.vos card/Ops.vos card/Render.vos card/Spec.vos
card/Show.vo card/Show.glob card/Show.v.beautified card/Show.required_vo: card/Show.v card/Ops.vo card/Render.vo
card/Show.vio: card/Show.v card/Ops.vio card/Render.vio
card/Show.vos card/Show.vok card/Show.required_vos: card/Show.v card/Ops.vos card/Render.vos
card/Spec.vo card/Spec.glob card/Spec.v.beautified card/Spec.required_vo: card/Spec.v card/Ops.vo card/Render.vo
card/Spec.vio: card/Spec.v card/Ops.vio card/Render.vio
card/Spec.vos card/Spec.vok card/Spec.required_vos: card/Spec.v card/Ops.vos card/Render.vos
card/Tree.vo card/Tree.glob card/Tree.v.beautified card/Tree.required_vo: card/Tree.v base/Json.vo card/Path.vo
card/Tree.vio: card/Tree.v base/Json.vio card/Path.vio
card/Tree.vos card/Tree.vok card/Tree.required_vos: card/Tree.v base/Json.vos card/Path.vos
card/TreeFacts.vo card/TreeFacts.glob card/TreeFacts.v.beautified card/TreeFacts.required_vo: card/TreeFacts.v base/PyStr.vo base/PyStrFacts.vo card/CardStr.vo card/Path.vo card/PathFacts.vo base/Json.vo card/Tree.vo
card/TreeFacts.vio: card/TreeFacts.v base/PyStr.vio base/PyStrFacts.vio card/CardStr.vio card/Path.vio card/PathFacts.vio base/Json.vio card/Tree.vio
card/TreeFacts.vos card/TreeFacts.vok card/TreeFacts.required_vos: card/TreeFacts.v base/PyStr.vos base/PyStrFacts.vos card/CardStr.vos card/Path.vos card/PathFacts.vos base/Json.vos card/Tree.vos
