(* CallGraph -- the model that harness/callgraph.py regenerates from the SOURCE of skops/io on every run is a finite
   graph: function -> (callees, effects).  This file holds the executable definitions (closure, inertness test);
   the proofs are in CallGraphFacts.v. *)
From Coq Require Import String List Bool.
Import ListNotations.
Open Scope string_scope.

Definition graph := list (string * (list string * list string)).

Fixpoint lookup (g : graph) (f : string) : option (list string * list string) :=
  match g with
  | [] => None
  | (k, v) :: g' => if String.eqb k f then Some v else lookup g' f
  end.

Definition calls (g : graph) (f : string) : list string :=
  match lookup g f with Some (c, _) => c | None => [] end.

(* a callee the translator did not emit counts as effectful: nothing about it is known *)
Definition effects (g : graph) (f : string) : list string :=
  match lookup g f with Some (_, e) => e | None => ["missing:" ++ f] end.

(* reflect: = looking a LIVE object's own __name__ up in already-imported modules (whichmodule); the translator
   emits it only after checking the call-site shapes.  Everything else (resolve:, fs:, missing:) is forbidden
   before the trust verdict. *)
Definition permitted (e : string) : bool := String.prefix "reflect:" e.
Definition inert_with (perm : string -> bool) (g : graph) (f : string) : bool := forallb perm (effects g f).
Definition inert (g : graph) (f : string) : bool := inert_with permitted g f.

(* C18: before the serialisation is complete dump() may additionally write INTO MEMORY (mem: = np.save / save_npz into a local
   io.BytesIO(), writestr into the zip that _save builds over a local io.BytesIO()); it may not touch the file system *)
Definition permitted_in_memory (e : string) : bool := String.prefix "reflect:" e || String.prefix "mem:" e.

Fixpoint smem (x : string) (l : list string) : bool :=
  match l with [] => false | y :: l' => String.eqb x y || smem x l' end.

Definition closed (g : graph) (S : list string) : bool :=
  forallb (fun f => forallb (fun c => smem c S) (calls g f)) S.

(* a concrete call path a -> p1 -> p2 ... *)
Fixpoint path_ok (g : graph) (a : string) (p : list string) : bool :=
  match p with [] => true | b :: p' => smem b (calls g a) && path_ok g b p' end.

Fixpoint path_end (a : string) (p : list string) : string :=
  match p with [] => a | b :: p' => path_end b p' end.

(* S is a certificate (the translator's own reachable set): it is CHECKED to contain the entries and to be closed
   under the call relation, so it contains everything reachable whatever the translator computed *)
Definition static_ok_with (perm : string -> bool) (g : graph) (S : list string) (entries : list string) : bool :=
  closed g S && forallb (fun e => smem e S) entries && forallb (inert_with perm g) S.
Definition static_ok (g : graph) (S : list string) (entries : list string) : bool := static_ok_with permitted g S entries.
