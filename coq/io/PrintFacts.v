(* The plain printer of visualize shows every row on ONE line (C13, "what it emits is a well-formed tree", at the level of
   the text): _get_node_text escapes every character that is not printable, so no line contains a line break or a surrogate,
   whatever keys, type names and tags the rows carry. *)
From Skv Require Import PyStr Walk IoShow.
From Coq Require Import Lia.

Definition printable (c : N) : Prop := isprintable c = true.
Definition plain (l : pstr) : Prop := Forall printable l.

(* ---------- the table ---------- *)
Lemma in_ranges_true c rs : in_ranges c rs = true <-> exists r, In r rs /\ (fst r <= c <= snd r)%N.
Proof.
  unfold in_ranges. rewrite existsb_exists. split; intros [r [Hin H]]; exists r; (split; [exact Hin|]).
  - apply andb_true_iff in H. destruct H as [H1 H2]. apply N.leb_le in H1. apply N.leb_le in H2. split; assumption.
  - apply andb_true_iff. split; apply N.leb_le; apply H.
Qed.

Lemma ascii_printable c : (32 <= c <= 126)%N -> printable c.
Proof.
  intros H. apply in_ranges_true. exists (32, 126)%N. split; [left; reflexivity|exact H].
Qed.

Lemma printable_bound c : printable c -> (32 <= c <= 128591)%N.
Proof.
  intros H. apply in_ranges_true in H. destruct H as [r [Hin H]]. cbn [printable_ranges In] in Hin.
  repeat (destruct Hin as [Hin|Hin]; [subst r; cbn [fst snd] in H; lia|]). contradiction.
Qed.

Lemma printable_not_linebreak c : printable c -> is_linebreak c = false.
Proof.
  intros H. destruct (is_linebreak c) eqn:E; [|reflexivity]. exfalso.
  unfold is_linebreak in E. apply existsb_exists in E. destruct E as [x [Hin Hx]]. apply N.eqb_eq in Hx. subst x.
  cbn [linebreaks In] in Hin. unfold printable in H.
  repeat (destruct Hin as [Hin|Hin]; [subst c; vm_compute in H; discriminate H|]). contradiction.
Qed.

Lemma printable_not_surrogate c : printable c -> is_surrogate c = false.
Proof.
  intros H. apply in_ranges_true in H. destruct H as [r [Hin H]]. cbn [printable_ranges In] in Hin.
  unfold is_surrogate. apply andb_false_iff. rewrite !N.leb_gt.
  repeat (destruct Hin as [Hin|Hin]; [subst r; cbn [fst snd] in H; lia|]). contradiction.
Qed.

(* a printable character is a Unicode scalar value: the line can be encoded as UTF-8 *)
Lemma printable_scalar c : printable c -> (c <= 1114111)%N /\ is_surrogate c = false.
Proof. intros H. split; [pose proof (printable_bound c H); lia|apply printable_not_surrogate; exact H]. Qed.

(* every line break and every surrogate lies in the charset on which the table is exact *)
Lemma linebreaks_in_charset : forallb (fun c => in_ranges c exact_charset && negb (isprintable c)) linebreaks = true.
Proof. vm_compute. reflexivity. Qed.
Lemma surrogates_in_charset c : is_surrogate c = true -> in_ranges c exact_charset = true /\ isprintable c = false.
Proof.
  intros H. unfold is_surrogate in H. apply andb_true_iff in H. destruct H as [H1 H2]. apply N.leb_le in H1. apply N.leb_le in H2. split.
  - apply in_ranges_true. exists (55296, 63743)%N. split; [cbn; tauto|cbn [fst snd]; lia].
  - destruct (isprintable c) eqn:E; [|reflexivity]. apply printable_not_surrogate in E.
    unfold is_surrogate in E. apply andb_false_iff in E. rewrite !N.leb_gt in E. lia.
Qed.
(* the printable ranges lie inside the exact charset *)
Lemma printable_in_charset c : printable c -> in_ranges c exact_charset = true.
Proof.
  intros H. apply in_ranges_true in H. destruct H as [r [Hin H]]. cbn [printable_ranges In] in Hin. apply in_ranges_true.
  destruct Hin as [Hin|Hin]; [subst r; exists (0, 591)%N; split; [cbn; tauto|cbn [fst snd] in *; lia]|].
  destruct Hin as [Hin|Hin]; [subst r; exists (0, 591)%N; split; [cbn; tauto|cbn [fst snd] in *; lia]|].
  destruct Hin as [Hin|Hin]; [subst r; exists (0, 591)%N; split; [cbn; tauto|cbn [fst snd] in *; lia]|].
  destruct Hin as [Hin|Hin]; [subst r; exists (880, 887)%N; split; [cbn; tauto|exact H]|].
  destruct Hin as [Hin|Hin]; [subst r; exists (890, 895)%N; split; [cbn; tauto|exact H]|].
  destruct Hin as [Hin|Hin]; [subst r; exists (900, 906)%N; split; [cbn; tauto|exact H]|].
  destruct Hin as [Hin|Hin]; [subst r; exists (908, 908)%N; split; [cbn; tauto|exact H]|].
  destruct Hin as [Hin|Hin]; [subst r; exists (910, 929)%N; split; [cbn; tauto|exact H]|].
  destruct Hin as [Hin|Hin]; [subst r; exists (931, 1023)%N; split; [cbn; tauto|exact H]|].
  destruct Hin as [Hin|Hin]; [subst r; exists (8192, 8292)%N; split; [cbn; tauto|cbn [fst snd] in *; lia]|].
  destruct Hin as [Hin|Hin]; [subst r; exists (8192, 8292)%N; split; [cbn; tauto|cbn [fst snd] in *; lia]|].
  destruct Hin as [Hin|Hin]; [subst r; exists (8592, 8703)%N; split; [cbn; tauto|exact H]|].
  destruct Hin as [Hin|Hin]; [subst r; exists (9472, 9599)%N; split; [cbn; tauto|exact H]|].
  destruct Hin as [Hin|Hin]; [subst r; exists (19968, 40869)%N; split; [cbn; tauto|exact H]|].
  destruct Hin as [Hin|Hin]; [subst r; exists (65529, 65535)%N; split; [cbn; tauto|cbn [fst snd] in *; lia]|].
  destruct Hin as [Hin|Hin]; [subst r; exists (128512, 128591)%N; split; [cbn; tauto|exact H]|].
  contradiction.
Qed.

(* ---------- the escape emits printable ASCII only ---------- *)
Lemma hexdig_range d : (d < 16)%N -> (48 <= hexdig d <= 57)%N \/ (97 <= hexdig d <= 102)%N.
Proof.
  intros H. unfold hexdig. destruct (N.ltb d 10) eqn:E; [apply N.ltb_lt in E; left; lia|apply N.ltb_ge in E; right; lia].
Qed.
Lemma hexdig_printable d : (d < 16)%N -> printable (hexdig d).
Proof. intros H. apply ascii_printable. destruct (hexdig_range d H); lia. Qed.
Lemma hexdig_not_backslash d : (d < 16)%N -> hexdig d <> 92%N.
Proof. intros H. destruct (hexdig_range d H); lia. Qed.

Lemma hexn_plain n : forall c, plain (hexn n c).
Proof.
  induction n as [|n IH]; intros c; cbn [hexn]; [constructor|].
  apply Forall_app. split; [apply IH|]. constructor; [|constructor].
  apply hexdig_printable. apply N.mod_lt. discriminate.
Qed.

Lemma escape_char_plain c : plain (escape_char c).
Proof.
  unfold escape_char, plain. destruct (isprintable c) eqn:E; [constructor; [exact E|constructor]|].
  assert (B : printable 92%N) by reflexivity.
  destruct (N.eqb c 9); [repeat constructor|]. destruct (N.eqb c 10); [repeat constructor|]. destruct (N.eqb c 13); [repeat constructor|].
  destruct (N.ltb c 256); [constructor; [exact B|constructor; [reflexivity|apply hexn_plain]]|].
  destruct (N.ltb c 65536); constructor; try exact B; (constructor; [reflexivity|apply hexn_plain]).
Qed.

Lemma escape_text_plain t : plain (escape_text t).
Proof.
  unfold escape_text, plain. induction t as [|c t IH]; cbn [flat_map]; [constructor|].
  apply Forall_app. split; [apply escape_char_plain|exact IH].
Qed.

Lemma escape_text_cons c t : escape_text (c :: t) = escape_char c ++ escape_text t.
Proof. reflexivity. Qed.
Lemma escape_text_app a b : escape_text (a ++ b) = escape_text a ++ escape_text b.
Proof. unfold escape_text. apply flat_map_app. Qed.

(* a text without unprintable characters is shown as it is *)
Lemma escape_text_id t : plain t -> escape_text t = t.
Proof.
  induction 1 as [|c t Hc _ IH]; [reflexivity|].
  rewrite escape_text_cons, IH. unfold escape_char. unfold printable in Hc. rewrite Hc. reflexivity.
Qed.
(* ... and only such a text: the escape is the identity exactly on the printable texts *)
Lemma escape_text_fix t : escape_text t = t -> plain t.
Proof. intros H. rewrite <- H. apply escape_text_plain. Qed.

(* ---------- lines ---------- *)
Lemma line_prefix_plain p last : plain (line_prefix p last).
Proof.
  unfold line_prefix, plain. apply Forall_app. split.
  - induction (rev p) as [|b l IH]; cbn [flat_map]; [constructor|]. apply Forall_app. split; [|exact IH].
    destruct b; repeat constructor.
  - apply Forall_app. split; [destruct last; repeat constructor|repeat constructor].
Qed.

Lemma node_text_plain tag r : plain (node_text tag r).
Proof. apply escape_text_plain. Qed.

Lemma print_rest_length tag : forall rows prev prefix, length (print_rest tag prev prefix rows) = length rows.
Proof. induction rows as [|r rs IH]; intros prev prefix; cbn [print_rest length]; [reflexivity|]. rewrite IH. reflexivity. Qed.

Lemma print_rest_plain tag : forall rows prev prefix, Forall plain (print_rest tag prev prefix rows).
Proof.
  induction rows as [|r rs IH]; intros prev prefix; cbn [print_rest]; [constructor|]. constructor; [|apply IH].
  apply Forall_app. split; [apply line_prefix_plain|apply node_text_plain].
Qed.

Lemma print_lines_length tag rows : length (print_lines tag rows) = length rows.
Proof. destruct rows as [|r rs]; cbn [print_lines length]; [reflexivity|]. rewrite print_rest_length. reflexivity. Qed.

Lemma print_lines_plain tag rows : Forall plain (print_lines tag rows).
Proof. destruct rows as [|r rs]; cbn [print_lines]; [constructor|]. constructor; [apply node_text_plain|apply print_rest_plain]. Qed.

(* the i-th line ends with the text of the i-th row: every line is the line OF its row *)
Lemma print_rest_nth tag : forall rows prev prefix i r, nth_error rows i = Some r ->
  exists pre, plain pre /\ nth_error (print_rest tag prev prefix rows) i = Some (pre ++ node_text tag r).
Proof.
  induction rows as [|r0 rs IH]; intros prev prefix i r H; [destruct i; discriminate H|].
  destruct i as [|i]; cbn [nth_error print_rest] in *.
  - injection H as H. subst r0. eexists. split; [apply line_prefix_plain|reflexivity].
  - apply IH. exact H.
Qed.
Lemma print_lines_nth tag rows i r : nth_error rows i = Some r ->
  exists pre, plain pre /\ nth_error (print_lines tag rows) i = Some (pre ++ node_text tag r).
Proof.
  destruct rows as [|r0 rs]; intros H; [destruct i; discriminate H|]. destruct i as [|i]; cbn [nth_error print_lines] in *.
  - injection H as H. subst r0. exists []. split; [constructor|reflexivity].
  - apply print_rest_nth. exact H.
Qed.

(* ---------- the text as a whole: splitting it at line feeds gives the lines back, and it holds no other line break ---------- *)
Lemma no_break_filter l : Forall (fun c => is_linebreak c = false) l -> filter is_linebreak l = [].
Proof. induction 1 as [|c l Hc _ IH]; cbn [filter]; [reflexivity|]. rewrite Hc. exact IH. Qed.

Lemma plain_no_break l : plain l -> Forall (fun c => is_linebreak c = false) l.
Proof. intros H. eapply Forall_impl; [|exact H]. intros c Hc. apply printable_not_linebreak. exact Hc. Qed.

Lemma join_cons2 sep x y l : join sep (x :: y :: l) = x ++ sep ++ join sep (y :: l).
Proof. reflexivity. Qed.

Lemma breaks_of_join ls : Forall plain ls -> length (filter is_linebreak (join [10%N] ls)) = pred (length ls).
Proof.
  induction 1 as [|x ls Hx Hls IH]; [reflexivity|]. destruct ls as [|y ls].
  - cbn [join length pred]. rewrite no_break_filter; [reflexivity|apply plain_no_break; exact Hx].
  - rewrite join_cons2, !filter_app, !app_length, IH. rewrite no_break_filter by (apply plain_no_break; exact Hx).
    cbn. reflexivity.
Qed.

Lemma split_on_no_sep sep x : ~ In sep x -> split_on sep x = [x].
Proof.
  induction x as [|c x IH]; intros H; cbn [split_on]; [reflexivity|].
  destruct (N.eqb c sep) eqn:E; [apply N.eqb_eq in E; subst c; exfalso; apply H; left; reflexivity|].
  rewrite IH; [reflexivity|]. intros Hin. apply H. right. exact Hin.
Qed.
Lemma split_on_app_sep sep x rest : ~ In sep x -> split_on sep (x ++ sep :: rest) = x :: split_on sep rest.
Proof.
  induction x as [|c x IH]; intros H; cbn [split_on app].
  - rewrite N.eqb_refl. reflexivity.
  - destruct (N.eqb c sep) eqn:E; [apply N.eqb_eq in E; subst c; exfalso; apply H; left; reflexivity|].
    rewrite IH; [reflexivity|]. intros Hin. apply H. right. exact Hin.
Qed.
Lemma plain_no_lf x : plain x -> ~ In 10%N x.
Proof.
  intros H Hin. unfold plain in H. rewrite Forall_forall in H. specialize (H _ Hin). vm_compute in H. discriminate H.
Qed.
Lemma split_join_lines ls : ls <> [] -> Forall plain ls -> split_on 10 (join [10%N] ls) = ls.
Proof.
  intros Hne H. induction H as [|x ls Hx Hls IH]; [contradiction Hne; reflexivity|]. destruct ls as [|y ls].
  - cbn [join]. apply split_on_no_sep. apply plain_no_lf. exact Hx.
  - rewrite join_cons2. cbn [app]. rewrite split_on_app_sep by (apply plain_no_lf; exact Hx).
    rewrite IH by discriminate. reflexivity.
Qed.

(* ---------- C13_one_line_per_row ---------- *)
Theorem one_line_per_row : forall (tag : pstr) (rows : list row),
  length (print_lines tag rows) = length rows
  /\ Forall (Forall (fun c => isprintable c = true /\ is_linebreak c = false /\ is_surrogate c = false /\ (c <= 1114111)%N))
            (print_lines tag rows)
  /\ (forall i r, nth_error rows i = Some r ->
        exists pre, Forall (fun c => isprintable c = true) pre /\ nth_error (print_lines tag rows) i = Some (pre ++ node_text tag r))
  /\ print_tree tag rows = join [10%N] (print_lines tag rows)
  /\ length (filter is_linebreak (print_tree tag rows)) = pred (length rows)
  /\ (rows <> [] -> split_on 10 (print_tree tag rows) = print_lines tag rows).
Proof.
  intros tag rows. split; [apply print_lines_length|]. split.
  { eapply Forall_impl; [|apply print_lines_plain]. intros l Hl. eapply Forall_impl; [|exact Hl]. intros c Hc.
    split; [exact Hc|]. split; [apply printable_not_linebreak; exact Hc|]. destruct (printable_scalar c Hc) as [A B].
    split; [exact B|exact A]. }
  split; [intros i r H; apply print_lines_nth; exact H|]. split; [reflexivity|]. split.
  - unfold print_tree. rewrite breaks_of_join by apply print_lines_plain. rewrite print_lines_length. reflexivity.
  - intros Hne. unfold print_tree. apply split_join_lines; [|apply print_lines_plain].
    destruct rows; [contradiction Hne; reflexivity|discriminate].
Qed.

(* ---------- the escape loses nothing on texts without a backslash ---------- *)
Lemma hexval1_hexdig d : (d < 16)%N -> hexval1 (hexdig d) = d.
Proof.
  intros H. unfold hexval1, hexdig. destruct (N.ltb d 10) eqn:E.
  - apply N.ltb_lt in E. assert (F : N.ltb (48 + d) 58 = true) by (apply N.ltb_lt; lia). rewrite F. lia.
  - apply N.ltb_ge in E. assert (F : N.ltb (87 + d) 58 = false) by (apply N.ltb_ge; lia). rewrite F. lia.
Qed.
Lemma hexval_snoc l d : hexval (l ++ [d]) = (hexval l * 16 + hexval1 d)%N.
Proof. unfold hexval. rewrite fold_left_app. reflexivity. Qed.
Lemma hexval_hexn n : forall c, (c < 16 ^ N.of_nat n)%N -> hexval (hexn n c) = c.
Proof.
  induction n as [|n IH]; intros c H.
  - cbn in H. assert (c = 0%N) by lia. subst c. reflexivity.
  - cbn [hexn]. rewrite hexval_snoc, hexval1_hexdig by (apply N.mod_lt; discriminate).
    rewrite Nat2N.inj_succ, N.pow_succ_r' in H.
    rewrite IH by (apply N.div_lt_upper_bound; [discriminate|exact H]).
    assert (D : c = (16 * (c / 16) + c mod 16)%N) by (apply N.div_mod; discriminate).
    assert (Hr : (c mod 16 < 16)%N) by (apply N.mod_lt; discriminate).
    set (q := (c / 16)%N) in *. set (r := (c mod 16)%N) in *. clearbody q r. lia.
Qed.

Lemma hexn2 c : hexn 2 c = [hexdig (c / 16 mod 16); hexdig (c mod 16)]%N.
Proof. reflexivity. Qed.
Lemma hexn4 c : hexn 4 c = [hexdig (c / 16 / 16 / 16 mod 16); hexdig (c / 16 / 16 mod 16); hexdig (c / 16 mod 16); hexdig (c mod 16)]%N.
Proof. reflexivity. Qed.
Lemma hexn8 c : hexn 8 c = [hexdig (c / 16 / 16 / 16 / 16 / 16 / 16 / 16 mod 16); hexdig (c / 16 / 16 / 16 / 16 / 16 / 16 mod 16);
                             hexdig (c / 16 / 16 / 16 / 16 / 16 mod 16); hexdig (c / 16 / 16 / 16 / 16 mod 16);
                             hexdig (c / 16 / 16 / 16 mod 16); hexdig (c / 16 / 16 mod 16); hexdig (c / 16 mod 16); hexdig (c mod 16)]%N.
Proof. reflexivity. Qed.

Lemma unescape_other c E : c <> 92%N -> unescape_text (c :: E) = c :: unescape_text E.
Proof. intros H. cbn [unescape_text]. apply N.eqb_neq in H. rewrite H. reflexivity. Qed.
Lemma unescape_t E : unescape_text (92 :: 116 :: E)%N = 9%N :: unescape_text E.
Proof. reflexivity. Qed.
Lemma unescape_n E : unescape_text (92 :: 110 :: E)%N = 10%N :: unescape_text E.
Proof. reflexivity. Qed.
Lemma unescape_r E : unescape_text (92 :: 114 :: E)%N = 13%N :: unescape_text E.
Proof. reflexivity. Qed.
Lemma unescape_x a b E : unescape_text (92 :: 120 :: a :: b :: E)%N = hexval [a; b] :: unescape_text E.
Proof. reflexivity. Qed.
Lemma unescape_u a b c d E : unescape_text (92 :: 117 :: a :: b :: c :: d :: E)%N = hexval [a; b; c; d] :: unescape_text E.
Proof. reflexivity. Qed.
Lemma unescape_U a b c d e f g h E :
  unescape_text (92 :: 85 :: a :: b :: c :: d :: e :: f :: g :: h :: E)%N = hexval [a; b; c; d; e; f; g; h] :: unescape_text E.
Proof. reflexivity. Qed.

(* texts of Unicode code points without a backslash *)
Definition no_backslash (t : pstr) : Prop := Forall (fun c => c <> 92%N /\ (c <= 1114111)%N) t.

Lemma unescape_escape t : no_backslash t -> unescape_text (escape_text t) = t.
Proof.
  induction 1 as [|c t [Hc Hb] _ IH]; [reflexivity|]. rewrite escape_text_cons. unfold escape_char.
  destruct (isprintable c) eqn:P; [cbn [app]; rewrite unescape_other by exact Hc; rewrite IH; reflexivity|].
  destruct (N.eqb c 9) eqn:E9; [apply N.eqb_eq in E9; subst c; cbn [app]; rewrite unescape_t, IH; reflexivity|].
  destruct (N.eqb c 10) eqn:E10; [apply N.eqb_eq in E10; subst c; cbn [app]; rewrite unescape_n, IH; reflexivity|].
  destruct (N.eqb c 13) eqn:E13; [apply N.eqb_eq in E13; subst c; cbn [app]; rewrite unescape_r, IH; reflexivity|].
  destruct (N.ltb c 256) eqn:L1.
  { apply N.ltb_lt in L1. rewrite hexn2. cbn [app]. rewrite unescape_x, IH, <- hexn2. rewrite hexval_hexn; [reflexivity|].
    change (16 ^ N.of_nat 2)%N with 256%N. exact L1. }
  destruct (N.ltb c 65536) eqn:L2.
  { apply N.ltb_lt in L2. rewrite hexn4. cbn [app]. rewrite unescape_u, IH, <- hexn4. rewrite hexval_hexn; [reflexivity|].
    change (16 ^ N.of_nat 4)%N with 65536%N. exact L2. }
  rewrite hexn8. cbn [app]. rewrite unescape_U, IH, <- hexn8. rewrite hexval_hexn; [reflexivity|].
  change (16 ^ N.of_nat 8)%N with 4294967296%N. lia.
Qed.

Theorem escape_text_injective t1 t2 : no_backslash t1 -> no_backslash t2 -> escape_text t1 = escape_text t2 -> t1 = t2.
Proof.
  intros H1 H2 H. rewrite <- (unescape_escape t1 H1), <- (unescape_escape t2 H2), H. reflexivity.
Qed.

(* two rows at the same place of the tree (same drawing prefix) whose texts differ print different lines *)
Theorem lines_injective pre tag r1 r2 :
  no_backslash (r_key r1 ++ s ": " ++ label [] tag r1) -> no_backslash (r_key r2 ++ s ": " ++ label [] tag r2) ->
  pre ++ node_text tag r1 = pre ++ node_text tag r2 ->
  r_key r1 ++ s ": " ++ label [] tag r1 = r_key r2 ++ s ": " ++ label [] tag r2.
Proof.
  intros H1 H2 H. apply app_inv_head in H. unfold node_text in H. apply escape_text_injective; assumption.
Qed.
