(* Induction principle and the subterm relation for node trees. *)
From Skv Require Import Node.

Section NodeInd.
  Variable P : node -> Prop.
  Hypothesis HN : forall h subs, Forall P subs -> P (Node h subs).
  Hypothesis HR : forall sl id, P (Ref sl id).
  Hypothesis HL : forall sl l, P (Leaf sl l).

  Fixpoint node_ind' (n : node) : P n :=
    match n with
    | Node h subs =>
        HN h subs ((fix go (l : list node) : Forall P l :=
                      match l with
                      | [] => Forall_nil P
                      | x :: l' => Forall_cons x (node_ind' x) (go l')
                      end) subs)
    | Ref sl id => HR sl id
    | Leaf sl l => HL sl l
    end.
End NodeInd.

(* sub n t : n occurs in the tree t (Refs are leaves of the tree) *)
Inductive sub (n : node) : node -> Prop :=
| sub_refl : sub n n
| sub_step h subs x : In x subs -> sub n x -> sub n (Node h subs).

Lemma sub_trans a b c : sub a b -> sub b c -> sub a c.
Proof.
  intros Hab Hbc. induction Hbc as [|h subs x Hin Hbx IH]; [exact Hab|].
  eapply sub_step; eauto.
Qed.
