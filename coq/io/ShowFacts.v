(* Decimal rendering (Corr.show_N / show_Z): digits only, and injective. *)
From Skv Require Import PyStr Corr.
From Coq Require Import Lia.

Definition isdig (c : N) : Prop := (48 <= c <= 57)%N.
Definition dval (a0 : N) (l : pstr) : N := fold_left (fun a c => (a * 10 + (c - 48))%N) l a0.

Lemma show_pos_digits fuel : forall n acc, Forall isdig acc -> Forall isdig (show_pos_fuel fuel n acc).
Proof.
  induction fuel as [|f IH]; intros n acc Ha; cbn [show_pos_fuel]; [exact Ha|].
  assert (Hd : isdig (48 + n mod 10)%N).
  { unfold isdig. assert (Hr : (n mod 10 < 10)%N) by (apply N.mod_upper_bound; discriminate).
    generalize dependent (n mod 10)%N. intros r Hr. lia. }
  destruct (n <? 10)%N; [constructor; assumption|]. apply IH. constructor; assumption.
Qed.

Lemma show_pos_val fuel : forall n acc, (n < 2 ^ N.of_nat fuel)%N -> dval 0 (show_pos_fuel fuel n acc) = dval n acc.
Proof.
  induction fuel as [|f IH]; intros n acc Hn; cbn [show_pos_fuel].
  - cbn in Hn. assert (n = 0%N) by lia. subst. reflexivity.
  - destruct (n <? 10)%N eqn:Hlt.
    + apply N.ltb_lt in Hlt. rewrite N.mod_small by exact Hlt. unfold dval. cbn [fold_left].
      replace (0 * 10 + (48 + n - 48))%N with n by lia. reflexivity.
    + apply N.ltb_ge in Hlt.
      assert (Hdm : n = (10 * (n / 10) + n mod 10)%N) by (apply N.div_mod; discriminate).
      assert (Hr : (n mod 10 < 10)%N) by (apply N.mod_upper_bound; discriminate).
      rewrite IH.
      * unfold dval. cbn [fold_left]. replace (n / 10 * 10 + (48 + n mod 10 - 48))%N with n; [reflexivity|].
        generalize dependent (n mod 10)%N. generalize (n / 10)%N. intros q r Hdm Hr. lia.
      * rewrite Nat2N.inj_succ, N.pow_succ_r' in Hn.
        generalize dependent (n mod 10)%N. generalize dependent (n / 10)%N. intros q r Hdm Hr. lia.
Qed.

Lemma show_N_val n : dval 0 (show_N n) = n.
Proof.
  unfold show_N. rewrite show_pos_val; [reflexivity|].
  rewrite Nat2N.inj_succ, N2Nat.id. destruct n as [|p]; [cbn; lia|]. apply N.log2_spec. lia.
Qed.
Lemma show_N_inj a b : show_N a = show_N b -> a = b.
Proof. intros H. rewrite <- (show_N_val a), <- (show_N_val b), H. reflexivity. Qed.
Lemma show_N_digits n : Forall isdig (show_N n).
Proof. apply show_pos_digits. constructor. Qed.
Lemma show_pos_nonempty fuel : forall n acc, acc <> [] -> show_pos_fuel fuel n acc <> [].
Proof.
  induction fuel as [|f IH]; intros n acc Ha; cbn [show_pos_fuel]; [exact Ha|].
  destruct (n <? 10)%N; [discriminate|apply IH; discriminate].
Qed.
Lemma show_N_nonempty n : show_N n <> [].
Proof.
  unfold show_N. cbn [show_pos_fuel]. destruct (n <? 10)%N; [discriminate|]. apply show_pos_nonempty. discriminate.
Qed.

Lemma show_Z_inj a b : show_Z a = show_Z b -> a = b.
Proof.
  assert (Hpos : forall p, show_N (Npos p) <> [48%N]).
  { intros p H. pose proof (show_N_val (Npos p)) as Hv. rewrite H in Hv. cbn in Hv. discriminate. }
  assert (Hneg : forall p l, show_N p <> 45%N :: l).
  { intros p l H. pose proof (show_N_digits p) as Hd. rewrite H in Hd. inversion Hd as [|? ? Hx _]; subst. unfold isdig in Hx. lia. }
  destruct a as [|p|p], b as [|q|q]; cbn [show_Z]; intros H; try reflexivity.
  - symmetry in H. apply Hpos in H. contradiction.
  - discriminate H.
  - apply Hpos in H. contradiction.
  - apply show_N_inj in H. congruence.
  - apply Hneg in H. contradiction.
  - discriminate H.
  - symmetry in H. apply Hneg in H. contradiction.
  - injection H as H. apply show_N_inj in H. congruence.
Qed.

(* characters of a rendered integer: digits or the minus sign *)
Lemma show_Z_chars z : Forall (fun c => isdig c \/ c = 45%N) (show_Z z).
Proof.
  assert (H : forall n, Forall (fun c => isdig c \/ c = 45%N) (show_N n)).
  { intros n. eapply Forall_impl; [|apply show_N_digits]. intros c Hc. left. exact Hc. }
  destruct z; cbn [show_Z]; [constructor; [left; unfold isdig; lia|constructor]|apply H|constructor; [right; reflexivity|apply H]].
Qed.
