(* The dump side: get_state (every *_get_state function of skops/io/_general.py, _numpy.py,
   _scipy.py), member naming and _save.  JSON objects are ordered field lists: the field order
   is the insertion order of the Python dicts.  Model only. *)
From Skv Require Export PyVal.

Inductive mkind := MBin | MNpy | MNpz.
Definition blob := (mkind * pstr)%type.            (* zip member content: kind + opaque token *)

(* what the code reads from its environment *)
Record denv := {
  dn_tyids : list (pstr * Z);      (* id() of the type objects that occur as dict key types *)
  dn_cur : Z;                      (* PROTOCOL *)
  dn_version : pstr                (* skops.__version__ *)
}.

(* SaveContext + allocator: ids of the objects the dumper itself creates are d_next, d_next+1, ...;
   uuid4() yields the d_uuid-th fresh token *)
Record dst := {
  d_next : Z;
  d_uuid : N;
  d_members : list (pstr * blob);  (* zip_file.writestr calls, in order *)
  d_late : option err              (* json.dumps(state) in _save will raise this *)
}.

Definition fresh (st : dst) : Z * dst :=
  (d_next st, {| d_next := d_next st + 1; d_uuid := d_uuid st; d_members := d_members st; d_late := d_late st |}).
Definition fresh_uuid (st : dst) : N * dst :=
  (d_uuid st, {| d_next := d_next st; d_uuid := d_uuid st + 1; d_members := d_members st; d_late := d_late st |}).
Definition has_member (name : pstr) (st : dst) : bool := mem name (map fst (d_members st)).
Definition write_member (name : pstr) (b : blob) (st : dst) : dst :=
  {| d_next := d_next st; d_uuid := d_uuid st; d_members := d_members st ++ [(name, b)]; d_late := d_late st |}.
Definition set_late (e : err) (st : dst) : dst :=
  {| d_next := d_next st; d_uuid := d_uuid st; d_members := d_members st;
     d_late := match d_late st with Some e0 => Some e0 | None => Some e end |}.

(* CPython's small-int cache and the empty-tuple singleton: objects the dumper obtains from
   obj.shape are these shared objects, not fresh ones *)
Definition small_int_base : Z := 100000.
Definition empty_tuple_id : Z := 99000.
Definition is_small_int (z : Z) : bool := ((-5 <=? z) && (z <=? 256))%Z.
Definition int_obj (z : Z) (st : dst) : Z * dst :=
  if is_small_int z then ((small_int_base + z)%Z, st) else fresh st.

Definition uuid_name (n : N) : pstr := s "u" ++ show_N n ++ s ".bin".
Definition npy_name (id : Z) : pstr := show_Z id ++ s ".npy".
Definition npz_name (id : Z) : pstr := show_Z id ++ s ".npz".

Definition K := s.

(* res = {"__class__":…, "__module__":…, "__loader__":…, <fields>};  get_state adds "__id__" last *)
Definition node_state (c m loader : pstr) (fields : list (pstr * json)) (id : Z) : json :=
  JObj ((K "__class__", JStr c) :: (K "__module__", JStr m) :: (K "__loader__", JStr loader)
        :: fields ++ [(K "__id__", JInt id)]).

Definition json_state (text : pstr) (id : Z) : json :=
  node_state (K "str") (K "builtins") (K "JsonNode") [(K "content", JStr text); (K "is_json", JBool true)] id.

Definition type_state (c m : pstr) (id : Z) : json := node_state c m (K "TypeNode") [] id.

Definition list_state (items : list json) (id : Z) : json :=
  node_state (K "list") (K "builtins") (K "ListNode") [(K "content", JArr items)] id.

Definition sbound_json (b : sbound) (st : dst) : res (json * dst) :=
  match b with
  | BScalar SNone => Ok (JNull, st)
  | BScalar (SBool x) => Ok (JBool x, st)
  | BScalar (SInt z) => Ok (JInt z, st)
  | BScalar (SStr t) => Ok (JStr t, st)
  | BScalar (SFloat _) => Raise EDomain        (* Json.v carries half-integer floats only *)
  | BOther => Ok (JNull, set_late EType st)
  end.

(* get_state([type(key) for key in obj.keys()]) *)
Fixpoint key_type_states (E : denv) (ks : list dkey) : res (list json) :=
  match ks with
  | [] => Ok []
  | k :: ks' =>
      match dget (qual (k_mod k) (k_cls k)) (dn_tyids E) with
      | None => Raise EDomain
      | Some tid => do rest <- key_type_states E ks'; Ok (type_state (k_cls k) (k_mod k) tid :: rest)
      end
  end.

(* get_state(obj.shape) *)
Fixpoint shape_items (dims : list Z) (st : dst) : list json * dst :=
  match dims with
  | [] => ([], st)
  | d :: dims' =>
      let (i, st1) := int_obj d st in
      let (rest, st2) := shape_items dims' st1 in
      (json_state (show_Z d) i :: rest, st2)
  end.
Definition shape_state (dims : list Z) (st : dst) : json * dst :=
  let (tid, st0) := match dims with [] => (empty_tuple_id, st) | _ => fresh st end in
  let (items, st1) := shape_items dims st0 in
  (node_state (K "tuple") (K "builtins") (K "TupleNode") [(K "content", JArr items)] tid, st1).

(* closures: get_state of one object, waiting for the SaveContext *)
Definition clo := dst -> res (json * dst).

(* one closure after the other *)
Fixpoint run_all (cs : list clo) (st : dst) {struct cs} : res (list json * dst) :=
  match cs with
  | [] => Ok ([], st)
  | c :: cs' => do (j, st1) <- c st; do (js, st2) <- run_all cs' st1; Ok (j :: js, st2)
  end.

(* d consecutive groups of k elements *)
Fixpoint chunks {A} (k d : nat) (l : list A) {struct d} : list (list A) :=
  match d with O => [] | S d' => firstn k l :: chunks k d' (skipn k l) end.
Fixpoint nprod (l : list nat) : nat := match l with [] => 1%nat | x :: l' => (x * nprod l')%nat end.
Fixpoint zprod (l : list Z) : Z := match l with [] => 1%Z | x :: l' => (x * zprod l')%Z end.

(* an object array as the model represents it: no negative axis, as many cells (C order) as the shape says *)
Definition shape_okb (shape : list Z) (ncells : nat) : bool :=
  forallb (fun d => (0 <=? d)%Z) shape && Z.eqb (zprod shape) (Z.of_nat ncells).

(* get_state(x) for x = a.tolist(), a a sub-array of shape dims with cells cs (C order): a fresh list per axis around
   the states of the sub-arrays below it (a zero-length axis: an empty list); for no axis left, the cell itself *)
Fixpoint tolist_state (dims : list nat) (cs : list clo) {struct dims} : clo :=
  match dims with
  | [] => match cs with [c] => c | _ => fun _ => Raise EDomain end
  | d :: dims' => fun st =>
      let (lid, st0) := fresh st in
      do (items, st1) <- run_all (map (tolist_state dims') (chunks (nprod dims') d cs)) st0;
      Ok (list_state items lid, st1)
  end.

(* the items of the list whose "content" ndarray_get_state keeps: obj.tolist() when obj.ndim >= 1, the one-element list
   [obj.tolist()] around the cell when obj.ndim = 0 (the repair of C13-F1 / D10) *)
Definition content_clos (dims : list nat) (cs : list clo) : list clo :=
  match dims with
  | [] => [tolist_state [] cs]
  | d :: dims' => map (tolist_state dims') (chunks (nprod dims') d cs)
  end.

(* the state-threading loops of the *_get_state functions, over an arbitrary element function *)
Definition stf := pval -> dst -> res (json * dst).

Definition is_prop (v : pval) : bool := match v with PProp _ => true | _ => false end.

(* _json_key(key) in json_keys: the text json would store the key under was already used by an earlier key of
   the same dict (`acc` holds exactly the texts used so far; a key json refuses, k_val = None, is not checked) *)
Definition key_collides (k : dkey) (acc : list (pstr * json)) : bool :=
  match k_val k with Some sc => mem (key_text sc) (map fst acc) | None => false end.

Section Loops.
  Variable f : stf.

  Fixpoint states_of (l : list pval) (st : dst) {struct l} : res (list json * dst) :=
    match l with
    | [] => Ok ([], st)
    | x :: l' => do (j, st1) <- f x st; do (js, st2) <- states_of l' st1; Ok (j :: js, st2)
    end.

  (* the loop of dict_get_state: a key whose JSON text was used by an earlier kept key of this dict raises
     ValueError when it is met -- after the earlier values were serialised, before its own value is *)
  Fixpoint content_of (l : list (dkey * pval)) (acc : list (pstr * json)) (st : dst) {struct l}
    : res (list (pstr * json) * dst) :=
    match l with
    | [] => Ok (acc, st)
    | (k, x) :: l' =>
        if is_prop x then content_of l' acc st            (* isinstance(value, property): continue *)
        else if key_collides k acc then Raise EValue
        else
          do (j, st1) <- f x st;
          match k_val k with
          | Some sc => content_of l' (jset (key_text sc) j acc) st1
          | None => content_of l' acc (set_late EType st1)
          end
    end.
End Loops.

Definition dict_state (c m : pstr) (cont : list (pstr * json)) (kts : list json) (ktid id : Z) : json :=
  node_state c m (K "DictNode") [(K "content", JObj cont); (K "key_types", list_state kts ktid)] id.

Fixpoint get_state (E : denv) (v : pval) (st : dst) {struct v} : res (json * dst) :=
  let states := states_of (fun x s0 => get_state E x s0) in
  let closures := map (fun x s0 => get_state E x s0) in
  let content := content_of (fun x s0 => get_state E x s0) in
  match v with
  | PScalar id sc => Ok (json_state (json_text sc) id, st)
  | PSub id _ _ sc => Ok (json_state (json_text sc) id, st)
  | PBytes id ba m c tok =>
      let (u, st1) := fresh_uuid st in
      let f := uuid_name u in
      Ok (node_state c m (if ba then K "BytearrayNode" else K "BytesNode") [(K "file", JStr f)] id,
          write_member f (MBin, tok) st1)
  | PSeq q id m c _ items =>
      do (js, st1) <- states items st;
      Ok (node_state c m (match q with QList => K "ListNode" | QTuple => K "TupleNode" | QSet => K "SetNode" end)
            [(K "content", JArr js)] id, st1)
  | PDict id m c items =>
      let (ktid, st0) := fresh st in
      do kts <- key_type_states E (map fst items);
      do (cont, st1) <- content items [] st0;
      Ok (dict_state c m cont kts ktid id, st1)
  | PDefDict id m c factory items =>
      let (did, st0) := fresh st in                       (* dict(obj) *)
      let (ktid, st0') := fresh st0 in
      do kts <- key_type_states E (map fst items);
      do (cont, st1) <- content items [] st0';
      let main := dict_state (K "dict") (K "builtins") cont kts ktid did in
      do (fac, st2) <- get_state E factory st1;
      Ok (node_state c m (K "DefaultDictNode")
            [(K "content", JObj [(K "main", main); (K "default_factory", fac)])] id, st2)
  | PProp _ => Raise EType                                (* property.__reduce__(): cannot pickle *)
  | PSlice id a b c =>
      do (ja, st1) <- sbound_json a st;
      do (jb, st2) <- sbound_json b st1;
      do (jc, st3) <- sbound_json c st2;
      Ok (node_state (K "slice") (K "builtins") (K "SliceNode")
            [(K "content", JObj [(K "start", ja); (K "stop", jb); (K "step", jc)])] id, st3)
  | PArr id _ m c tok =>
      let f := npy_name id in
      Ok (node_state c m (K "NdArrayNode") [(K "type", JStr (K "numpy")); (K "file", JStr f)] id,
          if has_member f st then st else write_member f (MNpy, tok) st)
  | PObjArr id m c shape cells =>
      if shape_okb shape (length cells) then
        let (lid, st0) := fresh st in                       (* the list whose content is kept; its own state (and id) is dropped *)
        do (items, st1) <- run_all (content_clos (map Z.to_nat shape) (closures cells)) st0;
        let (sh, st2) := shape_state shape st1 in
        Ok (node_state c m (K "NdArrayNode")
              [(K "content", JArr items); (K "type", JStr (K "json")); (K "shape", sh)] id, st2)
      else Raise EDomain                                    (* not an array: outside the model *)
  | PMasked id m c data mask =>
      do (jd, st1) <- get_state E data st;
      do (jm, st2) <- get_state E mask st1;
      Ok (node_state c m (K "MaskedArrayNode")
            [(K "content", JObj [(K "data", jd); (K "mask", jm)])] id, st2)
  | PDType id tok =>
      let (tid, st0) := fresh st in                       (* np.ndarray(0, dtype=obj) *)
      let f := npy_name tid in
      let inner := node_state (K "ndarray") (K "numpy") (K "NdArrayNode")
                     [(K "type", JStr (K "numpy")); (K "file", JStr f)] tid in
      Ok (node_state (K "dtype") (K "numpy") (K "DTypeNode") [(K "content", inner)] id,
          if has_member f st0 then st0 else write_member f (MNpy, s "dt:" ++ tok) st0)
  | PRandState id m c stv =>
      do (j, st1) <- get_state E stv st;
      Ok (node_state c m (K "RandomStateNode") [(K "content", j)] id, st1)
  | PRandGen id m c bg ss =>
      do (jb, st1) <- get_state E bg st;
      do (js, st2) <- get_state E ss st1;
      Ok (node_state c m (K "RandomGeneratorNode")
            [(K "content", JObj [(K "bit_generator", jb); (K "seed_seq", js)])] id, st2)
  | PSparse id m c tok =>
      let f := npz_name id in
      Ok (node_state c m (K "SparseMatrixNode") [(K "type", JStr (K "scipy")); (K "file", JStr f)] id,
          if has_member f st then st else write_member f (MNpz, tok) st)
  | PFunc id m c => Ok (node_state c m (K "FunctionNode") [] id, st)
  | PType id m c => Ok (type_state c m id, st)
  | PPartial id m _ func args kwds ns =>
      do (jf, st1) <- get_state E func st;
      do (ja, st2) <- get_state E args st1;
      do (jk, st3) <- get_state E kwds st2;
      do (jn, st4) <- get_state E ns st3;
      Ok (node_state (K "partial") m (K "PartialNode")
            [(K "content", JObj [(K "func", jf); (K "args", ja); (K "kwds", jk); (K "namespace", jn)])] id, st4)
  | POpFunc id c attrs =>
      do (ja, st1) <- get_state E attrs st;
      Ok (node_state c (K "operator") (K "OperatorFuncNode") [(K "attrs", ja)] id, st1)
  | PMethod id m fname self =>
      do (jo, st1) <- get_state E self st;
      Ok (node_state (K "method") m (K "MethodNode")
            [(K "content", JObj [(K "func", JStr fname); (K "obj", jo)])] id, st1)
  | PObj id m c _ _ ok arg =>
      match ok with
      | OKRaise e => Raise e
      | OKReduce =>
          do (ja, st1) <- get_state E arg st;
          Ok (node_state c m (K "ConstructorFromReduceNode") [(K "content", ja)] id, st1)
      | OKState =>
          do (ja, st1) <- get_state E arg st;
          Ok (node_state c m (K "ObjectNode") [(K "content", ja)] id, st1)
      | OKNoState => Ok (node_state c m (K "ObjectNode") [] id, st)
      end
  | PUnsup _ _ _ => Raise EUnsupported
  end.

Record archive := { a_schema : json; a_members : list (pstr * blob) }.

Definition init_dst (base : Z) : dst := {| d_next := base; d_uuid := 0; d_members := []; d_late := None |}.

(* _save: get_state, then "protocol" and "_skops_version", then json.dumps(state) *)
Definition dumps_model (E : denv) (base : Z) (v : pval) : res archive :=
  do (j, st) <- get_state E v (init_dst base);
  match j with
  | JObj kv =>
      match d_late st with
      | Some e => Raise e
      | None => Ok {| a_schema := JObj (kv ++ [(K "protocol", JInt (dn_cur E)); (K "_skops_version", JStr (dn_version E))]);
                      a_members := d_members st |}
      end
  | _ => Raise EOther
  end.

(* zipfile namelist: members in write order, schema.json last *)
Definition member_names (a : archive) : list pstr := map fst (a_members a) ++ [s "schema.json"].

(* every "__loader__" name get_state can emit *)
Definition model_loaders : list pstr :=
  [K "JsonNode"; K "BytesNode"; K "BytearrayNode"; K "ListNode"; K "TupleNode"; K "SetNode"; K "DictNode";
   K "DefaultDictNode"; K "TypeNode"; K "SliceNode"; K "NdArrayNode"; K "MaskedArrayNode"; K "DTypeNode";
   K "RandomStateNode"; K "RandomGeneratorNode"; K "SparseMatrixNode"; K "FunctionNode"; K "PartialNode";
   K "OperatorFuncNode"; K "MethodNode"; K "ConstructorFromReduceNode"; K "ObjectNode"].
