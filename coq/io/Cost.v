(* How many node visits the audit makes: a shared child is re-audited at every reference (finding D11). *)
From Skv Require Import Node GetTree Unsafe.

(* number of Node visits performed by get_unsafe_set on the graph (same recursion as unsafe_g) *)
Fixpoint visits_g (root : node) (fuel : nat) (path : list hkey) (n : node) : nat :=
  match fuel with
  | O => O
  | S fuel' =>
      match n with
      | Ref _ id => match find_id id root with Some target => visits_g root fuel' path target | None => O end
      | Leaf _ _ => O
      | Node h subs =>
          match ukind_of (h_kind h) with
          | UGeneric =>
              if on_path h path then 1
              else S (fold_right (fun x acc => (visits_g root fuel' (push_path h path) x + acc)%nat) O subs)
          | _ => 1
          end
      end
  end.

Definition list_hdr (id : Z) : hdr :=
  {| h_slot := SElem (s "content"); h_kind := KList; h_tag := s "_general.ListNode"; h_id := Some (HNum (2 * id));
     h_extra := []; h_class := JStr (s "list"); h_module := JStr (s "builtins"); h_aux := JNull |}.

(* rung n holds rung n-1 twice: once as a node, once as a reference to the same id --
   exactly what get_tree builds from the schema of  a = []; for _ in range(n): a = [a, a] *)
Fixpoint ladder (n : nat) : node :=
  match n with
  | O => Node (list_hdr 0) []
  | S n' => Node (list_hdr (Z.of_nat n)) [ladder n'; Ref (SElem (s "content")) (HNum (2 * Z.of_nat n'))]
  end.

Fixpoint size (n : node) : nat :=
  match n with Node _ subs => S (fold_right (fun x acc => (size x + acc)%nat) O subs) | _ => 1 end.

Definition audit_visits (t : node) : nat := visits_g t 100 [] t.

Lemma ladder_cost_14 : size (ladder 14) = 29%nat /\ N.of_nat (audit_visits (ladder 14)) = 32767%N.
Proof. vm_compute. split; reflexivity. Qed.
