(* The audit of the n-rung ladder makes 2^(n+1) - 1 node visits, for every n (finding D11 as a theorem). *)
From Skv Require Import PyStrFacts Node GetTree Unsafe Cost TreeIds.
From Coq Require Import Lia.

Definition rid (k : nat) : hkey := HNum (2 * Z.of_nat k).

Lemma rid_inj a b : rid a = rid b -> a = b.
Proof. unfold rid. intros H. assert (2 * Z.of_nat a = 2 * Z.of_nat b)%Z by congruence. lia. Qed.

Lemma ladder_hdr_id k : h_id (list_hdr (Z.of_nat k)) = Some (rid k).
Proof. reflexivity. Qed.

Lemma ladder_root n : exists subs, ladder n = Node (list_hdr (Z.of_nat n)) subs.
Proof. destruct n; cbn [ladder]; eauto. Qed.

(* the memoised node for rung k inside any higher ladder is rung k itself *)
Lemma find_id_ladder : forall N k, (k <= N)%nat -> find_id (rid k) (ladder N) = Some (ladder k).
Proof.
  induction N as [|N IH]; intros k Hk.
  - assert (k = O) by lia. subst. cbn. reflexivity.
  - destruct (Nat.eq_dec k (S N)) as [->|Ne].
    + cbn [ladder find_id]. rewrite ladder_hdr_id. rewrite (proj2 (hkey_eqb_eq _ _) eq_refl). reflexivity.
    + cbn [ladder find_id]. rewrite ladder_hdr_id.
      destruct (hkey_eqb (rid (S N)) (rid k)) eqn:E.
      * apply hkey_eqb_eq in E. apply rid_inj in E. lia.
      * cbn [fold_right find_id]. rewrite IH by lia. reflexivity.
Qed.

Lemma ukind_list : ukind_of (h_kind (list_hdr 0)) = UGeneric.
Proof. reflexivity. Qed.

Theorem ladder_visits N : forall n fuel path,
  (n <= N)%nat -> (2 * n < fuel)%nat -> (forall k, In (rid k) path -> (n < k)%nat) ->
  visits_g (ladder N) fuel path (ladder n) = (2 ^ (S n) - 1)%nat.
Proof.
  induction n as [|n IH]; intros fuel path Hn Hf Hp.
  - destruct fuel as [|fuel]; [lia|]. cbn [ladder visits_g]. cbn [list_hdr h_kind ukind_of].
    assert (OP : on_path (list_hdr 0) path = false).
    { unfold on_path. cbn [h_id list_hdr]. destruct (memo_mem (HNum (2 * 0)) path) eqn:M; [|reflexivity].
      apply memo_mem_In in M. specialize (Hp O M). lia. }
    rewrite OP. reflexivity.
  - destruct fuel as [|fuel]; [lia|]. cbn [ladder visits_g]. cbn [list_hdr h_kind ukind_of].
    assert (OP : on_path (list_hdr (Z.of_nat (S n))) path = false).
    { unfold on_path. rewrite ladder_hdr_id. destruct (memo_mem (rid (S n)) path) eqn:M; [|reflexivity].
      apply memo_mem_In in M. specialize (Hp (S n) M). lia. }
    rewrite OP. cbn [fold_right].
    assert (PP : push_path (list_hdr (Z.of_nat (S n))) path = rid (S n) :: path) by (unfold push_path; rewrite ladder_hdr_id; reflexivity).
    rewrite PP.
    assert (Hp' : forall k, In (rid k) (rid (S n) :: path) -> (n < k)%nat).
    { intros k [E|Hk]; [apply rid_inj in E; lia | specialize (Hp k Hk); lia]. }
    rewrite (IH fuel (rid (S n) :: path)) by (try lia; exact Hp').
    (* the second reference to rung n: a Ref that resolves to rung n, audited all over again *)
    destruct fuel as [|fuel']; [lia|]. cbn [visits_g].
    change (HNum (2 * Z.of_nat n)) with (rid n). rewrite find_id_ladder by lia.
    rewrite (IH fuel' (rid (S n) :: path)) by (try lia; exact Hp').
    assert (P1 : (2 ^ S n <> 0)%nat) by (apply Nat.pow_nonzero; lia).
    change (2 ^ S (S n))%nat with (2 * 2 ^ S n)%nat. lia.
Qed.

(* a schema of 2n+1 nodes costs 2^(n+1)-1 visits: the audit is exponential in the depth of sharing *)
Corollary audit_exponential n : (n < 50)%nat -> size (ladder n) = (2 * n + 1)%nat /\ audit_visits (ladder n) = (2 ^ (S n) - 1)%nat.
Proof.
  intros Hn. split.
  - clear Hn. induction n as [|n IH]; [reflexivity|]. cbn [ladder size fold_right]. rewrite IH. lia.
  - unfold audit_visits. apply ladder_visits; [lia | lia | intros k []].
Qed.
