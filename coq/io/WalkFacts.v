(* Facts about visualize (C13). *)
From Skv Require Import PyStrFacts Unsafe UnsafeFacts AuditFacts Walk.
From Coq Require Import Lia.

(* each emitted row is at most one level deeper than the previous one *)
Fixpoint chain (prev : nat) (rows : list row) : Prop :=
  match rows with
  | [] => True
  | r :: rs => (r_level r <= S prev)%nat /\ chain (r_level r) rs
  end.

(* the level of the last row (prev when there is none) *)
Fixpoint last_level (prev : nat) (rows : list row) : nat :=
  match rows with [] => prev | r :: rs => last_level (r_level r) rs end.

Lemma chain_app : forall a prev b, chain prev a -> chain (last_level prev a) b -> chain prev (a ++ b).
Proof.
  induction a as [|r a IH]; intros prev b Ha Hb; [exact Hb|]. cbn [app chain last_level] in *.
  destruct Ha as [H1 H2]. split; [exact H1|apply IH; assumption].
Qed.
Lemma last_level_app : forall a prev b, last_level prev (a ++ b) = last_level (last_level prev a) b.
Proof. induction a as [|r a IH]; intros prev b; [reflexivity|]. cbn [app last_level]. apply IH. Qed.

(* ---- what _traverse_tree prints, as a function of the rows alone: a row is dropped when it lies below the row hidden
   last (whatever its own visibility), otherwise it is printed iff the filter admits it; a dropped-because-invisible row
   becomes the row hidden last, a printed one clears that state ---- *)
Fixpoint shown (sh : show_mode) (hidden : option nat) (rows : list row) : list row :=
  match rows with
  | [] => []
  | r :: rs =>
      if below_hidden hidden r then shown sh hidden rs
      else if visible sh r then r :: shown sh None rs
      else shown sh (Some (r_level r)) rs
  end.
(* hidden_level after the rows *)
Fixpoint hid_after (sh : show_mode) (hidden : option nat) (rows : list row) : option nat :=
  match rows with
  | [] => hidden
  | r :: rs =>
      if below_hidden hidden r then hid_after sh hidden rs
      else if visible sh r then hid_after sh None rs
      else hid_after sh (Some (r_level r)) rs
  end.

Lemma shown_app sh : forall a h b, shown sh h (a ++ b) = shown sh h a ++ shown sh (hid_after sh h a) b.
Proof.
  induction a as [|r a IH]; intros h b; [reflexivity|]. cbn [app shown hid_after].
  destruct (below_hidden h r); [apply IH|]. destruct (visible sh r); [cbn [app]; rewrite IH; reflexivity|apply IH].
Qed.
Lemma hid_after_app sh : forall a h b, hid_after sh h (a ++ b) = hid_after sh (hid_after sh h a) b.
Proof.
  induction a as [|r a IH]; intros h b; [reflexivity|]. cbn [app hid_after].
  destruct (below_hidden h r); [apply IH|]. destruct (visible sh r); apply IH.
Qed.

(* every printed row is a row of the stream that the filter admits (the converse fails: see shown_forest) *)
Lemma shown_In sh x : forall rows h, In x (shown sh h rows) -> In x rows /\ visible sh x = true.
Proof.
  induction rows as [|r rs IH]; intros h H; [destruct H|]. cbn [shown] in H.
  destruct (below_hidden h r); [destruct (IH _ H); split; [right|]; assumption|].
  destruct (visible sh r) eqn:V; [|destruct (IH _ H); split; [right|]; assumption].
  destruct H as [<-|H]; [split; [left; reflexivity|exact V]|destruct (IH _ H); split; [right|]; assumption].
Qed.
Lemma shown_visible sh rows h : Forall (fun r => visible sh r = true) (shown sh h rows).
Proof. apply Forall_forall. intros x Hx. exact (proj2 (shown_In sh x rows h Hx)). Qed.

(* rows all deeper than the hidden row are skipped, and the hidden row stays the same *)
Lemma shown_deeper sh hl : forall rows, Forall (fun x => (hl < r_level x)%nat) rows ->
  shown sh (Some hl) rows = [] /\ hid_after sh (Some hl) rows = Some hl.
Proof.
  induction 1 as [|r rs Hr Hrs IH]; [split; reflexivity|]. cbn [shown hid_after below_hidden].
  replace (Nat.ltb hl (r_level r)) with true by (symmetry; apply Nat.ltb_lt; exact Hr). exact IH.
Qed.

(* a run that completes: the generator did not raise, the output is `shown` of the rows, and it is a chain *)
Theorem traverse_shown sh rows : forall prev hidden tail out,
  traverse sh prev hidden rows tail = Ok out -> tail = None /\ out = shown sh hidden rows /\ chain prev out.
Proof.
  induction rows as [|r rs IH]; intros prev hidden tail out H; cbn [traverse shown] in *.
  - destruct tail; [discriminate|]. injection H as <-. split; [reflexivity|]. split; [reflexivity|exact I].
  - destruct (below_hidden hidden r); [eapply IH; eauto|].
    destruct (visible sh r); cbn [negb] in H; [|eapply IH; eauto].
    destruct (Nat.ltb (S prev) (r_level r)) eqn:L; [discriminate|].
    destruct (traverse sh (r_level r) None rs tail) as [rest|e] eqn:Tr; [|discriminate].
    cbn [bind] in H. injection H as <-. destruct (IH _ _ _ _ Tr) as [A [B C]].
    split; [exact A|]. split; [rewrite B; reflexivity|]. cbn [chain]. split; [apply Nat.ltb_ge in L; exact L|exact C].
Qed.

Lemma traverse_chain sh rows prev hidden tail out :
  traverse sh prev hidden rows tail = Ok out -> chain prev out.
Proof. intros H. exact (proj2 (proj2 (traverse_shown sh rows prev hidden tail out H))). Qed.

Lemma traverse_visible sh rows prev hidden tail out :
  traverse sh prev hidden rows tail = Ok out -> Forall (fun r => visible sh r = true) out.
Proof. intros H. destruct (traverse_shown sh rows prev hidden tail out H) as [_ [-> _]]. apply shown_visible. Qed.

(* _traverse_tree adds only its own ValueError to what the generator raised *)
Lemma traverse_raise sh : forall rows prev hidden tail e,
  traverse sh prev hidden rows tail = Raise e -> e = EValue \/ tail = Some e.
Proof.
  induction rows as [|r rs IH]; intros prev hidden tail e H; cbn [traverse] in H.
  - destruct tail as [e'|]; [injection H as ->; right; reflexivity | discriminate H].
  - destruct (below_hidden hidden r); [eapply IH; exact H|].
    destruct (negb (visible sh r)); [eapply IH; exact H|].
    destruct (Nat.ltb (S prev) (r_level r)); [injection H as <-; left; reflexivity|].
    destruct (traverse sh (r_level r) None rs tail) as [rest|e'] eqn:Tr; cbn [bind] in H; [discriminate H|].
    injection H as ->. eapply IH; exact Tr.
Qed.

(* ---- mode-independent well-formedness: on EVERY row stream that is a pre-order walk (each row at most one level below
   its predecessor; p = the level of the row consumed last) _traverse_tree never raises its ValueError, whatever the filter
   hides, and what it prints is again such a stream.  The state invariant: with nothing hidden the row printed last is at
   least as deep as the row consumed last (they are the same row); otherwise the hidden row was at most one level below the
   row printed last -- and only rows at its level or above are looked at. ---- *)
Definition tinv (prev : nat) (hidden : option nat) (p : nat) : Prop :=
  match hidden with None => (p <= prev)%nat | Some hl => (hl <= S prev)%nat end.

Theorem traverse_preorder sh : forall rows p prev hidden tail, chain p rows -> tinv prev hidden p ->
  traverse sh prev hidden rows tail = match tail with Some e => Raise e | None => Ok (shown sh hidden rows) end
  /\ chain prev (shown sh hidden rows).
Proof.
  induction rows as [|r rs IH]; intros p prev hidden tail Hc Hi; cbn [traverse shown chain] in *.
  - split; [destruct tail; reflexivity|exact I].
  - destruct Hc as [Hr Hc]. destruct (below_hidden hidden r) eqn:B.
    + apply (IH (r_level r)); [exact Hc|]. destruct hidden; [exact Hi|discriminate B].
    + assert (Hlv : (r_level r <= S prev)%nat).
      { destruct hidden as [hl|]; cbn [below_hidden tinv] in *; [apply Nat.ltb_ge in B|]; lia. }
      destruct (visible sh r); cbn [negb].
      * replace (Nat.ltb (S prev) (r_level r)) with false by (symmetry; apply Nat.ltb_ge; exact Hlv).
        destruct (IH (r_level r) (r_level r) None tail Hc (le_n _)) as [A C]. rewrite A.
        split; [destruct tail; reflexivity|]. cbn [chain]. split; [exact Hlv|exact C].
      * apply (IH (r_level r)); [exact Hc|exact Hlv].
Qed.

Theorem traverse_all_preorder sh st r rs : fst st = r :: rs -> chain (r_level r) rs ->
  traverse_all sh st = match snd st with Some e => Raise e | None => Ok (r :: shown sh None rs) end
  /\ chain (r_level r) (shown sh None rs).
Proof.
  intros F Hc. unfold traverse_all. rewrite F.
  destruct (traverse_preorder sh rs (r_level r) (r_level r) None (snd st) Hc (le_n _)) as [A C]. rewrite A.
  split; [destruct (snd st); reflexivity|exact C].
Qed.

(* the tree handed to the printer: root first, then a chain *)
Theorem traverse_all_wellformed sh st out :
  traverse_all sh st = Ok out ->
  exists r rest rs, out = r :: rest /\ fst st = r :: rs /\ chain (r_level r) rest /\ rest = shown sh None rs /\ snd st = None.
Proof.
  unfold traverse_all. destruct (fst st) as [|r rs] eqn:F.
  - destruct (snd st); discriminate.
  - destruct (traverse sh (r_level r) None rs (snd st)) as [rest|e] eqn:Tr; [|discriminate].
    cbn [bind]. intros H; injection H as <-. exists r, rest, rs. split; [reflexivity|]. split; [reflexivity|].
    destruct (traverse_shown _ _ _ _ _ _ Tr) as [A [B C]]. auto.
Qed.

(* ---- forests in pre-order (first child / next sibling): what the filter keeps is the forest with every subtree whose
   root the filter hides cut off ---- *)
Inductive forest := FNil | FTree (r : row) (kids rest : forest).
Fixpoint flat (f : forest) : list row :=
  match f with FNil => [] | FTree r k s => r :: flat k ++ flat s end.
Fixpoint levelled (L : nat) (f : forest) : Prop :=
  match f with FNil => True | FTree r k s => r_level r = L /\ levelled (S L) k /\ levelled L s end.
Fixpoint prune (sh : show_mode) (f : forest) : forest :=
  match f with
  | FNil => FNil
  | FTree r k s => if visible sh r then FTree r (prune sh k) (prune sh s) else prune sh s
  end.
(* x is a row of f that the filter admits together with every ancestor it has in f *)
Fixpoint kept (sh : show_mode) (f : forest) (x : row) : Prop :=
  match f with
  | FNil => False
  | FTree r k s => (visible sh r = true /\ (x = r \/ kept sh k x)) \/ kept sh s x
  end.
(* a fully safe row has only fully safe rows below it *)
Fixpoint safe_closed (f : forest) : Prop :=
  match f with
  | FNil => True
  | FTree r k s => (r_safe r = true -> Forall (fun x => r_safe x = true) (flat k)) /\ safe_closed k /\ safe_closed s
  end.

Lemma levelled_ge : forall f L, levelled L f -> Forall (fun x => (L <= r_level x)%nat) (flat f).
Proof.
  induction f as [|r k IHk s2 IHs]; intros L H; [constructor|]. destruct H as [Hl [Hk Hs]]. cbn [flat].
  constructor; [lia|]. apply Forall_app. split; [|apply IHs; exact Hs].
  eapply Forall_impl; [|apply (IHk _ Hk)]. intros x Hx. cbn beta in Hx. lia.
Qed.

Lemma levelled_chain : forall f L p, levelled L f -> (L <= S p)%nat ->
  chain p (flat f) /\ (L <= S (last_level p (flat f)))%nat.
Proof.
  induction f as [|r k IHk s2 IHs]; intros L p H Hp; [split; [exact I|exact Hp]|]. destruct H as [Hl [Hk Hs]].
  cbn [flat chain last_level]. rewrite Hl. destruct (IHk (S L) L Hk (le_n _)) as [K1 K2].
  destruct (IHs L (last_level L (flat k)) Hs ltac:(lia)) as [S1 S2]. rewrite last_level_app.
  split; [split; [exact Hp|apply chain_app; assumption]|exact S2].
Qed.

Lemma prune_levelled sh : forall f L, levelled L f -> levelled L (prune sh f).
Proof.
  induction f as [|r k IHk s2 IHs]; intros L H; [exact I|]. destruct H as [Hl [Hk Hs]]. cbn [prune].
  destruct (visible sh r); [cbn [levelled]; auto|auto].
Qed.

Lemma kept_flat sh x : forall f, In x (flat (prune sh f)) <-> kept sh f x.
Proof.
  induction f as [|r k IHk s2 IHs]; [split; intros []|]. cbn [prune kept]. destruct (visible sh r) eqn:V.
  - cbn [flat In]. rewrite in_app_iff, IHk, IHs. split.
    + intros [<-|[H|H]]; [left; split; [reflexivity|left; reflexivity]|left; split; [reflexivity|right; exact H]|right; exact H].
    + intros [[_ [->|H]]|H]; [left; reflexivity|right; left; exact H|right; right; exact H].
  - rewrite IHs. split; [intros H; right; exact H|intros [[X _]|H]; [discriminate X|exact H]].
Qed.

(* the hidden level does not matter for rows at level L or above *)
Definition loose (L : nat) (h : option nat) : Prop := match h with None => True | Some l => (L <= l)%nat end.

Theorem shown_forest sh : forall f L h, levelled L f -> loose L h ->
  shown sh h (flat f) = flat (prune sh f) /\ loose L (hid_after sh h (flat f)).
Proof.
  induction f as [|r k IHk s2 IHs]; intros L h H Hh; [split; [reflexivity|exact Hh]|]. destruct H as [Hl [Hk Hs]].
  cbn [flat shown hid_after prune].
  assert (B : below_hidden h r = false).
  { destruct h as [l|]; [|reflexivity]. cbn [below_hidden loose] in *. apply Nat.ltb_ge. lia. }
  rewrite B. destruct (visible sh r).
  - rewrite shown_app, hid_after_app. destruct (IHk (S L) None Hk I) as [K1 K2].
    assert (K3 : loose L (hid_after sh None (flat k))) by (destruct (hid_after sh None (flat k)); cbn [loose] in *; [lia|exact I]).
    destruct (IHs L _ Hs K3) as [S1 S2]. rewrite K1, S1. split; [reflexivity|exact S2].
  - rewrite shown_app, hid_after_app. rewrite Hl.
    destruct (shown_deeper sh L (flat k)) as [D1 D2].
    { eapply Forall_impl; [|apply (levelled_ge _ _ Hk)]. intros x Hx. cbn beta in Hx. lia. }
    rewrite D1, D2. cbn [app]. apply (IHs L (Some L) Hs). cbn [loose]. lia.
Qed.

(* the three filters *)
Lemma prune_all : forall f, prune ShowAll f = f.
Proof. induction f as [|r k IHk s2 IHs]; [reflexivity|]. cbn [prune visible]. rewrite IHk, IHs. reflexivity. Qed.

Lemma filter_none {A} (p : A -> bool) l : Forall (fun x => p x = false) l -> filter p l = [].
Proof. induction 1 as [|x l Hx Hl IH]; [reflexivity|]. cbn [filter]. rewrite Hx. exact IH. Qed.

(* show = untrusted: a hidden row is fully safe, so is everything below it: nothing the filter admits is lost *)
Lemma prune_untrusted : forall f, safe_closed f ->
  flat (prune ShowUntrusted f) = filter (fun x => negb (r_safe x)) (flat f).
Proof.
  induction f as [|r k IHk s2 IHs]; intros H; [reflexivity|]. destruct H as [Hc [Hk Hs]].
  cbn [prune visible flat filter]. rewrite filter_app. destruct (r_safe r) eqn:Sf; cbn [negb].
  - rewrite (filter_none _ (flat k)); [apply IHs; exact Hs|].
    eapply Forall_impl; [|exact (Hc eq_refl)]. intros x Hx. cbn beta in Hx. rewrite Hx. reflexivity.
  - cbn [flat]. rewrite IHk, IHs by assumption. reflexivity.
Qed.

(* a filter that admits every row of the forest keeps all of it *)
Lemma prune_id sh : forall f, Forall (fun x => visible sh x = true) (flat f) -> prune sh f = f.
Proof.
  induction f as [|r k IHk s2 IHs]; intros H; [reflexivity|]. cbn [flat] in H. inversion H as [|? ? Hr Hrest]; subst.
  apply Forall_app in Hrest. destruct Hrest as [Hk Hs]. cbn [prune]. rewrite Hr, IHk, IHs by assumption. reflexivity.
Qed.

Lemma s_app_no_rows a b : fst a = [] -> fst b = [] -> fst (s_app a b) = [].
Proof. intros Ha Hb. unfold s_app. destruct (snd a); [exact Ha|]. cbn [fst]. rewrite Ha, Hb. reflexivity. Qed.

Lemma walk_raw_no_rows : forall j, fst (walk_raw j) = [].
Proof.
  fix IH 1. intros j. destruct j as [| b | z | t | t | l | kv]; cbn [walk_raw]; try reflexivity.
  - induction l as [|x l IHl]; [reflexivity|]. cbn [fold_right]. apply s_app_no_rows; [apply IH | exact IHl].
  - induction kv as [|[k v] kv IHl]; [reflexivity|]. cbn [fold_right fst snd]. apply s_app_no_rows; [apply IH | exact IHl].
Qed.

Ltac nope := let X := fresh in intros X; discriminate X.

Section WalkFacts.
  Variable E : env.
  Variable T : trust.
  Variable skipped : list pstr.
  Variable root : node.

  (* what a row says about its node *)
  Definition row_of (h : hdr) (subs : list node) (r : row) : Prop :=
    self_safe_of E T h subs = Ok (r_self_safe r)
    /\ (h_kind h <> KJson -> (r_safe r = true <-> unsafe E T root (Node h subs) = Ok []))
    /\ (h_kind h = KJson -> r_safe r = true)
    /\ format_of h subs = Ok (r_val r).

  (* the first row a node yields sits at the requested level and carries the audit's own verdicts *)
  Lemma walk_first_node fuel path name level last h subs r rs :
    fst (walk E T skipped root fuel path name level last (Node h subs)) = r :: rs ->
    r_level r = level /\ r_key r = name /\ r_last r = last /\ row_of h subs r.
  Proof.
    destruct fuel as [|fuel]; [nope|]. cbn [walk].
    unfold s_lift.
    destruct (format_of h subs) as [val|e] eqn:NF; [|nope].
    destruct (self_safe_of E T h subs) as [ss|e] eqn:SS; [|nope].
    destruct (kind_eqb (h_kind h) KJson) eqn:KJ.
    - assert (K : h_kind h = KJson) by (destruct (h_kind h); try discriminate; reflexivity).
      rewrite K. cbn [s_cons fst]. intros H. injection H as <- _. cbn [r_level r_key r_last r_self_safe r_safe r_val].
      split; [reflexivity|]. split; [reflexivity|]. split; [reflexivity|]. unfold row_of; cbn [r_level r_key r_last r_self_safe r_safe r_val].
      split; [exact SS|]. split; [intros NJ; contradiction|]. split; [reflexivity | exact NF].
    - assert (U : (match h_kind h with KJson => Ok [] | _ => unsafe E T root (Node h subs) end) = unsafe E T root (Node h subs))
        by (destruct (h_kind h); try reflexivity; discriminate).
      rewrite U. destruct (unsafe E T root (Node h subs)) as [u|e] eqn:UU; [|nope].
      cbn [s_cons fst]. intros H. injection H as <- _. cbn [r_level r_key r_last r_self_safe r_safe r_val].
      split; [reflexivity|]. split; [reflexivity|]. split; [reflexivity|]. unfold row_of; cbn [r_level r_key r_last r_self_safe r_safe r_val].
      rewrite ?UU. split; [exact SS|]. split; [|split; [|exact NF]].
      + intros _. destruct u; split; intros X; try reflexivity; try discriminate X.
      + intros K. rewrite K in KJ. discriminate KJ.
  Qed.
  Lemma walk_ref_none fuel path name level last sl id :
    find_id id root = None -> fst (walk E T skipped root fuel path name level last (Ref sl id)) = [].
  Proof. intros F. destruct fuel; [reflexivity|]. cbn [walk]. rewrite F. reflexivity. Qed.

  Lemma walk_leaf_none fuel path name level last sl l :
    fst (walk E T skipped root fuel path name level last (Leaf sl l)) = [].
  Proof.
    destruct fuel; [reflexivity|]. cbn [walk].
    destruct l; try reflexivity. apply walk_raw_no_rows.
  Qed.
End WalkFacts.

Lemma unsafe_g_json E T root fuel path h subs :
  h_kind h = KJson -> unsafe_g E T root (S fuel) path (Node h subs) = Ok [].
Proof. intros K. cbn [unsafe_g]. rewrite K. reflexivity. Qed.

Lemma unsafe_fuel_S : unsafe_fuel = S (Nat.pred unsafe_fuel).
Proof. reflexivity. Qed.
Opaque walk_fuel unsafe_fuel.

(* the root row is fully safe exactly when get_untrusted_types (for that trust setting) is empty *)
Theorem root_safe_iff E skipped schema T st r rs :
  visualize_stream E skipped schema T = Ok st -> fst st = r :: rs ->
  exists t m, root_tree E schema = Ok (t, m) /\
    r_level r = O /\ (r_safe r = true <-> untrusted_of E T t = Ok []).
Proof.
  unfold visualize_stream. destruct (root_tree E schema) as [[t m]|e]; [|nope].
  cbn [bind]. intros H; injection H as <-. intros F. exists t, m. split; [reflexivity|].
  destruct t as [h subs|sl id|sl l].
  - destruct (walk_first_node _ _ _ _ _ _ _ _ _ _ _ _ _ F) as [A [_ [_ [_ [B [C _]]]]]].
    split; [exact A|]. unfold untrusted_of.
    destruct (kind_eqb (h_kind h) KJson) eqn:KJ.
    + assert (K : h_kind h = KJson) by (destruct (h_kind h); try discriminate; reflexivity).
      assert (U : unsafe E T (Node h subs) (Node h subs) = Ok []).
      { unfold unsafe. rewrite unsafe_fuel_S. apply unsafe_g_json. exact K. }
      rewrite U. cbn [bind]. split; [reflexivity|]. intros _. exact (C K).
    + assert (NJ : h_kind h <> KJson) by (intros X; rewrite X in KJ; discriminate).
      specialize (B NJ).
      destruct (unsafe E T (Node h subs) (Node h subs)) as [u|e]; cbn [bind].
      * split; intros X.
        -- apply B in X. injection X as ->. reflexivity.
        -- injection X as X. apply -> sort_dedup_nil_iff in X. subst. apply B. reflexivity.
      * split; intros X; [apply B in X|]; discriminate X.
  - rewrite walk_ref_none in F by reflexivity. discriminate F.
  - rewrite walk_leaf_none in F. discriminate F.
Qed.

(* labels: a row is tagged unsafe exactly when its own type is not trusted *)
Theorem label_marks tag r :
  tag <> [] ->
  (r_self_safe r = false -> label [] tag r = r_val r ++ 32%N :: tag)
  /\ (r_self_safe r = true -> label [] tag r = r_val r).
Proof.
  intros Ht. unfold label. split; intros ->; [|reflexivity].
  destruct tag; [contradiction | reflexivity].
Qed.

(* a generic node that is not self-safe makes its own audit non-empty (any fuel, any path it is not on) *)
Lemma self_unsafe_nonempty_g E T root fuel path h subs u :
  ukind_of (h_kind h) = UGeneric -> self_safe E T h = Ok false -> on_path h path = false ->
  unsafe_g E T root (S fuel) path (Node h subs) = Ok u -> u <> [].
Proof.
  intros UK SS OP. cbn [unsafe_g]. rewrite UK, OP. unfold own_unsafe. rewrite SS. cbn [bind].
  destruct (node_name h) as [nm|e]; cbn [bind]; [|intros X; discriminate X].
  destruct (concat_res _) as [rest|e]; cbn [bind]; intros X; [|discriminate X].
  injection X as <-. discriminate.
Qed.

Theorem self_unsafe_not_safe E T root h subs u :
  ukind_of (h_kind h) = UGeneric -> self_safe E T h = Ok false ->
  unsafe E T root (Node h subs) = Ok u -> u <> [].
Proof.
  intros UK SS. unfold unsafe. rewrite unsafe_fuel_S. apply self_unsafe_nonempty_g; auto.
  unfold on_path. destruct (h_id h); reflexivity.
Qed.

(* the same for every kind whose audit looks at the header's name: generic nodes and SliceNode *)
Theorem self_unsafe_not_safe_named E T root h subs u :
  names_own (h_kind h) = true -> self_safe E T h = Ok false ->
  unsafe E T root (Node h subs) = Ok u -> u <> [].
Proof.
  intros UK SS. unfold names_own in UK. destruct (ukind_of (h_kind h)) eqn:K; try discriminate UK.
  - unfold unsafe. rewrite unsafe_fuel_S. cbn [unsafe_g]. rewrite K. unfold own_unsafe. rewrite SS. cbn [bind].
    destruct (node_name h) as [nm|e]; cbn [bind]; intros X; [|discriminate X]. injection X as <-. discriminate.
  - apply self_unsafe_not_safe; assumption.
Qed.

(* ... and for both FunctionNodes: at the current protocol the audited name is f"{module}.{class}" of the same header; at
   protocol 0 (D31-FunctionNode@0 repaired) is_self_safe() looks at the very name the audit reports,
   content.module_path + "." + content.function.  So for EVERY kind a row that is not self-safe is not fully safe. *)
Lemma self_safe_of_not_v0 E T h subs : h_kind h <> KFunctionV0 -> self_safe_of E T h subs = self_safe E T h.
Proof. intros NV. unfold self_safe_of. destruct (h_kind h); try reflexivity. contradiction. Qed.
Lemma format_of_not_v0 h subs : h_kind h <> KFunctionV0 -> format_of h subs = node_format h.
Proof. intros NV. unfold format_of. destruct (h_kind h); try reflexivity. contradiction. Qed.

Theorem self_unsafe_not_safe_but_v0 E T root h subs u :
  h_kind h <> KFunctionV0 -> self_safe E T h = Ok false ->
  unsafe E T root (Node h subs) = Ok u -> u <> [].
Proof.
  intros NV SS. destruct (names_own (h_kind h)) eqn:NO; [apply self_unsafe_not_safe_named; assumption|].
  unfold names_own in NO. destruct (ukind_of (h_kind h)) eqn:K; try discriminate NO.
  - (* JsonNode is always self-safe *)
    assert (KJ : h_kind h = KJson) by (destruct (h_kind h); try discriminate K; reflexivity).
    unfold self_safe in SS. rewrite KJ in SS. discriminate SS.
  - assert (KF : h_kind h = KFunction) by (destruct (h_kind h); try discriminate K; try reflexivity; congruence).
    unfold unsafe. rewrite unsafe_fuel_S. cbn [unsafe_g]. rewrite K. unfold fn_unsafe, function_name. rewrite KF.
    unfold self_safe, node_name, jqual in SS. rewrite KF in SS. cbn [kind_eqb] in SS.
    destruct (h_module h) as [| | | |a| |]; try discriminate SS. destruct (h_class h) as [| | | |b| |]; try discriminate SS.
    cbn [bind] in SS. injection SS as SS. cbn [jfmt bind]. rewrite SS. intros X. injection X as <-. discriminate.
Qed.

(* the protocol-0 FunctionNode: self-safety and the audit test the same name against the same list *)
Lemma v0_self_safe_is_audit E T root h subs :
  h_kind h = KFunctionV0 ->
  (forall b, self_safe_of E T h subs = Ok b ->
     exists fn, function_name h subs = Ok fn /\ b = mem fn (node_trusted E T h)
                /\ unsafe E T root (Node h subs) = Ok (if b then [] else [fn]))
  /\ (forall e, self_safe_of E T h subs = Raise e ->
        function_name h subs = Raise e /\ unsafe E T root (Node h subs) = Raise e).
Proof.
  intros KV. unfold self_safe_of, unsafe. rewrite unsafe_fuel_S. cbn [unsafe_g]. rewrite KV. cbn [ukind_of]. unfold fn_unsafe.
  destruct (function_name h subs) as [fn|e0]; cbn [bind]; split.
  - intros b X. injection X as <-. exists fn. split; [reflexivity|]. split; [reflexivity|].
    destruct (mem fn (node_trusted E T h)); reflexivity.
  - intros e X. discriminate X.
  - intros b X. discriminate X.
  - intros e X. injection X as <-. split; reflexivity.
Qed.

Theorem self_unsafe_not_safe_any E T root h subs u :
  self_safe_of E T h subs = Ok false ->
  unsafe E T root (Node h subs) = Ok u -> u <> [].
Proof.
  intros SS U. destruct (kind_eqb (h_kind h) KFunctionV0) eqn:KE.
  - assert (KV : h_kind h = KFunctionV0) by (destruct (h_kind h); try discriminate KE; reflexivity).
    destruct (proj1 (v0_self_safe_is_audit E T root h subs KV) false SS) as [fn [_ [_ X]]].
    rewrite X in U. injection U as <-. discriminate.
  - assert (NV : h_kind h <> KFunctionV0) by (intros X; rewrite X in KE; discriminate KE).
    rewrite (self_safe_of_not_v0 E T h subs NV) in SS. eapply self_unsafe_not_safe_but_v0; eassumption.
Qed.
