(* Facts about visualize (C13). *)
From Skv Require Import PyStrFacts Unsafe UnsafeFacts AuditFacts Walk.
From Coq Require Import Lia.

(* each emitted row is at most one level deeper than the previous one *)
Fixpoint chain (prev : nat) (rows : list row) : Prop :=
  match rows with
  | [] => True
  | r :: rs => (r_level r <= S prev)%nat /\ chain (r_level r) rs
  end.

Lemma traverse_chain sh rows : forall prev tail out,
  traverse sh prev rows tail = Ok out -> chain prev out.
Proof.
  induction rows as [|r rs IH]; intros prev tail out H; cbn [traverse] in H.
  - destruct tail; [discriminate|]. injection H as <-. exact I.
  - destruct (negb (visible sh r)); [eapply IH; eauto|].
    destruct (Nat.ltb (S prev) (r_level r)) eqn:L; [discriminate|].
    destruct (traverse sh (r_level r) rs tail) as [rest|e] eqn:Tr; [|discriminate].
    cbn [bind] in H. injection H as <-. cbn [chain]. split.
    + apply Nat.ltb_ge in L. exact L.
    + eapply IH; eauto.
Qed.

Lemma traverse_visible sh rows : forall prev tail out,
  traverse sh prev rows tail = Ok out -> Forall (fun r => visible sh r = true) out.
Proof.
  induction rows as [|r rs IH]; intros prev tail out H; cbn [traverse] in H.
  - destruct tail; [discriminate|]. injection H as <-. constructor.
  - destruct (visible sh r) eqn:V; cbn [negb] in H; [|eapply IH; eauto].
    destruct (Nat.ltb (S prev) (r_level r)); [discriminate|].
    destruct (traverse sh (r_level r) rs tail) as [rest|e] eqn:Tr; [|discriminate].
    cbn [bind] in H. injection H as <-. constructor; [exact V | eapply IH; eauto].
Qed.

(* the tree handed to the printer: root first, then a chain *)
Theorem traverse_all_wellformed sh st out :
  traverse_all sh st = Ok out ->
  exists r rest rs, out = r :: rest /\ fst st = r :: rs /\ chain (r_level r) rest.
Proof.
  unfold traverse_all. destruct (fst st) as [|r rs] eqn:F.
  - destruct (snd st); discriminate.
  - destruct (traverse sh (r_level r) rs (snd st)) as [rest|e] eqn:Tr; [|discriminate].
    cbn [bind]. intros H; injection H as <-. exists r, rest, rs. split; [reflexivity|]. split; [reflexivity|].
    eapply traverse_chain; eauto.
Qed.

Lemma s_app_no_rows a b : fst a = [] -> fst b = [] -> fst (s_app a b) = [].
Proof. intros Ha Hb. unfold s_app. destruct (snd a); [exact Ha|]. cbn [fst]. rewrite Ha, Hb. reflexivity. Qed.

Lemma walk_raw_no_rows : forall j name, fst (walk_raw name j) = [].
Proof.
  fix IH 1. intros j name. destruct j as [| b | z | t | t | l | kv]; cbn [walk_raw];
    destruct (pstr_eqb name key_types_name); try reflexivity.
  - induction l as [|x l IHl]; [reflexivity|]. cbn [fold_right]. apply s_app_no_rows; [apply IH | exact IHl].
  - induction kv as [|[k v] kv IHl]; [reflexivity|]. cbn [fold_right fst snd]. apply s_app_no_rows; [apply IH | exact IHl].
Qed.

Section WalkFacts.
  Variable E : env.
  Variable T : trust.
  Variable skipped : list pstr.
  Variable root : node.

  (* what a row says about its node *)
  Definition row_of (h : hdr) (n : node) (r : row) : Prop :=
    self_safe E T h = Ok (r_self_safe r)
    /\ (h_kind h <> KJson -> (r_safe r = true <-> unsafe E T root n = Ok []))
    /\ node_format h = Ok (r_val r).

  (* the first row a node yields sits at the requested level and carries the audit's own verdicts *)
  Lemma walk_first fuel : forall path name level last n r rs,
    fst (walk E T skipped root fuel path name level last n) = r :: rs ->
    r_level r = level /\ r_key r = name /\ r_last r = last /\
    exists h subs, (n = Node h subs \/ exists sl id, n = Ref sl id /\ find_id id root <> None) /\
                   exists h' n', row_of h' n' r.
  Proof.
    induction fuel as [|fuel IH]; intros path name level last n r rs H; [discriminate|].
    cbn [walk] in H. destruct n as [h subs|sl id|sl l].
    - destruct (pstr_eqb name key_types_name).
      { destruct (h_kind h); try discriminate. unfold s_lift in H.
        destruct (unsafe E T root (Node h subs)) as [[|]|]; discriminate. }
      unfold s_lift in H.
      destruct (node_format h) as [val|e] eqn:NF; [|discriminate].
      destruct (self_safe E T h) as [ss|e] eqn:SS; [|discriminate].
      destruct (match h_kind h with KJson => Ok [] | _ => unsafe E T root (Node h subs) end) as [u|e] eqn:U; [|discriminate].
      cbn [s_cons fst] in H. injection H as <- _. cbn.
      split; [reflexivity|]. split; [reflexivity|]. split; [reflexivity|].
      exists h, subs. split; [left; reflexivity|]. exists h, (Node h subs). unfold row_of. cbn.
      split; [exact SS|]. split; [|exact NF].
      intros NJ. destruct (h_kind h); try contradiction; rewrite U; destruct u; split; intros X; try reflexivity; try discriminate.
    - destruct (find_id id root) as [target|] eqn:F; [|discriminate].
      destruct (IH _ _ _ _ _ _ _ H) as [A [B [C [h [subs [_ D]]]]]].
      split; [exact A|]. split; [exact B|]. split; [exact C|].
      exists h, subs. split; [right; exists sl, id; split; [reflexivity | congruence]|]. exact D.
    - destruct l; try (destruct (pstr_eqb name key_types_name); discriminate).
      rewrite walk_raw_no_rows in H. discriminate.
  Qed.
End WalkFacts.

(* the root row is fully safe exactly when get_untrusted_types (for that trust setting) is empty *)
Theorem root_safe_iff E skipped schema T st r rs :
  visualize_stream E skipped schema T = Ok st -> fst st = r :: rs ->
  exists t m, root_tree E schema = Ok (t, m) /\
    (r_safe r = true <-> untrusted_of E T t = Ok []).
Proof.
  unfold visualize_stream. destruct (root_tree E schema) as [[t m]|e]; [|discriminate].
  cbn [bind]. intros H; injection H as <-. intros F. exists t, m. split; [reflexivity|].
  unfold walk_fuel in F. cbn [walk] in F. destruct t as [h subs|sl id|sl l].
  - replace (pstr_eqb (s "root") key_types_name) with false in F by reflexivity.
    unfold s_lift in F.
    destruct (node_format h) as [val|e]; [|discriminate].
    destruct (self_safe E T h) as [ss|e]; [|discriminate].
    unfold untrusted_of.
    destruct (h_kind h) eqn:K.
    all: try (destruct (unsafe E T (Node h subs) (Node h subs)) as [u|e] eqn:U; [|discriminate];
              cbn [s_cons fst] in F; injection F as <- _; cbn; cbn [bind];
              destruct u; split; intros X; try reflexivity; try discriminate;
              exfalso; injection X as X; apply sort_dedup_nil_iff in X; discriminate).
    (* KJson root: always safe, and its unsafe set is empty *)
    cbn [s_cons fst] in F. injection F as <- _. cbn.
    unfold unsafe, unsafe_fuel. cbn [unsafe_g]. rewrite K. cbn. split; reflexivity.
  - (* a Ref at the root: the memo is empty, get_tree never returns one *)
    destruct (find_id id (Ref sl id)); discriminate.
  - destruct l; try discriminate. cbn [walk] in F. rewrite walk_raw_no_rows in F. discriminate.
Qed.

(* labels: a row is tagged unsafe exactly when its own type is not trusted *)
Theorem label_marks tag r :
  tag <> [] ->
  (r_self_safe r = false -> label [] tag r = r_val r ++ 32%N :: tag)
  /\ (r_self_safe r = true -> label [] tag r = r_val r).
Proof.
  intros Ht. unfold label. split; intros ->; [|reflexivity].
  destruct tag; [contradiction | reflexivity].
Qed.
