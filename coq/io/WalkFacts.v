(* Facts about visualize (C13). *)
From Skv Require Import PyStrFacts Unsafe UnsafeFacts AuditFacts Walk.
From Coq Require Import Lia.

(* each emitted row is at most one level deeper than the previous one *)
Fixpoint chain (prev : nat) (rows : list row) : Prop :=
  match rows with
  | [] => True
  | r :: rs => (r_level r <= S prev)%nat /\ chain (r_level r) rs
  end.

Lemma traverse_chain sh rows : forall prev tail out,
  traverse sh prev rows tail = Ok out -> chain prev out.
Proof.
  induction rows as [|r rs IH]; intros prev tail out H; cbn [traverse] in H.
  - destruct tail; [discriminate|]. injection H as <-. exact I.
  - destruct (negb (visible sh r)); [eapply IH; eauto|].
    destruct (Nat.ltb (S prev) (r_level r)) eqn:L; [discriminate|].
    destruct (traverse sh (r_level r) rs tail) as [rest|e] eqn:Tr; [|discriminate].
    cbn [bind] in H. injection H as <-. cbn [chain]. split.
    + apply Nat.ltb_ge in L. exact L.
    + eapply IH; eauto.
Qed.

Lemma traverse_visible sh rows : forall prev tail out,
  traverse sh prev rows tail = Ok out -> Forall (fun r => visible sh r = true) out.
Proof.
  induction rows as [|r rs IH]; intros prev tail out H; cbn [traverse] in H.
  - destruct tail; [discriminate|]. injection H as <-. constructor.
  - destruct (visible sh r) eqn:V; cbn [negb] in H; [|eapply IH; eauto].
    destruct (Nat.ltb (S prev) (r_level r)); [discriminate|].
    destruct (traverse sh (r_level r) rs tail) as [rest|e] eqn:Tr; [|discriminate].
    cbn [bind] in H. injection H as <-. constructor; [exact V | eapply IH; eauto].
Qed.

(* the tree handed to the printer: root first, then a chain *)
Theorem traverse_all_wellformed sh st out :
  traverse_all sh st = Ok out ->
  exists r rest rs, out = r :: rest /\ fst st = r :: rs /\ chain (r_level r) rest.
Proof.
  unfold traverse_all. destruct (fst st) as [|r rs] eqn:F.
  - destruct (snd st); discriminate.
  - destruct (traverse sh (r_level r) rs (snd st)) as [rest|e] eqn:Tr; [|discriminate].
    cbn [bind]. intros H; injection H as <-. exists r, rest, rs. split; [reflexivity|]. split; [reflexivity|].
    eapply traverse_chain; eauto.
Qed.

Lemma s_app_no_rows a b : fst a = [] -> fst b = [] -> fst (s_app a b) = [].
Proof. intros Ha Hb. unfold s_app. destruct (snd a); [exact Ha|]. cbn [fst]. rewrite Ha, Hb. reflexivity. Qed.

Lemma walk_raw_no_rows : forall j, fst (walk_raw j) = [].
Proof.
  fix IH 1. intros j. destruct j as [| b | z | t | t | l | kv]; cbn [walk_raw]; try reflexivity.
  - induction l as [|x l IHl]; [reflexivity|]. cbn [fold_right]. apply s_app_no_rows; [apply IH | exact IHl].
  - induction kv as [|[k v] kv IHl]; [reflexivity|]. cbn [fold_right fst snd]. apply s_app_no_rows; [apply IH | exact IHl].
Qed.

Ltac nope := let X := fresh in intros X; discriminate X.

Section WalkFacts.
  Variable E : env.
  Variable T : trust.
  Variable skipped : list pstr.
  Variable root : node.

  (* what a row says about its node *)
  Definition row_of (h : hdr) (n : node) (r : row) : Prop :=
    self_safe E T h = Ok (r_self_safe r)
    /\ (h_kind h <> KJson -> (r_safe r = true <-> unsafe E T root n = Ok []))
    /\ (h_kind h = KJson -> r_safe r = true)
    /\ node_format h = Ok (r_val r).

  (* the first row a node yields sits at the requested level and carries the audit's own verdicts *)
  Lemma walk_first_node fuel path name level last h subs r rs :
    fst (walk E T skipped root fuel path name level last (Node h subs)) = r :: rs ->
    r_level r = level /\ r_key r = name /\ r_last r = last /\ row_of h (Node h subs) r.
  Proof.
    destruct fuel as [|fuel]; [nope|]. cbn [walk].
    unfold s_lift.
    destruct (node_format h) as [val|e] eqn:NF; [|nope].
    destruct (self_safe E T h) as [ss|e] eqn:SS; [|nope].
    destruct (kind_eqb (h_kind h) KJson) eqn:KJ.
    - assert (K : h_kind h = KJson) by (destruct (h_kind h); try discriminate; reflexivity).
      rewrite K. cbn [s_cons fst]. intros H. injection H as <- _. cbn [r_level r_key r_last r_self_safe r_safe r_val].
      split; [reflexivity|]. split; [reflexivity|]. split; [reflexivity|]. unfold row_of; cbn [r_level r_key r_last r_self_safe r_safe r_val].
      split; [exact SS|]. split; [intros NJ; contradiction|]. split; [reflexivity | exact NF].
    - assert (U : (match h_kind h with KJson => Ok [] | _ => unsafe E T root (Node h subs) end) = unsafe E T root (Node h subs))
        by (destruct (h_kind h); try reflexivity; discriminate).
      rewrite U. destruct (unsafe E T root (Node h subs)) as [u|e] eqn:UU; [|nope].
      cbn [s_cons fst]. intros H. injection H as <- _. cbn [r_level r_key r_last r_self_safe r_safe r_val].
      split; [reflexivity|]. split; [reflexivity|]. split; [reflexivity|]. unfold row_of; cbn [r_level r_key r_last r_self_safe r_safe r_val].
      rewrite ?UU. split; [exact SS|]. split; [|split; [|exact NF]].
      + intros _. destruct u; split; intros X; try reflexivity; try discriminate X.
      + intros K. rewrite K in KJ. discriminate KJ.
  Qed.
  Lemma walk_ref_none fuel path name level last sl id :
    find_id id root = None -> fst (walk E T skipped root fuel path name level last (Ref sl id)) = [].
  Proof. intros F. destruct fuel; [reflexivity|]. cbn [walk]. rewrite F. reflexivity. Qed.

  Lemma walk_leaf_none fuel path name level last sl l :
    fst (walk E T skipped root fuel path name level last (Leaf sl l)) = [].
  Proof.
    destruct fuel; [reflexivity|]. cbn [walk].
    destruct l; try reflexivity. apply walk_raw_no_rows.
  Qed.
End WalkFacts.

Lemma unsafe_g_json E T root fuel path h subs :
  h_kind h = KJson -> unsafe_g E T root (S fuel) path (Node h subs) = Ok [].
Proof. intros K. cbn [unsafe_g]. rewrite K. reflexivity. Qed.

Lemma unsafe_fuel_S : unsafe_fuel = S (Nat.pred unsafe_fuel).
Proof. reflexivity. Qed.
Opaque walk_fuel unsafe_fuel.

(* the root row is fully safe exactly when get_untrusted_types (for that trust setting) is empty *)
Theorem root_safe_iff E skipped schema T st r rs :
  visualize_stream E skipped schema T = Ok st -> fst st = r :: rs ->
  exists t m, root_tree E schema = Ok (t, m) /\
    r_level r = O /\ (r_safe r = true <-> untrusted_of E T t = Ok []).
Proof.
  unfold visualize_stream. destruct (root_tree E schema) as [[t m]|e]; [|nope].
  cbn [bind]. intros H; injection H as <-. intros F. exists t, m. split; [reflexivity|].
  destruct t as [h subs|sl id|sl l].
  - destruct (walk_first_node _ _ _ _ _ _ _ _ _ _ _ _ _ F) as [A [_ [_ [_ [B [C _]]]]]].
    split; [exact A|]. unfold untrusted_of.
    destruct (kind_eqb (h_kind h) KJson) eqn:KJ.
    + assert (K : h_kind h = KJson) by (destruct (h_kind h); try discriminate; reflexivity).
      assert (U : unsafe E T (Node h subs) (Node h subs) = Ok []).
      { unfold unsafe. rewrite unsafe_fuel_S. apply unsafe_g_json. exact K. }
      rewrite U. cbn [bind]. split; [reflexivity|]. intros _. exact (C K).
    + assert (NJ : h_kind h <> KJson) by (intros X; rewrite X in KJ; discriminate).
      specialize (B NJ).
      destruct (unsafe E T (Node h subs) (Node h subs)) as [u|e]; cbn [bind].
      * split; intros X.
        -- apply B in X. injection X as ->. reflexivity.
        -- injection X as X. apply -> sort_dedup_nil_iff in X. subst. apply B. reflexivity.
      * split; intros X; [apply B in X|]; discriminate X.
  - rewrite walk_ref_none in F by reflexivity. discriminate F.
  - rewrite walk_leaf_none in F. discriminate F.
Qed.

(* labels: a row is tagged unsafe exactly when its own type is not trusted *)
Theorem label_marks tag r :
  tag <> [] ->
  (r_self_safe r = false -> label [] tag r = r_val r ++ 32%N :: tag)
  /\ (r_self_safe r = true -> label [] tag r = r_val r).
Proof.
  intros Ht. unfold label. split; intros ->; [|reflexivity].
  destruct tag; [contradiction | reflexivity].
Qed.

(* a generic node that is not self-safe makes its own audit non-empty (any fuel, any path it is not on) *)
Lemma self_unsafe_nonempty_g E T root fuel path h subs u :
  ukind_of (h_kind h) = UGeneric -> self_safe E T h = Ok false -> on_path h path = false ->
  unsafe_g E T root (S fuel) path (Node h subs) = Ok u -> u <> [].
Proof.
  intros UK SS OP. cbn [unsafe_g]. rewrite UK, OP. unfold own_unsafe. rewrite SS. cbn [bind].
  destruct (node_name h) as [nm|e]; cbn [bind]; [|intros X; discriminate X].
  destruct (concat_res _) as [rest|e]; cbn [bind]; intros X; [|discriminate X].
  injection X as <-. discriminate.
Qed.

Theorem self_unsafe_not_safe E T root h subs u :
  ukind_of (h_kind h) = UGeneric -> self_safe E T h = Ok false ->
  unsafe E T root (Node h subs) = Ok u -> u <> [].
Proof.
  intros UK SS. unfold unsafe. rewrite unsafe_fuel_S. apply self_unsafe_nonempty_g; auto.
  unfold on_path. destruct (h_id h); reflexivity.
Qed.

(* the same for every kind whose audit looks at the header's name: generic nodes and SliceNode *)
Theorem self_unsafe_not_safe_named E T root h subs u :
  names_own (h_kind h) = true -> self_safe E T h = Ok false ->
  unsafe E T root (Node h subs) = Ok u -> u <> [].
Proof.
  intros UK SS. unfold names_own in UK. destruct (ukind_of (h_kind h)) eqn:K; try discriminate UK.
  - unfold unsafe. rewrite unsafe_fuel_S. cbn [unsafe_g]. rewrite K. unfold own_unsafe. rewrite SS. cbn [bind].
    destruct (node_name h) as [nm|e]; cbn [bind]; intros X; [|discriminate X]. injection X as <-. discriminate.
  - apply self_unsafe_not_safe; assumption.
Qed.

(* ... and for FunctionNode at the current protocol (the audited name is f"{module}.{class}" of the same header):
   the only kind whose row can be self-unsafe and fully safe is the protocol-0 FunctionNode (finding D31-FunctionNode@0) *)
Theorem self_unsafe_not_safe_but_v0 E T root h subs u :
  h_kind h <> KFunctionV0 -> self_safe E T h = Ok false ->
  unsafe E T root (Node h subs) = Ok u -> u <> [].
Proof.
  intros NV SS. destruct (names_own (h_kind h)) eqn:NO; [apply self_unsafe_not_safe_named; assumption|].
  unfold names_own in NO. destruct (ukind_of (h_kind h)) eqn:K; try discriminate NO.
  - (* JsonNode is always self-safe *)
    assert (KJ : h_kind h = KJson) by (destruct (h_kind h); try discriminate K; reflexivity).
    unfold self_safe in SS. rewrite KJ in SS. discriminate SS.
  - assert (KF : h_kind h = KFunction) by (destruct (h_kind h); try discriminate K; try reflexivity; congruence).
    unfold unsafe. rewrite unsafe_fuel_S. cbn [unsafe_g]. rewrite K. unfold fn_unsafe, function_name. rewrite KF.
    unfold self_safe, node_name, jqual in SS. rewrite KF in SS. cbn [kind_eqb] in SS.
    destruct (h_module h) as [| | | |a| |]; try discriminate SS. destruct (h_class h) as [| | | |b| |]; try discriminate SS.
    cbn [bind] in SS. injection SS as SS. cbn [jfmt bind]. rewrite SS. intros X. injection X as <-. discriminate.
Qed.
