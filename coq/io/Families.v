(* The documented default-trusted families (C11) and the tree-level completeness of the audit. *)
From Skv Require Import PyStrFacts Unsafe UnsafeFacts NodeInd.

Definition family_ok (k : kind) (tag : pstr) : bool :=
  let is (t : string) := pstr_eqb tag (of_ascii t) in
  match k with
  | KFunction | KFunctionV0 => is "np_ufunc"%string || is "scipy_special_ufunc"%string
  | KType => is "builtin_primitive"%string || is "builtin_container"%string || is "np_scalar_type"%string
  | KObject => is "sklearn_estimator_class"%string
  | KNdArray => is "np_array"%string || is "np_scalar_type"%string
  | KMaskedArray => is "np_masked"%string
  | KRandomState | KRandomGenerator | KRandomGeneratorV0 | KRandomGeneratorV1 => is "np_rng"%string
  | KSparse => is "scipy_sparse"%string
  | KTree => is "sk_tree"%string
  | KLoss => is "sk_loss"%string
  | KJson => is "builtin_primitive"%string
  | KDict | KDefaultDict | KList | KSet | KTuple | KBytes | KBytearray | KSlice => is "builtin_container"%string
  | KMethod | KPartial | KCtorReduce | KOperatorFunc | KDType | KQuantileForest | KCached => false
  end.

(* every default-trusted name of every registered class carries a tag of its kind's families;
   names handed down to children (Tree, losses) must be in the parent kind's family *)
Definition defaults_in_families (classes : list (pstr * (bool * list pstr * list pstr)))
           (tags : list (pstr * pstr)) : bool :=
  forallb (fun e =>
    match kind_of_class (fst e) with
    | None => false
    | Some k =>
        forallb (fun n => match dget n tags with Some t => family_ok k t | None => false end)
                (snd (fst (snd e)) ++ snd (snd e))
    end) classes.

Lemma defaults_in_families_spec classes tags :
  defaults_in_families classes tags = true ->
  forall tag u d x n, In (tag, (u, d, x)) classes -> In n (d ++ x) ->
    exists k t, kind_of_class tag = Some k /\ dget n tags = Some t /\ family_ok k t = true.
Proof.
  unfold defaults_in_families. rewrite forallb_forall. intros H tag u d x n Hin Hn.
  specialize (H _ Hin). cbn [fst snd] in H.
  destruct (kind_of_class tag) as [k|]; [|discriminate].
  rewrite forallb_forall in H. specialize (H n Hn).
  destruct (dget n tags) as [t|]; [|discriminate]. eauto.
Qed.

(* ---- completeness and soundness of the audit walk over the tree ---- *)
Lemma concat_res_In {A B} (f : A -> res (list B)) l r x :
  concat_res (map f l) = Ok r -> In x l -> exists a, f x = Ok a /\ incl a r.
Proof.
  revert r. induction l as [|y l IH]; intros r H Hin; [contradiction|].
  cbn [map concat_res] in H. destruct (f y) as [a|e] eqn:Fy; [|discriminate].
  cbn [bind] in H. destruct (concat_res (map f l)) as [b|e] eqn:C; [|discriminate].
  cbn [bind] in H. injection H as <-.
  destruct Hin as [->|Hin].
  - exists a. split; [exact Fy|]. apply incl_appl, incl_refl.
  - destruct (IH b eq_refl Hin) as [a' [Ha' Hi]]. exists a'. split; [exact Ha'|].
    apply incl_appr. exact Hi.
Qed.

Lemma concat_res_In_inv {A B} (f : A -> res (list B)) l r y :
  concat_res (map f l) = Ok r -> In y r -> exists x a, In x l /\ f x = Ok a /\ In y a.
Proof.
  revert r. induction l as [|x l IH]; intros r H Hy.
  - injection H as <-. contradiction.
  - cbn [map concat_res] in H. destruct (f x) as [a|e] eqn:Fx; [|discriminate].
    cbn [bind] in H. destruct (concat_res (map f l)) as [b|e] eqn:C; [|discriminate].
    cbn [bind] in H. injection H as <-. apply in_app_or in Hy as [Hy|Hy].
    + exists x, a. split; [left; reflexivity|]. auto.
    + destruct (IH b eq_refl Hy) as [x' [a' [Hx' [Ha' Hy']]]]. exists x', a'. split; [right; exact Hx'|]. auto.
Qed.

(* what a node itself contributes *)
Definition contributes (E : env) (T : trust) (n : node) (nm : pstr) : Prop :=
  match n with
  | Node h subs =>
      match ukind_of (h_kind h) with
      | UGeneric | UOwn => exists own, own_unsafe E T h = Ok own /\ In nm own
      | UFunction => exists own, fn_unsafe E T h subs = Ok own /\ In nm own
      | UNothing => False
      end
  | _ => False
  end.

Definition is_leaf (n : node) : bool := match n with Leaf _ _ => true | _ => false end.

(* nodes whose get_unsafe_set does not look at children (Json, Slice, Function) have only raw leaves
   as children -- true of everything get_tree builds *)
Fixpoint leafy (n : node) : bool :=
  match n with
  | Node h subs =>
      (match ukind_of (h_kind h) with UGeneric => true | _ => forallb is_leaf subs end)
      && forallb leafy subs
  | _ => true
  end.

Lemma sub_of_leaf n sl l : sub n (Leaf sl l) -> n = Leaf sl l.
Proof. intros H. inversion H. reflexivity. Qed.

Theorem unsafe_tree_complete E T t u :
  leafy t = true ->
  unsafe_tree E T t = Ok u ->
  forall n nm, sub n t -> contributes E T n nm -> In nm u.
Proof.
  revert u. induction t as [h subs IH|sl id|sl l] using node_ind'; intros u Hl Hu n nm Hsub Hc.
  - cbn [leafy] in Hl. apply andb_true_iff in Hl as [Hl1 Hl2].
    inversion Hsub as [|h' subs' x Hin Hx]; subst.
    + (* the node itself *)
      cbn [unsafe_tree] in Hu. cbn [contributes] in Hc.
      destruct (ukind_of (h_kind h)); [contradiction| | |].
      * destruct Hc as [own [Ho Hi]]. rewrite Ho in Hu. injection Hu as <-. exact Hi.
      * destruct Hc as [own [Ho Hi]]. rewrite Ho in Hu. injection Hu as <-. exact Hi.
      * destruct Hc as [own [Ho Hi]]. rewrite Ho in Hu. cbn [bind] in Hu.
        destruct (concat_res (map (unsafe_tree E T) subs)); [|discriminate].
        injection Hu as <-. apply in_or_app. left. exact Hi.
    + (* below a child *)
      cbn [unsafe_tree] in Hu.
      destruct (ukind_of (h_kind h)) eqn:UK.
      * exfalso. rewrite forallb_forall in Hl1. specialize (Hl1 x Hin).
        destruct x; try discriminate. apply sub_of_leaf in Hx. subst n. exact Hc.
      * exfalso. rewrite forallb_forall in Hl1. specialize (Hl1 x Hin).
        destruct x; try discriminate. apply sub_of_leaf in Hx. subst n. exact Hc.
      * exfalso. rewrite forallb_forall in Hl1. specialize (Hl1 x Hin).
        destruct x; try discriminate. apply sub_of_leaf in Hx. subst n. exact Hc.
      * destruct (own_unsafe E T h) as [own|e]; [|discriminate]. cbn [bind] in Hu.
        destruct (concat_res (map (unsafe_tree E T) subs)) as [rest|e] eqn:C; [|discriminate].
        injection Hu as <-. apply in_or_app. right.
        destruct (concat_res_In _ _ _ x C Hin) as [a [Ha Hi]].
        rewrite Forall_forall in IH. rewrite forallb_forall in Hl2.
        apply Hi. eapply IH; eauto.
  - inversion Hsub; subst. contradiction.
  - inversion Hsub; subst. contradiction.
Qed.

(* ... and nothing else is reported: every reported name is some node's own contribution *)
Theorem unsafe_tree_sound E T t u :
  unsafe_tree E T t = Ok u ->
  forall nm, In nm u -> exists n, sub n t /\ contributes E T n nm.
Proof.
  revert u. induction t as [h subs IH|sl id|sl l] using node_ind'; intros u Hu nm Hin.
  - cbn [unsafe_tree] in Hu. destruct (ukind_of (h_kind h)) eqn:UK.
    + injection Hu as <-. contradiction.
    + exists (Node h subs). split; [apply sub_refl|]. cbn [contributes]. rewrite UK. eauto.
    + exists (Node h subs). split; [apply sub_refl|]. cbn [contributes]. rewrite UK. eauto.
    + destruct (own_unsafe E T h) as [own|e] eqn:O; [|discriminate]. cbn [bind] in Hu.
      destruct (concat_res (map (unsafe_tree E T) subs)) as [rest|e] eqn:C; [|discriminate].
      injection Hu as <-. apply in_app_or in Hin as [Hin|Hin].
      * exists (Node h subs). split; [apply sub_refl|]. cbn [contributes]. rewrite UK. eauto.
      * destruct (concat_res_In_inv _ _ _ _ C Hin) as [x [a [Hx [Ha Hy]]]].
        rewrite Forall_forall in IH. destruct (IH x Hx a Ha nm Hy) as [n [Hs Hc]].
        exists n. split; [eapply sub_step; eauto | exact Hc].
  - injection Hu as <-. contradiction.
  - destruct l as [| |j| |]; cbn in Hu; try (injection Hu as <-; contradiction).
    destruct j as [| | | | |[|]|[|]]; try discriminate; injection Hu as <-; contradiction.
Qed.

(* a node of a kind that audits its own name (every kind but JsonNode and FunctionNode -- SliceNode included)
   contributes that name when it is not in its trusted list *)
Lemma named_contributes E T h subs nm :
  names_own (h_kind h) = true -> node_name h = Ok nm ->
  mem nm (node_trusted E T h) = false -> contributes E T (Node h subs) nm.
Proof.
  intros UK Hn Hm.
  assert (O : own_unsafe E T h = Ok [nm]).
  { unfold own_unsafe, self_safe.
    assert (K : kind_eqb (h_kind h) KJson = false) by (destruct (h_kind h); try reflexivity; discriminate).
    rewrite K, Hn. cbn [bind]. rewrite Hm. cbn [bind]. reflexivity. }
  cbn [contributes]. unfold names_own in UK.
  destruct (ukind_of (h_kind h)); try discriminate UK; exists [nm]; (split; [exact O | left; reflexivity]).
Qed.

Lemma names_own_kinds k : names_own k = true <-> (k <> KJson /\ k <> KFunction /\ k <> KFunctionV0).
Proof.
  destruct k; unfold names_own; cbn [ukind_of]; split; intros H; try discriminate H; try reflexivity;
    try (repeat split; discriminate); destruct H as [A [B C]]; congruence.
Qed.

Lemma generic_contributes E T h subs nm :
  ukind_of (h_kind h) = UGeneric -> node_name h = Ok nm ->
  mem nm (node_trusted E T h) = false -> contributes E T (Node h subs) nm.
Proof. intros UK. apply named_contributes. unfold names_own. rewrite UK. reflexivity. Qed.

(* ... and a node's own contribution is nothing but that *)
Lemma contributes_named_inv E T h subs nm :
  names_own (h_kind h) = true -> contributes E T (Node h subs) nm ->
  node_name h = Ok nm /\ mem nm (node_trusted E T h) = false.
Proof.
  intros UK Hc.
  assert (O : exists own, own_unsafe E T h = Ok own /\ In nm own).
  { cbn [contributes] in Hc. unfold names_own in UK. destruct (ukind_of (h_kind h)); try discriminate UK; exact Hc. }
  destruct O as [own [Ho Hi]]. unfold own_unsafe, self_safe in Ho.
  destruct (kind_eqb (h_kind h) KJson).
  - cbn [bind] in Ho. injection Ho as <-. contradiction.
  - destruct (node_name h) as [n|e]; cbn [bind] in Ho; [|discriminate Ho].
    destruct (mem n (node_trusted E T h)) eqn:M; cbn [bind] in Ho; injection Ho as <-; [contradiction|].
    destruct Hi as [<-|[]]. split; [reflexivity | exact M].
Qed.
