(* get_tree never runs out of fuel on JSON whose nesting depth is below the fuel: the model's verdict on an
   arbitrary (malformed) schema is a genuine Python outcome, never the EFuel artefact (C19). *)
From Skv Require Import PyStrFacts Node GetTree.
From Coq Require Import Lia.

Definition nofuel {A} (r : res A) : Prop := r <> Raise EFuel.

Lemma nofuel_ok {A} (a : A) : nofuel (Ok a).
Proof. discriminate. Qed.
Lemma nofuel_raise {A} e : e <> EFuel -> nofuel (@Raise A e).
Proof. intros H X. injection X as X. contradiction. Qed.

Lemma bind_nofuel {A B} (r : res A) (f : A -> res B) :
  nofuel r -> (forall a, r = Ok a -> nofuel (f a)) -> nofuel (bind r f).
Proof.
  intros Hr Hf. destruct r as [a|e]; cbn [bind]; [apply Hf; reflexivity|].
  intros X. apply Hr. injection X as ->. reflexivity.
Qed.

Lemma dget_depth k kv (v : json) :
  dget k kv = Some v -> (jdepth v <= fold_right (fun p acc => Nat.max (jdepth (snd p)) acc) O kv)%nat.
Proof.
  induction kv as [|[k' v'] kv IH]; cbn [dget fold_right snd]; [discriminate|].
  destruct (pstr_eqb k k'); [intros X; injection X as ->; lia | intros X; specialize (IH X); lia].
Qed.

Lemma jindex_nofuel j k : nofuel (jindex j k).
Proof. destruct j; cbn [jindex]; try (apply nofuel_raise; discriminate). destruct (dget k kv); [apply nofuel_ok | apply nofuel_raise; discriminate]. Qed.
Lemma jindex_depth j k v : jindex j k = Ok v -> (jdepth v < jdepth j)%nat.
Proof.
  destruct j; cbn [jindex]; try discriminate. destruct (dget k kv) eqn:D; [|discriminate].
  intros X; injection X as ->. apply dget_depth in D. cbn [jdepth]. lia.
Qed.
Lemma jget_nofuel j k : nofuel (jget j k).
Proof. destruct j; cbn [jget]; try (apply nofuel_raise; discriminate). destruct (dget k kv); apply nofuel_ok. Qed.
Lemma jget_depth j k v : jget j k = Ok v -> (jdepth v < jdepth j)%nat.
Proof.
  destruct j; cbn [jget]; try discriminate. destruct (dget k kv) eqn:D.
  - intros X; injection X as ->. apply dget_depth in D. cbn [jdepth]. lia.
  - intros X; injection X as <-. cbn [jdepth]. lia.
Qed.
Lemma jhash_nofuel j : nofuel (jhash j).
Proof. destruct j; cbn [jhash]; try apply nofuel_ok; apply nofuel_raise; discriminate. Qed.
Lemma jitems_nofuel j : nofuel (jitems j).
Proof. destruct j; cbn [jitems]; try apply nofuel_ok; apply nofuel_raise; discriminate. Qed.
Lemma jiter_nofuel j : nofuel (jiter j).
Proof. destruct j; cbn [jiter]; try apply nofuel_ok; apply nofuel_raise; discriminate. Qed.
Lemma read_member_nofuel E j : nofuel (read_member E j).
Proof. destruct j; cbn [read_member]; try (apply nofuel_raise; discriminate). destruct (mem t (e_members E)); [apply nofuel_ok | apply nofuel_raise; discriminate]. Qed.

Lemma jitems_depth j kv : jitems j = Ok kv -> forall k v, In (k, v) kv -> (jdepth v < jdepth j)%nat.
Proof.
  destruct j; cbn [jitems]; try discriminate. intros X; injection X as ->. intros k v Hin. cbn [jdepth].
  induction kv as [|[k' v'] kv IH]; [contradiction|]. cbn [fold_right snd]. destruct Hin as [X|Hin]; [injection X as -> ->; lia | specialize (IH Hin); lia].
Qed.
Lemma jiter_depth j l : jiter j = Ok l -> forall v, In v l -> (jdepth v < jdepth j \/ jdepth v = 0)%nat.
Proof.
  destruct j; cbn [jiter]; try discriminate; intros X; injection X as <-; intros v Hin.
  - right. apply in_map_iff in Hin as [c [<- _]]. reflexivity.
  - left. cbn [jdepth]. induction l0 as [|x l0 IH]; [contradiction|]. cbn [fold_right]. destruct Hin as [->|Hin]; [lia | specialize (IH Hin); lia].
  - right. apply in_map_iff in Hin as [p [<- _]]. reflexivity.
Qed.

Lemma node_init_nofuel sl k tag extra b m j aux : nofuel (node_init sl k tag extra b m j aux).
Proof.
  unfold node_init. apply bind_nofuel; [apply jindex_nofuel|]. intros cc _.
  apply bind_nofuel; [apply jindex_nofuel|]. intros cm _.
  apply bind_nofuel; [apply jget_nofuel|]. intros sid _.
  destruct (jtruthy sid && b); [|apply nofuel_ok].
  apply bind_nofuel; [apply jhash_nofuel|]. intros; apply nofuel_ok.
Qed.

Section Fuel.
  Variable E : env.
  Variable rec : list pstr -> slot -> memo -> json -> res (node * memo).
  Variable bound : nat.
  (* the recursive call is fine on anything strictly shallower than `bound` *)
  Hypothesis Hrec : forall extra sl m j, (jdepth j < bound)%nat -> nofuel (rec extra sl m j).

  Lemma sub_list_nofuel extra name : forall js m,
    (forall v, In v js -> (jdepth v < bound)%nat) -> nofuel (sub_list rec extra name m js).
  Proof.
    induction js as [|j js IH]; intros m Hd; cbn [sub_list]; [apply nofuel_ok|].
    apply bind_nofuel; [apply Hrec; apply Hd; left; reflexivity|]. intros [n m1] _.
    apply bind_nofuel; [apply IH; intros; apply Hd; right; assumption|]. intros [ns m2] _. apply nofuel_ok.
  Qed.

  Lemma sub_dict_nofuel extra name : forall kvs m,
    (forall k v, In (k, v) kvs -> (jdepth v < bound)%nat) -> nofuel (sub_dict rec extra name m kvs).
  Proof.
    induction kvs as [|[k j] kvs IH]; intros m Hd; cbn [sub_dict]; [apply nofuel_ok|].
    apply bind_nofuel; [apply Hrec; eapply Hd; left; reflexivity|]. intros [n m1] _.
    apply bind_nofuel; [apply IH; intros; eapply Hd; right; eassumption|]. intros [ns m2] _. apply nofuel_ok.
  Qed.

  Lemma content_child_nofuel extra j key slotname m :
    (jdepth j <= bound)%nat -> nofuel (content_child rec extra j key slotname m).
  Proof.
    intros Hd. unfold content_child.
    apply bind_nofuel; [apply jindex_nofuel|]. intros c Hc. apply jindex_depth in Hc.
    apply bind_nofuel; [apply jindex_nofuel|]. intros v Hv. apply jindex_depth in Hv.
    apply Hrec. lia.
  Qed.

  Ltac step :=
    first
      [ match goal with
        | |- forall k v, In (k, v) ?l -> _ =>
            let k := fresh in let v := fresh in let Hin := fresh in intros k v Hin;
            match goal with H : jitems _ = Ok l |- _ => pose proof (jitems_depth _ _ H _ _ Hin); lia end
        | |- forall v, In v ?l -> _ =>
            let v := fresh in let Hin := fresh in intros v Hin;
            match goal with H : jiter _ = Ok l |- _ => destruct (jiter_depth _ _ H _ Hin); lia end
        | |- nofuel (match ?x with _ => _ end) => destruct x
        | |- nofuel (if ?b then _ else _) => destruct b
        end
      | apply nofuel_ok
      | apply nofuel_raise; discriminate
      | apply bind_nofuel;
        [ first [ apply node_init_nofuel | apply jindex_nofuel | apply jget_nofuel | apply jhash_nofuel | apply jitems_nofuel
                | apply jiter_nofuel | apply read_member_nofuel
                | apply content_child_nofuel; lia
                | apply Hrec; lia
                | apply sub_list_nofuel
                | apply sub_dict_nofuel ]
        | let a := fresh "a" in let Ha := fresh "Ha" in intros a Ha;
          try (apply jindex_depth in Ha); try (apply jget_depth in Ha);
          try destruct a as [? ?] ] ].

  Lemma build_nofuel sl extra tag k m j :
    (jdepth j <= bound)%nat -> nofuel (build E rec sl extra tag k m j).
  Proof.
    intros Hd. destruct k; unfold build; cbv beta iota zeta.
    all: repeat step.
  Qed.
End Fuel.

Theorem get_tree_nofuel E proto : forall fuel extra sl m j,
  (jdepth j < fuel)%nat -> nofuel (get_tree fuel E proto extra sl m j).
Proof.
  induction fuel as [|fuel IH]; intros extra sl m j Hd; [lia|].
  cbn [get_tree].
  apply bind_nofuel; [apply jget_nofuel|]. intros sid _.
  apply bind_nofuel; [apply jhash_nofuel|]. intros hk _.
  destruct (memo_mem hk m); [apply nofuel_ok|].
  apply bind_nofuel; [apply jindex_nofuel|]. intros loader _.
  apply bind_nofuel.
  { unfold dispatch. apply bind_nofuel; [apply jhash_nofuel|]. intros _ _.
    apply bind_nofuel; [apply jhash_nofuel|]. intros pk _. destruct loader; apply nofuel_ok. }
  intros [tag|] _.
  - destruct (kind_of_class tag) as [k|]; [|apply nofuel_raise; discriminate].
    apply (build_nofuel E _ fuel); [|lia]. intros; apply IH; assumption.
  - apply bind_nofuel; [apply jindex_nofuel|]. intros _ _.
    apply bind_nofuel; [apply jindex_nofuel|]. intros _ _. apply nofuel_raise. discriminate.
Qed.

(* a node kind nobody registered: get_tree raises the TypeError that names it (C08) *)
Theorem get_tree_unregistered E proto fuel extra sl m j l sid hk pk cm cc :
  jget j (K "__id__") = Ok sid -> jhash sid = Ok hk -> memo_mem hk m = false ->
  jindex j (K "__loader__") = Ok (JStr l) -> jhash proto = Ok pk ->
  (forall pk', find (e_reg E) l pk' = None) ->
  jindex j (K "__module__") = Ok cm -> jindex j (K "__class__") = Ok cc ->
  get_tree (S fuel) E proto extra sl m j = Raise (ENoLoader l).
Proof.
  intros H1 H2 H3 H4 H5 H6 H7 H8. cbn [get_tree]. rewrite H1. cbn [bind]. rewrite H2. cbn [bind]. rewrite H3.
  rewrite H4. cbn [bind]. unfold dispatch. cbn [jhash bind]. rewrite H5. cbn [bind].
  unfold lookup. rewrite !H6. cbn [bind]. rewrite H7. cbn [bind]. rewrite H8. cbn [bind]. reflexivity.
Qed.
