(* The root of the archive: _save appends "protocol" and "_skops_version" to the root state; get_tree never reads them
   below root_tree.  loads_model (dumps_model v) = v for the proved fragment. *)
From Skv Require Import PyStrFacts CodecGuards CodecWfFacts CodecMemberFacts CodecShareFacts CodecFacts.
From Coq Require Import Lia.

Section Ext.
  Variables (p ver : json).
  Let ex : list (pstr * json) := [(CodecDump.K "protocol", p); (CodecDump.K "_skops_version", ver)].

  Lemma dget_ex {A} k (kv : list (pstr * A)) (e : list (pstr * A)) : dget k e = None -> dget k (kv ++ e) = dget k kv.
  Proof. intros He. induction kv as [|[k' x] kv IH]; cbn [app dget]; [exact He|]. destruct (pstr_eqb k k'); auto. Qed.
  Lemma jindex_ext kv k : dget k ex = None -> jindex (JObj (kv ++ ex)) k = jindex (JObj kv) k.
  Proof. intros H. cbn [jindex]. rewrite (dget_ex _ _ _ H). reflexivity. Qed.
  Lemma jget_ext kv k : dget k ex = None -> jget (JObj (kv ++ ex)) k = jget (JObj kv) k.
  Proof. intros H. cbn [jget]. rewrite (dget_ex _ _ _ H). reflexivity. Qed.

  Ltac rw := repeat first [rewrite jindex_ext by reflexivity | rewrite jget_ext by reflexivity].
  Ltac step :=
    rw; try reflexivity;
    match goal with
    | |- bind ?r _ = bind ?r _ => destruct r as [?|]; cbn [bind]; [|reflexivity]
    | |- (let (_, _) := ?x in _) = (let (_, _) := ?x in _) => destruct x
    | |- (if ?b then _ else _) = (if ?b then _ else _) => destruct b
    | |- match ?x with _ => _ end = match ?x with _ => _ end => destruct x
    end.

  Lemma node_init_ext sl k tag extra b m kv aux :
    node_init sl k tag extra b m (JObj (kv ++ ex)) aux = node_init sl k tag extra b m (JObj kv) aux.
  Proof. unfold node_init. rw. reflexivity. Qed.

  Lemma build_ext E rec sl extra tag k m kv :
    build E rec sl extra tag k m (JObj (kv ++ ex)) = build E rec sl extra tag k m (JObj kv).
  Proof.
    destruct k; unfold build, content_child; cbv zeta; rewrite ?node_init_ext; repeat step.
  Qed.

  Lemma get_tree_ext E proto fuel extra sl m kv :
    get_tree fuel E proto extra sl m (JObj (kv ++ ex)) = get_tree fuel E proto extra sl m (JObj kv).
  Proof.
    destruct fuel as [|fuel]; [reflexivity|]. cbn [get_tree]. rw.
    destruct (jget (JObj kv) (GetTree.K "__id__")) as [sid|]; cbn [bind]; [|reflexivity].
    destruct (jhash sid) as [h|]; cbn [bind]; [|reflexivity]. destruct (memo_mem h m); [reflexivity|].
    destruct (jindex (JObj kv) (GetTree.K "__loader__")) as [l|]; cbn [bind]; [|reflexivity].
    destruct (dispatch (e_reg E) (e_cur E) l proto) as [[tag|]|]; cbn [bind]; [|reflexivity|reflexivity].
    destruct (kind_of_class tag) as [k|]; [|reflexivity]. apply build_ext.
  Qed.

  Lemma file_table_ext kv : (forall v0, p <> JObj v0) -> (forall l0, p <> JArr l0) -> (forall v0, ver <> JObj v0) -> (forall l0, ver <> JArr l0) ->
    file_table (JObj (kv ++ ex)) = file_table (JObj kv).
  Proof.
    intros Hp1 Hp2 Hv1 Hv2. rewrite !file_table_obj. unfold ft_own. rewrite !dget_ex by reflexivity. f_equal.
    rewrite flat_map_app. cbn [flat_map snd ex]. destruct p; try (exfalso; eapply Hp1; reflexivity); try (exfalso; eapply Hp2; reflexivity);
      destruct ver; try (exfalso; eapply Hv1; reflexivity); try (exfalso; eapply Hv2; reflexivity); cbn [file_table app]; rewrite app_nil_r; reflexivity.
  Qed.
End Ext.

Local Opaque get_tree construct_val default_fuel construct_fuel.

Lemma loads_of_load_state C kv (pz : Z) (ver : pstr) v :
  dget (s "protocol") kv = None ->
  load_state C (file_table (JObj kv)) (JInt pz) (JObj kv) = Ok v ->
  loads_model C (JObj (kv ++ [(CodecDump.K "protocol", JInt pz); (CodecDump.K "_skops_version", JStr ver)])) = Ok v.
Proof.
  intros Hp H. unfold loads_model, root_tree.
  assert (Hpr : jindex (JObj (kv ++ [(CodecDump.K "protocol", JInt pz); (CodecDump.K "_skops_version", JStr ver)])) (GetTree.K "protocol") = Ok (JInt pz)).
  { cbn [jindex]. rewrite (dget_app_none _ _ _ Hp). reflexivity. }
  rewrite Hpr. cbn [bind]. rewrite get_tree_ext. rewrite file_table_ext by (intros; discriminate). unfold load_state in H.
  destruct (get_tree default_fuel (c_env C) (JInt pz) [] (SOne (GetTree.K "root")) [] (JObj kv)) as [[t m']|]; [|discriminate H].
  cbn [bind] in *. rewrite H. reflexivity.
Qed.

Theorem root_roundtrip reg cur F D base v a :
  dn_cur D = cur -> reg_ok reg cur = true -> facts_sane F = true -> c05_guard F D base v = true ->
  dumps_model D base v = Ok a ->
  loads_model (cenv_of reg cur F a) (a_schema a) = Ok v.
Proof.
  intros Hcur Hr Hs Hg Hd. subst cur. unfold dumps_model in Hd.
  destruct (get_state D v (init_dst base)) as [[j st]|] eqn:E0; [|discriminate]. cbn [bind] in Hd.
  destruct (root_fields _ _ _ _ _ E0) as [kv [-> [Hp Hv]]].
  destruct (share_roundtrip D F (cenv_of reg (dn_cur D) F {| a_schema := JNull; a_members := d_members st |}) base v _ _
              (conj eq_refl eq_refl) eq_refl eq_refl eq_refl eq_refl Hs Hr Hg E0) as [Hl _].
  rewrite Hl in Hd. injection Hd as <-. cbn [a_schema].
  apply loads_of_load_state; [exact Hp|].
  match goal with |- load_state ?C0 _ _ _ = _ =>
    exact (proj2 (share_roundtrip D F C0 base v _ _ (conj eq_refl eq_refl) eq_refl eq_refl eq_refl eq_refl Hs Hr Hg E0)) end.
Qed.

(* ---- the dump does not refuse a value of the proved fragment ---- *)
Lemma states_total D l : Forall (fun x => forall st, exists j st', get_state D x st = Ok (j, st')) l ->
  forall st, exists js st', states_of (fun x s0 => get_state D x s0) l st = Ok (js, st').
Proof.
  induction 1 as [|x l Hx Hl IH]; intros st; cbn [states_of]; [eauto|].
  destruct (Hx st) as [j [st1 ->]]. cbn [bind]. destruct (IH st1) as [js [st2 ->]]. cbn [bind]. eauto.
Qed.

(* the closures of an object array's content: every cell is serialised, the lists around them never refuse *)
Definition total_clo (c : clo) : Prop := forall st, exists j st', c st = Ok (j, st').
Lemma run_all_total cs : Forall total_clo cs -> forall st, exists js st', run_all cs st = Ok (js, st').
Proof.
  induction 1 as [|c cs Hc Hcs IH]; intros st; cbn [run_all]; [eauto|].
  destruct (Hc st) as [j [st1 ->]]. cbn [bind]. destruct (IH st1) as [js [st2 ->]]. cbn [bind]. eauto.
Qed.
Lemma chunks_total k d (cs : list clo) : Forall total_clo cs -> length cs = (d * k)%nat ->
  forall (g : list clo -> clo), (forall ch, Forall total_clo ch -> length ch = k -> total_clo (g ch)) ->
  Forall total_clo (map g (chunks k d cs)).
Proof.
  intros Hc Hlen g Hg. pose proof (chunks_Forall total_clo k d cs Hc) as H1. pose proof (chunks_len_each k d cs Hlen) as H2.
  revert H1 H2. generalize (chunks k d cs) as chs. induction chs as [|ch chs IH]; intros H1 H2; cbn [map]; constructor.
  - apply Hg; [exact (Forall_inv H1)|exact (Forall_inv H2)].
  - apply IH; [exact (Forall_inv_tail H1)|exact (Forall_inv_tail H2)].
Qed.
Lemma tolist_total : forall dims cs, Forall total_clo cs -> length cs = nprod dims -> total_clo (tolist_state dims cs).
Proof.
  induction dims as [|d ds IH]; intros cs Hc Hlen.
  - cbn [nprod] in Hlen. destruct cs as [|c [|c' cs]]; try discriminate Hlen. cbn [tolist_state]. inversion Hc; assumption.
  - cbn [nprod] in Hlen. rewrite tolist_state_cons. intros st. unfold list_clo. destruct (fresh st) as [lid st0].
    destruct (run_all_total _ (chunks_total (nprod ds) d cs Hc Hlen (tolist_state ds) (IH)) st0) as [js [st1 ->]]. cbn [bind]. eauto.
Qed.
Lemma content_total_clos dims cs : Forall total_clo cs -> length cs = nprod dims -> Forall total_clo (content_clos dims cs).
Proof.
  intros Hc Hlen. destruct dims as [|d ds]; cbn [content_clos].
  - constructor; [apply tolist_total; assumption|constructor].
  - cbn [nprod] in Hlen. apply (chunks_total (nprod ds) d cs Hc Hlen (tolist_state ds)). apply tolist_total.
Qed.

Lemma content_total F D l : forallb (keyb F D) (map fst l) = true -> forallb (fun kv => negb (is_prop (snd kv))) l = true ->
  Forall (fun kv => forall st, exists j st', get_state D (snd kv) st = Ok (j, st')) l ->
  forall acc st, NoDup (map fst acc ++ map (fun kv => ktext (fst kv)) l) ->
    exists cont st', content_of (fun x s0 => get_state D x s0) l acc st = Ok (cont, st').
Proof.
  intros Hk Hp Hl. induction Hl as [|[k x] l Hx Hl IH]; intros acc st Hnd; cbn [content_of]; [eauto|].
  cbn [map fst forallb snd] in Hk, Hp. apply andb_prop in Hk. destruct Hk as [Hk1 Hk2]. apply andb_prop in Hp. destruct Hp as [Hp1 Hp2].
  apply negb_true_iff in Hp1. rewrite Hp1. cbn [snd] in Hx.
  unfold keyb in Hk1. destruct (k_val k) as [sc|] eqn:Ek; [|discriminate].
  cbn [map fst] in Hnd. unfold ktext in Hnd at 1. rewrite Ek in Hnd.
  (* pairwise distinct spellings (itemsb): dict_get_state does not refuse *)
  rewrite (nodup_no_collision k sc acc _ Ek Hnd).
  destruct (Hx st) as [j [st1 ->]]. cbn [bind].
  rewrite jset_fresh_notin by (intro Hin; apply NoDup_remove_2 in Hnd; apply Hnd; apply in_or_app; left; exact Hin).
  apply IH; try assumption. rewrite map_app. cbn [map fst]. apply NoDup_shift. exact Hnd.
Qed.

Lemma kts_total F D ks : forallb (keyb F D) ks = true -> exists kts, key_type_states D ks = Ok kts.
Proof.
  induction ks as [|k ks IH]; cbn [forallb key_type_states]; intros H; [eauto|].
  apply andb_prop in H. destruct H as [H1 H2]. unfold keyb in H1. destruct (k_val k); [|discriminate].
  apply andb_prop in H1. destruct H1 as [H1 _]. apply andb_prop in H1. destruct H1 as [_ H1]. unfold ktv in H1.
  destruct (dget _ _); [|discriminate]. destruct (IH H2) as [kts ->]. cbn [bind]. eauto.
Qed.

Theorem frag_total F D : forall v, fragb F D v = true -> forall st, exists j st', get_state D v st = Ok (j, st').
Proof.
  apply (PyValInd.pval_ind' (fun v => fragb F D v = true -> forall st, exists j st', get_state D v st = Ok (j, st'))).
  - intros v Hl Hf st. destruct v; try discriminate Hl; cbn [fragb] in Hf; try discriminate Hf; cbn [get_state]; eauto;
      try (destruct (fresh st) as [tid0 stq]; eauto); try (destruct (fresh_uuid st) as [u0 stu]; eauto).
    apply andb_prop in Hf. destruct Hf as [Hf H3]. apply andb_prop in Hf. destruct Hf as [H1 H2].
    assert (Hsb : forall x st0, bound_supported x = true -> exists jx, sbound_json x st0 = Ok (jx, st0)).
    { intros x st0 Hx. destruct x as [[| | | |]|]; try discriminate Hx; eexists; reflexivity. }
    destruct (Hsb a st H1) as [ja ->]. cbn [bind]. destruct (Hsb b st H2) as [jb ->]. cbn [bind]. destruct (Hsb c st H3) as [jc ->]. cbn [bind]. eauto.
  - intros q id mo c nt l IH Hf st. cbn [fragb] in Hf. apply andb_prop in Hf. destruct Hf as [_ Hall]. rewrite forallb_forall in Hall.
    cbn [get_state]. destruct (states_total D l) with (st := st) as [js [st' ->]]; [|cbn [bind]; eauto].
    rewrite Forall_forall in *. intros x Hx. apply IH; [exact Hx|apply Hall; exact Hx].
  - intros id mo c l IH Hf st. cbn [fragb] in Hf. apply andb_prop in Hf. destruct Hf as [Hf Hall]. apply andb_prop in Hf. destruct Hf as [_ Hit].
    unfold itemsb in Hit. apply andb_prop in Hit. destruct Hit as [Hit H4]. apply andb_prop in Hit. destruct Hit as [Hit _]. apply andb_prop in Hit. destruct Hit as [H1 H2].
    apply nodup_texts_NoDup in H2.
    rewrite forallb_forall in Hall. cbn [get_state]. destruct (fresh st) as [ktid st0]. destruct (kts_total F D _ H1) as [kts ->]. cbn [bind].
    destruct (content_total F D l H1 H4) with (acc := @nil (pstr * json)) (st := st0) as [cont [st' ->]]; [|exact H2|cbn [bind]; eauto].
    rewrite Forall_forall in *. intros x Hx. apply IH; [exact Hx|apply Hall; exact Hx].
  - intros id mo c f l IHf IH Hf st. cbn [fragb] in Hf. apply andb_prop in Hf. destruct Hf as [Hf Hall]. apply andb_prop in Hf. destruct Hf as [Hf Hff].
    apply andb_prop in Hf. destruct Hf as [_ Hit].
    unfold itemsb in Hit. apply andb_prop in Hit. destruct Hit as [Hit H4]. apply andb_prop in Hit. destruct Hit as [Hit _]. apply andb_prop in Hit. destruct Hit as [H1 H2].
    apply nodup_texts_NoDup in H2.
    rewrite forallb_forall in Hall. cbn [get_state]. destruct (fresh st) as [did st0]. destruct (fresh st0) as [ktid st0']. destruct (kts_total F D _ H1) as [kts ->]. cbn [bind].
    destruct (content_total F D l H1 H4) with (acc := @nil (pstr * json)) (st := st0') as [cont [st1 ->]]; [|exact H2|].
    { rewrite Forall_forall in *. intros x Hx. apply IH; [exact Hx|apply Hall; exact Hx]. }
    cbn [bind]. destruct (IHf Hff st1) as [jf [st2 ->]]. cbn [bind]. eauto.
  - intros id mo c sh l IH Hf st. cbn [fragb] in Hf. apply andb_prop in Hf. destruct Hf as [Hf Hall]. apply andb_prop in Hf. destruct Hf as [Hf _].
    apply andb_prop in Hf. destruct Hf as [_ Hsh]. rewrite forallb_forall in Hall.
    cbn [get_state]. rewrite Hsh. destruct (fresh st) as [lid sta]. destruct (shape_ok_nat _ _ Hsh) as [_ [_ Hlen]].
    assert (Hc : Forall total_clo (map (fun x s0 => get_state D x s0) l)).
    { apply Forall_forall. intros c0 Hc0. apply in_map_iff in Hc0. destruct Hc0 as [x [<- Hx]]. intros st0.
      rewrite Forall_forall in IH. apply IH; [exact Hx|apply Hall; exact Hx]. }
    destruct (run_all_total _ (content_total_clos (map Z.to_nat sh) _ Hc ltac:(rewrite map_length; exact Hlen)) sta) as [js [st1 ->]].
    cbn [bind]. destruct (shape_state _ st1) as [shj st2]. eauto.
  - intros id mo c d k IHd IHk Hf st. cbn [fragb] in Hf. apply andb_prop in Hf. destruct Hf as [Hf Hfk]. apply andb_prop in Hf. destruct Hf as [_ Hfd].
    cbn [get_state]. destruct (IHd Hfd st) as [jd [st1 ->]]. cbn [bind]. destruct (IHk Hfk st1) as [jk [st2 ->]]. cbn [bind]. eauto.
  - intros id mo c x IHx Hf st. cbn [fragb] in Hf. apply andb_prop in Hf. destruct Hf as [_ Hfx].
    cbn [get_state]. destruct (IHx Hfx st) as [jx [st1 ->]]. cbn [bind]. eauto.
  - intros id mo c x y IHx IHy Hf st. cbn [fragb] in Hf. apply andb_prop in Hf. destruct Hf as [Hf Hfy]. apply andb_prop in Hf. destruct Hf as [_ Hfx].
    cbn [get_state]. destruct (IHx Hfx st) as [jx [st1 ->]]. cbn [bind]. destruct (IHy Hfy st1) as [jy [st2 ->]]. cbn [bind]. eauto.
  - intros id mo c f a k n IHf IHa IHk IHn Hf st. cbn [fragb] in Hf.
    apply andb_prop in Hf. destruct Hf as [Hf Hfn]. apply andb_prop in Hf. destruct Hf as [Hf Hfk]. apply andb_prop in Hf. destruct Hf as [Hf Hfa].
    apply andb_prop in Hf. destruct Hf as [_ Hff].
    cbn [get_state]. destruct (IHf Hff st) as [j1 [st1 ->]]. cbn [bind]. destruct (IHa Hfa st1) as [j2 [st2 ->]]. cbn [bind].
    destruct (IHk Hfk st2) as [j3 [st3 ->]]. cbn [bind]. destruct (IHn Hfn st3) as [j4 [st4 ->]]. cbn [bind]. eauto.
  - intros id c a IHa Hf st. cbn [fragb] in Hf. apply andb_prop in Hf. destruct Hf as [_ Hfa]. cbn [get_state].
    destruct (IHa Hfa st) as [ja [st1 ->]]. cbn [bind]. eauto.
  - intros; discriminate.
  - intros id mo c hk h ok x _ IHx Hf st. cbn [fragb] in Hf. apply andb_prop in Hf. destruct Hf as [_ Hok]. cbn [get_state].
    destruct ok as [| | |e].
    + apply andb_prop in Hok. destruct Hok as [_ Hfx]. destruct (IHx Hfx st) as [jx [st1 ->]]. cbn [bind]. eauto.
    + destruct (IHx Hok st) as [jx [st1 ->]]. cbn [bind]. eauto.
    + eauto.
    + discriminate Hok.
Qed.

(* C05 for the real entry points: dumps does not raise, loads(dumps(v)) = v *)
Theorem root_roundtrip_total reg cur F D base v :
  dn_cur D = cur -> reg_ok reg cur = true -> facts_sane F = true -> c05_guard F D base v = true ->
  roundtrip reg cur F D base v = Ok v.
Proof.
  intros Hcur Hr Hs Hg. unfold roundtrip.
  assert (Hf : fragb F D v = true).
  { unfold c05_guard in Hg. apply andb_prop in Hg. destruct Hg as [Hg _]. apply andb_prop in Hg. destruct Hg as [Hf _]. exact Hf. }
  destruct (frag_total F D v Hf (init_dst base)) as [j [st Hst]].
  destruct (share_roundtrip D F (cenv_of reg cur F {| a_schema := JNull; a_members := d_members st |}) base v j st
              (conj eq_refl eq_refl) eq_refl eq_refl eq_refl eq_refl Hs Hr Hg Hst) as [Hl _].
  destruct (dumps_model D base v) as [a|e] eqn:Ed.
  - cbn [bind]. eapply root_roundtrip; eauto.
  - exfalso. unfold dumps_model in Ed. rewrite Hst in Ed. cbn [bind] in Ed.
    destruct (root_fields _ _ _ _ _ Hst) as [kv [-> _]]. rewrite Hl in Ed. discriminate Ed.
Qed.

(* k cycles of dumps / loads *)
Fixpoint roundtrips (reg : registry) (cur : Z) (F : cfacts) (D : denv) (base : Z) (k : nat) (v : pval) : res pval :=
  match k with
  | O => Ok v
  | S k' => do v' <- roundtrip reg cur F D base v; roundtrips reg cur F D base k' v'
  end.

Theorem root_stable reg cur F D base v :
  dn_cur D = cur -> reg_ok reg cur = true -> facts_sane F = true -> c05_guard F D base v = true ->
  forall k, roundtrips reg cur F D base k v = Ok v.
Proof.
  intros Hcur Hr Hs Hg k. induction k as [|k IH]; [reflexivity|]. cbn [roundtrips].
  rewrite (root_roundtrip_total reg cur F D base v Hcur Hr Hs Hg). cbn [bind]. exact IH.
Qed.
