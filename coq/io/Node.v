(* Node trees of the load side: what get_tree builds from a schema. *)
From Skv Require Export Json Registry.

Inductive kind :=
| KDict | KDefaultDict | KList | KSet | KTuple | KBytes | KBytearray | KSlice | KFunction
| KMethod | KPartial | KType | KCtorReduce | KObject | KJson | KOperatorFunc
| KNdArray | KMaskedArray | KDType | KRandomState | KRandomGenerator | KSparse
| KTree | KLoss | KQuantileForest | KCached
| KFunctionV0 | KRandomGeneratorV0 | KRandomGeneratorV1.

(* class tags as printed by the snapshot translator (module path under skops.io + class name) *)
Definition class_table : list (pstr * kind) :=
  [ (s "_audit.CachedNode", KCached);
    (s "_general.DictNode", KDict); (s "_general.DefaultDictNode", KDefaultDict);
    (s "_general.ListNode", KList); (s "_general.SetNode", KSet); (s "_general.TupleNode", KTuple);
    (s "_general.BytesNode", KBytes); (s "_general.BytearrayNode", KBytearray);
    (s "_general.SliceNode", KSlice); (s "_general.FunctionNode", KFunction);
    (s "_general.MethodNode", KMethod); (s "_general.PartialNode", KPartial);
    (s "_general.TypeNode", KType); (s "_general.ConstructorFromReduceNode", KCtorReduce);
    (s "_general.ObjectNode", KObject); (s "_general.JsonNode", KJson);
    (s "_general.OperatorFuncNode", KOperatorFunc);
    (s "_numpy.NdArrayNode", KNdArray); (s "_numpy.MaskedArrayNode", KMaskedArray);
    (s "_numpy.DTypeNode", KDType); (s "_numpy.RandomStateNode", KRandomState);
    (s "_numpy.RandomGeneratorNode", KRandomGenerator);
    (s "_scipy.SparseMatrixNode", KSparse);
    (s "_sklearn.LossNode", KLoss); (s "_sklearn.TreeNode", KTree);
    (s "_quantile_forest.QuantileForestNode", KQuantileForest);
    (s "old._general_v0.FunctionNode", KFunctionV0);
    (s "old._numpy_v0.RandomGeneratorNode", KRandomGeneratorV0);
    (s "old._numpy_v1.RandomGeneratorNode", KRandomGeneratorV1) ].

Definition kind_of_class (tag : pstr) : option kind := dget tag class_table.

(* where a child sits in its parent's `children` dict *)
Inductive slot :=
| SOne (name : pstr)              (* children[name] is this child *)
| SElem (name : pstr)             (* an element of the list children[name] *)
| SKey (name key : pstr).         (* children[name][key] *)

Inductive leaf :=
| LNone                            (* None *)
| LBytes                           (* io.BytesIO read from a zip member *)
| LRaw (j : json)                  (* an unloaded JSON value kept as a child *)
| LEmptyList | LEmptyDict.         (* a list / dict child without elements *)

Record hdr := {
  h_slot : slot;
  h_kind : kind;
  h_tag : pstr;                    (* class tag of the Node subclass *)
  h_id : option hkey;              (* Some id when memoised in the LoadContext *)
  h_extra : list pstr;             (* names ancestors added to `trusted` on the way down *)
  h_class : json;                  (* state["__class__"] *)
  h_module : json;                 (* state["__module__"] *)
  h_aux : json                     (* JsonNode content / NdArrayNode+SparseMatrixNode type *)
}.

Inductive node :=
| Node (h : hdr) (subs : list node)
| Ref (sl : slot) (id : hkey)      (* get_tree found the id in LoadContext.memo *)
| Leaf (sl : slot) (l : leaf).

Definition node_slot (n : node) : slot :=
  match n with Node h _ => h_slot h | Ref sl _ => sl | Leaf sl _ => sl end.

(* everything the model needs to know about the environment of one load *)
Record env := {
  e_reg : registry;
  e_cur : Z;
  (* class tag -> (uses caller's trusted list, default-trusted names, names handed down) *)
  e_classes : list (pstr * (bool * list pstr * list pstr));
  e_unavailable : list pstr;       (* class tags whose constructor raises ImportError here *)
  e_members : list pstr;           (* member names of the zip archive *)
  (* outcome of gettype(module, name) for the names used in this case:
     the qualified name of the object found, or the exception *)
  e_resolve : list (pstr * res (pstr * pstr))
}.

Definition cls_info (E : env) (tag : pstr) : bool * list pstr * list pstr :=
  match dget tag (e_classes E) with Some i => i | None => (true, [], []) end.
Definition uses_T (E : env) (tag : pstr) : bool := fst (fst (cls_info E tag)).
Definition defaults (E : env) (tag : pstr) : list pstr := snd (fst (cls_info E tag)).
Definition down_extra (E : env) (tag : pstr) : list pstr := snd (cls_info E tag).

Definition kind_eqb (a b : kind) : bool :=
  match a, b with
  | KDict, KDict | KDefaultDict, KDefaultDict | KList, KList | KSet, KSet | KTuple, KTuple
  | KBytes, KBytes | KBytearray, KBytearray | KSlice, KSlice | KFunction, KFunction
  | KMethod, KMethod | KPartial, KPartial | KType, KType | KCtorReduce, KCtorReduce
  | KObject, KObject | KJson, KJson | KOperatorFunc, KOperatorFunc | KNdArray, KNdArray
  | KMaskedArray, KMaskedArray | KDType, KDType | KRandomState, KRandomState
  | KRandomGenerator, KRandomGenerator | KSparse, KSparse | KTree, KTree | KLoss, KLoss
  | KQuantileForest, KQuantileForest | KCached, KCached | KFunctionV0, KFunctionV0
  | KRandomGeneratorV0, KRandomGeneratorV0 | KRandomGeneratorV1, KRandomGeneratorV1 => true
  | _, _ => false
  end.
