(* get_unsafe_set / is_self_safe / is_safe on node trees, and the audit. *)
From Skv Require Export GetTree.

Definition trust := option (list pstr).      (* the caller's `trusted`: None or a list *)
Definition tlist (T : trust) : list pstr := match T with Some l => l | None => [] end.

(* node.trusted *)
Definition node_trusted (E : env) (T : trust) (h : hdr) : list pstr :=
  (if uses_T E (h_tag h) then tlist T ++ h_extra h else []) ++ defaults E (h_tag h).

(* module_name + "." + class_name *)
Definition node_name (h : hdr) : res pstr := jqual (h_module h) (h_class h).

(* the name FunctionNode audits: f"{module}.{class}" (v2) or content's module_path + "." + function (v0) *)
Definition function_name (h : hdr) (subs : list node) : res pstr :=
  match h_kind h with
  | KFunctionV0 =>
      match subs with
      | [Leaf _ (LRaw c)] =>
          (* content["module_path"] + "." + content["function"], left to right: a module_path that is not a str
             raises TypeError at the first + before content["function"] is looked up *)
          do m <- jindex c (s "module_path");
          do f <- (match m with JStr _ => jindex c (s "function") | _ => Raise EType end);
          jqual m f
      | _ => Raise EOther
      end
  | _ =>
      match jfmt (h_module h), jfmt (h_class h) with
      | Some m, Some c => Ok (qual m c)
      | _, _ => Raise EDomain
      end
  end.

Definition is_function_kind (k : kind) : bool :=
  match k with KFunction | KFunctionV0 => true | _ => false end.

(* Node.is_self_safe(): check_type(module_name, class_name, trusted) (JsonNode: True) *)
Definition self_safe (E : env) (T : trust) (h : hdr) : res bool :=
  if kind_eqb (h_kind h) KJson then Ok true
  else do n <- node_name h; Ok (mem n (node_trusted E T h)).

(* is_self_safe() as the node's own class implements it: the protocol-0 FunctionNode (D31-FunctionNode@0 repaired)
   checks the name it audits and imports, content.module_path + "." + content.function, against its trusted list; every
   other class inherits Node.is_self_safe (JsonNode: True) *)
Definition self_safe_of (E : env) (T : trust) (h : hdr) (subs : list node) : res bool :=
  match h_kind h with
  | KFunctionV0 => do fn <- function_name h subs; Ok (mem fn (node_trusted E T h))
  | _ => self_safe E T h
  end.

(* how get_unsafe_set is implemented for a kind:
   UNothing  JsonNode: set()
   UOwn      SliceNode: its own module.class unless is_self_safe(); the children (raw JSON bounds) are not
             walked and there is no _computing_unsafe_set guard (nothing below it can lead back to it)
   UFunction FunctionNode: the function's name
   UGeneric  Node.get_unsafe_set: own name, then the children, under the cycle guard *)
Inductive ukind := UNothing | UOwn | UFunction | UGeneric.
Definition ukind_of (k : kind) : ukind :=
  match k with
  | KJson => UNothing
  | KSlice => UOwn
  | KFunction | KFunctionV0 => UFunction
  | _ => UGeneric
  end.

(* the kinds whose audit reports the header's own module.class when the node does not trust it *)
Definition names_own (k : kind) : bool :=
  match ukind_of k with UOwn | UGeneric => true | _ => false end.

Definition own_unsafe (E : env) (T : trust) (h : hdr) : res (list pstr) :=
  do ss <- self_safe E T h;
  if ss then Ok [] else do nm <- node_name h; Ok [nm].

Definition fn_unsafe (E : env) (T : trust) (h : hdr) (subs : list node) : res (list pstr) :=
  do fn <- function_name h subs;
  if mem fn (node_trusted E T h) then Ok [] else Ok [fn].

(* contribution of a non-Node child in Node.get_unsafe_set *)
Definition leaf_unsafe (l : leaf) : res (list pstr) :=
  match l with
  | LNone | LBytes | LEmptyList | LEmptyDict => Ok []
  | LRaw j =>
      match j with
      | JNull | JStr _ => Ok []
      | JArr [] | JObj [] => Ok []
      | JArr _ | JObj _ => Raise EAttr     (* value.get_unsafe_set() on a non-Node *)
      | _ => Raise EValue                  (* "Cannot determine the safety of type" *)
      end
  end.

Fixpoint concat_res {A} (l : list (res (list A))) : res (list A) :=
  match l with
  | [] => Ok []
  | r :: l' => do a <- r; do b <- concat_res l'; Ok (a ++ b)
  end.

(* first Node (pre-order) memoised under id: what LoadContext.memo[id] is *)
Fixpoint find_id (id : hkey) (n : node) : option node :=
  match n with
  | Node h subs =>
      let below := fold_right (fun x acc => match find_id id x with Some r => Some r | None => acc end) None subs in
      match h_id h with
      | Some i => if hkey_eqb i id then Some n else below
      | None => below
      end
  | _ => None
  end.

Definition on_path (h : hdr) (path : list hkey) : bool :=
  match h_id h with Some i => memo_mem i path | None => false end.
Definition push_path (h : hdr) (path : list hkey) : list hkey :=
  match h_id h with Some i => i :: path | None => path end.

(* get_unsafe_set() on the node *graph*: a Ref is the memoised node itself; the
   _computing_unsafe_set guard makes a node that is already on the call stack
   contribute nothing.  Names in discovery order (the implementation returns a set). *)
Fixpoint unsafe_g (E : env) (T : trust) (root : node) (fuel : nat) (path : list hkey) (n : node)
  : res (list pstr) :=
  match fuel with
  | O => Raise EFuel
  | S fuel' =>
      match n with
      | Ref _ id =>
          match find_id id root with
          | Some target => unsafe_g E T root fuel' path target
          | None => Raise EOther
          end
      | Leaf _ l => leaf_unsafe l
      | Node h subs =>
          match ukind_of (h_kind h) with
          | UNothing => Ok []
          | UOwn => own_unsafe E T h
          | UFunction => fn_unsafe E T h subs
          | UGeneric =>
              if on_path h path then Ok [] else
              do own <- own_unsafe E T h;
              do rest <- concat_res (map (unsafe_g E T root fuel' (push_path h path)) subs);
              Ok (own ++ rest)
          end
      end
  end.

Definition unsafe_fuel : nat := 3000.
Definition unsafe (E : env) (T : trust) (root n : node) : res (list pstr) :=
  unsafe_g E T root unsafe_fuel [] n.

(* the same walk on the tree alone, Refs contributing nothing: equal as a set at the root *)
Fixpoint unsafe_tree (E : env) (T : trust) (n : node) : res (list pstr) :=
  match n with
  | Ref _ _ => Ok []
  | Leaf _ l => leaf_unsafe l
  | Node h subs =>
      match ukind_of (h_kind h) with
      | UNothing => Ok []
      | UOwn => own_unsafe E T h
      | UFunction => fn_unsafe E T h subs
      | UGeneric =>
          do own <- own_unsafe E T h;
          do rest <- concat_res (map (unsafe_tree E T) subs);
          Ok (own ++ rest)
      end
  end.

(* sorted(tree.get_unsafe_set()) *)
Definition untrusted_of (E : env) (T : trust) (n : node) : res (list pstr) :=
  do u <- unsafe E T n n; Ok (sort_dedup u).

(* get_untrusted_types(data=...) on a parsed schema *)
Definition get_untrusted_types (E : env) (schema : json) : res (list pstr) :=
  do (t, _) <- root_tree E schema;
  untrusted_of E None t.

(* load / loads up to and including audit_tree *)
Inductive targ := TTrue | TList (T : trust).

Definition load_audit (E : env) (schema : json) (ta : targ) : res node :=
  match ta with
  | TTrue => Raise ETrustedTrue
  | TList T =>
      do (t, _) <- root_tree E schema;
      do u <- untrusted_of E T t;
      match u with
      | [] => Ok t
      | _ => Raise (EUntrusted u)
      end
  end.
