(* C05 facts, part 1: generic facts on node trees and JSON states. *)
From Skv Require Import PyStrFacts CodecGuards CodecWfFacts PyValInd NodeInd TreeIds GraphAudit ConstructFacts.
From Coq Require Import Lia.

Definition key (i : Z) : hkey := HNum (2 * i).
Lemma key_inj a b : key a = key b -> a = b.
Proof. unfold key. intros H. assert (H2 : (2 * a = 2 * b)%Z) by congruence. lia. Qed.
Lemma key_div i : (2 * i / 2 = i)%Z.
Proof. rewrite Z.mul_comm. apply Z.div_mul. lia. Qed.

(* ---- find_id on trees ---- *)
Lemma ids_sub x : forall n, sub x n -> forall h, In h (ids x) -> In h (ids n).
Proof.
  intros n H. induction H as [|hd subs y Hy Hs IH]; intros h Hh; [exact Hh|].
  cbn [ids]. apply in_or_app. right. apply in_flat_map. exists y. split; [exact Hy|apply IH; exact Hh].
Qed.

Lemma find_id_exists h : forall n, In h (ids n) -> exists t, find_id h n = Some t.
Proof.
  induction n as [hd subs IH|sl i|sl l] using node_ind'; intros Hin; cbn [ids] in Hin; try contradiction.
  cbn [find_id].
  assert (B : In h (flat_map ids subs) ->
          exists t, fold_right (fun x acc => match find_id h x with Some r => Some r | None => acc end) None subs = Some t).
  { clear Hin. induction subs as [|x subs IHs]; cbn [flat_map fold_right]; intros Hin; [contradiction|].
    inversion IH as [|? ? Hx Hrest]; subst.
    destruct (find_id h x) as [r|] eqn:Fx; [eauto|].
    apply in_app_or in Hin. destruct Hin as [Hin|Hin].
    - destruct (Hx Hin) as [t Ht]. congruence.
    - apply IHs; assumption. }
  apply in_app_or in Hin. unfold own_ids in Hin. destruct (h_id hd) as [i|].
  - destruct (hkey_eqb i h) eqn:Eq; [eauto|].
    destruct Hin as [[->|[]]|Hin]; [|apply B; exact Hin].
    assert (hkey_eqb h h = true) by (apply hkey_eqb_eq; reflexivity). congruence.
  - destruct Hin as [[]|Hin]. apply B; exact Hin.
Qed.

Lemma find_id_hid h : forall n t, find_id h n = Some t -> exists hd subs, t = Node hd subs /\ h_id hd = Some h.
Proof.
  induction n as [hd subs IH|sl i|sl l] using node_ind'; intros t H; cbn [find_id] in H; try discriminate H.
  assert (B : fold_right (fun x acc => match find_id h x with Some r => Some r | None => acc end) None subs = Some t ->
              exists hd subs, t = Node hd subs /\ h_id hd = Some h).
  { intros Hf. destruct (fold_find _ _ _ Hf) as [x [Hx Fx]]. rewrite Forall_forall in IH. eapply IH; eauto. }
  destruct (h_id hd) as [i|] eqn:Hi.
  - destruct (hkey_eqb i h) eqn:Eq; [|apply B; exact H].
    injection H as <-. apply hkey_eqb_eq in Eq. subst. eauto.
  - apply B; exact H.
Qed.

Lemma sub_ref_inv t sl i : sub t (Ref sl i) -> t = Ref sl i.
Proof. intros H. inversion H. reflexivity. Qed.
Lemma sub_leaf_inv t sl l : sub t (Leaf sl l) -> t = Leaf sl l.
Proof. intros H. inversion H. reflexivity. Qed.
Lemma sub_node_inv t hd subs : sub t (Node hd subs) -> t = Node hd subs \/ exists x, In x subs /\ sub t x.
Proof. intros H. inversion H; subst; [left; reflexivity|right; eauto]. Qed.

(* ---- JSON states ---- *)
Lemma jget_id c mo l fields id : dget (s "__id__") fields = None ->
  jget (node_state c mo l fields id) (s "__id__") = Ok (JInt id).
Proof.
  intros Hf. unfold node_state. cbn [jget].
  match goal with |- context [dget ?k (?a :: ?b :: ?c0 :: ?r)] => change (dget k (a :: b :: c0 :: r)) with (dget k r) end.
  rewrite (dget_app_none _ _ _ Hf). reflexivity.
Qed.

Definition mkh (sl : slot) (k : kind) (tag : pstr) (id : Z) (c mo : pstr) (aux : json) : hdr :=
  {| h_slot := sl; h_kind := k; h_tag := tag; h_id := Some (key id); h_extra := []; h_class := JStr c; h_module := JStr mo; h_aux := aux |}.

Lemma init_eq sl k tag m c mo l fields id : dget (s "__id__") fields = None -> id <> 0%Z ->
  node_init sl k tag [] true m (node_state c mo l fields id) JNull = Ok (mkh sl k tag id c mo JNull, key id :: m).
Proof.
  intros Hf Hid. unfold node_init. rewrite (jget_id _ _ _ _ _ Hf).
  change (jindex (node_state c mo l fields id) (GetTree.K "__class__")) with (Ok (A:=json) (JStr c)).
  change (jindex (node_state c mo l fields id) (GetTree.K "__module__")) with (Ok (A:=json) (JStr mo)).
  cbn [bind jtruthy]. replace (id =? 0)%Z with false by (symmetry; apply Z.eqb_neq; exact Hid).
  cbn [negb andb jhash bind]. reflexivity.
Qed.
