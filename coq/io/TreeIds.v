(* Memoised ids of a tree built by get_tree are pairwise distinct, fresh w.r.t. the incoming memo
   and recorded in the outgoing one. *)
From Skv Require Import PyStrFacts Node GetTree Unsafe NodeInd.
From Coq Require Import Lia.

Lemma hkey_eqb_eq a b : hkey_eqb a b = true <-> a = b.
Proof.
  destruct a, b; cbn [hkey_eqb]; split; intros H; try discriminate; try reflexivity.
  - apply Z.eqb_eq in H. congruence.
  - injection H as ->. apply Z.eqb_refl.
  - apply pstr_eqb_eq in H. congruence.
  - injection H as ->. apply pstr_eqb_refl.
Qed.

Lemma memo_mem_In i m : memo_mem i m = true <-> In i m.
Proof.
  induction m as [|x m IH]; cbn [memo_mem In]; [split; [discriminate | tauto]|].
  rewrite orb_true_iff, IH, hkey_eqb_eq. split; intros [H|H]; auto.
Qed.

Definition own_ids (h : hdr) : list hkey := match h_id h with Some i => [i] | None => [] end.
Fixpoint ids (n : node) : list hkey :=
  match n with
  | Node h subs => own_ids h ++ flat_map ids subs
  | _ => []
  end.

(* chain m ns m' : the nodes ns were built one after the other, threading the memo from m to m' *)
Definition chain (m : memo) (ns : list node) (m' : memo) : Prop :=
  (forall i, In i m -> In i m')
  /\ (forall i, In i (flat_map ids ns) -> ~ In i m /\ In i m')
  /\ NoDup (flat_map ids ns).
Definition inv (m : memo) (t : node) (m' : memo) : Prop := chain m [t] m'.

Lemma NoDup_app_intro {A} (a b : list A) :
  NoDup a -> NoDup b -> (forall x, In x a -> In x b -> False) -> NoDup (a ++ b).
Proof.
  induction a as [|x a IH]; intros Ha Hb H; [exact Hb|].
  inversion Ha as [|x' a' Hx Ha']; subst. cbn. constructor.
  - intro C. apply in_app_or in C as [C|C]; [contradiction | eapply H; [left; reflexivity | exact C]].
  - apply IH; auto. intros y Hy1 Hy2. eapply H; [right; exact Hy1 | exact Hy2].
Qed.

Lemma chain_nil m : chain m [] m.
Proof. repeat split; auto; try contradiction. constructor. Qed.

Lemma chain_app m a m1 b m2 : chain m a m1 -> chain m1 b m2 -> chain m (a ++ b) m2.
Proof.
  intros [A1 [A2 A3]] [B1 [B2 B3]]. split; [auto|]. rewrite flat_map_app. split.
  - intros i Hi. apply in_app_or in Hi as [Hi|Hi].
    + destruct (A2 i Hi). split; auto.
    + destruct (B2 i Hi) as [N I]. split; auto.
  - apply NoDup_app_intro; auto.
    intros i Ha Hb. destruct (A2 i Ha) as [_ I1]. destruct (B2 i Hb) as [N _]. auto.
Qed.

Lemma chain_noid m ns m' n : ids n = [] -> chain m ns m' -> chain m (n :: ns) m'.
Proof. intros Hn [A [B C]]. unfold chain. cbn [flat_map]. rewrite Hn. cbn [app]. auto. Qed.

Lemma chain_cons m n m1 ns m2 : inv m n m1 -> chain m1 ns m2 -> chain m (n :: ns) m2.
Proof. intros H1 H2. change (n :: ns) with ([n] ++ ns). eapply chain_app; eauto. Qed.

Lemma chain_snoc_noid m ns m' n : ids n = [] -> chain m ns m' -> chain m (ns ++ [n]) m'.
Proof.
  intros Hn H. eapply chain_app; [exact H|]. apply chain_noid; [exact Hn | apply chain_nil].
Qed.

Lemma chain_or_empty m ns m' name l : chain m ns m' -> chain m (or_empty name l ns) m'.
Proof. destruct ns; [intros H; apply chain_noid; [reflexivity | exact H] | auto]. Qed.

(* get_tree only builds a node when its id is not in the memo yet *)
Definition fresh_id (j : json) (m : memo) : Prop :=
  forall i, jget j (K "__id__") = Ok i -> forall hk, jhash i = Ok hk -> ~ In hk m.

(* Node.__init__ followed by the children *)
Lemma node_inv sl k tag extra b m j aux h m0 subs m' :
  node_init sl k tag extra b m j aux = Ok (h, m0) ->
  fresh_id j m ->
  chain m0 subs m' -> inv m (Node h subs) m'.
Proof.
  unfold node_init, fresh_id. intros H Hfresh [C1 [C2 C3]].
  destruct (jindex j (K "__class__")) as [cc|]; cbn [bind] in H; [|discriminate H].
  destruct (jindex j (K "__module__")) as [cm|]; cbn [bind] in H; [|discriminate H].
  destruct (jget j (K "__id__")) as [sid|] eqn:Sid; cbn [bind] in H; [|discriminate H].
  destruct (jtruthy sid && b).
  - destruct (jhash sid) as [hk|] eqn:Hk; cbn [bind] in H; [|discriminate H].
    injection H as <- <-. unfold inv, chain. cbn [flat_map ids own_ids h_id]. rewrite app_nil_r.
    specialize (Hfresh sid eq_refl hk Hk).
    split; [intros i Hi; apply C1; right; exact Hi|]. split.
    + intros i [<-|Hi].
      * split; [exact Hfresh | apply C1; left; reflexivity].
      * destruct (C2 i Hi) as [N I]. split; [intro X; apply N; right; exact X | exact I].
    + cbn. constructor; [|exact C3]. intro X. destruct (C2 hk X) as [N _]. apply N. left. reflexivity.
  - injection H as <- <-. unfold inv, chain. cbn [flat_map ids own_ids h_id]. rewrite app_nil_r. cbn [app].
    split; [exact C1|]. split; [exact C2 | exact C3].
Qed.

Lemma ids_set_aux h a subs : ids (Node (set_aux h a) subs) = ids (Node h subs).
Proof. reflexivity. Qed.

Lemma inv_set_aux m h a subs m' : inv m (Node h subs) m' -> inv m (Node (set_aux h a) subs) m'.
Proof. unfold inv, chain. cbn [flat_map]. rewrite ids_set_aux. auto. Qed.

Section Ids.
  Variable E : env.
  Variable rec : list pstr -> slot -> memo -> json -> res (node * memo).
  Hypothesis Hrec : forall extra sl m j t m', rec extra sl m j = Ok (t, m') -> inv m t m'.

  Lemma sub_list_chain extra name : forall js m ns m',
    sub_list rec extra name m js = Ok (ns, m') -> chain m ns m'.
  Proof.
    induction js as [|j js IH]; intros m ns m' H; cbn [sub_list] in H.
    - injection H as <- <-. apply chain_nil.
    - destruct (rec extra (SElem name) m j) as [[n m1]|] eqn:R; cbn [bind] in H; [|discriminate H].
      destruct (sub_list rec extra name m1 js) as [[ns' m2]|] eqn:S; cbn [bind] in H; [|discriminate H].
      injection H as <- <-. eapply chain_cons; [eapply Hrec; eauto | eapply IH; eauto].
  Qed.

  Lemma sub_dict_chain extra name : forall kvs m ns m',
    sub_dict rec extra name m kvs = Ok (ns, m') -> chain m ns m'.
  Proof.
    induction kvs as [|[k j] kvs IH]; intros m ns m' H; cbn [sub_dict] in H.
    - injection H as <- <-. apply chain_nil.
    - destruct (rec extra (SKey name k) m j) as [[n m1]|] eqn:R; cbn [bind] in H; [|discriminate H].
      destruct (sub_dict rec extra name m1 kvs) as [[ns' m2]|] eqn:S; cbn [bind] in H; [|discriminate H].
      injection H as <- <-. eapply chain_cons; [eapply Hrec; eauto | eapply IH; eauto].
  Qed.

  Lemma content_child_inv extra j key slotname m n m' :
    content_child rec extra j key slotname m = Ok (n, m') -> inv m n m'.
  Proof.
    unfold content_child. intros H.
    destruct (jindex j (K "content")) as [c|]; cbn [bind] in H; [|discriminate H].
    destruct (jindex c key) as [v|]; cbn [bind] in H; [|discriminate H].
    eapply Hrec; eauto.
  Qed.

  Ltac brk H :=
    repeat (cbn [bind] in H;
      match type of H with
      | bind ?r _ = Ok _ => let X := fresh "X" in destruct r eqn:X; cbn [bind] in H; [|discriminate H]
      | (let (_, _) := ?p in _) = Ok _ => destruct p
      | (match ?x with _ => _ end) = Ok _ => let X := fresh "X" in destruct x eqn:X; try discriminate H
      | (if ?b then _ else _) = Ok _ => let X := fresh "X" in destruct b eqn:X; try discriminate H
      end).

  Ltac chain_tac :=
    repeat first
      [ apply chain_nil
      | apply chain_or_empty
      | match goal with
        | |- chain _ (Leaf _ _ :: _) _ => apply chain_noid; [reflexivity|]
        | |- chain _ (Node _ [] :: _) _ => apply chain_noid; [reflexivity|]
        | |- chain _ (_ ++ [_]) _ => eapply chain_app
        | H : rec _ _ ?m _ = Ok (?n, _) |- chain ?m (?n :: _) _ => eapply chain_cons; [exact (Hrec _ _ _ _ _ _ H)|]
        | H : content_child _ _ _ _ _ ?m = Ok (?n, _) |- chain ?m (?n :: _) _ => eapply chain_cons; [exact (content_child_inv _ _ _ _ _ _ _ H)|]
        | H : sub_list _ _ _ ?m _ = Ok (?ns, _) |- chain ?m ?ns _ => exact (sub_list_chain _ _ _ _ _ _ H)
        | H : sub_dict _ _ _ ?m _ = Ok (?ns, _) |- chain ?m ?ns _ => exact (sub_dict_chain _ _ _ _ _ _ H)
        end ].

  Lemma build_inv sl extra tag k m j t m' :
    fresh_id j m ->
    build E rec sl extra tag k m j = Ok (t, m') -> inv m t m'.
  Proof.
    intros Hfresh H. destruct k; unfold build in H; cbv beta iota zeta in H; brk H;
      try (injection H as <- <-);
      try apply inv_set_aux;
      (eapply node_inv; [eassumption | exact Hfresh | chain_tac]).
  Qed.
End Ids.

Theorem get_tree_inv E proto : forall fuel extra sl m j t m',
  get_tree fuel E proto extra sl m j = Ok (t, m') -> inv m t m'.
Proof.
  induction fuel as [|fuel IH]; intros extra sl m j t m' H; [discriminate H|].
  cbn [get_tree] in H.
  destruct (jget j (K "__id__")) as [sid|] eqn:Sid; cbn [bind] in H; [|discriminate H].
  destruct (jhash sid) as [hk|] eqn:Hk; cbn [bind] in H; [|discriminate H].
  destruct (memo_mem hk m) eqn:MM.
  { injection H as <- <-. apply chain_noid; [reflexivity | apply chain_nil]. }
  destruct (jindex j (K "__loader__")) as [loader|]; cbn [bind] in H; [|discriminate H].
  destruct (dispatch (e_reg E) (e_cur E) loader proto) as [[tag|]|]; cbn [bind] in H; try discriminate H.
  - destruct (kind_of_class tag) as [k|]; [|discriminate H].
    eapply build_inv; [| |exact H].
    + intros; eapply IH; eauto.
    + unfold fresh_id. intros i Hi hk' Hk'. rewrite Sid in Hi. injection Hi as <-. rewrite Hk in Hk'. injection Hk' as <-.
      intro C. apply memo_mem_In in C. congruence.
  - destruct (jindex j (K "__module__")); cbn [bind] in H; [|discriminate H].
    destruct (jindex j (K "__class__")); cbn [bind] in H; discriminate H.
Qed.

Corollary root_tree_ids_unique E schema t m : root_tree E schema = Ok (t, m) -> NoDup (ids t).
Proof.
  unfold root_tree. destruct (jindex schema (K "protocol")); cbn [bind]; [|intros X; discriminate X].
  intros H. apply get_tree_inv in H. destruct H as [_ [_ H]]. cbn [flat_map] in H. rewrite app_nil_r in H. exact H.
Qed.
