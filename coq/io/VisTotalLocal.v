(* C13, first clause, local part: the tree get_tree builds from a state get_state emitted for a value of the
   proved fragment is `good` (VisTotalPre.v): every node is the node of an object of the value or of an object
   the dumper allocated itself, its header is `nice`, and ranks strictly decrease towards the parts. *)
From Skv Require Import PyStrFacts CodecGuards CodecWfFacts PyValInd NodeInd TreeIds TreeWf GraphAudit ConstructFacts Families.
From Skv Require Import CodecMemberFacts CodecTreeFacts CodecShareFacts VisTotalPre.
From Coq Require Import Lia.

(* ---- list facts that do not depend on the section ---- *)
Lemma vl_dget_none_notin {A} t (acc : list (pstr * A)) : ~ In t (map fst acc) -> dget t acc = None.
Proof.
  induction acc as [|[t' j'] acc IH]; cbn [map fst dget In]; intros H; [reflexivity|].
  destruct (pstr_eqb t t') eqn:Eq; [apply pstr_eqb_eq in Eq; subst; tauto|]. apply IH. tauto.
Qed.

Lemma vl_content_states f : forall items acc st cont st',
  Forall (fun kv => is_prop (snd kv) = false /\ k_val (fst kv) <> None) items ->
  NoDup (map fst acc ++ map (fun kv => ktext (fst kv)) items) ->
  content_of f items acc st = Ok (cont, st') ->
  exists js, states_of f (map snd items) st = Ok (js, st') /\ cont = acc ++ combine (map (fun kv => ktext (fst kv)) items) js.
Proof.
  induction items as [|[k x] items IH]; intros acc st cont st' Hf Hnd H; cbn [content_of] in H.
  - injection H as <- <-. exists []. split; [reflexivity|]. cbn. rewrite app_nil_r. reflexivity.
  - inversion Hf as [|? ? [Hp Hk] Hf']; subst. cbn [fst snd] in Hp, Hk. rewrite Hp in H.
    destruct (f x st) as [[j st1]|] eqn:Ef; [|discriminate]. cbn [bind] in H.
    destruct (k_val k) as [sc|] eqn:Ek; [|congruence].
    cbn [map fst] in Hnd. unfold ktext in Hnd at 1. rewrite Ek in Hnd.
    rewrite jset_fresh in H.
    2:{ apply vl_dget_none_notin. intro Hin. apply NoDup_remove_2 in Hnd. apply Hnd. apply in_or_app. left. exact Hin. }
    destruct (IH (acc ++ [(key_text sc, j)]) st1 cont st' Hf') as [js [Hs Hc]].
    { rewrite map_app. cbn [map fst]. rewrite <- app_assoc. cbn [app].
      clear -Hnd. revert Hnd. generalize (map fst acc) as a, (map (fun kv : dkey * pval => ktext (fst kv)) items) as b, (key_text sc) as t.
      intros a b t H. induction a as [|y a IHa]; cbn [app] in *; [exact H|].
      inversion H as [|? ? Hy Hr]; subst. constructor; [|apply IHa; exact Hr].
      intro Hin. apply Hy. apply in_app_or in Hin. apply in_or_app. destruct Hin as [Hin|[<-|Hin]]; [left; exact Hin|right; left; reflexivity|right; right; exact Hin]. }
    { exact H. }
    exists (j :: js). cbn [map snd states_of]. rewrite Ef. cbn [bind]. rewrite Hs. cbn [bind]. split; [reflexivity|].
    rewrite Hc. cbn [map fst combine]. unfold ktext at 2. rewrite Ek. rewrite <- app_assoc. reflexivity.
Qed.

Lemma vl_plain_of_notleaf ns : Forall (fun n => notleaf n = true) ns -> forallb leaf_plain ns = true.
Proof.
  induction 1 as [|n ns Hn Hr IH]; [reflexivity|]. cbn [forallb]. rewrite IH, andb_true_r.
  destruct n; [reflexivity|reflexivity|discriminate Hn].
Qed.

Section Local.
  Variable D : denv.
  Variable F : cfacts.
  Variable E : env.
  Variable base : Z.
  Variable Objs : pval -> Prop.
  Hypothesis Ofun : forall a b, Objs a -> Objs b -> pid a = pid b -> a = b.
  Hypothesis Oid : forall a, Objs a -> (0 < pid a < base)%Z.
  Hypothesis Hreg : reg_ok (e_reg E) (e_cur E) = true.
  Let proto : json := JInt (e_cur E).

  Definition PV (v : pval) : Prop :=
    forall st j st', get_state D v st = Ok (j, st') -> (base <= d_next st)%Z ->
      (d_next st <= d_next st')%Z /\
      forall fuel m sl n m', get_tree fuel E proto [] sl m j = Ok (n, m') -> memo_lt m (d_next st) ->
        memo_lt m' (d_next st') /\ good base Objs (need v) n /\ notleaf n = true.

  (* what get_tree returns for a state, relative to the allocator bound B' after the dump of that state *)
  Definition Out (r : nat) (B' : Z) (n : node) (m' : memo) : Prop :=
    memo_lt m' B' /\ good base Objs r n /\ notleaf n = true.

  (* the carrier of an id: an object of the value of rank r, or an object the dumper allocated *)
  Definition own (id : Z) (r : nat) : Prop :=
    (exists w, Objs w /\ pid w = id /\ need w = r) \/ (base <= id)%Z.

  Lemma good_own id r h subs : own id r -> h_id h = Some (key id) -> nice h subs = true -> (1 <= r)%nat ->
    Forall (good base Objs (r - 1)) subs -> good base Objs r (Node h subs).
  Proof.
    intros [[w [Hw [Hp Hn]]]|Hb] Hid Hnice Hr Hsubs.
    - subst id r. eapply good_obj; eauto.
    - eapply good_alloc; eauto.
  Qed.

  Lemma own_obj v : Objs v -> own (pid v) (need v).
  Proof. intros Hv. left. exists v. auto. Qed.

  (* ---- the Ref branch of get_tree, shared by every kind ---- *)
  Lemma wrap v c mo l fields tag k B B' :
    Objs v -> dget (s "__id__") fields = None -> In (l, tag) frag_loaders -> kind_of_class tag = Some k ->
    (B <= B')%Z ->
    (forall fuel m sl n m', build E (get_tree fuel E proto) sl [] tag k m (node_state c mo l fields (pid v)) = Ok (n, m') ->
       memo_lt m B -> Out (need v) B' n m') ->
    forall fuel m sl n m', get_tree fuel E proto [] sl m (node_state c mo l fields (pid v)) = Ok (n, m') ->
      memo_lt m B -> Out (need v) B' n m'.
  Proof.
    intros Hv Hf Hl Hk HB Hnode fuel m sl n m' H Hm. destruct fuel as [|fuel]; [discriminate H|].
    unfold proto in H. rewrite (gt_step E Hreg _ _ _ _ _ _ _ _ _ _ Hf Hl Hk) in H. destruct (memo_mem (key (pid v)) m) eqn:Hmem.
    - injection H as <- <-. split; [eapply memo_lt_le; eauto|]. split; [|reflexivity]. apply good_ref; [exact Hv|lia].
    - eapply Hnode; eauto.
  Qed.

  (* ---- values whose node has no child node ---- *)
  Lemma leaf_PV v c mo l fields tag k (haux : hdr -> hdr) subs B B' :
    Objs v -> dget (s "__id__") fields = None -> In (l, tag) frag_loaders -> kind_of_class tag = Some k ->
    (forall h, h_id (haux h) = h_id h) ->
    (forall sl, nice (haux (mkh sl k tag (pid v) c mo JNull)) subs = true) ->
    (forall x, In x subs -> exists sl lf, x = Leaf sl lf) ->
    (forall rec sl m n m', build E rec sl [] tag k m (node_state c mo l fields (pid v)) = Ok (n, m') ->
       exists h, node_init sl k tag [] true m (node_state c mo l fields (pid v)) JNull = Ok (h, m') /\ n = Node (haux h) subs) ->
    (B <= B')%Z -> (base <= B)%Z ->
    forall fuel m sl n m', get_tree fuel E proto [] sl m (node_state c mo l fields (pid v)) = Ok (n, m') ->
      memo_lt m B -> Out (need v) B' n m'.
  Proof.
    intros Hv Hf Hl Hk Haux Hnice Hsubs Hb HB Hbase. pose proof (Oid _ Hv) as Hid.
    apply (wrap v c mo l fields tag k B B'); try assumption.
    intros fuel m sl n m' H Hm. destruct (Hb _ _ _ _ _ H) as [h [Hi ->]].
    rewrite init_eq in Hi by (try assumption; lia). injection Hi as <- <-.
    split; [apply memo_lt_cons; [lia|eapply memo_lt_le; eauto]|]. split; [|reflexivity].
    apply (good_own (pid v)); [apply own_obj; exact Hv|rewrite Haux; reflexivity|apply Hnice|apply need_pos|].
    rewrite Forall_forall. intros x Hx. destruct (Hsubs x Hx) as [sl0 [lf ->]]. apply good_leaf.
  Qed.

  Lemma scalar_PV id sc : Objs (PScalar id sc) -> PV (PScalar id sc).
  Proof.
    intros Hv st j st' H Hb. cbn [get_state] in H. injection H as <- <-. split; [lia|].
    unfold json_state.
    apply (leaf_PV (PScalar id sc) _ _ _ _ (s "_general.JsonNode") KJson (fun h => set_aux h (JStr (json_text sc))) [] (d_next st) (d_next st));
      try assumption; try reflexivity; try lia.
    - cbn; tauto.
    - intros x [].
    - intros rec sl m n m' H. unfold build in H.
      destruct (node_init _ _ _ _ _ _ _ _) as [[h m0]|]; [|discriminate H]. cbn [bind] in H.
      match type of H with context [jindex ?j0 (GetTree.K "content")] =>
        change (jindex j0 (GetTree.K "content")) with (Ok (A:=json) (JStr (json_text sc))) in H end.
      cbn [bind] in H. injection H as <- <-. eauto.
  Qed.

  Lemma func_PV id mo c : Objs (PFunc id mo c) -> PV (PFunc id mo c).
  Proof.
    intros Hv st j st' H Hb. cbn [get_state] in H. injection H as <- <-. split; [lia|].
    apply (leaf_PV (PFunc id mo c) _ _ _ _ (s "_general.FunctionNode") KFunction (fun h => h) [] (d_next st) (d_next st));
      try assumption; try reflexivity; try lia.
    - cbn; tauto.
    - intros x [].
    - intros rec sl m n m' H. unfold build in H.
      destruct (node_init _ _ _ _ _ _ _ _) as [[h m0]|]; [|discriminate H]. cbn [bind] in H. injection H as <- <-. eauto.
  Qed.

  Lemma type_PV id mo c : Objs (PType id mo c) -> PV (PType id mo c).
  Proof.
    intros Hv st j st' H Hb. cbn [get_state] in H. injection H as <- <-. split; [lia|].
    unfold type_state.
    apply (leaf_PV (PType id mo c) _ _ _ _ (s "_general.TypeNode") KType (fun h => h) [] (d_next st) (d_next st));
      try assumption; try reflexivity; try lia.
    - cbn; tauto.
    - intros x [].
    - intros rec sl m n m' H. unfold build in H.
      destruct (node_init _ _ _ _ _ _ _ _) as [[h m0]|]; [|discriminate H]. cbn [bind] in H. injection H as <- <-. eauto.
  Qed.

  Lemma sbound_next a st ja st1 : sbound_json a st = Ok (ja, st1) -> d_next st1 = d_next st.
  Proof. destruct a as [[| | | |]|]; cbn [sbound_json]; intros H; try discriminate H; injection H as <- <-; reflexivity. Qed.

  Lemma slice_PV id a b c : Objs (PSlice id a b c) -> PV (PSlice id a b c).
  Proof.
    intros Hv st j st' H Hb. cbn [get_state] in H.
    destruct (sbound_json a st) as [[ja st1]|] eqn:Ea; [|discriminate H]. cbn [bind] in H.
    destruct (sbound_json b st1) as [[jb st2]|] eqn:Eb; [|discriminate H]. cbn [bind] in H.
    destruct (sbound_json c st2) as [[jc st3]|] eqn:Ec; [|discriminate H]. cbn [bind] in H.
    injection H as <- <-. apply sbound_next in Ea, Eb, Ec. split; [lia|].
    apply (leaf_PV (PSlice id a b c) _ _ _ _ (s "_general.SliceNode") KSlice (fun h => h)
             [Leaf (SOne (GetTree.K "start")) (LRaw ja); Leaf (SOne (GetTree.K "stop")) (LRaw jb); Leaf (SOne (GetTree.K "step")) (LRaw jc)]
             (d_next st) (d_next st3));
      try assumption; try reflexivity; try lia.
    - cbn; tauto.
    - intros x [<-|[<-|[<-|[]]]]; eauto.
    - intros rec sl m n m' H. unfold build in H.
      destruct (node_init _ _ _ _ _ _ _ _) as [[h m0]|]; [|discriminate H]. cbn [bind] in H.
      set (cj := JObj [(CodecDump.K "start", ja); (CodecDump.K "stop", jb); (CodecDump.K "step", jc)]) in H.
      match type of H with context [jindex ?j0 (GetTree.K "content")] =>
        change (jindex j0 (GetTree.K "content")) with (Ok (A:=json) cj) in H end.
      cbn [bind] in H.
      change (jindex cj (GetTree.K "start")) with (Ok (A:=json) ja) in H.
      change (jindex cj (GetTree.K "stop")) with (Ok (A:=json) jb) in H.
      change (jindex cj (GetTree.K "step")) with (Ok (A:=json) jc) in H.
      cbn [bind] in H. injection H as <- <-. eauto.
  Qed.

  (* ---- leaves that own a zip member: arrays, sparse matrices (reading the member succeeded by hypothesis) ---- *)
  Lemma next_write f b st : d_next (if has_member f st then st else write_member f b st) = d_next st.
  Proof. destruct (has_member f st); reflexivity. Qed.

  Lemma arr_PV id gen mo c tok : Objs (PArr id gen mo c tok) -> PV (PArr id gen mo c tok).
  Proof.
    intros Hv st j st1 H Hb. cbn [get_state] in H. injection H as <- <-. rewrite next_write. split; [lia|].
    apply (leaf_PV (PArr id gen mo c tok) _ _ _ _ (s "_numpy.NdArrayNode") KNdArray (fun h => set_aux h (JStr (GetTree.K "numpy")))
             [Leaf (SOne (GetTree.K "content")) LBytes] (d_next st) (d_next st));
      try assumption; try reflexivity; try lia.
    - cbn; tauto.
    - intros x [<-|[]]; eauto.
    - intros rec sl m n m' H. unfold build in H.
      destruct (node_init _ _ _ _ _ _ _ _) as [[h m0]|]; [|discriminate H]. cbn [bind] in H.
      match type of H with context [jindex ?j0 (GetTree.K "type")] =>
        change (jindex j0 (GetTree.K "type")) with (Ok (A:=json) (JStr (CodecDump.K "numpy"))) in H end.
      cbn [bind] in H. change (jstr_eqb (JStr (CodecDump.K "numpy")) (GetTree.K "numpy")) with true in H. cbn iota in H.
      match type of H with context [jindex ?j0 (GetTree.K "file")] =>
        change (jindex j0 (GetTree.K "file")) with (Ok (A:=json) (JStr (npy_name id))) in H end.
      cbn [bind] in H. destruct (read_member E (JStr (npy_name id))) as [[]|]; [|discriminate H]. cbn [bind] in H.
      injection H as <- <-. eauto.
  Qed.

  Lemma sparse_PV id mo c tok : Objs (PSparse id mo c tok) -> PV (PSparse id mo c tok).
  Proof.
    intros Hv st j st1 H Hb. cbn [get_state] in H. injection H as <- <-. rewrite next_write. split; [lia|].
    apply (leaf_PV (PSparse id mo c tok) _ _ _ _ (s "_scipy.SparseMatrixNode") KSparse (fun h => set_aux h (JStr (GetTree.K "scipy")))
             [Leaf (SOne (GetTree.K "content")) LBytes] (d_next st) (d_next st));
      try assumption; try reflexivity; try lia.
    - cbn; tauto.
    - intros x [<-|[]]; eauto.
    - intros rec sl m n m' H. unfold build in H.
      destruct (node_init _ _ _ _ _ _ _ _) as [[h m0]|]; [|discriminate H]. cbn [bind] in H.
      match type of H with context [jindex ?j0 (GetTree.K "type")] =>
        change (jindex j0 (GetTree.K "type")) with (Ok (A:=json) (JStr (CodecDump.K "scipy"))) in H end.
      cbn [bind] in H. change (jstr_eqb (JStr (CodecDump.K "scipy")) (GetTree.K "scipy")) with true in H. cbn [negb] in H. cbn iota in H.
      match type of H with context [jindex ?j0 (GetTree.K "file")] =>
        change (jindex j0 (GetTree.K "file")) with (Ok (A:=json) (JStr (npz_name id))) in H end.
      cbn [bind] in H. destruct (read_member E (JStr (npz_name id))) as [[]|]; [|discriminate H]. cbn [bind] in H.
      injection H as <- <-. eauto.
  Qed.

  (* ---- lists of positions built one after the other ---- *)
  Lemma gen_local l : Forall PV l ->
    forall st js st', states_of (fun x s0 => get_state D x s0) l st = Ok (js, st') -> (base <= d_next st)%Z ->
      (d_next st <= d_next st')%Z /\ length js = length l /\
      forall fuel m sls ns m', sub_gen (get_tree fuel E proto []) (combine sls js) m = Ok (ns, m') ->
        length sls = length l -> memo_lt m (d_next st) ->
        memo_lt m' (d_next st') /\ Forall (fun n => notleaf n = true) ns /\
        forall r, (forall x, In x l -> (need x <= r)%nat) -> Forall (good base Objs r) ns.
  Proof.
    induction 1 as [|x l Hx Hl IH]; intros st js st' H Hb; cbn [states_of] in H.
    - injection H as <- <-. split; [lia|]. split; [reflexivity|]. intros fuel m sls ns m' Hs Hlen Hm.
      destruct sls; [|discriminate Hlen]. cbn [combine sub_gen] in Hs. injection Hs as <- <-.
      split; [exact Hm|]. split; [constructor|]. intros r _. constructor.
    - inv_bind H. destruct (Hx _ _ _ E0 Hb) as [Hn1 Hx1]. destruct (IH _ _ _ E1 ltac:(lia)) as [Hn2 [Hlen2 IH1]].
      split; [lia|]. split; [cbn [length]; congruence|].
      intros fuel m sls ns m' Hs Hlen Hm. destruct sls as [|sl sls]; [discriminate Hlen|]. cbn [length] in Hlen.
      cbn [combine sub_gen] in Hs.
      destruct (get_tree fuel E proto [] sl m j) as [[n1 m1]|] eqn:Eg; [|discriminate Hs]. cbn [bind] in Hs.
      destruct (sub_gen _ (combine sls l0) m1) as [[ns2 m2]|] eqn:Eg2; [|discriminate Hs]. cbn [bind] in Hs.
      injection Hs as <- <-.
      destruct (Hx1 _ _ _ _ _ Eg Hm) as [Hlt1 [Hg1 Hnl1]].
      destruct (IH1 _ _ _ _ _ Eg2 ltac:(lia) Hlt1) as [Hlt2 [Hnl2 Hg2]].
      split; [exact Hlt2|]. split; [constructor; assumption|].
      intros r Hr. constructor.
      + eapply good_mono; [exact Hg1|]. apply Hr. left. reflexivity.
      + apply Hg2. intros y Hy. apply Hr. right. exact Hy.
  Qed.

  (* list / tuple / set: the Node branch (also used for the key_types list, an object the dumper creates itself) *)
  Lemma seq_local q id c mo l st0 l0 st' r :
    own id r -> (0 < id)%Z -> Forall PV l ->
    states_of (fun x s0 => get_state D x s0) l st0 = Ok (l0, st') -> (base <= d_next st0)%Z ->
    (forall x, In x l -> (need x <= r - 1)%nat) -> (1 <= r)%nat ->
    forall fuel m sl B n m',
      build E (get_tree fuel E proto) sl [] (seq_tag q) (seq_kind q) m
        (node_state c mo (seq_loader q) [(CodecDump.K "content", JArr l0)] id) = Ok (n, m') ->
      memo_lt m B -> (id < B)%Z -> (B <= d_next st0)%Z -> Out r (d_next st') n m'.
  Proof.
    intros Hown Hid Hl E0 Hb Hneed Hr fuel m sl B n m' H Hm HidB HB.
    destruct (gen_local l Hl _ _ _ E0 Hb) as [Hnext [Hlen HG0]].
    set (ld := seq_loader q) in *. set (tag := seq_tag q) in *. set (k := seq_kind q) in *.
    assert (Hbd : build E (get_tree fuel E proto) sl [] tag k m (node_state c mo ld [(CodecDump.K "content", JArr l0)] id)
            = do (h, m0) <- node_init sl k tag [] true m (node_state c mo ld [(CodecDump.K "content", JArr l0)] id) JNull;
              do (ns, m1) <- sub_list (get_tree fuel E proto) [] (GetTree.K "content") m0 l0;
              Ok (Node h (or_empty (GetTree.K "content") LEmptyList ns), m1)).
    { unfold k, tag, ld. destruct q; reflexivity. }
    rewrite Hbd, init_eq in H by (try reflexivity; lia). cbn [bind] in H. clear Hbd.
    rewrite sub_list_gen, <- combine_const in H.
    destruct (sub_gen _ _ (key id :: m)) as [[ns m1]|] eqn:Es; [|discriminate H]. cbn [bind] in H. injection H as <- <-.
    destruct (HG0 _ _ _ _ _ Es) as [Hlt [Hnl Hg]].
    { rewrite map_length. exact Hlen. }
    { apply memo_lt_cons; [lia|]. eapply memo_lt_le; eauto. }
    split; [exact Hlt|]. split; [|reflexivity].
    apply (good_own id); [exact Hown|reflexivity| |exact Hr|].
    - unfold nice. cbn [mkh h_class h_module h_kind is_jstr andb].
      assert (Hp : forallb leaf_plain (or_empty (GetTree.K "content") LEmptyList ns) = true).
      { destruct ns as [|n1 ns']; [reflexivity|]. cbn [or_empty]. apply vl_plain_of_notleaf. exact Hnl. }
      unfold k. destruct q; exact Hp.
    - destruct ns as [|n1 ns']; cbn [or_empty]; [constructor; [apply good_leaf|constructor]|]. apply Hg. exact Hneed.
  Qed.

  Lemma seq_PV q id c l : Objs (PSeq q id (s "builtins") c false l) -> Forall PV l -> PV (PSeq q id (s "builtins") c false l).
  Proof.
    intros Hv Hl st j st1 H Hb. cbn [get_state] in H.
    destruct (states_of _ l st) as [[l0 st']|] eqn:E0; [|discriminate]. cbn [bind] in H. injection H as <- <-.
    destruct (gen_local l Hl _ _ _ E0 Hb) as [Hnext _]. split; [exact Hnext|].
    pose proof (Oid _ Hv) as Hid. cbn [pid] in Hid.
    set (v := PSeq q id (s "builtins") c false l).
    change (forall fuel m sl n m', get_tree fuel E proto [] sl m
               (node_state c (s "builtins") (seq_loader q) [(CodecDump.K "content", JArr l0)] (pid v)) = Ok (n, m') ->
              memo_lt m (d_next st) -> Out (need v) (d_next st') n m').
    apply (wrap v c (s "builtins") (seq_loader q) _ (seq_tag q) (seq_kind q)); try assumption; try reflexivity;
      [destruct q; cbn; tauto|destruct q; reflexivity|].
    intros fuel m sl n m' H Hm.
    apply (seq_local q id c (s "builtins") l st l0 st' (need v) (own_obj v Hv) ltac:(lia) Hl E0 Hb) with (fuel := fuel) (m := m) (sl := sl) (B := d_next st);
      try assumption; try lia.
    - intros x Hx. pose proof (max_map_in (fun x => need x) x l Hx). cbn [need v]. cbn beta in *. lia.
    - apply need_pos.
  Qed.

  (* ---- dict family ---- *)
  Lemma kt_PV ks tvs : Forall2 (fun k tv => ktv D k = Some tv) ks tvs -> Forall (keyok D F Objs) ks ->
    Forall PV tvs /\ forall x, In x tvs -> (need x <= 1)%nat.
  Proof.
    induction 1 as [|k tv ks tvs Hk Hr IH]; intros Hkeys; [split; [constructor|intros x []]|].
    inversion Hkeys as [|? ? [sc [tv' [_ [_ [Ekt [Ho _]]]]]] Hk']; subst. rewrite Hk in Ekt. injection Ekt as <-.
    destruct (IH Hk') as [IH1 IH2]. unfold ktv in Hk. destruct (dget _ _) as [tid|]; [|discriminate]. injection Hk as <-.
    split; [constructor; [apply type_PV; exact Ho|exact IH1]|]. intros x [<-|Hx]; [cbn [need]; lia|auto].
  Qed.

  Lemma dict_local id mo c items st ktid st0 kts cont st' r :
    own id r -> (0 < id)%Z -> (id < d_next st)%Z -> (base <= d_next st)%Z ->
    Forall (keyok D F Objs) (map fst items) -> NoDup (map (fun kv => ktext (fst kv)) items) ->
    Forall (fun kv => is_prop (snd kv) = false) items -> Forall PV (map snd items) ->
    fresh st = (ktid, st0) -> key_type_states D (map fst items) = Ok kts ->
    content_of (fun x s0 => get_state D x s0) items [] st0 = Ok (cont, st') ->
    (forall kv, In kv items -> (need (snd kv) <= r - 1)%nat) -> (3 <= r)%nat ->
    (d_next st <= d_next st')%Z /\
    forall fuel m sl n m',
      build E (get_tree fuel E proto) sl [] (s "_general.DictNode") KDict m (dict_state c mo cont kts ktid id) = Ok (n, m') ->
      memo_lt m (d_next st) -> Out r (d_next st') n m'.
  Proof.
    intros Hown Hid HidB Hb Hkeys Hnd Hprops HQ Hfresh Hkts Hcont Hneed Hr.
    unfold fresh in Hfresh. injection Hfresh as <- <-.
    set (st0 := {| d_next := d_next st + 1; d_uuid := d_uuid st; d_members := d_members st; d_late := d_late st |}) in *.
    destruct (vl_content_states (fun x s0 => get_state D x s0) items [] st0 cont st') as [js [Hstates Hc]]; [| |exact Hcont|].
    { rewrite Forall_forall in *. intros kv Hkv. split; [apply Hprops; exact Hkv|].
      destruct (Hkeys (fst kv) (in_map fst _ _ Hkv)) as [sc [tv [E1 _]]]. congruence. }
    { exact Hnd. }
    cbn [app] in Hc.
    destruct (gen_local (map snd items) HQ _ _ _ Hstates ltac:(unfold st0; cbn [d_next]; lia)) as [Hnext [Hlen HG0]].
    unfold st0 in Hnext; cbn [d_next] in Hnext. split; [lia|].
    destruct (kt_states _ _ _ Hkts) as [tvs [Htv Hts]].
    destruct (kt_PV _ _ Htv Hkeys) as [HQt Hnt].
    intros fuel m sl n m' H Hm.
    set (j := dict_state c mo cont kts (d_next st) id) in *.
    assert (Hbd : forall rec, build E rec sl [] (s "_general.DictNode") KDict m j
            = do (h, m0) <- node_init sl KDict (s "_general.DictNode") [] true m j JNull;
              do (ktn, m1) <- rec [] (SOne (GetTree.K "key_types")) m0 (list_state kts (d_next st));
              do (ns, m2) <- sub_dict rec [] (GetTree.K "content") m1 cont;
              Ok (Node h (ktn :: or_empty (GetTree.K "content") LEmptyDict ns), m2)).
    { intros rec. reflexivity. }
    rewrite Hbd in H. unfold j, dict_state in H. rewrite init_eq in H by (try reflexivity; lia). cbn [bind] in H. clear Hbd.
    destruct (get_tree fuel E proto [] (SOne (GetTree.K "key_types")) (key id :: m) (list_state kts (d_next st))) as [[ktn m1]|] eqn:Ekt;
      [|discriminate H]. cbn [bind] in H.
    (* the key_types list *)
    assert (Hmem2 : memo_mem (key (d_next st)) (key id :: m) = false).
    { apply (memo_lt_fresh _ (d_next st)); [|lia]. apply memo_lt_cons; [lia|exact Hm]. }
    destruct fuel as [|fuel]; [discriminate Ekt|].
    unfold list_state, proto in Ekt.
    rewrite (gt_step E Hreg fuel (SOne (GetTree.K "key_types")) (key id :: m) _ _ _ _ (d_next st) (s "_general.ListNode") KList) in Ekt;
      [|reflexivity|cbn; tauto|reflexivity]. rewrite Hmem2 in Ekt.
    assert (Hx1 : own (d_next st) 2) by (right; lia).
    assert (Hx3 : (base <= d_next st0)%Z) by (unfold st0; cbn [d_next]; lia).
    destruct (seq_local QList (d_next st) (s "list") (s "builtins") tvs st0 kts st0 2 Hx1 ltac:(lia) HQt (Hts st0) Hx3
                ltac:(intros x Hx; cbn; apply Hnt; exact Hx) ltac:(lia)
                fuel (key id :: m) (SOne (GetTree.K "key_types")) (d_next st0) ktn m1 Ekt) as [Hklt [Hkg Hknl]].
    { unfold st0; cbn [d_next]. apply memo_lt_cons; [lia|]. eapply memo_lt_le; [|exact Hm]. lia. }
    { unfold st0; cbn [d_next]. lia. }
    { lia. }
    (* the values *)
    rewrite sub_dict_gen, Hc, map_combine_fst in H.
    set (sls := map (fun t0 => SKey (GetTree.K "content") t0) (map (fun kv : dkey * pval => ktext (fst kv)) items)) in H.
    destruct (sub_gen _ (combine sls js) m1) as [[ns m2]|] eqn:Es; [|discriminate H]. cbn [bind] in H. injection H as <- <-.
    destruct (HG0 _ _ _ _ _ Es) as [Hlt [Hnl Hg]].
    { unfold sls. rewrite !map_length. reflexivity. }
    { exact Hklt. }
    split; [exact Hlt|]. split; [|reflexivity].
    apply (good_own id); [exact Hown|reflexivity| |lia|].
    - unfold nice. cbn [mkh h_class h_module h_kind is_jstr andb forallb]. rewrite andb_true_r.
      replace (leaf_plain ktn) with true by (destruct ktn; [reflexivity|reflexivity|discriminate Hknl]). cbn [andb].
      destruct ns as [|n1 ns']; [reflexivity|]. cbn [or_empty]. apply vl_plain_of_notleaf. exact Hnl.
    - constructor; [eapply good_mono; [exact Hkg|lia]|].
      destruct ns as [|n1 ns']; cbn [or_empty]; [constructor; [apply good_leaf|constructor]|]. apply Hg.
      intros x Hx. apply in_map_iff in Hx. destruct Hx as [kv [<- Hkv]]. apply Hneed. exact Hkv.
  Qed.

  Lemma dict_PV id mo c items : Objs (PDict id mo c items) -> items_ok D F Objs items ->
    Forall PV (map snd items) -> PV (PDict id mo c items).
  Proof.
    intros Hv [Hk [Hnd [Hdi Hpr]]] HQ st j st1 H Hb. cbn [get_state] in H.
    destruct (fresh st) as [ktid st0] eqn:Hfr.
    destruct (key_type_states D (map fst items)) as [kts|] eqn:Ekt; [|discriminate]. cbn [bind] in H.
    destruct (content_of _ items [] st0) as [[cont st']|] eqn:Ec; [|discriminate]. cbn [bind] in H. injection H as <- <-.
    pose proof (Oid _ Hv) as Hid. cbn [pid] in Hid.
    set (v := PDict id mo c items) in *.
    destruct (dict_local id mo c items st ktid st0 kts cont st' (need v) (own_obj v Hv) ltac:(lia) ltac:(lia) Hb Hk Hnd Hpr HQ Hfr Ekt Ec)
      as [Hnext Hnode].
    { intros kv Hkv. pose proof (max_map_in (fun kv => need (snd kv)) kv items Hkv). cbn [need v]. cbn beta in *. lia. }
    { cbn [need v]. lia. }
    split; [exact Hnext|]. unfold dict_state in *.
    change id with (pid v).
    apply (wrap v c mo _ _ (s "_general.DictNode") KDict (d_next st) (d_next st')); try assumption; try reflexivity; try (cbn; tauto).
  Qed.

  Lemma defdict_PV id f items :
    Objs (PDefDict id (s "collections") (s "defaultdict") f items) -> items_ok D F Objs items ->
    PV f -> Forall PV (map snd items) -> PV (PDefDict id (s "collections") (s "defaultdict") f items).
  Proof.
    intros Hv [Hk [Hnd [Hdi Hpr]]] Hf HQ st j st2 H Hb. cbn [get_state] in H.
    destruct (fresh st) as [did st0] eqn:Hfr0. destruct (fresh st0) as [ktid st0'] eqn:Hfr.
    destruct (key_type_states D (map fst items)) as [kts|] eqn:Ekt; [|discriminate]. cbn [bind] in H.
    destruct (content_of _ items [] st0') as [[cont st1]|] eqn:Ec; [|discriminate]. cbn [bind] in H.
    destruct (get_state D f st1) as [[fac st']|] eqn:Ef; [|discriminate]. cbn [bind] in H. injection H as <- <-.
    pose proof (Oid _ Hv) as Hid. cbn [pid] in Hid.
    assert (Hd : did = d_next st /\ d_next st0 = (d_next st + 1)%Z).
    { unfold fresh in Hfr0. injection Hfr0 as <- <-. cbn. auto. }
    destruct Hd as [-> Hn0].
    set (r := (3 + max_map (fun kv : dkey * pval => need (snd kv)) items)%nat).
    assert (Hy1 : own (d_next st) r) by (right; lia).
    destruct (dict_local (d_next st) (s "builtins") (s "dict") items st0 ktid st0' kts cont st1 r Hy1 ltac:(lia) ltac:(lia) ltac:(lia)
                Hk Hnd Hpr HQ Hfr Ekt Ec) as [Hnext1 Hnode].
    { intros kv Hkv. pose proof (max_map_in (fun kv => need (snd kv)) kv items Hkv). unfold r. cbn beta in *. lia. }
    { unfold r. lia. }
    destruct (Hf _ _ _ Ef ltac:(lia)) as [Hnext2 Hfq].
    split; [lia|].
    set (v := PDefDict id (s "collections") (s "defaultdict") f items) in *.
    change id with (pid v).
    apply (wrap v _ _ _ _ (s "_general.DefaultDictNode") KDefaultDict (d_next st) (d_next st')); try assumption; try reflexivity; try lia; try (cbn; tauto).
    intros fuel m sl n m' H Hm.
    set (mj := dict_state (CodecDump.K "dict") (CodecDump.K "builtins") cont kts ktid (d_next st)) in *.
    set (j := node_state (s "defaultdict") (s "collections") (CodecDump.K "DefaultDictNode")
                [(CodecDump.K "content", JObj [(CodecDump.K "main", mj); (CodecDump.K "default_factory", fac)])] (pid v)) in *.
    assert (Hbd : forall rec, build E rec sl [] (s "_general.DefaultDictNode") KDefaultDict m j
            = do (h, m0) <- node_init sl KDefaultDict (s "_general.DefaultDictNode") [] true m j JNull;
              do (a, m1) <- rec [] (SOne (GetTree.K "main")) m0 mj;
              do (b, m2) <- rec [] (SOne (GetTree.K "default_factory")) m1 fac;
              Ok (Node h [a; b], m2)).
    { intros rec. reflexivity. }
    rewrite Hbd in H. unfold j in H. rewrite init_eq in H by (try reflexivity; cbn [pid v]; lia). cbn [bind] in H. clear Hbd.
    cbn [pid v] in H.
    assert (Hm0 : memo_lt (key id :: m) (d_next st)) by (apply memo_lt_cons; [lia|exact Hm]).
    destruct (get_tree fuel E proto [] (SOne (GetTree.K "main")) (key id :: m) mj) as [[a m1]|] eqn:Ea; [|discriminate H]. cbn [bind] in H.
    destruct (get_tree fuel E proto [] (SOne (GetTree.K "default_factory")) m1 fac) as [[b m2]|] eqn:Eb; [|discriminate H]. cbn [bind] in H.
    injection H as <- <-.
    destruct fuel as [|fuel]; [discriminate Ea|].
    unfold mj, dict_state, proto in Ea.
    rewrite (gt_step E Hreg fuel (SOne (GetTree.K "main")) (key id :: m) _ _ _ _ (d_next st) (s "_general.DictNode") KDict) in Ea;
      [|reflexivity|cbn; tauto|reflexivity].
    rewrite (memo_lt_fresh _ (d_next st) (d_next st) Hm0 ltac:(lia)) in Ea.
    destruct (Hnode fuel (key id :: m) (SOne (GetTree.K "main")) a m1 Ea) as [Halt [Hag Hanl]].
    { eapply memo_lt_le; [|exact Hm0]. lia. }
    destruct (Hfq _ _ _ _ _ Eb Halt) as [Hblt [Hbg Hbnl]].
    split; [exact Hblt|]. split; [|reflexivity].
    apply (good_own (pid v)); [apply own_obj; exact Hv|reflexivity| |apply need_pos|].
    - unfold nice. cbn [mkh h_class h_module h_kind is_jstr andb]. apply vl_plain_of_notleaf. constructor; [exact Hanl|constructor; [exact Hbnl|constructor]].
    - cbn [need v]. constructor; [|constructor; [|constructor]].
      + eapply good_mono; [exact Hag|]. unfold r. lia.
      + eapply good_mono; [exact Hbg|]. lia.
  Qed.

  (* ---- values whose node has exactly one child node ---- *)
  Lemma single_PV v x c mo l (flds : json -> list (pstr * json)) tag k slot :
    Objs v -> PV x -> (need x < need v)%nat ->
    In (l, tag) frag_loaders -> kind_of_class tag = Some k ->
    (forall jx, dget (s "__id__") (flds jx) = None) ->
    (forall st, get_state D v st = do (jx, st1) <- get_state D x st; Ok (node_state c mo l (flds jx) (pid v), st1)) ->
    (forall rec sl m jx, build E rec sl [] tag k m (node_state c mo l (flds jx) (pid v))
                         = do (h, m0) <- node_init sl k tag [] true m (node_state c mo l (flds jx) (pid v)) JNull;
                           do (n, m1) <- rec [] (SOne slot) m0 jx; Ok (Node h [n], m1)) ->
    (forall sl ns, Forall (fun n => notleaf n = true) ns -> nice (mkh sl k tag (pid v) c mo JNull) ns = true) ->
    PV v.
  Proof.
    intros Hv Hx Hnd Hl Hk Hf Hget Hbuild Hnice st j st' H Hb. rewrite Hget in H.
    destruct (get_state D x st) as [[jx st1]|] eqn:Ex; [|discriminate]. cbn [bind] in H. injection H as <- <-.
    destruct (Hx _ _ _ Ex Hb) as [Hnext HQx]. split; [exact Hnext|].
    pose proof (Oid _ Hv) as Hid.
    apply (wrap v c mo l (flds jx) tag k (d_next st) (d_next st1)); try assumption; [apply Hf|].
    intros fuel m sl n m' H Hm. rewrite Hbuild, init_eq in H by (try apply Hf; lia). cbn [bind] in H.
    destruct (get_tree fuel E proto [] (SOne slot) (key (pid v) :: m) jx) as [[n1 m1]|] eqn:Eg; [|discriminate H]. cbn [bind] in H.
    injection H as <- <-.
    destruct (HQx _ _ _ _ _ Eg) as [Hlt [Hg Hnl]]; [apply memo_lt_cons; [lia|exact Hm]|].
    split; [exact Hlt|]. split; [|reflexivity].
    apply (good_own (pid v)); [apply own_obj; exact Hv|reflexivity| |apply need_pos|].
    - apply Hnice. constructor; [exact Hnl|constructor].
    - constructor; [|constructor]. eapply good_mono; [exact Hg|lia].
  Qed.

  (* ---- values whose node has a fixed list of child nodes ---- *)
  Lemma multi_PV v xs sls c mo l (flds : list json -> list (pstr * json)) tag k :
    Objs v -> Forall PV xs -> length sls = length xs ->
    (forall x, In x xs -> (need x < need v)%nat) ->
    In (l, tag) frag_loaders -> kind_of_class tag = Some k ->
    (forall js, dget (s "__id__") (flds js) = None) ->
    (forall st, get_state D v st = do (js, st1) <- states_of (fun x s0 => get_state D x s0) xs st; Ok (node_state c mo l (flds js) (pid v), st1)) ->
    (forall rec sl m js, length js = length xs ->
       build E rec sl [] tag k m (node_state c mo l (flds js) (pid v))
       = do (h, m0) <- node_init sl k tag [] true m (node_state c mo l (flds js) (pid v)) JNull;
         do (ns, m1) <- sub_gen (rec []) (combine sls js) m0; Ok (Node h ns, m1)) ->
    (forall sl ns, Forall (fun n => notleaf n = true) ns -> nice (mkh sl k tag (pid v) c mo JNull) ns = true) ->
    PV v.
  Proof.
    intros Hv Hxs Hlen Hsz Hl Hk Hf Hget Hbuild Hnice st j st' H Hb. rewrite Hget in H.
    destruct (states_of _ xs st) as [[js st1]|] eqn:Ex; [|discriminate]. cbn [bind] in H. injection H as <- <-.
    destruct (gen_local xs Hxs _ _ _ Ex Hb) as [Hnext [Hjl HG0]]. split; [exact Hnext|].
    pose proof (Oid _ Hv) as Hid.
    apply (wrap v c mo l (flds js) tag k (d_next st) (d_next st1)); try assumption; [apply Hf|].
    intros fuel m sl n m' H Hm. rewrite (Hbuild _ _ _ _ Hjl), init_eq in H by (try apply Hf; lia). cbn [bind] in H.
    destruct (sub_gen _ (combine sls js) (key (pid v) :: m)) as [[ns m1]|] eqn:Eg; [|discriminate H]. cbn [bind] in H.
    injection H as <- <-.
    destruct (HG0 _ _ _ _ _ Eg Hlen) as [Hlt [Hnl Hg]]; [apply memo_lt_cons; [lia|exact Hm]|].
    split; [exact Hlt|]. split; [|reflexivity].
    apply (good_own (pid v)); [apply own_obj; exact Hv|reflexivity|apply Hnice; exact Hnl|apply need_pos|].
    apply Hg. intros x Hx. specialize (Hsz x Hx). lia.
  Qed.

  Lemma nice_plain sl k tag id c mo ns :
    match k with KJson | KSlice | KFunction | KFunctionV0 | KMethod | KRandomGeneratorV0 | KDict => False | _ => True end ->
    Forall (fun n => notleaf n = true) ns -> nice (mkh sl k tag id c mo JNull) ns = true.
  Proof.
    intros Hk Hns. unfold nice. cbn [mkh h_class h_module h_kind is_jstr andb].
    destruct k; try contradiction; apply vl_plain_of_notleaf; exact Hns.
  Qed.

  Ltac two_states := intros st0; cbn [get_state states_of];
    repeat match goal with |- context [get_state D ?x ?s0] => destruct (get_state D x s0) as [[? ?]|]; cbn [bind]; [|reflexivity] end; reflexivity.

  Lemma masked_PV id d k : Objs (PMasked id (s "numpy.ma") (s "MaskedArray") d k) -> PV d -> PV k ->
    PV (PMasked id (s "numpy.ma") (s "MaskedArray") d k).
  Proof.
    intros Hv Hd Hk0.
    apply (multi_PV (PMasked id (s "numpy.ma") (s "MaskedArray") d k) [d; k] [SOne (GetTree.K "data"); SOne (GetTree.K "mask")]
             (s "MaskedArray") (s "numpy.ma") (CodecDump.K "MaskedArrayNode")
             (fun js => match js with [jd; jm] => [(CodecDump.K "content", JObj [(CodecDump.K "data", jd); (CodecDump.K "mask", jm)])] | _ => [] end)
             (s "_numpy.MaskedArrayNode") KMaskedArray); try assumption; try reflexivity.
    - constructor; [exact Hd|constructor; [exact Hk0|constructor]].
    - intros x [<-|[<-|[]]]; cbn [need]; lia.
    - cbn; tauto.
    - intros [|jd [|jm [|? ?]]]; reflexivity.
    - two_states.
    - intros rec sl m [|jd [|jm [|? ?]]] Hl; try discriminate Hl. unfold build, content_child.
      destruct (node_init _ _ _ _ _ _ _ _) as [[h m0]|]; [|reflexivity]. cbn [bind combine sub_gen].
      change (jindex (node_state (s "MaskedArray") (s "numpy.ma") (CodecDump.K "MaskedArrayNode")
                [(CodecDump.K "content", JObj [(CodecDump.K "data", jd); (CodecDump.K "mask", jm)])] (pid (PMasked id (s "numpy.ma") (s "MaskedArray") d k))) (GetTree.K "content"))
        with (Ok (A:=json) (JObj [(CodecDump.K "data", jd); (CodecDump.K "mask", jm)])). cbn [bind].
      change (jindex (JObj [(CodecDump.K "data", jd); (CodecDump.K "mask", jm)]) (GetTree.K "data")) with (Ok (A:=json) jd).
      change (jindex (JObj [(CodecDump.K "data", jd); (CodecDump.K "mask", jm)]) (GetTree.K "mask")) with (Ok (A:=json) jm). cbn [bind].
      destruct (rec [] (SOne (GetTree.K "data")) m0 jd) as [[a m1]|]; [|reflexivity]. cbn [bind].
      destruct (rec [] (SOne (GetTree.K "mask")) m1 jm) as [[b m2]|]; reflexivity.
    - intros sl ns. apply nice_plain. exact I.
  Qed.

  Lemma randgen_PV id mo c bg ss : Objs (PRandGen id mo c bg ss) -> PV bg -> PV ss -> PV (PRandGen id mo c bg ss).
  Proof.
    intros Hv Hb0 Hs0.
    apply (multi_PV (PRandGen id mo c bg ss) [bg; ss] [SOne (GetTree.K "bit_generator_state"); SOne (GetTree.K "seed_seq_state")]
             c mo (CodecDump.K "RandomGeneratorNode")
             (fun js => match js with [jb; js0] => [(CodecDump.K "content", JObj [(CodecDump.K "bit_generator", jb); (CodecDump.K "seed_seq", js0)])] | _ => [] end)
             (s "_numpy.RandomGeneratorNode") KRandomGenerator); try assumption; try reflexivity.
    - constructor; [exact Hb0|constructor; [exact Hs0|constructor]].
    - intros x [<-|[<-|[]]]; cbn [need]; lia.
    - cbn; tauto.
    - intros [|jd [|jm [|? ?]]]; reflexivity.
    - two_states.
    - intros rec sl m [|jd [|jm [|? ?]]] Hl; try discriminate Hl. unfold build, content_child.
      destruct (node_init _ _ _ _ _ _ _ _) as [[h m0]|]; [|reflexivity]. cbn [bind combine sub_gen].
      change (jindex (node_state c mo (CodecDump.K "RandomGeneratorNode")
                [(CodecDump.K "content", JObj [(CodecDump.K "bit_generator", jd); (CodecDump.K "seed_seq", jm)])] (pid (PRandGen id mo c bg ss))) (GetTree.K "content"))
        with (Ok (A:=json) (JObj [(CodecDump.K "bit_generator", jd); (CodecDump.K "seed_seq", jm)])). cbn [bind].
      change (jindex (JObj [(CodecDump.K "bit_generator", jd); (CodecDump.K "seed_seq", jm)]) (GetTree.K "bit_generator")) with (Ok (A:=json) jd).
      change (jindex (JObj [(CodecDump.K "bit_generator", jd); (CodecDump.K "seed_seq", jm)]) (GetTree.K "seed_seq")) with (Ok (A:=json) jm). cbn [bind].
      destruct (rec [] (SOne (GetTree.K "bit_generator_state")) m0 jd) as [[a m1]|]; [|reflexivity]. cbn [bind].
      destruct (rec [] (SOne (GetTree.K "seed_seq_state")) m1 jm) as [[b m2]|]; reflexivity.
    - intros sl ns. apply nice_plain. exact I.
  Qed.

  Lemma randstate_PV id mo c x : Objs (PRandState id mo c x) -> PV x -> PV (PRandState id mo c x).
  Proof.
    intros Hv Hx.
    apply (single_PV (PRandState id mo c x) x c mo (CodecDump.K "RandomStateNode") (fun jx => [(CodecDump.K "content", jx)])
             (s "_numpy.RandomStateNode") KRandomState (GetTree.K "content")); try assumption; try reflexivity;
      try (cbn [need]; lia); [cbn; tauto|].
    intros sl ns. apply nice_plain. exact I.
  Qed.

  Lemma partial_PV id f a k n : Objs (PPartial id (s "functools") (s "partial") f a k n) ->
    PV f -> PV a -> PV k -> PV n -> PV (PPartial id (s "functools") (s "partial") f a k n).
  Proof.
    intros Hv Hf Ha Hk0 Hn0.
    apply (multi_PV (PPartial id (s "functools") (s "partial") f a k n) [f; a; k; n]
             [SOne (GetTree.K "func"); SOne (GetTree.K "args"); SOne (GetTree.K "kwds"); SOne (GetTree.K "namespace")]
             (s "partial") (s "functools") (CodecDump.K "PartialNode")
             (fun js => match js with [jf; ja; jk; jn] =>
                          [(CodecDump.K "content", JObj [(CodecDump.K "func", jf); (CodecDump.K "args", ja); (CodecDump.K "kwds", jk); (CodecDump.K "namespace", jn)])]
                        | _ => [] end)
             (s "_general.PartialNode") KPartial); try assumption; try reflexivity.
    - constructor; [exact Hf|constructor; [exact Ha|constructor; [exact Hk0|constructor; [exact Hn0|constructor]]]].
    - intros x [<-|[<-|[<-|[<-|[]]]]]; cbn [need]; lia.
    - cbn; tauto.
    - intros [|j1 [|j2 [|j3 [|j4 [|? ?]]]]]; reflexivity.
    - two_states.
    - intros rec sl m [|j1 [|j2 [|j3 [|j4 [|? ?]]]]] Hl; try discriminate Hl. unfold build, content_child.
      destruct (node_init _ _ _ _ _ _ _ _) as [[h m0]|]; [|reflexivity]. cbn [bind combine sub_gen].
      set (cj := JObj [(CodecDump.K "func", j1); (CodecDump.K "args", j2); (CodecDump.K "kwds", j3); (CodecDump.K "namespace", j4)]).
      change (jindex (node_state (s "partial") (s "functools") (CodecDump.K "PartialNode") [(CodecDump.K "content", cj)]
                (pid (PPartial id (s "functools") (s "partial") f a k n))) (GetTree.K "content")) with (Ok (A:=json) cj). cbn [bind].
      change (jindex cj (GetTree.K "func")) with (Ok (A:=json) j1). change (jindex cj (GetTree.K "args")) with (Ok (A:=json) j2).
      change (jindex cj (GetTree.K "kwds")) with (Ok (A:=json) j3). change (jindex cj (GetTree.K "namespace")) with (Ok (A:=json) j4). cbn [bind].
      destruct (rec [] (SOne (GetTree.K "func")) m0 j1) as [[n1 m1]|]; [|reflexivity]. cbn [bind].
      destruct (rec [] (SOne (GetTree.K "args")) m1 j2) as [[n2 m2]|]; [|reflexivity]. cbn [bind].
      destruct (rec [] (SOne (GetTree.K "kwds")) m2 j3) as [[n3 m3]|]; [|reflexivity]. cbn [bind].
      destruct (rec [] (SOne (GetTree.K "namespace")) m3 j4) as [[n4 m4]|]; reflexivity.
    - intros sl ns. apply nice_plain. exact I.
  Qed.

  Lemma opfunc_PV id c attrs : Objs (POpFunc id c attrs) -> PV attrs -> PV (POpFunc id c attrs).
  Proof.
    intros Hv Ha.
    apply (single_PV (POpFunc id c attrs) attrs c (s "operator") (CodecDump.K "OperatorFuncNode") (fun jx => [(CodecDump.K "attrs", jx)])
             (s "_general.OperatorFuncNode") KOperatorFunc (GetTree.K "attrs")); try assumption; try reflexivity;
      try (cbn [need]; lia); [cbn; tauto|].
    intros sl ns. apply nice_plain. exact I.
  Qed.

  (* a dtype travels as an empty carrier array the dumper creates *)
  Lemma dtype_PV id tok : Objs (PDType id tok) -> PV (PDType id tok).
  Proof.
    intros Hv st j st1 H Hb. cbn [get_state] in H. destruct (fresh st) as [tid st0] eqn:Hfr. injection H as <- <-.
    assert (Hd : tid = d_next st /\ d_next st0 = (d_next st + 1)%Z).
    { unfold fresh in Hfr. injection Hfr as <- <-. cbn. auto. }
    destruct Hd as [-> Hn0]. set (tid := d_next st) in *.
    set (v := PDType id tok). set (f := npy_name tid).
    rewrite next_write. split; [lia|].
    pose proof (Oid _ Hv) as Hid. cbn [pid] in Hid.
    set (ji := node_state (CodecDump.K "ndarray") (CodecDump.K "numpy") (CodecDump.K "NdArrayNode")
                 [(CodecDump.K "type", JStr (CodecDump.K "numpy")); (CodecDump.K "file", JStr f)] tid).
    change (forall fuel m sl n m', get_tree fuel E proto [] sl m (node_state (CodecDump.K "dtype") (CodecDump.K "numpy") (CodecDump.K "DTypeNode")
                  [(CodecDump.K "content", ji)] (pid v)) = Ok (n, m') -> memo_lt m tid -> Out (need v) (d_next st0) n m').
    apply (wrap v _ _ _ _ (s "_numpy.DTypeNode") KDType tid (d_next st0)); try assumption; try reflexivity; try (unfold tid; lia); try (cbn; tauto).
    intros fuel m sl n m' H Hm. cbn [pid v] in H.
    set (jv := node_state (CodecDump.K "dtype") (CodecDump.K "numpy") (CodecDump.K "DTypeNode") [(CodecDump.K "content", ji)] id) in *.
    assert (Hbd : forall rec, build E rec sl [] (s "_numpy.DTypeNode") KDType m jv
            = do (h, m0) <- node_init sl KDType (s "_numpy.DTypeNode") [] true m jv JNull;
              do (n, m1) <- rec [] (SOne (GetTree.K "content")) m0 ji; Ok (Node h [n], m1)).
    { intros rec. reflexivity. }
    rewrite Hbd in H. unfold jv in H. rewrite init_eq in H by (try reflexivity; lia). cbn [bind] in H. clear Hbd.
    assert (Hm0 : memo_lt (key id :: m) tid) by (apply memo_lt_cons; [unfold tid; lia|exact Hm]).
    destruct (get_tree fuel E proto [] (SOne (GetTree.K "content")) (key id :: m) ji) as [[inner m1]|] eqn:Ei; [|discriminate H].
    cbn [bind] in H. injection H as <- <-.
    destruct fuel as [|fuel]; [discriminate Ei|].
    unfold ji, proto in Ei.
    rewrite (gt_step E Hreg fuel (SOne (GetTree.K "content")) (key id :: m) _ _ _ _ tid (s "_numpy.NdArrayNode") KNdArray) in Ei;
      [|reflexivity|cbn; tauto|reflexivity].
    rewrite (memo_lt_fresh _ tid tid Hm0 ltac:(lia)) in Ei.
    fold ji in Ei.
    assert (Hbi : build E (get_tree fuel E (JInt (e_cur E))) (SOne (GetTree.K "content")) [] (s "_numpy.NdArrayNode") KNdArray (key id :: m) ji
            = do (h, m0) <- node_init (SOne (GetTree.K "content")) KNdArray (s "_numpy.NdArrayNode") [] true (key id :: m) ji JNull;
              do _ <- read_member E (JStr f); Ok (Node (set_aux h (JStr (GetTree.K "numpy"))) [Leaf (SOne (GetTree.K "content")) LBytes], m0)).
    { unfold build. destruct (node_init _ _ _ _ _ _ _ _) as [[h m0]|]; reflexivity. }
    rewrite Hbi in Ei. unfold ji in Ei. rewrite init_eq in Ei by (try reflexivity; unfold tid; lia). cbn [bind] in Ei. clear Hbi.
    destruct (read_member E (JStr f)) as [[]|]; [|discriminate Ei]. cbn [bind] in Ei. injection Ei as <- <-.
    split; [apply memo_lt_cons; [unfold tid; lia|]; apply memo_lt_cons; [lia|]; eapply memo_lt_le; [|exact Hm]; unfold tid; lia|].
    split; [|reflexivity].
    apply (good_own (pid v)); [apply own_obj; exact Hv|reflexivity|reflexivity|apply need_pos|].
    constructor; [|constructor]. cbn [need v].
    apply (good_alloc base Objs _ _ _ tid); [unfold tid; lia|reflexivity|reflexivity|lia|].
    constructor; [apply good_leaf|constructor].
  Qed.

  (* ---- assembling ---- *)
  Theorem vok_good : forall v, vok D F Objs v -> PV v.
  Proof.
    apply (pval_ind' (fun v => vok D F Objs v -> PV v)).
    - intros v Hl Hv. destruct v; try discriminate Hl; cbn [vok] in Hv; destruct Hv as [Ho Hv]; try contradiction.
      + apply scalar_PV; assumption.
      + apply slice_PV; assumption.
      + apply arr_PV; assumption.
      + apply dtype_PV; assumption.
      + apply sparse_PV; assumption.
      + apply func_PV; assumption.
      + apply type_PV; assumption.
    - intros q id mo c nt l IH [Ho [-> [-> [Hc Hall]]]]. apply seq_PV; [exact Ho|].
      eapply Forall_imp2; [exact IH|apply vok_all; exact Hall].
    - intros id mo c l IH [Ho [Hc [Hi Hvals]]]. apply dict_PV; try assumption.
      apply Forall_map_snd. eapply Forall_imp2; [exact IH|apply vok_vals; exact Hvals].
    - intros id mo c f l IHf IH [Ho [-> [-> [Hi [Hf Hvals]]]]]. apply defdict_PV; try assumption; [apply IHf; exact Hf|].
      apply Forall_map_snd. eapply Forall_imp2; [exact IH|apply vok_vals; exact Hvals].
    - intros; cbn [vok] in *; tauto.
    - intros id mo c d k IHd IHk [Ho [-> [-> [Hd Hk0]]]]. apply masked_PV; auto.
    - intros id mo c x IHx [Ho [Hr Hx]]. apply randstate_PV; auto.
    - intros id mo c x y IHx IHy [Ho [Hr [Hx Hy]]]. apply randgen_PV; auto.
    - intros id mo c f a k n IHf IHa IHk IHn [Ho [-> [-> [Hok [Hf [Ha [Hk0 Hn0]]]]]]]. apply partial_PV; auto.
    - intros id c a IHa [Ho [Hr [Hok Hva]]]. apply opfunc_PV; try assumption. apply IHa. exact Hva.
    - intros; cbn [vok] in *; tauto.
    - intros; cbn [vok] in *; tauto.
  Qed.

End Local.
