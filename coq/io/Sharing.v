(* One dump as a depth-first walk over a heap graph, with an adversarial address allocator,
   and the load of the resulting schema (C06).  Model only; proofs are in SharingFacts.v.

   What is modelled
   ----------------
   * heap      : the caller's object graph.  Object [o] (an index into the heap) has a payload
                 kind and an ordered list of the things its *_get_state function hands to
                 get_state.  Such a thing is either another object of the caller ([RObj]) or a
                 TEMPORARY the dumper itself creates during that visit ([RTmp]: the tolist() list
                 of an object array, its shape tuple, the key_types list of a dict, dict(obj) of a
                 defaultdict, the data/mask views of a masked array, the state dicts of an RNG,
                 the __getstate__() dict or __reduce__() tuple of an object) with, recursively,
                 what is handed on from inside it.  A temporary is re-created at every visit of
                 its owner.
   * addresses : id(x).  The objects of the caller are alive for the whole dump, their addresses
                 are fixed and pairwise distinct: object [o] has address [o].  A temporary gets
                 [alloc n L] where [L] is the set of addresses of live objects and n counts
                 allocations.  The allocator is arbitrary except [alloc n L] is not in [L]:
                 "CPython may re-use the address of any dead object".
   * pinning   : SaveContext.memoize stores the object under its id until clear_memo, so a
                 temporary stays live until the end of the dump ([pin = true]).  With
                 [pin = false] (memo never filled, filled with None, or cleared early) a
                 temporary dies when the *_get_state call that created it returns: its address
                 leaves the live set.
   * schema    : get_state's result: the tree unfolding of the graph, every node carrying
                 __id__ = address.  (A shared object is serialised again at every reference.)
   * files     : ndarray / sparse matrices write "<id>.npy|npz" unless a member of that name exists.
   * load      : get_tree threads LoadContext.memo in pre-order: an id that is already in the memo
                 yields the memoised node ([LRef]); otherwise the node is memoised, then its
                 children are built.  Node.construct caches, so one node = one loaded object and
                 the children of a loaded object are the objects of its node's children.

   Allocation is modelled at the moment the temporary is handed to get_state.  CPython creates a
   nested temporary structure (e.g. the state dict of an RNG) before its parts are visited; the
   set of address assignments the two orders allow is the same: objects that are live at the same
   time have distinct addresses. *)
From Skv Require Import Corr.
From Coq Require Import List Arith Bool.
Import ListNotations.
Local Open Scope nat_scope.

Definition addr := nat.
Definition oid := nat.

Inductive pkind :=
| PList | PTuple | PDict | PSet | PDefaultDict | PBytearray
| PArray | PSparse | PObjArray | PMasked | PObject | PRng | PScalar | POther.

(* kinds whose *_get_state writes an archive member named after the id *)
Definition is_file (k : pkind) : bool :=
  match k with PArray | PSparse => true | _ => false end.

Inductive ref :=
| RObj (o : oid)
| RTmp (k : pkind) (kids : list ref).

Record obj := mkObj { o_kind : pkind; o_kids : list ref }.
Definition heap := list obj.

Definition node_of (h : heap) (r : ref) : option (pkind * list ref) :=
  match r with
  | RObj o => match nth_error h o with
              | Some ob => Some (o_kind ob, o_kids ob)
              | None => None
              end
  | RTmp k kids => Some (k, kids)
  end.

(* following a path of child indices through the caller's graph *)
Fixpoint resolve (h : heap) (r : ref) (p : list nat) : option ref :=
  match p with
  | [] => Some r
  | i :: p' =>
      match node_of h r with
      | Some (_, kids) =>
          match nth_error kids i with
          | Some r' => resolve h r' p'
          | None => None
          end
      | None => None
      end
  end.

Definition reachable (h : heap) (root o : oid) : Prop :=
  exists p, resolve h (RObj root) p = Some (RObj o).

Inductive schema := SNode (id : addr) (k : pkind) (kids : list schema).
Definition sid (s : schema) : addr := match s with SNode a _ _ => a end.
Definition skind (s : schema) : pkind := match s with SNode _ k _ => k end.
Definition skids (s : schema) : list schema := match s with SNode _ _ ks => ks end.

(* an object handed to get_state: one of the caller's, or the n-th temporary created *)
Inductive vobj := VOrig (o : oid) | VTmp (serial : nat).

Definition mem_nat (a : nat) (l : list nat) : bool := existsb (Nat.eqb a) l.

Record dstate := mkD {
  d_next : nat;                           (* allocations so far *)
  d_live : list addr;                     (* addresses of live objects *)
  d_memo : list (addr * vobj);            (* SaveContext.memo : id -> object *)
  d_files : list addr;                    (* members "<id>.npy" / "<id>.npz" *)
  d_occs : list (vobj * ref * schema)     (* ghost: completed get_state calls (object, what it is, result) *)
}.

Definition init (h : heap) : dstate := mkD 0 (seq 0 (length h)) [] [] [].

Fixpoint lookup {A} (a : nat) (l : list (nat * A)) : option A :=
  match l with
  | [] => None
  | (b, v) :: l' => if Nat.eqb a b then Some v else lookup a l'
  end.

Section Dump.
  Variable pin : bool.
  Variable alloc : nat -> list addr -> addr.
  Variable h : heap.

  (* id(value): a temporary has just been allocated *)
  Definition enter (r : ref) (st : dstate) : addr * vobj * dstate :=
    match r with
    | RObj o => (o, VOrig o, st)
    | RTmp _ _ =>
        let a := alloc (d_next st) (d_live st) in
        (a, VTmp (d_next st),
         mkD (S (d_next st)) (a :: d_live st) (d_memo st) (d_files st) (d_occs st))
    end.

  (* SaveContext.memoize: if obj_id not in self.memo: self.memo[obj_id] = obj *)
  Definition memoize (a : addr) (v : vobj) (st : dstate) : dstate :=
    if pin then
      match lookup a (d_memo st) with
      | Some _ => st
      | None => mkD (d_next st) (d_live st) ((a, v) :: d_memo st) (d_files st) (d_occs st)
      end
    else st.

  (* if f_name not in zip_file.namelist(): writestr(f_name, ...) *)
  Definition write_file (k : pkind) (a : addr) (st : dstate) : dstate :=
    if is_file k && negb (mem_nat a (d_files st))
    then mkD (d_next st) (d_live st) (d_memo st) (a :: d_files st) (d_occs st)
    else st.

  Definition log (v : vobj) (r : ref) (n : schema) (st : dstate) : dstate :=
    mkD (d_next st) (d_live st) (d_memo st) (d_files st) ((v, r, n) :: d_occs st).

  Definition set_live (l : list addr) (st : dstate) : dstate :=
    mkD (d_next st) l (d_memo st) (d_files st) (d_occs st).

  Section Body.
    Variable rec : ref -> dstate -> option (schema * dstate).

    Fixpoint dump_list (rs : list ref) (st : dstate) : option (list schema * dstate) :=
      match rs with
      | [] => Some ([], st)
      | r :: rs' =>
          match rec r st with
          | None => None
          | Some (n, st1) =>
              match dump_list rs' st1 with
              | None => None
              | Some (ns, st2) => Some (n :: ns, st2)
              end
          end
      end.

    (* get_state(value, save_context) *)
    Definition dump_body (r : ref) (st : dstate) : option (schema * dstate) :=
      match node_of h r with
      | None => None
      | Some (k, kids) =>
          let '(a, v, st1) := enter r st in
          let st2 := memoize a v st1 in
          match dump_list kids st2 with
          | None => None
          | Some (ks, st3) =>
              let n := SNode a k ks in
              let st4 := log v r n (write_file k a st3) in
              (* without pinning, whatever was created during this call is dead when it returns *)
              Some (n, if pin then st4 else set_live (d_live st) st4)
          end
      end.
  End Body.

  (* fuel bounds the recursion depth: a cyclic graph has no finite unfolding (Python: RecursionError) *)
  Fixpoint dump (fuel : nat) : ref -> dstate -> option (schema * dstate) :=
    match fuel with
    | O => fun _ _ => None
    | S f => dump_body (dump f)
    end.
End Dump.

(* ---------------------------------------------------------------------------------- load *)
Inductive ltree :=
| LNode (id : addr) (k : pkind) (kids : list ltree)
| LRef (id : addr).                                (* get_tree found the id in LoadContext.memo *)
Definition lid (t : ltree) : addr := match t with LNode a _ _ => a | LRef a => a end.

Fixpoint load_tree (s : schema) (m : list addr) : ltree * list addr :=
  match s with
  | SNode a k kids =>
      if mem_nat a m then (LRef a, m)
      else
        (* memoised in Node.__init__ before the children are built *)
        let (ts, m') :=
          (fix go (ss : list schema) (m : list addr) : list ltree * list addr :=
             match ss with
             | [] => ([], m)
             | s' :: ss' =>
                 let (t, m1) := load_tree s' m in
                 let (ts, m2) := go ss' m1 in
                 (t :: ts, m2)
             end) kids (a :: m) in
        (LNode a k ts, m')
  end.

Fixpoint load_forest (ss : list schema) (m : list addr) : list ltree * list addr :=
  match ss with
  | [] => ([], m)
  | s' :: ss' =>
      let (t, m1) := load_tree s' m in
      let (ts, m2) := load_forest ss' m1 in
      (t :: ts, m2)
  end.

(* the loaded object graph: one object per built node; its children are the objects of the child nodes *)
Definition lheap := list (addr * (pkind * list addr)).
Fixpoint nodes_of (t : ltree) : lheap :=
  match t with
  | LRef _ => []
  | LNode a k ts => (a, (k, map lid ts)) :: flat_map nodes_of ts
  end.

Definition loads (s : schema) : lheap := nodes_of (fst (load_tree s [])).

(* following a path of child indices through the loaded graph, from the object with id a *)
Fixpoint lresolve (lh : lheap) (a : addr) (p : list nat) : option addr :=
  match p with
  | [] => Some a
  | i :: p' =>
      match lookup a lh with
      | Some (_, ids) =>
          match nth_error ids i with
          | Some b => lresolve lh b p'
          | None => None
          end
      | None => None
      end
  end.

(* ---------------------------------------------------------------------------------- sizes *)
Fixpoint schema_nodes (s : schema) : nat :=
  match s with SNode _ _ kids => S (fold_right (fun x acc => schema_nodes x + acc) 0 kids) end.

(* n rungs: object 0 is an empty list, object i+1 is the list [object i, object i] *)
Definition rung (i : nat) : obj :=
  match i with O => mkObj PList [] | S j => mkObj PList [RObj j; RObj j] end.
Definition ladder (n : nat) : heap := map rung (seq 0 (S n)).

(* ---------------------------------------------------------------------------------- allocators *)
Definition fresh (alloc : nat -> list addr -> addr) : Prop := forall n L, ~ In (alloc n L) L.

(* never re-uses an address *)
Definition bump : nat -> list addr -> addr := fun _ L => S (fold_right Nat.max 0 L).
(* re-uses address [a] whenever it is free (a one-slot free list) *)
Definition reuse (a : addr) : nat -> list addr -> addr :=
  fun n L => if mem_nat a L then bump n L else a.

(* ---------------------------------------------------------------------------------- vocabulary of the theorems *)
(* (object, id) of every completed get_state call, latest first *)
Definition visited (st : dstate) : list (vobj * addr) :=
  map (fun e => (fst (fst e), sid (snd e))) (d_occs st).
(* same id <-> same object *)
Definition injective_ids (l : list (vobj * addr)) : Prop :=
  forall v a v' a', In (v, a) l -> In (v', a') l -> (a = a' <-> v = v').
(* SaveContext.memo holds, under its id, every object that was handed to get_state, and it is live *)
Definition memo_pins (st : dstate) : Prop :=
  forall v a, In (v, a) (visited st) -> lookup a (d_memo st) = Some v /\ In a (d_live st).
(* ids of the array / sparse objects that went through get_state *)
Definition visited_files (st : dstate) : list addr :=
  map (fun e => sid (snd e)) (filter (fun e => is_file (skind (snd e))) (d_occs st)).
Definition file_obj (h : heap) (o : oid) : bool :=
  match nth_error h o with Some ob => is_file (o_kind ob) | None => false end.
(* no array-like temporaries (no masked arrays, RNGs, dtypes in the graph) *)
Fixpoint ref_ok (r : ref) : bool :=
  match r with
  | RObj _ => true
  | RTmp k kids => negb (is_file k) && forallb ref_ok kids
  end.
Definition heap_ok (h : heap) : bool := forallb (fun ob => forallb ref_ok (o_kids ob)) h.

(* ---------------------------------------------------------------------------------- correspondence *)
(* pre-order sequence of the ids met when the loaded graph is unfolded from a *)
Fixpoint lunfold (fuel : nat) (lh : lheap) (a : addr) : list addr :=
  match fuel with
  | O => []
  | S f =>
      a :: match lookup a lh with
           | Some (_, ids) => flat_map (lunfold f lh) ids
           | None => []
           end
  end.

(* the same for the caller's graph: Some o for an object, None for a temporary *)
Fixpoint hunfold (fuel : nat) (h : heap) (r : ref) : list (option oid) :=
  match fuel with
  | O => []
  | S f =>
      (match r with RObj o => Some o | RTmp _ _ => None end)
      :: match node_of h r with
         | Some (_, kids) => flat_map (hunfold f h) kids
         | None => []
         end
  end.

Fixpoint index_of (a : nat) (l : list nat) : nat :=
  match l with
  | [] => 0
  | b :: l' => if Nat.eqb a b then 0 else S (index_of a l')
  end.
(* first-occurrence renumbering *)
Fixpoint renum_go (seen : list nat) (l : list nat) : list nat :=
  match l with
  | [] => []
  | a :: l' => if mem_nat a seen then index_of a seen :: renum_go seen l'
               else length seen :: renum_go (seen ++ [a]) l'
  end.
Definition renum (l : list nat) : list nat := renum_go [] l.

Definition show_nats (l : list nat) : pstr :=
  flat_map (fun n => show_N (N.of_nat n) ++ [44%N]) l.

Definition somes {A} (l : list (option A)) : list A :=
  flat_map (fun x => match x with Some a => [a] | None => [] end) l.

Definition corr_fuel : nat := 24.

(* canonical text: identity classes of the caller's objects along the unfolding of the ORIGINAL graph,
   '|' the same for the LOADED graph (ids that are addresses of caller objects), '|' number of
   id-named members [, '|' schema nodes] *)
Definition predict (nodes : bool) (alloc : nat -> list addr -> addr) (h : heap) (root : oid) : pstr :=
  match dump true alloc h corr_fuel (RObj root) (init h) with
  | None => [63%N]
  | Some (sc, st) =>
      let lh := loads sc in
      show_nats (renum (somes (hunfold corr_fuel h (RObj root))))
      ++ [124%N] ++
      show_nats (renum (filter (fun a => Nat.ltb a (length h)) (lunfold corr_fuel lh (sid sc))))
      ++ [124%N] ++ show_N (N.of_nat (length (d_files st)))
      ++ (if nodes then [124%N] ++ show_N (N.of_nat (schema_nodes sc)) else [])
  end.

(* the same run WITHOUT pinning: what the loaded graph looks like when addresses of dead temporaries
   are re-used (used by the harness to explain a disagreement, never as the expected value) *)
Definition predict_unpinned (alloc : nat -> list addr -> addr) (h : heap) (root : oid) : pstr :=
  match dump false alloc h corr_fuel (RObj root) (init h) with
  | None => [63%N]
  | Some (sc, st) =>
      show_nats (renum (filter (fun a => Nat.ltb a (length h)) (lunfold corr_fuel (loads sc) (sid sc))))
  end.
