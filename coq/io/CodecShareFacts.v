(* C05 facts, part 2: the sharing framework.  A value is loaded either from a Node (first occurrence of the
   object) or from a Ref to that Node; `Spec` says what constructing a tree position yields, relative to any
   root tree R in which every memoised id resolves (HG) to the value of the object carrying it. *)
From Skv Require Import PyStrFacts CodecGuards CodecWfFacts PyValInd NodeInd TreeIds GraphAudit ConstructFacts.
From Coq Require Import Lia.
From Skv Require Import CodecMemberFacts.
From Skv Require Import CodecTreeFacts.

Section Maps.
  Context {A : Type} (f : A -> nat).
  Fixpoint sum_map (l : list A) : nat := match l with [] => O | x :: l' => (f x + sum_map l')%nat end.
  Fixpoint max_map (l : list A) : nat := match l with [] => O | x :: l' => Nat.max (f x) (max_map l') end.
End Maps.

(* the lists tolist() creates for a sub-array of shape dims *)
Fixpoint nl (dims : list nat) : nat := match dims with [] => O | d :: ds => S (d * nl ds) end.

Fixpoint size (v : pval) : nat :=
  match v with
  | PSeq _ _ _ _ _ l => S (sum_map (fun x => size x) l)
  | PDict _ _ _ l => (2 + sum_map (fun kv => size (snd kv)) l)%nat
  | PDefDict _ _ _ f l => (3 + size f + sum_map (fun kv => size (snd kv)) l)%nat
  | PObjArr _ _ _ sh l => (3 + length sh + nl (map Z.to_nat sh) + sum_map (fun x => size x) l)%nat
  | PMasked _ _ _ d k => S (size d + size k)
  | PRandState _ _ _ x => S (size x)
  | PRandGen _ _ _ x y => S (size x + size y)
  | PPartial _ _ _ f a k n => S (size f + size a + size k + size n)
  | POpFunc _ _ a => S (size a)
  | PMethod _ _ _ x => S (size x)
  | PObj _ _ _ _ _ _ x => S (size x)
  | PDType _ _ => 2
  | _ => 1
  end.

Fixpoint need (v : pval) : nat :=
  match v with
  | PSeq _ _ _ _ _ l => S (max_map (fun x => need x) l)
  | PDict _ _ _ l => (3 + max_map (fun kv => need (snd kv)) l)%nat
  | PDefDict _ _ _ f l => (4 + Nat.max (need f) (max_map (fun kv => need (snd kv)) l))%nat
  | PObjArr _ _ _ sh l => (3 + length sh + max_map (fun x => need x) l)%nat
  | PMasked _ _ _ d k => S (Nat.max (need d) (need k))
  | PRandState _ _ _ x => S (need x)
  | PRandGen _ _ _ x y => S (Nat.max (need x) (need y))
  | PPartial _ _ _ f a k n => S (Nat.max (Nat.max (need f) (need a)) (Nat.max (need k) (need n)))
  | POpFunc _ _ a => S (need a)
  | PMethod _ _ _ x => S (need x)
  | PObj _ _ _ _ _ _ x => S (need x)
  | PDType _ _ => 2
  | _ => 1
  end.

Lemma sum_map_in {A} (f : A -> nat) x l : In x l -> (f x <= sum_map f l)%nat.
Proof. induction l as [|y l IH]; intros []; cbn [sum_map]; [subst; lia|]. specialize (IH H). lia. Qed.
Lemma max_map_in {A} (f : A -> nat) x l : In x l -> (f x <= max_map f l)%nat.
Proof. induction l as [|y l IH]; intros []; cbn [max_map]; [subst; lia|]. specialize (IH H). lia. Qed.
Lemma size_pos v : (1 <= size v)%nat.
Proof. destruct v; cbn [size]; lia. Qed.
Lemma need_pos v : (1 <= need v)%nat.
Proof. destruct v; cbn [need]; lia. Qed.

(* loaders of the proved fragment and the node classes get_tree must select for them *)
Definition frag_loaders : list (pstr * pstr) :=
  [(s "JsonNode", s "_general.JsonNode"); (s "ListNode", s "_general.ListNode"); (s "TupleNode", s "_general.TupleNode");
   (s "SetNode", s "_general.SetNode"); (s "SliceNode", s "_general.SliceNode"); (s "FunctionNode", s "_general.FunctionNode");
   (s "TypeNode", s "_general.TypeNode"); (s "DictNode", s "_general.DictNode"); (s "DefaultDictNode", s "_general.DefaultDictNode");
   (s "BytesNode", s "_general.BytesNode"); (s "BytearrayNode", s "_general.BytearrayNode"); (s "NdArrayNode", s "_numpy.NdArrayNode");
   (s "SparseMatrixNode", s "_scipy.SparseMatrixNode"); (s "DTypeNode", s "_numpy.DTypeNode");
   (s "RandomStateNode", s "_numpy.RandomStateNode"); (s "RandomGeneratorNode", s "_numpy.RandomGeneratorNode");
   (s "MaskedArrayNode", s "_numpy.MaskedArrayNode"); (s "PartialNode", s "_general.PartialNode");
   (s "OperatorFuncNode", s "_general.OperatorFuncNode"); (s "ObjectNode", s "_general.ObjectNode");
   (s "ConstructorFromReduceNode", s "_general.ConstructorFromReduceNode")].
Definition reg_ok (reg : registry) (cur : Z) : bool :=
  forallb (fun lt => match lookup reg cur (fst lt) (pkey cur) with Some t => pstr_eqb t (snd lt) | None => false end) frag_loaders.

(* sub_list / sub_dict as one threading loop over (slot, state) pairs *)
Section Gen.
  Variable rec : slot -> memo -> json -> res (node * memo).
  Fixpoint sub_gen (items : list (slot * json)) (m : memo) : res (list node * memo) :=
    match items with
    | [] => Ok ([], m)
    | (sl, j) :: items' => do (n, m1) <- rec sl m j; do (ns, m2) <- sub_gen items' m1; Ok (n :: ns, m2)
    end.
End Gen.
Lemma sub_list_gen rec extra name : forall js m,
  sub_list rec extra name m js = sub_gen (rec extra) (map (fun j => (SElem name, j)) js) m.
Proof.
  induction js as [|j js IH]; intros m; [reflexivity|]. cbn [sub_list map sub_gen].
  destruct (rec extra (SElem name) m j) as [[n m1]|]; [|reflexivity]. cbn [bind]. rewrite IH. reflexivity.
Qed.
Lemma sub_dict_gen rec extra name : forall kvs m,
  sub_dict rec extra name m kvs = sub_gen (rec extra) (map (fun kj => (SKey name (fst kj), snd kj)) kvs) m.
Proof.
  induction kvs as [|[k j] kvs IH]; intros m; [reflexivity|]. cbn [sub_dict map sub_gen fst snd].
  destruct (rec extra (SKey name k) m j) as [[n m1]|]; [|reflexivity]. cbn [bind]. rewrite IH. reflexivity.
Qed.

(* ---- lists in consecutive groups (the cells of an object array below its first axis) ---- *)
Lemma run_all_states (f : pval -> clo) l st : run_all (map f l) st = states_of f l st.
Proof.
  revert st. induction l as [|x l IH]; intros st; [reflexivity|]. cbn [map run_all states_of].
  destruct (f x st) as [[j st1]|]; [|reflexivity]. cbn [bind]. rewrite IH. reflexivity.
Qed.
Lemma chunks_map {A B} (f : A -> B) k d : forall l, chunks k d (map f l) = map (map f) (chunks k d l).
Proof.
  induction d as [|d IH]; intros l; [reflexivity|]. cbn [chunks map]. rewrite firstn_map, skipn_map, IH. reflexivity.
Qed.
Lemma chunks_length {A} k d (l : list A) : length (chunks k d l) = d.
Proof. revert l. induction d as [|d IH]; intros l; [reflexivity|]. cbn [chunks length]. rewrite IH. reflexivity. Qed.
Lemma chunks_concat {A} k d : forall (l : list A), length l = (d * k)%nat -> concat (chunks k d l) = l.
Proof.
  induction d as [|d IH]; intros l Hl; cbn [chunks concat].
  - destruct l; [reflexivity|discriminate Hl].
  - rewrite IH by (rewrite skipn_length; cbn in Hl; lia). apply firstn_skipn.
Qed.
Lemma chunks_in {A} k d : forall (l ch : list A) x, In ch (chunks k d l) -> In x ch -> In x l.
Proof.
  induction d as [|d IH]; intros l ch x Hch Hx; cbn [chunks] in Hch; [destruct Hch|]. destruct Hch as [<-|Hch].
  - rewrite <- (firstn_skipn k l). apply in_or_app. left. exact Hx.
  - rewrite <- (firstn_skipn k l). apply in_or_app. right. eapply IH; eassumption.
Qed.
Lemma chunks1 {A} : forall (l : list A), chunks 1 (length l) l = map (fun x => [x]) l.
Proof. induction l as [|x l IH]; [reflexivity|]. cbn [length chunks firstn skipn map]. rewrite IH. reflexivity. Qed.
Lemma sum_map_app {A} (f : A -> nat) a b : sum_map f (a ++ b) = (sum_map f a + sum_map f b)%nat.
Proof. induction a as [|x a IH]; [reflexivity|]. cbn [app sum_map]. rewrite IH. lia. Qed.
Lemma sum_map_concat {A} (f : A -> nat) (chs : list (list A)) : sum_map f (concat chs) = sum_map (fun ch => sum_map f ch) chs.
Proof. induction chs as [|ch chs IH]; [reflexivity|]. cbn [concat sum_map]. rewrite sum_map_app, IH. reflexivity. Qed.

(* get_state(obj.shape) as a loop of closures: one per axis *)
Definition int_clo (d : Z) : clo := fun st => let (i, st1) := int_obj d st in Ok (json_state (show_Z d) i, st1).
Lemma shape_items_run dims : forall st, run_all (map int_clo dims) st = Ok (shape_items dims st).
Proof.
  induction dims as [|d dims IH]; intros st; [reflexivity|]. cbn [map run_all shape_items]. unfold int_clo at 1.
  destruct (int_obj d st) as [i st1]. cbn [bind]. rewrite IH. destruct (shape_items dims st1) as [rest st2]. reflexivity.
Qed.

Lemma Forall2_len2 {A B} (R : A -> B -> Prop) a b : Forall2 R a b -> length a = length b.
Proof. induction 1; cbn [length]; congruence. Qed.

(* ---- get_state(obj.tolist()): the nested fresh lists, one ListNode per axis below the first ---- *)
(* w is the list tolist() yields for a sub-array of shape dims whose cells (C order) are seg: the loader's filling loop finds
   exactly these cells in it; its size and rank are bounded by the shape and the cells *)
Definition TL (dims : list nat) (seg : list pval) (w : pval) : Prop :=
  fill (map Z.of_nat dims) w = Ok seg
  /\ (size w <= nl dims + sum_map (fun x => size x) seg)%nat
  /\ (need w <= length dims + max_map (fun x => need x) seg)%nat.

Lemma take_fill_all rec : forall l rs, Forall2 (fun x r => rec x = Ok r) l rs ->
  take_fill rec (Z.of_nat (length l)) l = Ok (concat rs).
Proof.
  induction 1 as [|x r l rs Hx Hl IH]; [reflexivity|]. cbn [length take_fill concat].
  replace (Z.of_nat (S (length l)) <=? 0)%Z with false by (symmetry; apply Z.leb_gt; lia).
  rewrite Hx. cbn [bind]. replace (Z.of_nat (S (length l)) - 1)%Z with (Z.of_nat (length l)) by lia. rewrite IH. reflexivity.
Qed.

Lemma max_map_le {A} (f : A -> nat) l b : (forall x, In x l -> (f x <= b)%nat) -> (max_map f l <= b)%nat.
Proof. induction l as [|x l IH]; intros H; cbn [max_map]; [lia|]. pose proof (H x (or_introl eq_refl)). specialize (IH (fun y Hy => H y (or_intror Hy))). lia. Qed.

(* the items of one level: as many sub-lists as the axis is long, each over its own group of cells *)
Lemma TL_level ds d seg l :
  length seg = (d * nprod ds)%nat ->
  Forall2 (fun (T : pval -> Prop) v => T v) (map (TL ds) (chunks (nprod ds) d seg)) l ->
  length l = d
  /\ take_fill (fill (map Z.of_nat ds)) (Z.of_nat d) l = Ok seg
  /\ (sum_map (fun x => size x) l <= d * nl ds + sum_map (fun x => size x) seg)%nat
  /\ (forall w, In w l -> (need w <= length ds + max_map (fun x => need x) seg)%nat
                           /\ (size w <= nl ds + sum_map (fun x => size x) seg)%nat).
Proof.
  intros Hlen HT.
  assert (Hl : length l = d).
  { apply Forall2_len2 in HT. rewrite map_length, chunks_length in HT. congruence. }
  split; [exact Hl|].
  assert (Hin : forall ch, In ch (chunks (nprod ds) d seg) -> forall x, In x ch -> In x seg) by (intros ch Hch x Hx; eapply chunks_in; eassumption).
  pose proof (chunks_concat (nprod ds) d seg Hlen) as Hcat.
  revert HT Hin Hcat. generalize (chunks (nprod ds) d seg) as chs. intros chs HT Hin Hcat.
  assert (Hgen : take_fill (fill (map Z.of_nat ds)) (Z.of_nat (length l)) l = Ok (concat chs)
                 /\ (sum_map (fun x => size x) l <= length l * nl ds + sum_map (fun x => size x) (concat chs))%nat
                 /\ (forall w, In w l -> exists ch, In ch chs /\ TL ds ch w)).
  { clear -HT. remember (map (TL ds) chs) as Ts eqn:ETs. revert chs ETs.
    induction HT as [|T w Ts l Hw Hr IH]; intros chs ETs.
    - destruct chs; [|discriminate ETs]. repeat split; try reflexivity. intros w [].
    - destruct chs as [|ch chs]; [discriminate ETs|]. cbn [map] in ETs. injection ETs as -> ETs.
      destruct (IH chs ETs) as [H1 [H2 H3]]. destruct Hw as [Hf [Hs Hn]]. split; [|split].
      + cbn [length take_fill concat]. replace (Z.of_nat (S (length l)) <=? 0)%Z with false by (symmetry; apply Z.leb_gt; lia).
        rewrite Hf. cbn [bind]. replace (Z.of_nat (S (length l)) - 1)%Z with (Z.of_nat (length l)) by lia. rewrite H1. reflexivity.
      + cbn [length sum_map concat]. rewrite sum_map_app. lia.
      + intros w' [<-|Hw']; [exists ch; split; [left; reflexivity|repeat split; assumption]|].
        destruct (H3 w' Hw') as [ch' [Hc' HT']]. exists ch'. split; [right; exact Hc'|exact HT']. }
  destruct Hgen as [G1 [G2 G3]]. rewrite Hl, Hcat in *. split; [exact G1|]. split; [exact G2|].
  intros w Hw. destruct (G3 w Hw) as [ch [Hch [_ [Hs Hn]]]].
  assert (Hsub : forall x, In x ch -> In x seg) by (apply Hin; exact Hch).
  split.
  - assert (max_map (fun x => need x) ch <= max_map (fun x => need x) seg)%nat; [|lia].
    apply max_map_le. intros x Hx. apply (max_map_in (fun x => need x)). apply Hsub. exact Hx.
  - assert (sum_map (fun x => size x) ch <= sum_map (fun x => size x) seg)%nat; [|lia].
    rewrite <- Hcat. rewrite sum_map_concat. apply (sum_map_in (fun c0 => sum_map (fun x => size x) c0)). exact Hch.
Qed.

(* the items of the list whose content the array's state keeps *)
Definition content_Ts (dims : list nat) (cells : list pval) : list (pval -> Prop) :=
  match dims with
  | [] => [TL [] cells]
  | d :: ds => map (TL ds) (chunks (nprod ds) d cells)
  end.
Lemma TL_rank1 cells : forall l, Forall2 (fun (T : pval -> Prop) v => T v) (map (TL []) (map (fun x => [x]) cells)) l -> l = cells.
Proof.
  induction cells as [|c cells IH]; intros l HT; cbn [map] in HT; inversion HT as [|T w Ts l' Hw Hl']; subst; [reflexivity|].
  destruct Hw as [Hf _]. cbn [map fill] in Hf. injection Hf as ->. f_equal. apply IH. exact Hl'.
Qed.
Lemma nprod_zero xs : In 0%Z xs -> nprod (map Z.to_nat xs) = 0%nat.
Proof. induction xs as [|x xs IH]; intros H; [destruct H|]. cbn [map nprod]. destruct H as [->|H]; [reflexivity|]. rewrite (IH H). lia. Qed.

(* what the loader makes of these items *)
Lemma content_fill shape cells l :
  shape_okb shape (length cells) = true ->
  Forall2 (fun (T : pval -> Prop) v => T v) (content_Ts (map Z.to_nat shape) cells) l ->
  (forall d, shape = [d] -> l = cells /\ d = Z.of_nat (length cells))
  /\ fill_array shape l = Ok cells
  /\ (forall w, In w l -> (need w <= length shape + max_map (fun x => need x) cells)%nat
                          /\ (S (size w) <= 3 + length shape + nl (map Z.to_nat shape) + sum_map (fun x => size x) cells)%nat).
Proof.
  intros Hok HT. destruct (shape_ok_nat _ _ Hok) as [Hpos [Hid Hlen]].
  destruct shape as [|d0 sh].
  - cbn [map content_Ts] in HT. cbn [map nprod] in Hlen. inversion HT as [|T w Ts l' Hw Hl']; subst. inversion Hl'; subst.
    destruct Hw as [Hf [Hs Hn]]. cbn [map fill] in Hf. destruct cells as [|c [|c' cells]]; try discriminate Hlen. injection Hf as ->.
    split; [intros d Hd; discriminate Hd|]. split; [reflexivity|]. intros w' [<-|[]]. cbn [length map nl sum_map max_map] in *. lia.
  - cbn [map content_Ts] in HT. cbn [map nprod] in Hlen. set (d := Z.to_nat d0) in *. set (ds := map Z.to_nat sh) in *.
    inversion Hpos as [|? ? Hd0 Hsh]; subst.
    assert (Hidd : Z.of_nat d = d0) by (unfold d; apply Z2Nat.id; exact Hd0).
    assert (Hids : map Z.of_nat ds = sh) by (cbn [map] in Hid; injection Hid as _ Hid; exact Hid).
    destruct (TL_level ds d cells l Hlen HT) as [Hl [Hfill [Hsz Hw]]].
    split; [|split].
    + intros d' Hd'. injection Hd' as <- ->. cbn [map nprod] in *. fold d in HT.
      assert (Hc1 : length cells = d) by (unfold ds in Hlen; cbn [nprod] in Hlen; lia).
      split; [|lia]. rewrite <- Hc1, chunks1 in HT. apply TL_rank1. exact HT.
    + unfold fill_array. destruct (existsb (Z.eqb 0) (d0 :: sh)) eqn:Hz.
      * (* a zero-length axis: no cell *)
        f_equal. symmetry. apply length_zero_iff_nil. rewrite Hlen.
        apply existsb_exists in Hz. destruct Hz as [z [Hz Hz0]]. apply Z.eqb_eq in Hz0. subst z.
        change (d * nprod ds)%nat with (nprod (map Z.to_nat (d0 :: sh))). apply nprod_zero. exact Hz.
      * rewrite <- Hidd, <- Hids. exact Hfill.
    + intros w Hw'. destruct (Hw w Hw') as [Hn Hs]. cbn [length map nl]. fold d ds.
      assert (1 <= d)%nat by (destruct l as [|? ?]; [destruct Hw'|cbn [length] in Hl; lia]).
      assert (Hlds : length ds = length sh) by (unfold ds; apply map_length).
    split; [lia|]. assert (nl ds <= d * nl ds)%nat by (destruct d; [lia|cbn; lia]). lia.
Qed.


(* the facts about classes are consistent with what the builtin container names denote *)
Definition sane_names : list pstr :=
  [s "builtins.list"; s "builtins.tuple"; s "builtins.set"; s "builtins.dict"; s "collections.OrderedDict"; s "collections.defaultdict"].
Definition facts_sane (F : cfacts) : bool :=
  negb (mem (s "builtins.tuple") (f_namedtuples F)) && forallb (fun q => negb (mem q (f_missing F))) sane_names.

Section Share.
  Variable D : denv.
  Variable F : cfacts.
  Variable E : env.
  Variable C : cenv.
  Variable files : list (hkey * json).
  Variable base : Z.
  Variable Objs : pval -> Prop.
  Hypothesis Ofun : forall a b, Objs a -> Objs b -> pid a = pid b -> a = b.
  Hypothesis Oid : forall a, Objs a -> (0 < pid a < base)%Z.
  Hypothesis Hreg : reg_ok (e_reg E) (e_cur E) = true.
  Hypothesis HC : c_namedtuples C = f_namedtuples F /\ c_missing C = f_missing F.
  Hypothesis Hsane : facts_sane F = true.
  (* the file table and the member list of the archive being loaded *)
  (* every file name recorded for one id names the same content (a bytes object met twice was written twice) *)
  Definition fblob (x : json) : option blob := match x with JStr f => dget f (c_members C) | _ => None end.
  Hypothesis HFone : forall h x1 x2, In (h, x1) files -> In (h, x2) files -> fblob x1 = fblob x2.
  Hypothesis HEC : e_members E = map fst (c_members C).
  Hypothesis HCg : c_generic C = f_generic F.
  Hypothesis HCh : c_hkinds C = f_hkinds F.
  Let proto : json := JInt (e_cur E).

  Lemma disp l tag : In (l, tag) frag_loaders -> dispatch (e_reg E) (e_cur E) (JStr l) proto = Ok (Some tag).
  Proof.
    intros Hin. unfold dispatch, proto. cbn [jhash bind]. f_equal. f_equal.
    unfold reg_ok in Hreg. rewrite forallb_forall in Hreg. specialize (Hreg _ Hin). cbn [fst snd] in Hreg.
    unfold pkey in Hreg. destruct (lookup (e_reg E) (e_cur E) l (HNum (2 * e_cur E))) as [t|]; [|discriminate].
    apply pstr_eqb_eq in Hreg. subst. reflexivity.
  Qed.

  Lemma gt_step f sl m c mo l fields id tag k :
    dget (s "__id__") fields = None -> In (l, tag) frag_loaders -> kind_of_class tag = Some k ->
    get_tree (S f) E proto [] sl m (node_state c mo l fields id)
    = if memo_mem (key id) m then Ok (Ref sl (key id), m)
      else build E (get_tree f E proto) sl [] tag k m (node_state c mo l fields id).
  Proof.
    intros Hf Hl Hk. cbn [get_tree]. rewrite (jget_id _ _ _ _ _ Hf). cbn [bind jhash].
    change (HNum (2 * id)) with (key id). destruct (memo_mem (key id) m); [reflexivity|].
    change (jindex (node_state c mo l fields id) (GetTree.K "__loader__")) with (Ok (A:=json) (JStr l)).
    cbn [bind]. rewrite (disp _ _ Hl). cbn [bind]. rewrite Hk. reflexivity.
  Qed.

  (* ---- what constructing a tree position yields ---- *)
  Definition Den (R n : node) (v : pval) : Prop :=
    forall cf, (S (2 * need v) <= cf)%nat -> construct_val C files R cf n = Ok v.
  Definition DenN (R n : node) (v : pval) : Prop :=
    forall cf, (2 * need v <= cf)%nat -> construct_val C files R cf n = Ok v.
  (* every memoised id of an object smaller than k resolves in R to a node that constructs that object *)
  Definition HG (R : node) (k : nat) : Prop :=
    forall w t, Objs w -> (size w < k)%nat -> find_id (key (pid w)) R = Some t -> DenN R t w.
  Definition minR (m : memo) (R : node) : Prop := forall h, memo_mem h m = true -> In h (ids R).
  Definition Spec (n : node) (v : pval) (m : memo) : Prop :=
    forall R, sub n R -> minR m R -> HG R (S (size v)) -> Den R n v.
  Definition SpecN (n : node) (v : pval) (m : memo) : Prop :=
    forall R, sub n R -> minR m R -> HG R (size v) -> DenN R n v.
  Definition mono (m m' : memo) : Prop := forall h, memo_mem h m = true -> memo_mem h m' = true.
  Definition grow (m : memo) (ns : list node) (m' : memo) : Prop :=
    forall h, memo_mem h m' = true -> memo_mem h m = true \/ In h (flat_map ids ns).
  Definition memo_lt (m : memo) (B : Z) : Prop := forall h, memo_mem h m = true -> exists z, h = key z /\ (z < B)%Z.
  (* every memoised node inside n is either a node of an object the dumper created itself (id >= base)
     or the node of an object of the value, with its own specification *)
  Definition allok (n : node) (m' : memo) : Prop :=
    forall t hd subs hk, sub t n -> t = Node hd subs -> h_id hd = Some hk ->
      (exists z, hk = key z /\ (base <= z)%Z)
      \/ exists w mt, Objs w /\ hk = key (pid w) /\ mono mt m' /\ SpecN t w mt.

  Lemma HG_mono R k k' : (k <= k')%nat -> HG R k' -> HG R k.
  Proof. intros Hk H w t Hw Hs Hf. apply (H w t Hw); [lia|exact Hf]. Qed.
  Lemma Den_of_DenN R n v : DenN R n v -> Den R n v.
  Proof. intros H cf Hcf. apply H. lia. Qed.
  Lemma Spec_of_SpecN n v m : SpecN n v m -> Spec n v m.
  Proof. intros H R Hs Hm Hg. apply Den_of_DenN. apply H; [exact Hs|exact Hm|]. eapply HG_mono; [|exact Hg]. lia. Qed.
  Lemma mono_refl m : mono m m. Proof. intros h H. exact H. Qed.
  Lemma mono_trans a b c : mono a b -> mono b c -> mono a c.
  Proof. intros H1 H2 h H. auto. Qed.
  Lemma mono_cons i m : mono m (i :: m).
  Proof. intros h H. cbn [memo_mem]. rewrite H. apply orb_true_r. Qed.
  Lemma allok_mono n m1 m2 : mono m1 m2 -> allok n m1 -> allok n m2.
  Proof.
    intros Hm H t hd subs hk Hs Ht Hi. destruct (H t hd subs hk Hs Ht Hi) as [Hz|[w [mt [Hw [Hk [Hmt Hsp]]]]]]; [left; exact Hz|].
    right. exists w, mt. repeat split; try assumption. eapply mono_trans; eauto.
  Qed.
  Lemma minR_mono m m' R : mono m m' -> minR m' R -> minR m R.
  Proof. intros H1 H2 h H. auto. Qed.

  Lemma spec_ref sl v m : Objs v -> memo_mem (key (pid v)) m = true -> Spec (Ref sl (key (pid v))) v m.
  Proof.
    intros Hv Hm R _ HmR Hg cf Hcf. destruct cf as [|cf]; [lia|]. cbn [construct_val].
    destruct (find_id_exists _ _ (HmR _ Hm)) as [t Ht]. rewrite Ht.
    apply (Hg v t Hv); [lia|exact Ht|lia].
  Qed.
  Lemma allok_ref sl i m : allok (Ref sl i) m.
  Proof. intros t hd subs hk Hs Ht _. apply sub_ref_inv in Hs. congruence. Qed.
  Lemma allok_leaf sl l m : allok (Leaf sl l) m.
  Proof. intros t hd subs hk Hs Ht _. apply sub_leaf_inv in Hs. congruence. Qed.

  (* the own node of an object of the value, or of an object the dumper created *)
  Lemma allok_node hd subs v m m' :
    h_id hd = Some (key (pid v)) -> (Objs v \/ (base <= pid v)%Z) ->
    SpecN (Node hd subs) v m -> mono m m' ->
    (forall x, In x subs -> allok x m') -> allok (Node hd subs) m'.
  Proof.
    intros Hid Hv Hsp Hm Hch t hd' subs' hk Hs Ht Hi. apply sub_node_inv in Hs. destruct Hs as [->|[x [Hx Hs]]].
    - injection Ht as <- <-. rewrite Hid in Hi. injection Hi as <-. destruct Hv as [Hv|Hv].
      + right. exists v, m. auto.
      + left. eauto.
    - eapply Hch; eauto.
  Qed.

  (* result of loading the state of v at slot sl under memo m *)
  (* objects that own a zip member named after their id *)
  Definition ofile (w : pval) : option (pstr * blob) :=
    match w with
    | PArr id _ _ _ tok => Some (npy_name id, (MNpy, tok))
    | PSparse id _ _ tok => Some (npz_name id, (MNpz, tok))
    | _ => None
    end.
  (* every member written so far belongs to an object of the value or to a dtype carrier array *)
  (* bytes / bytearray: the member is named by the uuid counter, not by the id *)
  Definition obytes (w : pval) : option pstr := match w with PBytes _ _ _ _ tok => Some tok | _ => None end.
  Definition MOK (st : dst) : Prop :=
    forall f b, dget f (d_members st) = Some b ->
      (exists w, Objs w /\ ofile w = Some (f, b)) \/ (exists i, (base <= i < d_next st)%Z /\ f = npy_name i)
      \/ (exists n, (n < d_uuid st)%N /\ f = uuid_name n).
  (* every entry of the file table of j names the member of the object carrying the id; a bytes object has one entry
     per occurrence, each naming a member (among ms, provided P) with the content of the object *)
  Definition FTd (P : Prop) (ms : list (pstr * blob)) (j : json) : Prop :=
    forall h x, In (h, x) (file_table j) ->
      exists i, h = key i /\ ((exists w f b, Objs w /\ pid w = i /\ ofile w = Some (f, b) /\ x = JStr f)
                              \/ ((base <= i)%Z /\ x = JStr (npy_name i))
                              \/ (exists w tok n, Objs w /\ pid w = i /\ obytes w = Some tok /\ x = JStr (uuid_name n)
                                                  /\ (P -> dget (uuid_name n) ms = Some (MBin, tok)))).
  Definition Post (st : dst) (j : json) (st' : dst) : Prop :=
    lk_incl (d_members st) (d_members st') /\ FTd (MOK st) (d_members st') j /\ (MOK st -> MOK st').
  Definition Pre (st : dst) (j : json) (st' : dst) : Prop :=
    MOK st /\ lk_incl (d_members st') (c_members C) /\ incl (file_table j) files.

  Lemma FTd_nil P ms j : file_table j = [] -> FTd P ms j.
  Proof. intros H h x Hin. rewrite H in Hin. destruct Hin. Qed.
  Lemma FTd_mono (P P' : Prop) ms ms' j : (P' -> P) -> lk_incl ms ms' -> FTd P ms j -> FTd P' ms' j.
  Proof.
    intros HP Hlk H h x Hin. destruct (H h x Hin) as [i [Hk [A|[A|[w [tok [n [Hw [Hp [Ho [Hx Hd]]]]]]]]]]]; exists i; (split; [exact Hk|]).
    - left. exact A.
    - right. left. exact A.
    - right. right. exists w, tok, n. repeat split; try assumption. intros HP'. apply Hlk. apply Hd. apply HP. exact HP'.
  Qed.
  Lemma Post_same st j : file_table j = [] -> Post st j st.
  Proof. intros H. split; [apply lk_refl|]. split; [apply FTd_nil; exact H|auto]. Qed.
  Lemma MOK_next st st' : d_members st' = d_members st -> (d_next st <= d_next st')%Z -> (d_uuid st <= d_uuid st')%N -> MOK st -> MOK st'.
  Proof.
    intros Hm Hn Hu H f b Hd. rewrite Hm in Hd. destruct (H f b Hd) as [Hw|[[i [Hi Hf]]|[n [Hi Hf]]]]; [left; exact Hw|right; left|right; right].
    - exists i. split; [lia|exact Hf].
    - exists n. split; [lia|exact Hf].
  Qed.

  Definition notleaf (n : node) : bool := match n with Leaf _ _ => false | _ => true end.
  Definition Res (v : pval) (sl : slot) (m : memo) (n : node) (m' : memo) (B' : Z) : Prop :=
    node_slot n = sl /\ notleaf n = true /\ mono m m' /\ grow m [n] m' /\ memo_lt m' B' /\ Spec n v m /\ allok n m'.

  Definition Q (v : pval) : Prop :=
    forall st j st', get_state D v st = Ok (j, st') -> (base <= d_next st)%Z ->
      d_late st' = d_late st /\ (d_next st <= d_next st')%Z /\ Post st j st' /\
      forall fuel m sl, (need v <= fuel)%nat -> memo_lt m (d_next st) -> Pre st j st' ->
        exists n m', get_tree fuel E proto [] sl m j = Ok (n, m') /\ Res v sl m n m' (d_next st').

  (* the same for one run of a closure: a state producer whose value (an object the dumper creates itself: a tolist()
     list, a shape tuple, a fresh int) may depend on the allocator state it starts from *)
  Definition QB (v : pval) (st : dst) (j : json) (st' : dst) : Prop :=
    d_late st' = d_late st /\ (d_next st <= d_next st')%Z /\ Post st j st' /\
    forall fuel m sl, (need v <= fuel)%nat -> memo_lt m (d_next st) -> Pre st j st' ->
      exists n m', get_tree fuel E proto [] sl m j = Ok (n, m') /\ Res v sl m n m' (d_next st').
  Definition QC (T : pval -> Prop) (c : clo) : Prop :=
    forall st j st', c st = Ok (j, st') -> (base <= d_next st)%Z -> exists v, T v /\ QB v st j st'.
  Lemma Q_QC v : Q v -> QC (eq v) (fun s0 => get_state D v s0).
  Proof. intros H st j st' Hc Hb. exists v. split; [reflexivity|]. exact (H st j st' Hc Hb). Qed.

  Lemma memo_lt_le m B B' : (B <= B')%Z -> memo_lt m B -> memo_lt m B'.
  Proof. intros H Hm h Hh. destruct (Hm h Hh) as [z [-> Hz]]. exists z. split; [reflexivity|lia]. Qed.
  Lemma memo_lt_cons i m B : (i < B)%Z -> memo_lt m B -> memo_lt (key i :: m) B.
  Proof.
    intros Hi Hm h Hh. cbn [memo_mem] in Hh. apply orb_prop in Hh. destruct Hh as [Hh|Hh]; [|auto].
    apply hkey_eqb_eq in Hh. subst. eauto.
  Qed.
  Lemma memo_lt_fresh m B i : memo_lt m B -> (B <= i)%Z -> memo_mem (key i) m = false.
  Proof.
    intros Hm Hi. destruct (memo_mem (key i) m) eqn:Eq; [|reflexivity].
    destruct (Hm _ Eq) as [z [Hk Hz]]. apply key_inj in Hk. lia.
  Qed.

  (* the Ref branch of get_tree, shared by every kind: if the object's id is memoised the state is not looked at *)
  Lemma Q_wrap v st st' c mo l fields tag k :
    pid v <> 0%Z -> Objs v -> dget (s "__id__") fields = None -> In (l, tag) frag_loaders -> kind_of_class tag = Some k ->
    (d_next st <= d_next st')%Z ->
    (forall fuel m sl, (need v <= S fuel)%nat -> memo_lt m (d_next st) -> memo_mem (key (pid v)) m = false ->
       exists n m', build E (get_tree fuel E proto) sl [] tag k m (node_state c mo l fields (pid v)) = Ok (n, m')
                    /\ Res v sl m n m' (d_next st')) ->
    forall fuel m sl, (need v <= fuel)%nat -> memo_lt m (d_next st) ->
      exists n m', get_tree fuel E proto [] sl m (node_state c mo l fields (pid v)) = Ok (n, m') /\ Res v sl m n m' (d_next st').
  Proof.
    intros Hid Hv Hf Hl Hk Hnext Hnode fuel m sl Hn Hm. destruct fuel as [|fuel]; [pose proof (need_pos v); lia|].
    rewrite (gt_step _ _ _ _ _ _ _ _ _ _ Hf Hl Hk). destruct (memo_mem (key (pid v)) m) eqn:Hmem.
    - exists (Ref sl (key (pid v))), m. split; [reflexivity|]. unfold Res. cbn [node_slot notleaf]. repeat split.
      + apply mono_refl.
      + intros h Hh. left. exact Hh.
      + eapply memo_lt_le; eauto.
      + apply spec_ref; assumption.
      + apply allok_ref.
    - apply Hnode; assumption.
  Qed.

  (* ---- lists of positions built one after the other ---- *)
  Definition LSpec (ns : list node) (l : list pval) (m : memo) : Prop :=
    forall R K, (forall x, In x ns -> sub x R) -> minR m R -> HG R K ->
      (forall v, In v l -> (S (size v) <= K)%nat) -> Forall2 (Den R) ns l.

  Lemma mapM_den R cf ns l : Forall2 (Den R) ns l -> (forall v, In v l -> (S (2 * need v) <= cf)%nat) ->
    mapM (construct_val C files R cf) ns = Ok l.
  Proof.
    induction 1 as [|n v ns l Hn Hr IH]; intros Hcf; [reflexivity|]. cbn [mapM].
    rewrite (Hn cf (Hcf v (or_introl eq_refl))). cbn [bind]. rewrite IH by (intros; apply Hcf; right; assumption). reflexivity.
  Qed.

  Lemma minR_step m n m1 R : minR m R -> sub n R -> grow m [n] m1 -> minR m1 R.
  Proof.
    intros Hm Hs Hg h Hh. destruct (Hg h Hh) as [H|H]; [auto|]. cbn [flat_map] in H. rewrite app_nil_r in H.
    eapply ids_sub; eauto.
  Qed.

  Definition PostL (st : dst) (js : list json) (st' : dst) : Prop :=
    lk_incl (d_members st) (d_members st') /\ (forall j, In j js -> FTd (MOK st) (d_members st') j) /\ (MOK st -> MOK st').
  Definition PreL (st : dst) (js : list json) (st' : dst) : Prop :=
    MOK st /\ lk_incl (d_members st') (c_members C) /\ (forall j, In j js -> incl (file_table j) files).

  Lemma gen_share l : Forall Q l ->
    forall st js st', states_of (fun x s0 => get_state D x s0) l st = Ok (js, st') -> (base <= d_next st)%Z ->
      d_late st' = d_late st /\ (d_next st <= d_next st')%Z /\ length js = length l /\ PostL st js st' /\
      forall fuel m sls, (forall x, In x l -> (need x <= fuel)%nat) -> memo_lt m (d_next st) -> length sls = length l ->
        PreL st js st' ->
        exists ns m', sub_gen (get_tree fuel E proto []) (combine sls js) m = Ok (ns, m')
          /\ Forall2 (fun n sl => node_slot n = sl /\ notleaf n = true) ns sls
          /\ mono m m' /\ grow m ns m' /\ memo_lt m' (d_next st') /\ LSpec ns l m /\ (forall x, In x ns -> allok x m').
  Proof.
    induction 1 as [|x l Hx Hl IH]; intros st js st' H Hb; cbn [states_of] in H.
    - injection H as <- <-. split; [reflexivity|]. split; [lia|]. split; [reflexivity|].
      split; [split; [apply lk_refl|split; [intros j []|auto]]|]. intros fuel m sls _ Hm Hlen _.
      destruct sls; [|discriminate Hlen]. exists [], m. cbn [combine sub_gen].
      split; [reflexivity|]. split; [constructor|]. split; [apply mono_refl|].
      split; [intros h Hh; left; exact Hh|]. split; [exact Hm|]. split; [|intros ? []].
      intros R K _ _ _ _. constructor.
    - inv_bind H. destruct (Hx _ _ _ E0 Hb) as [Hl1 [Hn1 [[Hlk1 [Hft1 Hmok1]] Hx1]]].
      destruct (IH _ _ _ E1 ltac:(lia)) as [Hl2 [Hn2 [Hlen2 [[Hlk2 [Hft2 Hmok2]] IH1]]]].
      split; [congruence|]. split; [lia|]. split; [cbn [length]; congruence|].
      split.
      { split; [eapply lk_trans; eauto|]. split; [|auto]. intros j0 [<-|Hj].
        - eapply FTd_mono; [|exact Hlk2|exact Hft1]. auto.
        - eapply FTd_mono; [exact Hmok1|apply lk_refl|exact (Hft2 j0 Hj)]. }
      intros fuel m sls Hn Hm Hlen [Hmok [Hlkc Hfiles]].
      destruct sls as [|sl sls]; [discriminate Hlen|]. cbn [length] in Hlen. cbn [combine sub_gen].
      destruct (Hx1 fuel m sl (Hn _ (or_introl eq_refl)) Hm) as [n [m1 [Hg [Hsl [Hnl [Hmo [Hgr [Hlt [Hsp Hal]]]]]]]]].
      { split; [exact Hmok|]. split; [eapply lk_trans; eauto|apply Hfiles; left; reflexivity]. }
      destruct (IH1 fuel m1 sls (fun y Hy => Hn y (or_intror Hy)) Hlt ltac:(lia)) as [ns [m2 [Hg2 [Hsl2 [Hmo2 [Hgr2 [Hlt2 [Hls Hal2]]]]]]]].
      { split; [auto|]. split; [exact Hlkc|intros j0 Hj; apply Hfiles; right; exact Hj]. }
      exists (n :: ns), m2. rewrite Hg. cbn [bind]. rewrite Hg2. cbn [bind]. split; [reflexivity|].
      split; [constructor; auto|]. split; [eapply mono_trans; eauto|]. split.
      { intros h Hh. destruct (Hgr2 h Hh) as [H|H].
        - destruct (Hgr h H) as [H'|H']; [left; exact H'|right]. cbn [flat_map] in *. rewrite app_nil_r in H'. apply in_or_app. left. exact H'.
        - right. cbn [flat_map]. apply in_or_app. right. exact H. }
      split; [exact Hlt2|]. split.
      { intros R K Hsub HmR Hg0 Hsz. constructor.
        - apply Hsp; [apply Hsub; left; reflexivity|exact HmR|]. eapply HG_mono; [|exact Hg0]. apply Hsz. left. reflexivity.
        - apply (Hls R K); [intros y Hy; apply Hsub; right; exact Hy| |exact Hg0|intros w Hw; apply Hsz; right; exact Hw].
          eapply minR_step; [exact HmR|apply Hsub; left; reflexivity|exact Hgr]. }
      intros y [<-|Hy]; [eapply allok_mono; eauto|auto].
  Qed.

  Lemma Forall2_len {A B} (P : A -> B -> Prop) a b : Forall2 P a b -> length a = length b.
  Proof. induction 1; cbn [length]; congruence. Qed.

  Lemma combine_const {A B} (c : A) (l : list B) : combine (map (fun _ => c) l) l = map (fun j => (c, j)) l.
  Proof. induction l as [|x l IH]; [reflexivity|]. cbn [map combine]. rewrite IH. reflexivity. Qed.

  Lemma states_share l : Forall Q l ->
    forall st js st', states_of (fun x s0 => get_state D x s0) l st = Ok (js, st') -> (base <= d_next st)%Z ->
      d_late st' = d_late st /\ (d_next st <= d_next st')%Z /\ PostL st js st' /\
      forall fuel m name, (forall x, In x l -> (need x <= fuel)%nat) -> memo_lt m (d_next st) -> PreL st js st' ->
        exists ns m', sub_list (get_tree fuel E proto) [] name m js = Ok (ns, m')
          /\ Forall (fun n => node_slot n = SElem name /\ notleaf n = true) ns /\ length ns = length l
          /\ mono m m' /\ grow m ns m' /\ memo_lt m' (d_next st') /\ LSpec ns l m /\ (forall x, In x ns -> allok x m').
  Proof.
    intros Hl st js st' H Hb. destruct (gen_share l Hl _ _ _ H Hb) as [H1 [H2 [Hlen [Hpost HG0]]]]. split; [exact H1|]. split; [exact H2|].
    split; [exact Hpost|]. intros fuel m name Hn Hm Hpre.
    destruct (HG0 fuel m (map (fun _ => SElem name) js) Hn Hm ltac:(rewrite map_length; exact Hlen) Hpre) as [ns [m' [Hs [Hf2 Hrest]]]].
    exists ns, m'. rewrite sub_list_gen, <- combine_const. split; [exact Hs|].
    split.
    { clear -Hf2. remember (map (fun _ : json => SElem name) js) as sls eqn:Es. revert js Es.
      induction Hf2 as [|n sl ns sls Hn Hr IH]; intros js Es; [constructor|]. destruct js as [|j js]; [discriminate Es|].
      cbn [map] in Es. injection Es as -> Es. constructor; [exact Hn|eapply IH; eauto]. }
    split; [|exact Hrest].
    apply Forall2_len in Hf2. rewrite map_length in Hf2. congruence.
  Qed.

  (* the same loops over closures whose values are only known per run *)
  Lemma gen_shareC Ts cs : Forall2 QC Ts cs ->
    forall st js st', run_all cs st = Ok (js, st') -> (base <= d_next st)%Z ->
      d_late st' = d_late st /\ (d_next st <= d_next st')%Z /\ length js = length cs /\ PostL st js st' /\
      exists l, Forall2 (fun (T : pval -> Prop) v => T v) Ts l /\
      forall fuel m sls, (forall x, In x l -> (need x <= fuel)%nat) -> memo_lt m (d_next st) -> length sls = length l ->
        PreL st js st' ->
        exists ns m', sub_gen (get_tree fuel E proto []) (combine sls js) m = Ok (ns, m')
          /\ Forall2 (fun n sl => node_slot n = sl /\ notleaf n = true) ns sls
          /\ mono m m' /\ grow m ns m' /\ memo_lt m' (d_next st') /\ LSpec ns l m /\ (forall x, In x ns -> allok x m').
  Proof.
    induction 1 as [|T c Ts cs Hx Hl IH]; intros st js st' H Hb; cbn [run_all] in H.
    - injection H as <- <-. split; [reflexivity|]. split; [lia|]. split; [reflexivity|].
      split; [split; [apply lk_refl|split; [intros j []|auto]]|]. exists []. split; [constructor|]. intros fuel m sls _ Hm Hlen _.
      destruct sls; [|discriminate Hlen]. exists [], m. cbn [combine sub_gen].
      split; [reflexivity|]. split; [constructor|]. split; [apply mono_refl|].
      split; [intros h Hh; left; exact Hh|]. split; [exact Hm|]. split; [|intros ? []].
      intros R K _ _ _ _. constructor.
    - inv_bind H. destruct (Hx _ _ _ E0 Hb) as [x [HTx [Hl1 [Hn1 [[Hlk1 [Hft1 Hmok1]] Hx1]]]]].
      destruct (IH _ _ _ E1 ltac:(lia)) as [Hl2 [Hn2 [Hlen2 [[Hlk2 [Hft2 Hmok2]] [lv [HTl IH1]]]]]].
      split; [congruence|]. split; [lia|]. split; [cbn [length]; congruence|].
      split.
      { split; [eapply lk_trans; eauto|]. split; [|auto]. intros j0 [<-|Hj].
        - eapply FTd_mono; [|exact Hlk2|exact Hft1]. auto.
        - eapply FTd_mono; [exact Hmok1|apply lk_refl|exact (Hft2 j0 Hj)]. }
      exists (x :: lv). split; [constructor; assumption|].
      intros fuel m sls Hn Hm Hlen [Hmok [Hlkc Hfiles]].
      destruct sls as [|sl sls]; [discriminate Hlen|]. cbn [length] in Hlen. cbn [combine sub_gen].
      destruct (Hx1 fuel m sl (Hn _ (or_introl eq_refl)) Hm) as [n [m1 [Hg [Hsl [Hnl [Hmo [Hgr [Hlt [Hsp Hal]]]]]]]]].
      { split; [exact Hmok|]. split; [eapply lk_trans; eauto|apply Hfiles; left; reflexivity]. }
      destruct (IH1 fuel m1 sls (fun y Hy => Hn y (or_intror Hy)) Hlt ltac:(lia)) as [ns [m2 [Hg2 [Hsl2 [Hmo2 [Hgr2 [Hlt2 [Hls Hal2]]]]]]]].
      { split; [auto|]. split; [exact Hlkc|intros j0 Hj; apply Hfiles; right; exact Hj]. }
      exists (n :: ns), m2. rewrite Hg. cbn [bind]. rewrite Hg2. cbn [bind]. split; [reflexivity|].
      split; [constructor; auto|]. split; [eapply mono_trans; eauto|]. split.
      { intros h Hh. destruct (Hgr2 h Hh) as [H|H].
        - destruct (Hgr h H) as [H'|H']; [left; exact H'|right]. cbn [flat_map] in *. rewrite app_nil_r in H'. apply in_or_app. left. exact H'.
        - right. cbn [flat_map]. apply in_or_app. right. exact H. }
      split; [exact Hlt2|]. split.
      { intros R K Hsub HmR Hg0 Hsz. constructor.
        - apply Hsp; [apply Hsub; left; reflexivity|exact HmR|]. eapply HG_mono; [|exact Hg0]. apply Hsz. left. reflexivity.
        - apply (Hls R K); [intros y Hy; apply Hsub; right; exact Hy| |exact Hg0|intros w Hw; apply Hsz; right; exact Hw].
          eapply minR_step; [exact HmR|apply Hsub; left; reflexivity|exact Hgr]. }
      intros y [<-|Hy]; [eapply allok_mono; eauto|auto].
  Qed.

  (* what building the children of a content list gives, as the Node lemmas below use it *)
  Definition ListRes (l : list pval) (st : dst) (js : list json) (st' : dst) : Prop :=
    forall fuel m name, (forall x, In x l -> (need x <= fuel)%nat) -> memo_lt m (d_next st) -> PreL st js st' ->
      exists ns m', sub_list (get_tree fuel E proto) [] name m js = Ok (ns, m')
        /\ Forall (fun n => node_slot n = SElem name /\ notleaf n = true) ns /\ length ns = length l
        /\ mono m m' /\ grow m ns m' /\ memo_lt m' (d_next st') /\ LSpec ns l m /\ (forall x, In x ns -> allok x m').

  Lemma states_shareC Ts cs : Forall2 QC Ts cs ->
    forall st js st', run_all cs st = Ok (js, st') -> (base <= d_next st)%Z ->
      d_late st' = d_late st /\ (d_next st <= d_next st')%Z /\ PostL st js st' /\
      exists l, Forall2 (fun (T : pval -> Prop) v => T v) Ts l /\ ListRes l st js st'.
  Proof.
    intros Hl st js st' H Hb. destruct (gen_shareC Ts cs Hl _ _ _ H Hb) as [H1 [H2 [Hlen [Hpost [l [HT HG0]]]]]]. split; [exact H1|]. split; [exact H2|].
    split; [exact Hpost|]. exists l. split; [exact HT|]. intros fuel m name Hn Hm Hpre.
    assert (Hll : length js = length l).
    { rewrite Hlen. pose proof (Forall2_len _ _ _ Hl) as L1. pose proof (Forall2_len _ _ _ HT) as L2. congruence. }
    destruct (HG0 fuel m (map (fun _ => SElem name) js) Hn Hm ltac:(rewrite map_length; exact Hll) Hpre) as [ns [m' [Hs [Hf2 Hrest]]]].
    exists ns, m'. rewrite sub_list_gen, <- combine_const. split; [exact Hs|].
    split.
    { clear -Hf2. remember (map (fun _ : json => SElem name) js) as sls eqn:Es. revert js Es.
      induction Hf2 as [|n sl ns sls Hn Hr IH]; intros js Es; [constructor|]. destruct js as [|j js]; [discriminate Es|].
      cbn [map] in Es. injection Es as -> Es. constructor; [exact Hn|eapply IH; eauto]. }
    split; [|exact Hrest].
    apply Forall2_len in Hf2. rewrite map_length in Hf2. congruence.
  Qed.

  Lemma strip_or_empty name ns : Forall (fun n => node_slot n = SElem name /\ notleaf n = true) ns ->
    strip_empty LEmptyList (or_empty name LEmptyList ns) = ns.
  Proof.
    destruct ns as [|n1 ns']; [reflexivity|]. intros H. inversion H as [|? ? [_ Hn] _]; subst. cbn [or_empty strip_empty].
    destruct n1; try discriminate Hn; destruct ns'; reflexivity.
  Qed.

  Lemma gt_ok h mo c : h_module h = JStr mo -> h_class h = JStr c -> mo <> [] -> c <> [] ->
    mem (qual mo c) (c_missing C) = false -> gt C h = Ok (mo, c).
  Proof.
    intros Hm Hc Hmo Hcn Hmiss. unfold gt. rewrite Hm, Hc. cbn [jstr bind].
    destruct mo as [|? ?]; [congruence|]. destruct c as [|? ?]; [congruence|]. rewrite Hmiss. reflexivity.
  Qed.
  Lemma lit_ne (t : string) : t <> EmptyString -> s t <> [].
  Proof. destruct t as [|a0 t0]; intros Ht; [congruence|cbn; discriminate]. Qed.

  (* ---- values whose node has no child node ---- *)
  Lemma leaf_Q v c mo l fields tag k (haux : hdr -> hdr) subs st' :
    Objs v -> dget (s "__id__") fields = None -> In (l, tag) frag_loaders -> kind_of_class tag = Some k ->
    (forall h, h_id (haux h) = h_id h /\ h_slot (haux h) = h_slot h) ->
    (forall x, In x subs -> exists sl lf, x = Leaf sl lf) ->
    (forall rec sl m, build E rec sl [] tag k m (node_state c mo l fields (pid v))
                      = do (h, m0) <- node_init sl k tag [] true m (node_state c mo l fields (pid v)) JNull; Ok (Node (haux h) subs, m0)) ->
    (forall R cf sl, cbody C files (haux (mkh sl k tag (pid v) c mo JNull)) subs (construct_val C files R cf) = Ok v) ->
    forall st, (d_next st <= d_next st')%Z -> (base <= d_next st)%Z ->
    forall fuel m sl, (need v <= fuel)%nat -> memo_lt m (d_next st) ->
      exists n m', get_tree fuel E proto [] sl m (node_state c mo l fields (pid v)) = Ok (n, m') /\ Res v sl m n m' (d_next st').
  Proof.
    intros Hv Hf Hl Hk Haux Hsubs Hb Hc st Hnext Hbase. pose proof (Oid _ Hv) as Hid.
    apply (Q_wrap v st st' c mo l fields tag k); try assumption; try lia.
    intros fuel m sl Hn Hm Hmem. rewrite Hb, init_eq by (try assumption; lia). cbn [bind].
    eexists. eexists. split; [reflexivity|].
    assert (Hids : ids (Node (haux (mkh sl k tag (pid v) c mo JNull)) subs) = [key (pid v)]).
    { cbn [ids]. unfold own_ids. rewrite (proj1 (Haux _)). cbn [mkh h_id].
      replace (flat_map ids subs) with (@nil hkey); [reflexivity|]. symmetry.
      clear -Hsubs. induction subs as [|x subs IH]; [reflexivity|]. cbn [flat_map].
      destruct (Hsubs x (or_introl eq_refl)) as [sl0 [lf ->]]. cbn [ids app]. apply IH. intros y Hy. apply Hsubs. right. exact Hy. }
    assert (Hsp : SpecN (Node (haux (mkh sl k tag (pid v) c mo JNull)) subs) v m).
    { intros R _ _ _ cf Hcf. destruct cf as [|cf]; [pose proof (need_pos v); lia|]. cbn [construct_val]. apply Hc. }
    unfold Res. cbn [node_slot notleaf]. rewrite (proj2 (Haux _)). cbn [mkh h_slot]. repeat split.
    - apply mono_cons.
    - intros h Hh. cbn [memo_mem] in Hh. apply orb_prop in Hh. destruct Hh as [Hh|Hh]; [|left; exact Hh].
      right. cbn [flat_map]. rewrite Hids. apply hkey_eqb_eq in Hh. subst. left. reflexivity.
    - apply memo_lt_cons; [lia|]. eapply memo_lt_le; eauto.
    - apply Spec_of_SpecN. exact Hsp.
    - eapply allok_node; [rewrite (proj1 (Haux _)); reflexivity|left; exact Hv|exact Hsp|apply mono_cons|].
      intros x Hx. destruct (Hsubs x Hx) as [sl0 [lf ->]]. apply allok_leaf.
  Qed.

  Lemma not_missing q : In q sane_names -> mem q (c_missing C) = false.
  Proof.
    intros Hq. destruct HC as [_ ->]. unfold facts_sane in Hsane. apply andb_prop in Hsane. destruct Hsane as [_ H].
    rewrite forallb_forall in H. specialize (H q Hq). apply negb_true_iff in H. exact H.
  Qed.

  Lemma nid_mkh sl k tag id c mo aux : nid (mkh sl k tag id c mo aux) = id.
  Proof. unfold nid, mkh, key. cbn [h_id]. apply key_div. Qed.

  Lemma scalar_Q id sc : Objs (PScalar id sc) -> scalar_rt_ok sc = true -> Q (PScalar id sc).
  Proof.
    intros Hv Hrt st j st' H Hb. cbn [get_state] in H. injection H as <- <-. split; [reflexivity|]. split; [lia|]. split; [apply Post_same; reflexivity|]. intros fuel0 m0 sl0 Hn0 Hm0 _; revert fuel0 m0 sl0 Hn0 Hm0.
    unfold json_state. apply (leaf_Q (PScalar id sc) _ _ _ _ (s "_general.JsonNode") KJson (fun h => set_aux h (JStr (json_text sc))) []);
      try assumption; try reflexivity; try lia.
    - cbn; tauto.
    - intros h. split; reflexivity.
    - intros x [].
    - intros R cf sl. unfold cbody. cbn [set_aux h_kind h_aux mkh]. unfold scalar_rt_ok in Hrt.
      destruct (json_parse (json_text sc)) as [sc'|]; [|discriminate]. cbn [bind].
      assert (sc' = sc).
      { destruct sc', sc; cbn in Hrt; try discriminate; try reflexivity; f_equal;
          try (apply Bool.eqb_prop; exact Hrt); try (apply Z.eqb_eq; exact Hrt); apply pstr_eqb_eq; exact Hrt. }
      subst. f_equal. f_equal. apply (nid_mkh sl KJson _ id _ _ (JStr (json_text sc))).
  Qed.

  Lemma func_Q id mo c : Objs (PFunc id mo c) -> resolvable F mo c = true -> Q (PFunc id mo c).
  Proof.
    intros Hv Hr st j st' H Hb. cbn [get_state] in H. injection H as <- <-. split; [reflexivity|]. split; [lia|]. split; [apply Post_same; reflexivity|]. intros fuel0 m0 sl0 Hn0 Hm0 _; revert fuel0 m0 sl0 Hn0 Hm0.
    apply (leaf_Q (PFunc id mo c) _ _ _ _ (s "_general.FunctionNode") KFunction (fun h => h) []);
      try assumption; try reflexivity; try lia.
    - cbn; tauto.
    - intros h. split; reflexivity.
    - intros x [].
    - intros R cf sl. unfold cbody. cbn [h_kind mkh]. unfold resolvable in Hr. apply andb_prop in Hr. destruct Hr as [Hmiss Hne].
      apply negb_true_iff in Hmiss. erewrite gt_ok; [|reflexivity|reflexivity| | |destruct HC as [_ ->]; exact Hmiss].
      + cbn [bind]. f_equal. f_equal. apply (nid_mkh sl KFunction _ id c mo JNull).
      + destruct mo; [discriminate Hne|discriminate].
      + destruct mo; [discriminate Hne|]. destruct c; [discriminate Hne|discriminate].
  Qed.

  Lemma type_Q id mo c : Objs (PType id mo c) -> resolvable F mo c = true -> Q (PType id mo c).
  Proof.
    intros Hv Hr st j st' H Hb. cbn [get_state] in H. injection H as <- <-. split; [reflexivity|]. split; [lia|]. split; [apply Post_same; reflexivity|]. intros fuel0 m0 sl0 Hn0 Hm0 _; revert fuel0 m0 sl0 Hn0 Hm0.
    unfold type_state. apply (leaf_Q (PType id mo c) _ _ _ _ (s "_general.TypeNode") KType (fun h => h) []);
      try assumption; try reflexivity; try lia.
    - cbn; tauto.
    - intros h. split; reflexivity.
    - intros x [].
    - intros R cf sl. unfold cbody. cbn [h_kind mkh]. unfold resolvable in Hr. apply andb_prop in Hr. destruct Hr as [Hmiss Hne].
      apply negb_true_iff in Hmiss. erewrite gt_ok; [|reflexivity|reflexivity| | |destruct HC as [_ ->]; exact Hmiss].
      + cbn [bind]. f_equal. f_equal. apply (nid_mkh sl KType _ id c mo JNull).
      + destruct mo; [discriminate Hne|discriminate].
      + destruct mo; [discriminate Hne|]. destruct c; [discriminate Hne|discriminate].
  Qed.

  Lemma slice_Q id a b c : Objs (PSlice id a b c) ->
    bound_supported a = true -> bound_supported b = true -> bound_supported c = true -> Q (PSlice id a b c).
  Proof.
    intros Hv Ha Hb0 Hc0 st j st' H Hb. cbn [get_state] in H.
    assert (Hsb : forall x st0, bound_supported x = true -> exists jx, sbound_json x st0 = Ok (jx, st0) /\ raw_bound jx = Ok x /\ file_table jx = []).
    { intros x st0 Hx. destruct x as [[| | | |]|]; try discriminate Hx; eexists; (split; [reflexivity|split; reflexivity]). }
    destruct (Hsb a st Ha) as [ja [Ea [Ra Fa]]]. rewrite Ea in H. cbn [bind] in H.
    destruct (Hsb b st Hb0) as [jb [Eb [Rb Fb]]]. rewrite Eb in H. cbn [bind] in H.
    destruct (Hsb c st Hc0) as [jc [Ec [Rc Fc]]]. rewrite Ec in H. cbn [bind] in H.
    injection H as <- <-. split; [reflexivity|]. split; [lia|]. split.
    { apply Post_same. match goal with |- file_table ?j0 = [] =>
        change (file_table j0) with ((file_table ja ++ file_table jb ++ file_table jc ++ []) ++ []) end.
      rewrite Fa, Fb, Fc. reflexivity. } intros fuel0 m0 sl0 Hn0 Hm0 _; revert fuel0 m0 sl0 Hn0 Hm0.
    apply (leaf_Q (PSlice id a b c) _ _ _ _ (s "_general.SliceNode") KSlice (fun h => h)
             [Leaf (SOne (GetTree.K "start")) (LRaw ja); Leaf (SOne (GetTree.K "stop")) (LRaw jb); Leaf (SOne (GetTree.K "step")) (LRaw jc)]);
      try assumption; try reflexivity; try lia.
    - cbn; tauto.
    - intros h. split; reflexivity.
    - intros x [<-|[<-|[<-|[]]]]; eauto.
    - intros R cf sl. unfold cbody. cbn [h_kind mkh]. rewrite Ra; cbn [bind]; rewrite Rb; cbn [bind]; rewrite Rc; cbn [bind].
      f_equal. f_equal. apply (nid_mkh sl KSlice _ id _ _ JNull).
  Qed.

  (* list / tuple / set of exact builtin class: the Node branch (also used for the key_types list, an object
     the dumper creates itself) *)
  Definition seq_loader (q : seqkind) : pstr :=
    match q with QList => CodecDump.K "ListNode" | QTuple => CodecDump.K "TupleNode" | QSet => CodecDump.K "SetNode" end.
  Definition seq_tag (q : seqkind) : pstr :=
    match q with QList => s "_general.ListNode" | QTuple => s "_general.TupleNode" | QSet => s "_general.SetNode" end.
  Definition seq_kind (q : seqkind) : kind := match q with QList => KList | QTuple => KTuple | QSet => KSet end.
  Definition seq_cls (q : seqkind) (c : pstr) : Prop :=
    match q with QList => c = s "list" | QTuple => c = s "tuple" | QSet => c = s "set" end.

  Lemma seq_node_gen q id c l st0 l0 st' :
    let v := PSeq q id (s "builtins") c false l in
    (Objs v \/ (base <= id)%Z) -> (0 < id)%Z -> seq_cls q c -> ListRes l st0 l0 st' ->
    forall fuel m sl B, (need v <= S fuel)%nat -> memo_lt m B -> (id < B)%Z -> (B <= d_next st0)%Z ->
      memo_mem (key id) m = false -> PreL st0 l0 st' ->
      exists n m', build E (get_tree fuel E proto) sl [] (seq_tag q) (seq_kind q) m
                     (node_state c (s "builtins") (seq_loader q) [(CodecDump.K "content", JArr l0)] id) = Ok (n, m')
                   /\ Res v sl m n m' (d_next st').
  Proof.
    intros v Hv Hid Hc HL fuel m sl B Hn Hm HidB HB Hmem HpreL.
    set (ld := seq_loader q). set (tag := seq_tag q). set (k := seq_kind q). cbn [need v] in Hn.
    assert (Hbd : build E (get_tree fuel E proto) sl [] tag k m (node_state c (s "builtins") ld [(CodecDump.K "content", JArr l0)] id)
            = do (h, m0) <- node_init sl k tag [] true m (node_state c (s "builtins") ld [(CodecDump.K "content", JArr l0)] id) JNull;
              do (ns, m1) <- sub_list (get_tree fuel E proto) [] (GetTree.K "content") m0 l0;
              Ok (Node h (or_empty (GetTree.K "content") LEmptyList ns), m1)).
    { destruct q; reflexivity. }
    rewrite Hbd, init_eq by (try reflexivity; lia). cbn [bind]. clear Hbd.
    destruct (HL fuel (key id :: m) (GetTree.K "content")) as [ns [m1 [Hsub [Hsl [Hlen [Hmo [Hgr [Hlt [Hls Hal]]]]]]]]].
    { intros x Hx. pose proof (max_map_in (fun x => need x) x l Hx). cbn beta in *. lia. }
    { apply memo_lt_cons; [lia|]. eapply memo_lt_le; eauto. }
    { exact HpreL. }
    rewrite Hsub. cbn [bind]. eexists. eexists. split; [reflexivity|].
    set (hd := mkh sl k tag id c (s "builtins") JNull).
    set (subs := or_empty (GetTree.K "content") LEmptyList ns).
    assert (Hin : forall x, In x ns -> In x subs).
    { intros x Hx. unfold subs. destruct ns; [destruct Hx|exact Hx]. }
    assert (Hsp : SpecN (Node hd subs) v m).
    { intros R Hs HmR Hg cf Hcf. destruct cf as [|cf]; [pose proof (need_pos v); lia|]. cbn [construct_val].
      assert (Hmap : mapM (construct_val C files R cf) ns = Ok l).
      { apply mapM_den.
        - apply (Hls R (size v)).
          + intros x Hx. eapply sub_child; [exact Hs|apply Hin; exact Hx].
          + intros h Hh. cbn [memo_mem] in Hh. apply orb_prop in Hh. destruct Hh as [Hh|Hh]; [|auto].
            apply hkey_eqb_eq in Hh. subst h. eapply ids_sub; [exact Hs|]. cbn [ids]. unfold own_ids, hd. cbn [mkh h_id]. left. reflexivity.
          + exact Hg.
          + intros w Hw. pose proof (sum_map_in (fun x => size x) w l Hw). cbn [size v]. cbn beta in *. lia.
        - intros w Hw. pose proof (max_map_in (fun x => need x) w l Hw). cbn [need v] in Hcf. cbn beta in *. lia. }
      unfold cbody, hd, mkh. cbn [h_kind]. fold (mkh sl k tag id c (s "builtins") JNull). fold hd.
      assert (Hgt : gt C hd = Ok (s "builtins", c)).
      { apply gt_ok; [reflexivity|reflexivity|apply lit_ne; discriminate| |].
        - destruct q; unfold seq_cls in Hc; subst c; apply lit_ne; discriminate.
        - apply not_missing. destruct q; unfold seq_cls in Hc; subst c; cbn; tauto. }
      unfold subs. destruct q; unfold seq_cls in Hc; subst c; cbn [k seq_kind]; rewrite Hgt; cbn [bind]; rewrite (strip_or_empty _ _ Hsl), Hmap; cbn [bind].
      + unfold hd. rewrite nid_mkh. reflexivity.
      + destruct HC as [-> _]. unfold facts_sane in Hsane. apply andb_prop in Hsane. destruct Hsane as [Hnt _].
        apply negb_true_iff in Hnt. change (qual (s "builtins") (s "tuple")) with (s "builtins.tuple"). rewrite Hnt.
        unfold hd. rewrite nid_mkh. reflexivity.
      + unfold hd. rewrite nid_mkh. reflexivity. }
    unfold Res. cbn [node_slot notleaf]. repeat split.
    - eapply mono_trans; [apply mono_cons|exact Hmo].
    - intros h Hh. destruct (Hgr h Hh) as [H|H].
      + cbn [memo_mem] in H. apply orb_prop in H. destruct H as [H|H]; [|left; exact H].
        apply hkey_eqb_eq in H. subst h. right. cbn [flat_map ids]. apply in_or_app. left. left. reflexivity.
      + right. cbn [flat_map ids]. rewrite app_nil_r. apply in_or_app. right.
        apply in_flat_map in H. destruct H as [x [Hx Hh']]. apply in_flat_map. exists x. split; [apply Hin; exact Hx|exact Hh'].
    - exact Hlt.
    - apply Spec_of_SpecN. exact Hsp.
    - apply (allok_node hd subs v m); [reflexivity|exact Hv|exact Hsp|eapply mono_trans; [apply mono_cons|exact Hmo]|].
      intros x Hx. unfold subs in Hx. destruct ns as [|n1 ns'].
      + destruct Hx as [<-|[]]. apply allok_leaf.
      + apply Hal. exact Hx.
  Qed.

  Lemma seq_node q id c l st0 l0 st' :
    let v := PSeq q id (s "builtins") c false l in
    (Objs v \/ (base <= id)%Z) -> (0 < id)%Z -> seq_cls q c -> Forall Q l ->
    states_of (fun x s0 => get_state D x s0) l st0 = Ok (l0, st') -> (base <= d_next st0)%Z ->
    forall fuel m sl B, (need v <= S fuel)%nat -> memo_lt m B -> (id < B)%Z -> (B <= d_next st0)%Z ->
      memo_mem (key id) m = false -> PreL st0 l0 st' ->
      exists n m', build E (get_tree fuel E proto) sl [] (seq_tag q) (seq_kind q) m
                     (node_state c (s "builtins") (seq_loader q) [(CodecDump.K "content", JArr l0)] id) = Ok (n, m')
                   /\ Res v sl m n m' (d_next st').
  Proof.
    intros v Hv Hid Hc Hl E0 Hb. destruct (states_share l Hl _ _ _ E0 Hb) as [_ [_ [_ HL]]].
    apply (seq_node_gen q id c l st0 l0 st' Hv Hid Hc HL).
  Qed.

  Lemma seq_Q q id c l : Objs (PSeq q id (s "builtins") c false l) -> seq_cls q c ->
    Forall Q l -> Q (PSeq q id (s "builtins") c false l).
  Proof.
    intros Hv Hc Hl st j st1 H Hb. cbn [get_state] in H.
    destruct (states_of _ l st) as [[l0 st']|] eqn:E0; [|discriminate]. cbn [bind] in H. injection H as <- <-.
    destruct (states_share l Hl _ _ _ E0 Hb) as [Hlate [Hnext [[Hlk [Hft Hmok]] _]]]. split; [exact Hlate|]. split; [exact Hnext|].
    assert (Hftj : forall c0 ld0, file_table (node_state c0 (s "builtins") ld0 [(CodecDump.K "content", JArr l0)] id) = flat_map file_table l0).
    { intros c0 ld0. rewrite ft_node_state by reflexivity. cbn [dget flat_map snd app]. rewrite file_table_arr, app_nil_r.
      change (pstr_eqb (s "file") (CodecDump.K "content")) with false. reflexivity. }
    split.
    { split; [exact Hlk|]. split; [|exact Hmok]. intros h x Hin. rewrite Hftj in Hin. apply in_flat_map in Hin. destruct Hin as [j0 [Hj0 Hin]].
      exact (Hft j0 Hj0 h x Hin). }
    intros fuel0 m0 sl0 Hn0 Hm0 [HpMOK [HpLk HpF]]. revert fuel0 m0 sl0 Hn0 Hm0.
    assert (HpreL : PreL st l0 st').
    { split; [exact HpMOK|]. split; [exact HpLk|]. intros j0 Hj0 e He. apply HpF. rewrite Hftj. apply in_flat_map. exists j0. auto. }
    pose proof (Oid _ Hv) as Hid. cbn [pid] in Hid.
    set (v := PSeq q id (s "builtins") c false l).
    change (forall fuel m sl, (need v <= fuel)%nat -> memo_lt m (d_next st) ->
              exists n m', get_tree fuel E proto [] sl m (node_state c (s "builtins") (seq_loader q) [(CodecDump.K "content", JArr l0)] (pid v)) = Ok (n, m')
                           /\ Res v sl m n m' (d_next st')).
    apply (Q_wrap v st st' c (s "builtins") (seq_loader q) _ (seq_tag q) (seq_kind q)); try assumption; try reflexivity;
      [cbn [pid v]; lia|destruct q; cbn; tauto|destruct q; reflexivity|].
    intros fuel m sl Hn Hm Hmem.
    apply (seq_node q id c l st l0 st' (or_introl Hv) ltac:(lia) Hc Hl E0 Hb fuel m sl (d_next st)); try assumption; lia.
  Qed.

  (* ---- dict family ---- *)
  Definition ktv (k : dkey) : option pval :=
    match dget (qual (k_mod k) (k_cls k)) (dn_tyids D) with
    | Some tid => Some (PType tid (k_mod k) (k_cls k))
    | None => None
    end.

  Lemma kt_states ks : forall kts, key_type_states D ks = Ok kts ->
    exists tvs, Forall2 (fun k tv => ktv k = Some tv) ks tvs
                /\ forall st, states_of (fun x s0 => get_state D x s0) tvs st = Ok (kts, st).
  Proof.
    induction ks as [|k ks IH]; intros kts H; cbn [key_type_states] in H.
    - injection H as <-. exists []. split; [constructor|reflexivity].
    - destruct (dget (qual (k_mod k) (k_cls k)) (dn_tyids D)) as [tid|] eqn:Eg; [|discriminate].
      destruct (key_type_states D ks) as [rest|]; [|discriminate]. cbn [bind] in H. injection H as <-.
      destruct (IH _ eq_refl) as [tvs [Hf Hs]]. exists (PType tid (k_mod k) (k_cls k) :: tvs). split.
      + constructor; [unfold ktv; rewrite Eg; reflexivity|exact Hf].
      + intros st. cbn [states_of get_state bind]. rewrite Hs. reflexivity.
  Qed.

  (* a key of the supported grammar whose type object is an object of the value *)
  Definition keyok (k : dkey) : Prop :=
    exists sc tv, k_val k = Some sc /\ coerce_key (k_mod k) (k_cls k) (key_text sc) = Ok sc
                  /\ ktv k = Some tv /\ Objs tv /\ resolvable F (k_mod k) (k_cls k) = true.

  Fixpoint distinct_from (acc ks : list dkey) : bool :=
    match ks with
    | [] => true
    | k :: r => forallb (fun k' => negb (key_eq k k')) acc && distinct_from (acc ++ [k]) r
    end.

  Lemma dict_set_fresh {A} k (v : A) acc : forallb (fun k' => negb (key_eq k k')) (map fst acc) = true ->
    dict_set k v acc = acc ++ [(k, v)].
  Proof.
    induction acc as [|[k' v'] acc IH]; cbn [map fst forallb dict_set app]; intros H; [reflexivity|].
    apply andb_prop in H. destruct H as [H1 H2]. apply negb_true_iff in H1. rewrite H1, IH by exact H2. reflexivity.
  Qed.

  Lemma jset_fresh t j acc : dget t acc = None -> jset t j acc = acc ++ [(t, j)].
  Proof.
    induction acc as [|[t' j'] acc IH]; cbn [dget jset app]; intros H; [reflexivity|].
    destruct (pstr_eqb t t'); [discriminate|]. rewrite IH by exact H. reflexivity.
  Qed.
  Lemma dget_none_notin {A} t (acc : list (pstr * A)) : ~ In t (map fst acc) -> dget t acc = None.
  Proof.
    induction acc as [|[t' j'] acc IH]; cbn [map fst dget In]; intros H; [reflexivity|].
    destruct (pstr_eqb t t') eqn:Eq; [apply pstr_eqb_eq in Eq; subst; tauto|]. apply IH. tauto.
  Qed.

  Definition ktext (k : dkey) : pstr := match k_val k with Some sc => key_text sc | None => [] end.

  (* the guard's distinctness (pairwise distinct JSON spellings of the keys still to come and of those already in
     `acc`) makes the collision branch of dict_get_state dead *)
  Lemma nodup_no_collision k sc (acc : list (pstr * json)) rest :
    k_val k = Some sc -> NoDup (map fst acc ++ key_text sc :: rest) -> key_collides k acc = false.
  Proof.
    intros Ek Hnd. unfold key_collides. rewrite Ek. destruct (mem (key_text sc) (map fst acc)) eqn:Hm; [|reflexivity].
    apply mem_In in Hm. apply NoDup_remove_2 in Hnd. exfalso. apply Hnd. apply in_or_app. left. exact Hm.
  Qed.
  Lemma jset_fresh_notin t j acc : ~ In t (map fst acc) -> jset t j acc = acc ++ [(t, j)].
  Proof using.
    induction acc as [|[t' j'] acc IH]; cbn [map fst In jset app]; intros H; [reflexivity|].
    destruct (pstr_eqb t t') eqn:Eq; [apply pstr_eqb_eq in Eq; exfalso; apply H; left; symmetry; exact Eq|].
    rewrite IH; [reflexivity|]. intro Hin. apply H. right. exact Hin.
  Qed.
  Lemma NoDup_shift {A} (a b : list A) t : NoDup (a ++ t :: b) -> NoDup ((a ++ [t]) ++ b).
  Proof. rewrite <- app_assoc. cbn [app]. exact (fun H => H). Qed.

  Lemma content_states f : forall items acc st cont st',
    Forall (fun kv => is_prop (snd kv) = false /\ k_val (fst kv) <> None) items ->
    NoDup (map fst acc ++ map (fun kv => ktext (fst kv)) items) ->
    content_of f items acc st = Ok (cont, st') ->
    exists js, states_of f (map snd items) st = Ok (js, st') /\ cont = acc ++ combine (map (fun kv => ktext (fst kv)) items) js.
  Proof.
    induction items as [|[k x] items IH]; intros acc st cont st' Hf Hnd H; cbn [content_of] in H.
    - injection H as <- <-. exists []. split; [reflexivity|]. cbn. rewrite app_nil_r. reflexivity.
    - inversion Hf as [|? ? [Hp Hk] Hf']; subst. cbn [fst snd] in Hp, Hk. rewrite Hp in H.
      destruct (k_val k) as [sc|] eqn:Ek; [|congruence].
      cbn [map fst] in Hnd. unfold ktext in Hnd at 1. rewrite Ek in Hnd.
      assert (Hfresh : ~ In (key_text sc) (map fst acc)).
      { intro Hin. apply NoDup_remove_2 in Hnd. apply Hnd. apply in_or_app. left. exact Hin. }
      pose proof (nodup_no_collision k sc acc _ Ek Hnd) as Hkc.
      rewrite Hkc in H.
      destruct (f x st) as [[j st1]|] eqn:Ef; [|discriminate]. cbn [bind] in H.
      rewrite jset_fresh in H by (apply dget_none_notin; exact Hfresh).
      destruct (IH (acc ++ [(key_text sc, j)]) st1 cont st' Hf') as [js [Hs Hc]].
      { rewrite map_app. cbn [map fst]. apply NoDup_shift. exact Hnd. }
      { exact H. }
      exists (j :: js). cbn [map snd states_of]. rewrite Ef. cbn [bind]. rewrite Hs. cbn [bind]. split; [reflexivity|].
      rewrite Hc. cbn [map fst combine]. unfold ktext at 2. rewrite Ek. rewrite <- app_assoc. reflexivity.
  Qed.

  Lemma dict_fill_ok R cf name : forall keys tvs ns vals acc,
    Forall2 (fun k tv => ktv k = Some tv) keys tvs ->
    Forall2 (fun n sl => node_slot n = sl /\ notleaf n = true) ns (map (fun k => SKey name (ktext k)) keys) ->
    Forall2 (Den R) ns vals -> (forall v, In v vals -> (S (2 * need v) <= cf)%nat) ->
    Forall keyok keys -> distinct_from (map fst acc) keys = true ->
    dict_fill (construct_val C files R cf) tvs ns acc = Ok (acc ++ combine keys vals).
  Proof.
    induction keys as [|k keys IH]; intros tvs ns vals acc Hk Hsl Hden Hcf Hok Hd.
    - inversion Hk; subst. cbn [map] in Hsl. inversion Hsl; subst. inversion Hden; subst. cbn. rewrite app_nil_r. reflexivity.
    - inversion Hk as [|? tv ? tvs' Hkt Hk']; subst. cbn [map] in Hsl. inversion Hsl as [|n ? ns' ? [Hn _] Hsl']; subst.
      inversion Hden as [|? v ? vals' Hv Hden']; subst. inversion Hok as [|? ? [sc [tv' [Ekv [Eco [Ekt _]]]]] Hok']; subst.
      rewrite Hkt in Ekt. injection Ekt as <-. unfold ktv in Hkt. destruct (dget _ _) as [tid|]; [|discriminate]. injection Hkt as <-.
      cbn [dict_fill]. rewrite (Hv cf (Hcf v (or_introl eq_refl))). cbn [bind]. rewrite Hn.
      unfold ktext. rewrite Ekv, Eco. cbn [bind].
      cbn [distinct_from] in Hd. apply andb_prop in Hd. destruct Hd as [Hd1 Hd2].
      assert (Hkk : {| k_mod := k_mod k; k_cls := k_cls k; k_val := Some sc |} = k) by (destruct k; cbn in *; subst; reflexivity).
      rewrite Hkk. rewrite dict_set_fresh by exact Hd1.
      rewrite (IH tvs' ns' vals' (acc ++ [(k, v)]) Hk' Hsl' Hden' (fun w Hw => Hcf w (or_intror Hw)) Hok').
      + cbn [combine]. rewrite <- app_assoc. reflexivity.
      + rewrite map_app. exact Hd2.
  Qed.

  Lemma strip_or_empty_dict name ns sls : Forall2 (fun n sl => node_slot n = sl /\ notleaf n = true) ns sls ->
    strip_empty LEmptyDict (or_empty name LEmptyDict ns) = ns.
  Proof.
    destruct ns as [|n1 ns']; [reflexivity|]. intros H. inversion H as [|? ? ? ? [_ Hn] _]; subst. cbn [or_empty strip_empty].
    destruct n1; try discriminate Hn; destruct ns'; reflexivity.
  Qed.

  Lemma map_combine_fst {A B X} (g : A -> X) (a : list A) (b : list B) :
    map (fun kj => (g (fst kj), snd kj)) (combine a b) = combine (map g a) b.
  Proof. revert b. induction a as [|x a IH]; intros [|y b]; cbn; try reflexivity. rewrite IH. reflexivity. Qed.

  Lemma sum_ones tvs : Forall (fun tv => size tv = 1%nat) tvs -> sum_map (fun x => size x) tvs = length tvs.
  Proof. induction 1 as [|x l Hx Hl IH]; [reflexivity|]. cbn [sum_map length]. rewrite Hx, IH. reflexivity. Qed.
  Lemma sum_ge_len {A} (f : A -> nat) l : (forall x, In x l -> (1 <= f x)%nat) -> (length l <= sum_map f l)%nat.
  Proof. induction l as [|x l IH]; intros H; [reflexivity|]. cbn [sum_map length]. pose proof (H x (or_introl eq_refl)). specialize (IH (fun y Hy => H y (or_intror Hy))). lia. Qed.

  Lemma combine_fst_snd {A B} (l : list (A * B)) : combine (map fst l) (map snd l) = l.
  Proof. induction l as [|[a b] l IH]; [reflexivity|]. cbn [map fst snd combine]. rewrite IH. reflexivity. Qed.

  Lemma kts_no_files ks : forall kts, key_type_states D ks = Ok kts -> forall j, In j kts -> file_table j = [].
  Proof.
    induction ks as [|k ks IH]; intros kts H; cbn [key_type_states] in H.
    - injection H as <-. intros j [].
    - destruct (dget _ _) as [tid|]; [|discriminate]. destruct (key_type_states D ks) as [rest|]; [|discriminate]. cbn [bind] in H.
      injection H as <-. intros j [<-|Hj]; [reflexivity|eapply IH; eauto].
  Qed.

  Lemma states_are_objs l : forall st js st', states_of (fun x s0 => get_state D x s0) l st = Ok (js, st') ->
    forall j, In j js -> exists kv, j = JObj kv.
  Proof.
    induction l as [|x l IH]; intros st js st' H; cbn [states_of] in H.
    - injection H as <- <-. intros j [].
    - inv_bind H. intros j0 [<-|Hj]; [|eapply IH; eauto]. destruct (root_fields _ _ _ _ _ E0) as [kv [-> _]]. eauto.
  Qed.

  Lemma ft_own_states cont : (forall k x, In (k, x) cont -> exists kv, x = JObj kv) -> ft_own cont = [].
  Proof.
    intros H. unfold ft_own. destruct (dget (s "file") cont); [|reflexivity]. destruct (dget (s "__id__") cont) as [i|] eqn:Ei; [|reflexivity].
    assert (Hin : In (s "__id__", i) cont).
    { clear -Ei. induction cont as [|[k x] cont IH]; cbn [dget] in Ei; [discriminate|]. destruct (pstr_eqb (s "__id__") k) eqn:Eq.
      - injection Ei as ->. apply pstr_eqb_eq in Eq. subst. left. reflexivity.
      - right. auto. }
    destruct (H _ _ Hin) as [kv ->]. reflexivity.
  Qed.

  Lemma ft_content texts js : length texts = length js -> (forall j, In j js -> exists kv, j = JObj kv) ->
    file_table (JObj (combine texts js)) = flat_map file_table js.
  Proof.
    intros Hlen Hobj. rewrite file_table_obj, ft_own_states.
    - cbn [app]. revert js Hlen Hobj. induction texts as [|t0 texts IH]; intros [|j js] Hlen Hobj; try discriminate Hlen; [reflexivity|].
      cbn [combine flat_map snd]. f_equal. apply IH; [cbn [length] in Hlen; lia|intros j0 Hj0; apply Hobj; right; exact Hj0].
    - intros k x Hin. apply in_combine_r in Hin. auto.
  Qed.

  Definition dict_cls (mo c : pstr) : Prop :=
    (mo = s "builtins" /\ c = s "dict") \/ (mo = s "collections" /\ c = s "OrderedDict").

  Lemma dict_node id mo c items st ktid st0 kts cont st' :
    let v := PDict id mo c items in
    (Objs v \/ (base <= id)%Z) -> (0 < id)%Z -> (id < d_next st)%Z -> (base <= d_next st)%Z -> dict_cls mo c ->
    Forall keyok (map fst items) -> NoDup (map (fun kv => ktext (fst kv)) items) -> distinct_from [] (map fst items) = true ->
    Forall (fun kv => is_prop (snd kv) = false) items -> Forall Q (map snd items) ->
    fresh st = (ktid, st0) -> key_type_states D (map fst items) = Ok kts ->
    content_of (fun x s0 => get_state D x s0) items [] st0 = Ok (cont, st') ->
    d_late st' = d_late st /\ (d_next st <= d_next st')%Z /\ Post st (dict_state c mo cont kts ktid id) st' /\
    forall fuel m sl, (need v <= S fuel)%nat -> memo_lt m (d_next st) -> memo_mem (key id) m = false ->
      Pre st (dict_state c mo cont kts ktid id) st' ->
      exists n m', build E (get_tree fuel E proto) sl [] (s "_general.DictNode") KDict m (dict_state c mo cont kts ktid id) = Ok (n, m')
                   /\ Res v sl m n m' (d_next st').
  Proof.
    intros v Hv Hid HidB Hb Hcls Hkeys Hnd Hdist Hprops HQ Hfresh Hkts Hcont.
    unfold fresh in Hfresh. injection Hfresh as <- <-.
    set (st0 := {| d_next := d_next st + 1; d_uuid := d_uuid st; d_members := d_members st; d_late := d_late st |}) in *.
    destruct (content_states (fun x s0 => get_state D x s0) items [] st0 cont st') as [js [Hstates Hc]]; [| |exact Hcont|].
    { rewrite Forall_forall in *. intros kv Hkv. split; [apply Hprops; exact Hkv|].
      destruct (Hkeys (fst kv) (in_map fst _ _ Hkv)) as [sc [tv [E1 _]]]. congruence. }
    { exact Hnd. }
    cbn [app] in Hc.
    destruct (gen_share (map snd items) HQ _ _ _ Hstates ltac:(unfold st0; cbn [d_next]; lia)) as [Hlate [Hnext [Hlen [[HLlk [HLft HLmok]] HG0]]]].
    unfold st0 in Hlate, Hnext; cbn [d_next d_late] in Hlate, Hnext. split; [exact Hlate|]. split; [lia|].
    destruct (kt_states _ _ Hkts) as [tvs [Htv Hts]].
    assert (Hjobj : forall j0, In j0 js -> exists kv, j0 = JObj kv) by (eapply states_are_objs; eauto).
    assert (Hftj : file_table (dict_state c mo cont kts (d_next st) id) = flat_map file_table js).
    { unfold dict_state. rewrite ft_node_state by reflexivity. cbn [dget flat_map snd app].
      change (pstr_eqb (s "file") (CodecDump.K "content")) with false. change (pstr_eqb (s "file") (CodecDump.K "key_types")) with false. cbn iota.
      rewrite Hc, ft_content; [|rewrite map_length, Hlen, map_length; reflexivity|exact Hjobj].
      unfold list_state. rewrite ft_node_state by reflexivity. cbn [dget flat_map snd app].
      change (pstr_eqb (s "file") (CodecDump.K "content")) with false. cbn iota. rewrite file_table_arr.
      replace (flat_map file_table kts) with (@nil (hkey * json)); [rewrite !app_nil_r; reflexivity|].
      symmetry. pose proof (kts_no_files _ _ Hkts) as Hk0. clear -Hk0. induction kts as [|j0 kts IH]; [reflexivity|]. cbn [flat_map].
      rewrite (Hk0 j0 (or_introl eq_refl)). apply IH. intros j1 Hj1. apply Hk0. right. exact Hj1. }
    assert (Hmok0 : MOK st -> MOK st0) by (intros Hm0; apply (MOK_next st st0); [reflexivity|unfold st0; cbn [d_next]; lia|unfold st0; cbn [d_uuid]; lia|exact Hm0]).
    split.
    { split; [exact HLlk|]. split; [|auto]. intros h x Hin. rewrite Hftj in Hin. apply in_flat_map in Hin. destruct Hin as [j0 [Hj0 Hin]].
      exact (FTd_mono _ _ _ _ _ Hmok0 (lk_refl _) (HLft j0 Hj0) h x Hin). }
    intros fuel m sl Hn Hm Hmem [HpMOK [HpLk HpF]]. cbn [need v] in Hn. destruct fuel as [|fuel]; [lia|].
    set (j := dict_state c mo cont kts (d_next st) id).
    assert (Hbd : forall rec, build E rec sl [] (s "_general.DictNode") KDict m j
            = do (h, m0) <- node_init sl KDict (s "_general.DictNode") [] true m j JNull;
              do (ktn, m1) <- rec [] (SOne (GetTree.K "key_types")) m0 (list_state kts (d_next st));
              do (ns, m2) <- sub_dict rec [] (GetTree.K "content") m1 cont;
              Ok (Node h (ktn :: or_empty (GetTree.K "content") LEmptyDict ns), m2)).
    { intros rec. reflexivity. }
    rewrite Hbd. unfold j, dict_state. rewrite init_eq by (try reflexivity; lia). cbn [bind]. clear Hbd.
    (* the key_types list *)
    set (kt := PSeq QList (d_next st) (s "builtins") (s "list") false tvs).
    assert (HQt : Forall Q tvs).
    { clear -Htv Hkeys Oid Ofun Hreg HC Hsane. revert Hkeys. induction Htv as [|k tv ks tvs Hk Hr IH]; intros Hkeys; [constructor|].
      inversion Hkeys as [|? ? [sc [tv' [_ [_ [Ekt [Ho Hres]]]]]] Hk']; subst. rewrite Hk in Ekt. injection Ekt as <-.
      constructor; [|apply IH; exact Hk'].
      unfold ktv in Hk. destruct (dget _ _) as [tid|]; [|discriminate]. injection Hk as <-. apply type_Q; assumption. }
    assert (Hmem2 : memo_mem (key (d_next st)) (key id :: m) = false).
    { apply (memo_lt_fresh _ (d_next st)); [|lia]. apply memo_lt_cons; [lia|exact Hm]. }
    unfold list_state at 1. rewrite (gt_step fuel (SOne (GetTree.K "key_types")) (key id :: m) _ _ _ _ (d_next st) (s "_general.ListNode") KList);
      [|reflexivity|cbn; tauto|reflexivity]. rewrite Hmem2.
    assert (Hx1 : Objs kt \/ (base <= d_next st)%Z) by (right; lia).
    assert (Hx2 : (0 < d_next st)%Z) by lia.
    assert (Hx3 : (base <= d_next st0)%Z) by (unfold st0; cbn [d_next]; lia).
    destruct (seq_node QList (d_next st) (s "list") tvs st0 kts st0 Hx1 Hx2 eq_refl HQt (Hts st0) Hx3
                fuel (key id :: m) (SOne (GetTree.K "key_types")) (d_next st0)) as [ktn [m1 [Hkt [Hksl [Hknl [Hkmo [Hkgr [Hklt [Hksp Hkal]]]]]]]]].
    { cbn [need]. assert (Hnt : (max_map (fun x => need x) tvs <= 1)%nat).
      { clear -Htv. induction Htv as [|k tv ks tvs Hk Hr IH]; [cbn; lia|]. cbn [max_map]. unfold ktv in Hk. destruct (dget _ _); [|discriminate].
        injection Hk as <-. cbn [need]. lia. }
      lia. }
    { unfold st0; cbn [d_next]. apply memo_lt_cons; [lia|]. eapply memo_lt_le; [|exact Hm]. lia. }
    { unfold st0; cbn [d_next]. lia. }
    { lia. }
    { exact Hmem2. }
    { split; [apply Hmok0; exact HpMOK|]. split; [eapply lk_trans; [exact HLlk|exact HpLk]|].
      intros j0 Hj0 e He. rewrite (kts_no_files _ _ Hkts j0 Hj0) in He. destruct He. }
    match goal with |- context [build E (get_tree fuel E proto) ?sl0 [] ?tg ?kk ?mm ?jj] =>
      replace (build E (get_tree fuel E proto) sl0 [] tg kk mm jj) with (Ok (A:=node * memo) (ktn, m1)) by (symmetry; exact Hkt) end.
    cbn [bind]. clear Hkt.
    (* the values *)
    rewrite sub_dict_gen, Hc, map_combine_fst.
    set (sls := map (fun t0 => SKey (GetTree.K "content") t0) (map (fun kv : dkey * pval => ktext (fst kv)) items)).
    destruct (HG0 (S fuel) m1 sls) as [ns [m2 [Hsub [Hsl [Hmo [Hgr [Hlt [Hls Hal]]]]]]]].
    { intros x Hx. apply in_map_iff in Hx. destruct Hx as [kv [<- Hkv]].
      pose proof (max_map_in (fun kv => need (snd kv)) kv items Hkv). cbn beta in *. lia. }
    { exact Hklt. }
    { unfold sls. rewrite !map_length. reflexivity. }
    { split; [apply Hmok0; exact HpMOK|]. split; [exact HpLk|]. intros j0 Hj0 e He. apply HpF. rewrite Hftj. apply in_flat_map. exists j0. auto. }
    rewrite Hsub. cbn [bind]. eexists. eexists. split; [reflexivity|].
    set (hd := mkh sl KDict (s "_general.DictNode") id c mo JNull).
    set (subs := ktn :: or_empty (GetTree.K "content") LEmptyDict ns).
    assert (Hin : forall x, In x ns -> In x subs).
    { intros x Hx. unfold subs. right. destruct ns; [destruct Hx|exact Hx]. }
    assert (Hm0R : forall R, sub (Node hd subs) R -> minR m R -> minR (key id :: m) R).
    { intros R Hs HmR h Hh. cbn [memo_mem] in Hh. apply orb_prop in Hh. destruct Hh as [Hh|Hh]; [|auto].
      apply hkey_eqb_eq in Hh. subst h. eapply ids_sub; [exact Hs|]. cbn [ids]. unfold own_ids, hd. cbn [mkh h_id]. left. reflexivity. }
    assert (Hsp : SpecN (Node hd subs) v m).
    { intros R Hs HmR Hg cf Hcf. destruct cf as [|cf]; [pose proof (need_pos v); lia|]. cbn [construct_val].
      assert (Hszv : (S (length items) < size v)%nat).
      { cbn [size v]. pose proof (sum_ge_len (fun kv : dkey * pval => size (snd kv)) items (fun x _ => size_pos (snd x))). lia. }
      assert (Hkv : construct_val C files R cf ktn = Ok kt).
      { apply (Hksp R); [eapply sub_child; [exact Hs|left; reflexivity]|apply Hm0R; assumption| |].
        - eapply HG_mono; [|exact Hg]. cbn [size kt]. rewrite sum_ones.
          + apply Forall2_len in Htv. rewrite map_length in Htv. lia.
          + clear -Htv. induction Htv as [|k tv ks tvs0 Hk Hr IH]; constructor; [|exact IH]. unfold ktv in Hk. destruct (dget _ _); [|discriminate].
            injection Hk as <-. reflexivity.
        - cbn [need kt]. assert (Hnt : (max_map (fun x => need x) tvs <= 1)%nat).
          { clear -Htv. induction Htv as [|k tv ks tvs0 Hk Hr IH]; [cbn; lia|]. cbn [max_map]. unfold ktv in Hk. destruct (dget _ _); [|discriminate].
            injection Hk as <-. cbn [need]. lia. }
          cbn [need v] in Hcf. lia. }
      assert (Hden : Forall2 (Den R) ns (map snd items)).
      { apply (Hls R (size v)).
        - intros x Hx. eapply sub_child; [exact Hs|apply Hin; exact Hx].
        - eapply minR_step; [apply Hm0R; eassumption|eapply sub_child; [exact Hs|left; reflexivity]|exact Hkgr].
        - exact Hg.
        - intros w Hw. apply in_map_iff in Hw. destruct Hw as [kv [<- Hkv0]].
          pose proof (sum_map_in (fun kv => size (snd kv)) kv items Hkv0). cbn [size v]. cbn beta in *. lia. }
      unfold cbody, hd, mkh. cbn [h_kind]. fold (mkh sl KDict (s "_general.DictNode") id c mo JNull). fold hd. unfold subs.
      assert (Hgt : gt C hd = Ok (mo, c)).
      { destruct Hcls as [[-> ->]|[-> ->]]; (apply gt_ok; [reflexivity|reflexivity|apply lit_ne; discriminate|apply lit_ne; discriminate|apply not_missing; cbn; tauto]). }
      rewrite Hgt. cbn [bind]. rewrite Hkv. cbn [bind kt as_items].
      rewrite (strip_or_empty_dict _ _ _ Hsl).
      rewrite (dict_fill_ok R cf (GetTree.K "content") (map fst items) tvs ns (map snd items) []); try assumption.
      + cbn [bind app]. unfold hd. rewrite nid_mkh, combine_fst_snd. reflexivity.
      + unfold sls in Hsl. rewrite map_map in Hsl. rewrite map_map. exact Hsl.
      + intros w Hw. apply in_map_iff in Hw. destruct Hw as [kv [<- Hkv0]].
        pose proof (max_map_in (fun kv => need (snd kv)) kv items Hkv0). cbn [need v] in Hcf. cbn beta in *. lia. }
    unfold Res. cbn [node_slot notleaf]. repeat split.
    - eapply mono_trans; [apply mono_cons|]. eapply mono_trans; eauto.
    - intros h Hh. cbn [flat_map ids]. rewrite app_nil_r. destruct (Hgr h Hh) as [H|H].
      + destruct (Hkgr h H) as [H'|H'].
        * cbn [memo_mem] in H'. apply orb_prop in H'. destruct H' as [H'|H']; [|left; exact H'].
          apply hkey_eqb_eq in H'. subst h. right. apply in_or_app. left. left. reflexivity.
        * right. apply in_or_app. right. unfold subs. cbn [flat_map] in *. rewrite app_nil_r in H'. apply in_or_app. left. exact H'.
      + right. apply in_or_app. right. unfold subs. cbn [flat_map]. apply in_or_app. right.
        apply in_flat_map in H. destruct H as [x [Hx Hh']]. apply in_flat_map. exists x. split; [|exact Hh'].
        destruct ns; [destruct Hx|exact Hx].
    - exact Hlt.
    - apply Spec_of_SpecN. exact Hsp.
    - apply (allok_node hd subs v m); [reflexivity|exact Hv|exact Hsp|eapply mono_trans; [apply mono_cons|eapply mono_trans; eauto]|].
      intros x Hx. unfold subs in Hx. destruct Hx as [<-|Hx].
      + eapply allok_mono; [exact Hmo|exact Hkal].
      + destruct ns as [|n1 ns']; [destruct Hx as [<-|[]]; apply allok_leaf|]. apply Hal. exact Hx.
  Qed.

  Definition items_ok (items : list (dkey * pval)) : Prop :=
    Forall keyok (map fst items) /\ NoDup (map (fun kv => ktext (fst kv)) items) /\ distinct_from [] (map fst items) = true
    /\ Forall (fun kv => is_prop (snd kv) = false) items.

  Lemma dict_Q id mo c items : Objs (PDict id mo c items) -> dict_cls mo c -> items_ok items ->
    Forall Q (map snd items) -> Q (PDict id mo c items).
  Proof.
    intros Hv Hcls [Hk [Hnd [Hdi Hpr]]] HQ st j st1 H Hb. cbn [get_state] in H.
    destruct (fresh st) as [ktid st0] eqn:Hfr.
    destruct (key_type_states D (map fst items)) as [kts|] eqn:Ekt; [|discriminate]. cbn [bind] in H.
    destruct (content_of _ items [] st0) as [[cont st']|] eqn:Ec; [|discriminate]. cbn [bind] in H. injection H as <- <-.
    pose proof (Oid _ Hv) as Hid. cbn [pid] in Hid.
    destruct (dict_node id mo c items st ktid st0 kts cont st' (or_introl Hv) ltac:(lia) ltac:(lia) Hb Hcls Hk Hnd Hdi Hpr HQ Hfr Ekt Ec)
      as [Hlate [Hnext [Hpost Hnode]]].
    split; [exact Hlate|]. split; [exact Hnext|]. split; [exact Hpost|].
    intros fuel0 m0 sl0 Hn0 Hm0 Hpre. revert fuel0 m0 sl0 Hn0 Hm0.
    set (v := PDict id mo c items). unfold dict_state in *.
    change id with (pid v).
    apply (Q_wrap v st st' c mo _ _ (s "_general.DictNode") KDict); try assumption; try reflexivity; try (cbn [pid v]; lia); try (cbn; tauto).
    intros fuel m sl Hn Hm Hmem. apply Hnode; assumption.
  Qed.

  Lemma defdict_Q id f items :
    Objs (PDefDict id (s "collections") (s "defaultdict") f items) -> items_ok items ->
    Q f -> Forall Q (map snd items) -> Q (PDefDict id (s "collections") (s "defaultdict") f items).
  Proof.
    intros Hv [Hk [Hnd [Hdi Hpr]]] Hf HQ st j st2 H Hb. cbn [get_state] in H.
    destruct (fresh st) as [did st0] eqn:Hfr0. destruct (fresh st0) as [ktid st0'] eqn:Hfr.
    destruct (key_type_states D (map fst items)) as [kts|] eqn:Ekt; [|discriminate]. cbn [bind] in H.
    destruct (content_of _ items [] st0') as [[cont st1]|] eqn:Ec; [|discriminate]. cbn [bind] in H.
    destruct (get_state D f st1) as [[fac st']|] eqn:Ef; [|discriminate]. cbn [bind] in H. injection H as <- <-.
    pose proof (Oid _ Hv) as Hid. cbn [pid] in Hid.
    assert (Hd : did = d_next st /\ d_next st0 = (d_next st + 1)%Z /\ d_late st0 = d_late st /\ d_members st0 = d_members st /\ d_uuid st0 = d_uuid st).
    { unfold fresh in Hfr0. injection Hfr0 as <- <-. cbn. repeat split; reflexivity. }
    destruct Hd as [-> [Hn0 [Hl0 [Hmem0 Hu0]]]].
    set (main := PDict (d_next st) (s "builtins") (s "dict") items).
    assert (Hy1 : Objs main \/ (base <= d_next st)%Z) by (right; lia).
    assert (Hy2 : (0 < d_next st)%Z) by lia.
    assert (Hy3 : (d_next st < d_next st0)%Z) by lia.
    assert (Hy4 : (base <= d_next st0)%Z) by lia.
    assert (Hy5 : dict_cls (s "builtins") (s "dict")) by (left; split; reflexivity).
    destruct (dict_node (d_next st) (s "builtins") (s "dict") items st0 ktid st0' kts cont st1 Hy1 Hy2 Hy3 Hy4 Hy5 Hk Hnd Hdi Hpr HQ Hfr Ekt Ec)
      as [Hlate1 [Hnext1 [[Hlk1 [Hft1 Hmok1]] Hnode]]].
    destruct (Hf _ _ _ Ef ltac:(lia)) as [Hlate2 [Hnext2 [[Hlk2 [Hft2 Hmok2]] Hfq]]].
    split; [congruence|]. split; [lia|].
    set (jd := node_state (s "defaultdict") (s "collections") (CodecDump.K "DefaultDictNode")
                [(CodecDump.K "content", JObj [(CodecDump.K "main", dict_state (CodecDump.K "dict") (CodecDump.K "builtins") cont kts ktid (d_next st));
                                              (CodecDump.K "default_factory", fac)])] id).
    assert (Hftj : file_table jd
                   = file_table (dict_state (CodecDump.K "dict") (CodecDump.K "builtins") cont kts ktid (d_next st)) ++ file_table fac).
    { unfold jd. rewrite ft_node_state by reflexivity. cbn [dget flat_map snd app]. change (pstr_eqb (s "file") (CodecDump.K "content")) with false. cbn iota.
      rewrite file_table_obj. cbn [flat_map snd app]. rewrite !app_nil_r. reflexivity. }
    assert (Hmok0 : MOK st -> MOK st0) by (intros Hm0; apply (MOK_next st st0); [exact Hmem0|lia|lia|exact Hm0]).
    assert (Hpost : Post st jd st').
    { split; [rewrite <- Hmem0; eapply lk_trans; eauto|]. split; [|auto].
      intros h x Hin. rewrite Hftj in Hin. apply in_app_or in Hin. destruct Hin as [Hin|Hin].
      - exact (FTd_mono _ _ _ _ _ Hmok0 Hlk2 Hft1 h x Hin).
      - exact (FTd_mono _ _ _ _ _ (fun H0 => Hmok1 (Hmok0 H0)) (lk_refl _) Hft2 h x Hin). }
    split; [exact Hpost|].
    intros fuelq mq slq Hnq Hmq [HpMOK [HpLk HpF0]]. revert fuelq mq slq Hnq Hmq.
    assert (HpF : incl (file_table jd) files) by exact HpF0.
    set (v := PDefDict id (s "collections") (s "defaultdict") f items).
    change id with (pid v).
    apply (Q_wrap v st st' _ _ _ _ (s "_general.DefaultDictNode") KDefaultDict); try assumption; try reflexivity; try (cbn [pid v]; lia); try (cbn; tauto).
    intros fuel m sl Hn Hm Hmem. cbn [need v] in Hn. destruct fuel as [|fuel]; [lia|].
    set (mj := dict_state (CodecDump.K "dict") (CodecDump.K "builtins") cont kts ktid (d_next st)).
    set (j := node_state (s "defaultdict") (s "collections") (CodecDump.K "DefaultDictNode")
                [(CodecDump.K "content", JObj [(CodecDump.K "main", mj); (CodecDump.K "default_factory", fac)])] (pid v)).
    assert (Hbd : forall rec, build E rec sl [] (s "_general.DefaultDictNode") KDefaultDict m j
            = do (h, m0) <- node_init sl KDefaultDict (s "_general.DefaultDictNode") [] true m j JNull;
              do (a, m1) <- rec [] (SOne (GetTree.K "main")) m0 mj;
              do (b, m2) <- rec [] (SOne (GetTree.K "default_factory")) m1 fac;
              Ok (Node h [a; b], m2)).
    { intros rec. reflexivity. }
    fold mj. fold j. rewrite Hbd. unfold j. rewrite init_eq by (try reflexivity; cbn [pid v]; lia). cbn [bind]. clear Hbd.
    assert (Hm0 : memo_lt (key id :: m) (d_next st)) by (apply memo_lt_cons; [lia|exact Hm]).
    unfold mj, dict_state.
    rewrite (gt_step fuel (SOne (GetTree.K "main")) (key id :: m) _ _ _ _ (d_next st) (s "_general.DictNode") KDict);
      [|reflexivity|cbn; tauto|reflexivity].
    rewrite (memo_lt_fresh _ (d_next st) (d_next st) Hm0 ltac:(lia)).
    destruct (Hnode fuel (key id :: m) (SOne (GetTree.K "main"))) as [a [m1 [Ha [Hasl [Hanl [Hamo [Hagr [Halt [Hasp Haal]]]]]]]]].
    { cbn [need]. pose proof (Nat.le_max_r (need f) (max_map (fun kv : dkey * pval => need (snd kv)) items)). lia. }
    { eapply memo_lt_le; [|exact Hm0]. lia. }
    { apply (memo_lt_fresh _ (d_next st)); [exact Hm0|lia]. }
    { split; [apply Hmok0; exact HpMOK|]. split; [eapply lk_trans; [exact Hlk2|exact HpLk]|].
      intros e He. apply HpF. rewrite Hftj. apply in_or_app. left. exact He. }
    match goal with |- context [build E (get_tree fuel E proto) ?sl0 [] ?tg ?kk ?mm ?jj] =>
      replace (build E (get_tree fuel E proto) sl0 [] tg kk mm jj) with (Ok (A:=node * memo) (a, m1)) by (symmetry; exact Ha) end.
    cbn [bind]. clear Ha.
    destruct (Hfq (S fuel) m1 (SOne (GetTree.K "default_factory"))) as [b [m2 [Hbq [Hbsl [Hbnl [Hbmo [Hbgr [Hblt [Hbsp Hbal]]]]]]]]].
    { pose proof (Nat.le_max_l (need f) (max_map (fun kv : dkey * pval => need (snd kv)) items)). lia. }
    { exact Halt. }
    { split; [auto|]. split; [exact HpLk|]. intros e He. apply HpF. rewrite Hftj. apply in_or_app. right. exact He. }
    rewrite Hbq. cbn [bind]. eexists. eexists. split; [reflexivity|].
    set (hd := mkh sl KDefaultDict (s "_general.DefaultDictNode") (pid v) (s "defaultdict") (s "collections") JNull).
    assert (Hm0R : forall R, sub (Node hd [a; b]) R -> minR m R -> minR (key id :: m) R).
    { intros R Hs HmR h Hh. cbn [memo_mem] in Hh. apply orb_prop in Hh. destruct Hh as [Hh|Hh]; [|auto].
      apply hkey_eqb_eq in Hh. subst h. eapply ids_sub; [exact Hs|]. cbn [ids]. unfold own_ids, hd. cbn [mkh h_id pid v]. left. reflexivity. }
    assert (Hsp : SpecN (Node hd [a; b]) v m).
    { intros R Hs HmR Hg cf Hcf. destruct cf as [|cf]; [pose proof (need_pos v); lia|]. cbn [construct_val].
      unfold cbody, hd, mkh. cbn [h_kind]. fold (mkh sl KDefaultDict (s "_general.DefaultDictNode") (pid v) (s "defaultdict") (s "collections") JNull). fold hd.
      assert (Hma : construct_val C files R cf a = Ok main).
      { apply (Hasp R); [eapply sub_child; [exact Hs|left; reflexivity]|apply Hm0R; assumption| |].
        - eapply HG_mono; [|exact Hg]. cbn [size main v]. lia.
        - cbn [need main]. cbn [need v] in Hcf. pose proof (Nat.le_max_r (need f) (max_map (fun kv : dkey * pval => need (snd kv)) items)). lia. }
      assert (Hfb : construct_val C files R cf b = Ok f).
      { apply (Hbsp R); [eapply sub_child; [exact Hs|right; left; reflexivity]| | |].
        - eapply minR_step; [apply Hm0R; eassumption|eapply sub_child; [exact Hs|left; reflexivity]|exact Hagr].
        - eapply HG_mono; [|exact Hg]. cbn [size v]. lia.
        - cbn [need v] in Hcf. pose proof (Nat.le_max_l (need f) (max_map (fun kv : dkey * pval => need (snd kv)) items)). lia. }
      assert (Hgt : gt C hd = Ok (s "collections", s "defaultdict")).
      { apply gt_ok; [reflexivity|reflexivity|apply lit_ne; discriminate|apply lit_ne; discriminate|apply not_missing; cbn; tauto]. }
      rewrite Hma. cbn [bind main]. rewrite Hfb. cbn [bind]. rewrite Hgt. cbn [bind]. unfold hd. rewrite nid_mkh. reflexivity. }
    unfold Res. cbn [node_slot notleaf]. repeat split.
    - eapply mono_trans; [apply mono_cons|]. eapply mono_trans; eauto.
    - intros h Hh. cbn [flat_map ids]. rewrite !app_nil_r. destruct (Hbgr h Hh) as [H|H].
      + destruct (Hagr h H) as [H'|H'].
        * cbn [memo_mem] in H'. apply orb_prop in H'. destruct H' as [H'|H']; [|left; exact H'].
          apply hkey_eqb_eq in H'. subst h. right. apply in_or_app. left. left. reflexivity.
        * right. apply in_or_app. right. cbn [flat_map] in *. rewrite app_nil_r in H'. apply in_or_app. left. exact H'.
      + right. apply in_or_app. right. cbn [flat_map] in *. rewrite app_nil_r in H. apply in_or_app. right. exact H.
    - exact Hblt.
    - apply Spec_of_SpecN. exact Hsp.
    - apply (allok_node hd [a; b] v m); [reflexivity|left; exact Hv|exact Hsp|eapply mono_trans; [apply mono_cons|eapply mono_trans; eauto]|].
      intros x [<-|[<-|[]]]; [eapply allok_mono; [exact Hbmo|exact Haal]|exact Hbal].
  Qed.

  (* ---- values whose node has exactly one child node ---- *)
  Lemma single_Q v x c mo l (flds : json -> list (pstr * json)) tag k slot :
    Objs v -> Q x -> (size x < size v)%nat -> (need x < need v)%nat ->
    In (l, tag) frag_loaders -> kind_of_class tag = Some k ->
    (forall jx, dget (s "__id__") (flds jx) = None) ->
    (forall jx, file_table (node_state c mo l (flds jx) (pid v)) = file_table jx) ->
    (forall st, get_state D v st = do (jx, st1) <- get_state D x st; Ok (node_state c mo l (flds jx) (pid v), st1)) ->
    (forall rec sl m jx, (exists kv, jx = JObj kv) ->      (* the state of x is a JSON object (ObjectNode tests it against None) *)
                         build E rec sl [] tag k m (node_state c mo l (flds jx) (pid v))
                         = do (h, m0) <- node_init sl k tag [] true m (node_state c mo l (flds jx) (pid v)) JNull;
                           do (n, m1) <- rec [] (SOne slot) m0 jx; Ok (Node h [n], m1)) ->
    (forall R cf sl n, construct_val C files R cf n = Ok x ->
       cbody C files (mkh sl k tag (pid v) c mo JNull) [n] (construct_val C files R cf) = Ok v) ->
    Q v.
  Proof.
    intros Hv Hx Hsz Hnd Hl Hk Hf Hftf Hget Hbuild0 Hcons st j st' H Hb. rewrite Hget in H.
    destruct (get_state D x st) as [[jx st1]|] eqn:Ex; [|discriminate]. cbn [bind] in H. injection H as <- <-.
    assert (Hbuild : forall rec sl m, build E rec sl [] tag k m (node_state c mo l (flds jx) (pid v))
                         = do (h, m0) <- node_init sl k tag [] true m (node_state c mo l (flds jx) (pid v)) JNull;
                           do (n, m1) <- rec [] (SOne slot) m0 jx; Ok (Node h [n], m1)).
    { intros rec sl m. apply Hbuild0. destruct (root_fields _ _ _ _ _ Ex) as [kv [-> _]]. eauto. }
    destruct (Hx _ _ _ Ex Hb) as [Hlate [Hnext [[Hlk [Hft Hmok]] HQx]]]. split; [exact Hlate|]. split; [exact Hnext|].
    split.
    { split; [exact Hlk|]. split; [|exact Hmok]. intros h x0 Hin. rewrite Hftf in Hin. exact (Hft h x0 Hin). }
    intros fuelq mq slq Hnq Hmq [HpMOK [HpLk HpF]]. revert fuelq mq slq Hnq Hmq.
    pose proof (Oid _ Hv) as Hid.
    apply (Q_wrap v st st1 c mo l (flds jx) tag k); try assumption; try lia; [apply Hf|].
    intros fuel m sl Hn Hm Hmem. rewrite Hbuild, init_eq by (try apply Hf; lia). cbn [bind].
    destruct (HQx fuel (key (pid v) :: m) (SOne slot)) as [n [m1 [Hg [Hsl [Hnl [Hmo [Hgr [Hlt [Hsp Hal]]]]]]]]]; [lia|apply memo_lt_cons; [lia|exact Hm]| |].
    { split; [exact HpMOK|]. split; [exact HpLk|]. rewrite Hftf in HpF. exact HpF. }
    rewrite Hg. cbn [bind]. eexists. eexists. split; [reflexivity|].
    set (hd := mkh sl k tag (pid v) c mo JNull).
    assert (Hspn : SpecN (Node hd [n]) v m).
    { intros R Hs HmR Hg0 cf Hcf. destruct cf as [|cf]; [pose proof (need_pos v); lia|]. cbn [construct_val]. apply Hcons.
      apply (Hsp R); [eapply sub_child; [exact Hs|left; reflexivity]| | |lia].
      - intros h Hh. cbn [memo_mem] in Hh. apply orb_prop in Hh. destruct Hh as [Hh|Hh]; [|auto].
        apply hkey_eqb_eq in Hh. subst h. eapply ids_sub; [exact Hs|]. cbn [ids]. unfold own_ids, hd. cbn [mkh h_id]. left. reflexivity.
      - eapply HG_mono; [|exact Hg0]. lia. }
    unfold Res. cbn [node_slot notleaf]. repeat split.
    - eapply mono_trans; [apply mono_cons|exact Hmo].
    - intros h Hh. cbn [flat_map ids]. rewrite !app_nil_r. destruct (Hgr h Hh) as [H|H].
      + cbn [memo_mem] in H. apply orb_prop in H. destruct H as [H|H]; [|left; exact H].
        apply hkey_eqb_eq in H. subst h. right. apply in_or_app. left. left. reflexivity.
      + right. apply in_or_app. right. cbn [flat_map] in H. rewrite app_nil_r in H. exact H.
    - exact Hlt.
    - apply Spec_of_SpecN. exact Hspn.
    - apply (allok_node hd [n] v m); [reflexivity|left; exact Hv|exact Hspn|eapply mono_trans; [apply mono_cons|exact Hmo]|].
      intros y [<-|[]]. exact Hal.
  Qed.

  (* ---- leaves that own a zip member named after their id: arrays, numpy scalars, sparse matrices ---- *)
  Lemma member_present st f b : MOK st -> has_member f st = true ->
    (forall w, Objs w -> ofile w = Some (f, b) \/ (forall b', ofile w <> Some (f, b'))) ->
    (forall i, (base <= i)%Z -> f <> npy_name i) -> (forall n, f <> uuid_name n) ->
    (exists w, Objs w /\ ofile w = Some (f, b)) -> dget f (d_members st) = Some b.
  Proof.
    intros Hmok Hhas Hdet Htmp Hu _. unfold has_member in Hhas. destruct (dget_mem _ _ Hhas) as [b0 Hd]. rewrite Hd. f_equal.
    destruct (Hmok f b0 Hd) as [[w [Hw Ho]]|[[i [Hi Hf]]|[n [_ Hf]]]].
    - destruct (Hdet w Hw) as [H|H]; [congruence|]. exfalso. exact (H _ Ho).
    - exfalso. apply (Htmp i); [lia|exact Hf].
    - exfalso. exact (Hu n Hf).
  Qed.

  (* whichever of the names recorded for the id the loader picks (the first), the content is the same *)
  Lemma read_blob_ok h i f b : h_id h = Some (key i) -> In (key i, JStr f) files -> dget f (c_members C) = Some b ->
    read_blob C files h = Ok b.
  Proof.
    intros Hh Hin Hd. unfold read_blob. rewrite Hh. destruct (hk_get_in _ _ _ Hin) as [y [Hy Hiny]]. rewrite Hy.
    pose proof (HFone _ _ _ Hiny Hin) as He. unfold fblob in He. rewrite Hd in He. destruct y; try discriminate He. rewrite He. reflexivity.
  Qed.

  Lemma mok_write st f b : MOK st -> ((exists w, Objs w /\ ofile w = Some (f, b)) \/ (exists i, (base <= i < d_next st)%Z /\ f = npy_name i)) ->
    MOK (if has_member f st then st else write_member f b st).
  Proof.
    intros Hmok Hnew. destruct (has_member f st) eqn:Hh; [exact Hmok|]. intros f' b' Hd. unfold write_member in Hd |- *. cbn [d_members d_next d_uuid] in *.
    destruct (dget f' (d_members st)) as [b0|] eqn:E0.
    - rewrite (dget_app_l _ _ _ _ E0) in Hd. injection Hd as <-. exact (Hmok _ _ E0).
    - rewrite (dget_app_none _ _ _ E0) in Hd. cbn [dget] in Hd. destruct (pstr_eqb f' f) eqn:Eq; [|discriminate].
      apply pstr_eqb_eq in Eq. subst f'. injection Hd as <-. destruct Hnew as [Hnew|Hnew]; [left; exact Hnew|right; left; exact Hnew].
  Qed.
  Lemma lk_write st f b : lk_incl (d_members st) (d_members (if has_member f st then st else write_member f b st)).
  Proof. destruct (has_member f st); [apply lk_refl|]. unfold write_member. cbn [d_members]. apply lk_app. Qed.
  Lemma dget_write st f b : has_member f st = false -> dget f (d_members (write_member f b st)) = Some b.
  Proof. intros H. unfold write_member. cbn [d_members]. apply dget_app_new. apply dget_notin. exact H. Qed.

  Definition arr_cls_ok (gen : bool) (mo c : pstr) : Prop :=
    (gen = false /\ mo = s "numpy" /\ c = s "ndarray")
    \/ (pstr_eqb (qual mo c) (s "numpy.ndarray") = false /\ resolvable F mo c = true /\ gen = mem (qual mo c) (f_generic F)).

  Lemma arr_Q id gen mo c tok : Objs (PArr id gen mo c tok) -> arr_cls_ok gen mo c -> Q (PArr id gen mo c tok).
  Proof.
    intros Hv Hcls st j st1 H Hb. cbn [get_state] in H. injection H as <- <-.
    set (v := PArr id gen mo c tok). set (f := npy_name id). set (b := (MNpy, tok)).
    set (st' := if has_member f st then st else write_member f b st).
    pose proof (Oid _ Hv) as Hid. cbn [pid] in Hid.
    assert (Hnext : d_next st' = d_next st) by (unfold st'; destruct (has_member f st); reflexivity).
    assert (Hlate : d_late st' = d_late st) by (unfold st'; destruct (has_member f st); reflexivity).
    split; [exact Hlate|]. split; [lia|].
    set (jv := node_state c mo (CodecDump.K "NdArrayNode") [(CodecDump.K "type", JStr (CodecDump.K "numpy")); (CodecDump.K "file", JStr f)] id).
    assert (Hft : file_table jv = [(key id, JStr f)]) by (unfold jv; rewrite ft_node_state by reflexivity; reflexivity).
    assert (Hown : exists w, Objs w /\ ofile w = Some (f, b)) by (exists v; split; [exact Hv|reflexivity]).
    assert (Hpost : Post st jv st').
    { split; [apply lk_write|]. split.
      - intros h x Hin. rewrite Hft in Hin. destruct Hin as [Hin|[]]. injection Hin as <- <-. exists id. split; [reflexivity|]. left.
        exists v, f, b. auto.
      - intros Hmok. apply mok_write; [exact Hmok|left; exact Hown]. }
    split; [exact Hpost|].
    intros fuelq mq slq Hnq Hmq [HpMOK [HpLk HpF0]]. revert fuelq mq slq Hnq Hmq.
    assert (HpF : incl (file_table jv) files) by exact HpF0.
    assert (Hk1 : dget f (d_members st') = Some b).
    { unfold st'. destruct (has_member f st) eqn:Hh; [|apply dget_write; exact Hh].
      apply (member_present st f b HpMOK Hh); [| | |exact Hown].
      - intros w Hw. destruct w; try (right; intros b' Hb'; discriminate Hb'); cbn [ofile].
        + destruct (Z.eq_dec id0 id) as [->|Hne].
          * left. assert (Heq : PArr id gen0 m c0 tok0 = v) by (apply Ofun; auto). injection Heq as -> -> -> ->. reflexivity.
          * right. intros b' Hb'. injection Hb' as Hb' _. apply npy_inj in Hb'. contradiction.
        + right. intros b' Hb'. injection Hb' as Hb' _. symmetry in Hb'. exact (npy_npz _ _ Hb').
      - intros i Hi Hf. apply npy_inj in Hf. lia.
      - intros n Hf. exact (npy_uuid _ _ Hf). }
    assert (Hk2 : dget f (c_members C) = Some b) by (apply HpLk; exact Hk1).
    change (forall fuel m sl, (need v <= fuel)%nat -> memo_lt m (d_next st) ->
              exists n m', get_tree fuel E proto [] sl m (node_state c mo (CodecDump.K "NdArrayNode")
                  [(CodecDump.K "type", JStr (CodecDump.K "numpy")); (CodecDump.K "file", JStr f)] (pid v)) = Ok (n, m') /\ Res v sl m n m' (d_next st')).
    apply (Q_wrap v st st' c mo _ _ (s "_numpy.NdArrayNode") KNdArray); try assumption; try reflexivity; try (cbn [pid v]; lia); try (cbn; tauto).
    intros fuel m sl Hn Hm Hmem.
    assert (Hbd : build E (get_tree fuel E proto) sl [] (s "_numpy.NdArrayNode") KNdArray m jv
            = do (h, m0) <- node_init sl KNdArray (s "_numpy.NdArrayNode") [] true m jv JNull;
              do _ <- read_member E (JStr f); Ok (Node (set_aux h (JStr (GetTree.K "numpy"))) [Leaf (SOne (GetTree.K "content")) LBytes], m0)).
    { unfold build. destruct (node_init _ _ _ _ _ _ _ _) as [[h m0]|]; reflexivity. }
    match goal with |- context [build E ?r ?sl0 [] ?tg ?kk ?mm ?jj] =>
      replace (build E r sl0 [] tg kk mm jj) with
        (do (h, m0) <- node_init sl KNdArray (s "_numpy.NdArrayNode") [] true m jv JNull;
         do _ <- read_member E (JStr f); Ok (Node (set_aux h (JStr (GetTree.K "numpy"))) [Leaf (SOne (GetTree.K "content")) LBytes], m0))
        by (symmetry; exact Hbd) end.
    unfold jv. rewrite init_eq by (try reflexivity; lia). cbn [bind].
    assert (Hrm : read_member E (JStr f) = Ok tt).
    { unfold read_member. rewrite HEC. replace (mem f (map fst (c_members C))) with true; [reflexivity|].
      symmetry. apply mem_In. eapply dget_in_fst; eauto. }
    rewrite Hrm. cbn [bind]. eexists. eexists. split; [reflexivity|].
    set (hd := set_aux (mkh sl KNdArray (s "_numpy.NdArrayNode") id c mo JNull) (JStr (GetTree.K "numpy"))).
    assert (Hspn : SpecN (Node hd [Leaf (SOne (GetTree.K "content")) LBytes]) v m).
    { intros R _ _ _ cf Hcf. destruct cf as [|cf]; [pose proof (need_pos v); lia|]. cbn [construct_val].
      unfold cbody, hd, set_aux, mkh. cbn [h_kind h_aux h_id h_module h_class h_slot h_tag h_extra].
      change (jstr_eqb (JStr (GetTree.K "numpy")) (s "numpy")) with true. cbn iota.
      rewrite (read_blob_ok _ id f b) by (try reflexivity; try exact Hk2; apply HpF; rewrite Hft; left; reflexivity).
      cbn [bind h_module h_class jstr snd b].
      assert (Hnid : nid {| h_slot := sl; h_kind := KNdArray; h_tag := s "_numpy.NdArrayNode"; h_id := Some (key id); h_extra := [];
                            h_class := JStr c; h_module := JStr mo; h_aux := JStr (GetTree.K "numpy") |} = id).
      { unfold nid, key. cbn [h_id]. apply key_div. }
      destruct Hcls as [[-> [-> ->]]|[Hq [Hr Hg]]].
      - change (pstr_eqb (qual (s "numpy") (s "ndarray")) (s "numpy.ndarray")) with true. cbn iota. rewrite Hnid. reflexivity.
      - rewrite Hq. unfold resolvable in Hr. apply andb_prop in Hr. destruct Hr as [Hmiss Hne]. apply negb_true_iff in Hmiss.
        erewrite gt_ok; [|reflexivity|reflexivity| | |destruct HC as [_ ->]; exact Hmiss].
        + cbn [bind]. rewrite Hnid, HCg, <- Hg. reflexivity.
        + destruct mo; [discriminate Hne|discriminate].
        + destruct mo; [discriminate Hne|]. destruct c; [discriminate Hne|discriminate]. }
    unfold Res. cbn [node_slot notleaf]. repeat split.
    - apply mono_cons.
    - intros h Hh. cbn [memo_mem] in Hh. apply orb_prop in Hh. destruct Hh as [Hh|Hh]; [|left; exact Hh].
      right. apply hkey_eqb_eq in Hh. subst h. cbn. left. reflexivity.
    - apply memo_lt_cons; [lia|]. rewrite Hnext. exact Hm.
    - apply Spec_of_SpecN. exact Hspn.
    - apply (allok_node hd _ v m); [reflexivity|left; exact Hv|exact Hspn|apply mono_cons|].
      intros x [<-|[]]. apply allok_leaf.
  Qed.

  Lemma sparse_Q id mo c tok : Objs (PSparse id mo c tok) -> Q (PSparse id mo c tok).
  Proof.
    intros Hv st j st1 H Hb. cbn [get_state] in H. injection H as <- <-.
    set (v := PSparse id mo c tok). set (f := npz_name id). set (b := (MNpz, tok)).
    set (st' := if has_member f st then st else write_member f b st).
    pose proof (Oid _ Hv) as Hid. cbn [pid] in Hid.
    assert (Hnext : d_next st' = d_next st) by (unfold st'; destruct (has_member f st); reflexivity).
    assert (Hlate : d_late st' = d_late st) by (unfold st'; destruct (has_member f st); reflexivity).
    split; [exact Hlate|]. split; [lia|].
    set (jv := node_state c mo (CodecDump.K "SparseMatrixNode") [(CodecDump.K "type", JStr (CodecDump.K "scipy")); (CodecDump.K "file", JStr f)] id).
    assert (Hft : file_table jv = [(key id, JStr f)]) by (unfold jv; rewrite ft_node_state by reflexivity; reflexivity).
    assert (Hown : exists w, Objs w /\ ofile w = Some (f, b)) by (exists v; split; [exact Hv|reflexivity]).
    assert (Hpost : Post st jv st').
    { split; [apply lk_write|]. split.
      - intros h x Hin. rewrite Hft in Hin. destruct Hin as [Hin|[]]. injection Hin as <- <-. exists id. split; [reflexivity|]. left.
        exists v, f, b. auto.
      - intros Hmok. apply mok_write; [exact Hmok|left; exact Hown]. }
    split; [exact Hpost|].
    intros fuelq mq slq Hnq Hmq [HpMOK [HpLk HpF0]]. revert fuelq mq slq Hnq Hmq.
    assert (HpF : incl (file_table jv) files) by exact HpF0.
    assert (Hk1 : dget f (d_members st') = Some b).
    { unfold st'. destruct (has_member f st) eqn:Hh; [|apply dget_write; exact Hh].
      apply (member_present st f b HpMOK Hh); [| | |exact Hown].
      - intros w Hw. destruct w; try (right; intros b' Hb'; discriminate Hb'); cbn [ofile].
        + right. intros b' Hb'. injection Hb' as Hb' _. exact (npy_npz _ _ Hb').
        + destruct (Z.eq_dec id0 id) as [->|Hne].
          * left. assert (Heq : PSparse id m c0 tok0 = v) by (apply Ofun; auto). injection Heq as -> -> ->. reflexivity.
          * right. intros b' Hb'. injection Hb' as Hb' _. apply npz_inj in Hb'. contradiction.
      - intros i Hi Hf. symmetry in Hf. exact (npy_npz _ _ Hf).
      - intros n Hf. exact (npz_uuid _ _ Hf). }
    assert (Hk2 : dget f (c_members C) = Some b) by (apply HpLk; exact Hk1).
    change (forall fuel m sl, (need v <= fuel)%nat -> memo_lt m (d_next st) ->
              exists n m', get_tree fuel E proto [] sl m (node_state c mo (CodecDump.K "SparseMatrixNode")
                  [(CodecDump.K "type", JStr (CodecDump.K "scipy")); (CodecDump.K "file", JStr f)] (pid v)) = Ok (n, m') /\ Res v sl m n m' (d_next st')).
    apply (Q_wrap v st st' c mo _ _ (s "_scipy.SparseMatrixNode") KSparse); try assumption; try reflexivity; try (cbn [pid v]; lia); try (cbn; tauto).
    intros fuel m sl Hn Hm Hmem.
    assert (Hbd : build E (get_tree fuel E proto) sl [] (s "_scipy.SparseMatrixNode") KSparse m jv
            = do (h, m0) <- node_init sl KSparse (s "_scipy.SparseMatrixNode") [] true m jv JNull;
              do _ <- read_member E (JStr f); Ok (Node (set_aux h (JStr (GetTree.K "scipy"))) [Leaf (SOne (GetTree.K "content")) LBytes], m0)).
    { unfold build. destruct (node_init _ _ _ _ _ _ _ _) as [[h m0]|]; reflexivity. }
    match goal with |- context [build E ?r ?sl0 [] ?tg ?kk ?mm ?jj] =>
      replace (build E r sl0 [] tg kk mm jj) with
        (do (h, m0) <- node_init sl KSparse (s "_scipy.SparseMatrixNode") [] true m jv JNull;
         do _ <- read_member E (JStr f); Ok (Node (set_aux h (JStr (GetTree.K "scipy"))) [Leaf (SOne (GetTree.K "content")) LBytes], m0))
        by (symmetry; exact Hbd) end.
    unfold jv. rewrite init_eq by (try reflexivity; lia). cbn [bind].
    assert (Hrm : read_member E (JStr f) = Ok tt).
    { unfold read_member. rewrite HEC. replace (mem f (map fst (c_members C))) with true; [reflexivity|].
      symmetry. apply mem_In. eapply dget_in_fst; eauto. }
    rewrite Hrm. cbn [bind]. eexists. eexists. split; [reflexivity|].
    set (hd := set_aux (mkh sl KSparse (s "_scipy.SparseMatrixNode") id c mo JNull) (JStr (GetTree.K "scipy"))).
    assert (Hspn : SpecN (Node hd [Leaf (SOne (GetTree.K "content")) LBytes]) v m).
    { intros R _ _ _ cf Hcf. destruct cf as [|cf]; [pose proof (need_pos v); lia|]. cbn [construct_val].
      unfold cbody, hd, set_aux, mkh. cbn [h_kind h_aux h_id h_module h_class h_slot h_tag h_extra].
      rewrite (read_blob_ok _ id f b) by (try reflexivity; try exact Hk2; apply HpF; rewrite Hft; left; reflexivity).
      cbn [bind h_module h_class jstr snd b]. unfold nid, key. cbn [h_id]. rewrite key_div. reflexivity. }
    unfold Res. cbn [node_slot notleaf]. repeat split.
    - apply mono_cons.
    - intros h Hh. cbn [memo_mem] in Hh. apply orb_prop in Hh. destruct Hh as [Hh|Hh]; [|left; exact Hh].
      right. apply hkey_eqb_eq in Hh. subst h. cbn. left. reflexivity.
    - apply memo_lt_cons; [lia|]. rewrite Hnext. exact Hm.
    - apply Spec_of_SpecN. exact Hspn.
    - apply (allok_node hd _ v m); [reflexivity|left; exact Hv|exact Hspn|apply mono_cons|].
      intros x [<-|[]]. apply allok_leaf.
  Qed.

  (* ---- bytes / bytearray: every occurrence writes its own member u<n>.bin (n the uuid counter); the node is built from
     the member of the first occurrence, later occurrences are references to that node ---- *)
  Definition bytes_loader (ba : bool) : pstr := if ba then CodecDump.K "BytearrayNode" else CodecDump.K "BytesNode".
  Definition bytes_tag (ba : bool) : pstr := if ba then s "_general.BytearrayNode" else s "_general.BytesNode".
  Definition bytes_kind (ba : bool) : kind := if ba then KBytearray else KBytes.

  Lemma bytes_Q id ba mo c tok : Objs (PBytes id ba mo c tok) -> resolvable F mo c = true -> Q (PBytes id ba mo c tok).
  Proof.
    intros Hv Hr st j st1 H Hb. cbn [get_state] in H. destruct (fresh_uuid st) as [u st0] eqn:Hfr.
    change (if ba then CodecDump.K "BytearrayNode" else CodecDump.K "BytesNode") with (bytes_loader ba) in H. injection H as <- <-.
    assert (Hd : u = d_uuid st /\ d_next st0 = d_next st /\ d_late st0 = d_late st /\ d_members st0 = d_members st /\ d_uuid st0 = (d_uuid st + 1)%N).
    { unfold fresh_uuid in Hfr. injection Hfr as <- <-. cbn. repeat split; reflexivity. }
    destruct Hd as [-> [Hn0 [Hl0 [Hmem0 Hu0]]]]. set (u := d_uuid st).
    set (v := PBytes id ba mo c tok). set (f := uuid_name u). set (b := (MBin, tok)).
    set (st' := write_member f b st0).
    pose proof (Oid _ Hv) as Hid. cbn [pid] in Hid.
    assert (Hnext : d_next st' = d_next st) by exact Hn0.
    assert (Hlate : d_late st' = d_late st) by exact Hl0.
    assert (Hmem' : d_members st' = d_members st ++ [(f, b)]) by (unfold st', write_member; cbn [d_members]; rewrite Hmem0; reflexivity).
    split; [exact Hlate|]. split; [lia|].
    set (jv := node_state c mo (bytes_loader ba) [(CodecDump.K "file", JStr f)] id).
    assert (Hft : file_table jv = [(key id, JStr f)]) by (unfold jv; rewrite ft_node_state by reflexivity; reflexivity).
    (* the uuid counter has not been used for a member name yet *)
    assert (Hnew : MOK st -> dget f (d_members st) = None).
    { intros Hmok. destruct (dget f (d_members st)) as [b0|] eqn:E0; [|reflexivity]. exfalso.
      destruct (Hmok f b0 E0) as [[w [Hw Ho]]|[[i [Hi Hf]]|[n [Hi Hf]]]].
      - destruct w; try discriminate Ho; cbn [ofile] in Ho; injection Ho as Ho _.
        + exact (npy_uuid _ _ Ho).
        + exact (npz_uuid _ _ Ho).
      - symmetry in Hf. exact (npy_uuid _ _ Hf).
      - apply uuid_inj in Hf. unfold u in Hf. lia. }
    assert (Hk1 : MOK st -> dget f (d_members st') = Some b).
    { intros Hmok. rewrite Hmem'. apply dget_app_new. apply Hnew. exact Hmok. }
    assert (Hpost : Post st jv st').
    { split; [rewrite Hmem'; apply lk_app|]. split.
      - intros h x Hin. rewrite Hft in Hin. destruct Hin as [Hin|[]]. injection Hin as <- <-. exists id. split; [reflexivity|]. right. right.
        exists v, tok, u. repeat split; try assumption; reflexivity.
      - intros Hmok f' b' Hd. rewrite Hmem' in Hd. unfold st', write_member. cbn [d_next d_uuid]. rewrite Hn0, Hu0.
        destruct (dget f' (d_members st)) as [b0|] eqn:E0.
        + rewrite (dget_app_l _ _ _ _ E0) in Hd. injection Hd as <-.
          destruct (Hmok _ _ E0) as [Hw|[Hc|[n [Hi Hf]]]]; [left; exact Hw|right; left; exact Hc|right; right].
          exists n. split; [lia|exact Hf].
        + rewrite (dget_app_none _ _ _ E0) in Hd. cbn [dget] in Hd. destruct (pstr_eqb f' f) eqn:Eq; [|discriminate].
          apply pstr_eqb_eq in Eq. subst f'. right. right. exists u. split; [unfold u; lia|reflexivity]. }
    split; [exact Hpost|].
    intros fuelq mq slq Hnq Hmq [HpMOK [HpLk HpF0]]. revert fuelq mq slq Hnq Hmq.
    assert (HpF : incl (file_table jv) files) by exact HpF0.
    assert (Hk2 : dget f (c_members C) = Some b) by (apply HpLk; apply Hk1; exact HpMOK).
    assert (Hrm : read_member E (JStr f) = Ok tt).
    { unfold read_member. rewrite HEC. replace (mem f (map fst (c_members C))) with true; [reflexivity|].
      symmetry. apply mem_In. eapply dget_in_fst; eauto. }
    change id with (pid v). unfold jv.
    apply (leaf_Q v c mo (bytes_loader ba) [(CodecDump.K "file", JStr f)] (bytes_tag ba) (bytes_kind ba) (fun h => h)
             [Leaf (SOne (GetTree.K "content")) LBytes] st' Hv); try reflexivity; try lia.
    - destruct ba; cbn; tauto.
    - destruct ba; reflexivity.
    - intros h. split; reflexivity.
    - intros x [<-|[]]; eauto.
    - intros rec sl m. destruct ba; unfold build, bytes_kind, bytes_tag; (destruct (node_init _ _ _ _ _ _ _ _) as [[h m0]|]; [|reflexivity]); cbn [bind];
        match goal with |- context [jindex ?j0 (GetTree.K "file")] => change (jindex j0 (GetTree.K "file")) with (Ok (A:=json) (JStr f)) end;
        cbn [bind]; rewrite Hrm; reflexivity.
    - intros R cf sl. unfold cbody. cbn [h_kind mkh].
      assert (Hrb : forall k0 tg, read_blob C files (mkh sl k0 tg (pid v) c mo JNull) = Ok b).
      { intros k0 tg. apply (read_blob_ok _ id f b); [reflexivity| |exact Hk2]. apply HpF. rewrite Hft. left. reflexivity. }
      unfold resolvable in Hr. apply andb_prop in Hr. destruct Hr as [Hmiss Hne]. apply negb_true_iff in Hmiss.
      assert (Hgt : forall k0 tg, gt C (mkh sl k0 tg (pid v) c mo JNull) = Ok (mo, c)).
      { intros k0 tg. apply gt_ok; [reflexivity|reflexivity| | |destruct HC as [_ ->]; exact Hmiss].
        - destruct mo; [discriminate Hne|discriminate].
        - destruct mo; [discriminate Hne|]. destruct c; [discriminate Hne|discriminate]. }
      destruct ba; cbn [bytes_kind bytes_tag]; rewrite Hrb; cbn [bind]; rewrite Hgt; cbn [bind snd b]; rewrite nid_mkh; reflexivity.
  Qed.

  Lemma strip_prefix_app p t0 : strip_prefix p (p ++ t0) = Some t0.
  Proof. induction p as [|x p IH]; [reflexivity|]. cbn [app strip_prefix]. rewrite N.eqb_refl. exact IH. Qed.

  (* a dtype travels as an empty carrier array the dumper creates *)
  Lemma dtype_Q id tok : Objs (PDType id tok) -> Q (PDType id tok).
  Proof.
    intros Hv st j st1 H Hb. cbn [get_state] in H. destruct (fresh st) as [tid st0] eqn:Hfr. injection H as <- <-.
    assert (Hd : tid = d_next st /\ d_next st0 = (d_next st + 1)%Z /\ d_late st0 = d_late st /\ d_members st0 = d_members st /\ d_uuid st0 = d_uuid st).
    { unfold fresh in Hfr. injection Hfr as <- <-. cbn. repeat split; reflexivity. }
    destruct Hd as [-> [Hn0 [Hl0 [Hmem0 Hu0]]]]. set (tid := d_next st).
    set (v := PDType id tok). set (f := npy_name tid). set (b := (MNpy, s "dt:" ++ tok)).
    set (st' := if has_member f st0 then st0 else write_member f b st0).
    pose proof (Oid _ Hv) as Hid. cbn [pid] in Hid.
    assert (Hnext : d_next st' = d_next st0) by (unfold st'; destruct (has_member f st0); reflexivity).
    assert (Hlate : d_late st' = d_late st0) by (unfold st'; destruct (has_member f st0); reflexivity).
    split; [transitivity (d_late st0); [exact Hlate|exact Hl0]|]. split; [change (d_next st <= d_next st')%Z; lia|].
    set (ji := node_state (CodecDump.K "ndarray") (CodecDump.K "numpy") (CodecDump.K "NdArrayNode")
                 [(CodecDump.K "type", JStr (CodecDump.K "numpy")); (CodecDump.K "file", JStr f)] tid).
    set (jv := node_state (CodecDump.K "dtype") (CodecDump.K "numpy") (CodecDump.K "DTypeNode") [(CodecDump.K "content", ji)] id).
    assert (Hfti : file_table ji = [(key tid, JStr f)]) by (unfold ji; rewrite ft_node_state by reflexivity; reflexivity).
    assert (Hft : file_table jv = [(key tid, JStr f)]).
    { unfold jv. rewrite ft_node_state by reflexivity. cbn [dget flat_map snd app]. change (pstr_eqb (s "file") (CodecDump.K "content")) with false.
      cbn iota. rewrite Hfti. reflexivity. }
    assert (Hmok0 : MOK st -> MOK st0) by (intros Hm0; apply (MOK_next st st0); [exact Hmem0|lia|lia|exact Hm0]).
    assert (Hpost : Post st jv st').
    { split; [rewrite <- Hmem0; apply lk_write|]. split.
      - intros h x Hin. rewrite Hft in Hin. destruct Hin as [Hin|[]]. injection Hin as <- <-. exists tid. split; [reflexivity|]. right. left.
        split; [unfold tid; lia|reflexivity].
      - intros Hmok. apply (MOK_next st' st'); [reflexivity|lia|lia|]. apply mok_write; [apply Hmok0; exact Hmok|]. right. exists tid. split; [unfold tid; lia|reflexivity]. }
    split; [exact Hpost|].
    intros fuelq mq slq Hnq Hmq [HpMOK [HpLk HpF0]]. revert fuelq mq slq Hnq Hmq.
    assert (HpF : incl (file_table jv) files) by exact HpF0.
    assert (Hhas : has_member f st0 = false).
    { destruct (has_member f st0) eqn:Hh; [|reflexivity]. exfalso. unfold has_member in Hh. rewrite Hmem0 in Hh.
      destruct (dget_mem _ _ Hh) as [b0 Hd]. destruct (HpMOK f b0 Hd) as [[w [Hw Ho]]|[[i [Hi Hf]]|[n [_ Hf]]]].
      - pose proof (Oid _ Hw) as Hwi. destruct w; try discriminate Ho; cbn [ofile pid] in *; injection Ho as Ho _.
        + apply npy_inj in Ho. unfold tid in *. lia.
        + symmetry in Ho. exact (npy_npz _ _ Ho).
      - apply npy_inj in Hf. unfold tid in *. lia.
      - exact (npy_uuid _ _ Hf). }
    assert (Hk1 : dget f (d_members st') = Some b) by (unfold st'; rewrite Hhas; apply dget_write; exact Hhas).
    assert (Hk2 : dget f (c_members C) = Some b) by (apply HpLk; exact Hk1).
    change (forall fuel m sl, (need v <= fuel)%nat -> memo_lt m (d_next st) ->
              exists n m', get_tree fuel E proto [] sl m (node_state (CodecDump.K "dtype") (CodecDump.K "numpy") (CodecDump.K "DTypeNode")
                  [(CodecDump.K "content", ji)] (pid v)) = Ok (n, m') /\ Res v sl m n m' (d_next st')).
    apply (Q_wrap v st st' _ _ _ _ (s "_numpy.DTypeNode") KDType); try assumption; try reflexivity; try (cbn [pid v]; lia); try (cbn; tauto).
    intros fuel m sl Hn Hm Hmem. cbn [need v] in Hn. destruct fuel as [|fuel]; [lia|]. cbn [pid v].
    assert (Hbd : forall rec, build E rec sl [] (s "_numpy.DTypeNode") KDType m jv
            = do (h, m0) <- node_init sl KDType (s "_numpy.DTypeNode") [] true m jv JNull;
              do (n, m1) <- rec [] (SOne (GetTree.K "content")) m0 ji; Ok (Node h [n], m1)).
    { intros rec. reflexivity. }
    fold jv. rewrite Hbd. unfold jv. rewrite init_eq by (try reflexivity; lia). cbn [bind]. clear Hbd.
    assert (Hm0 : memo_lt (key id :: m) (d_next st)) by (apply memo_lt_cons; [lia|exact Hm]).
    unfold ji. rewrite (gt_step fuel (SOne (GetTree.K "content")) (key id :: m) _ _ _ _ tid (s "_numpy.NdArrayNode") KNdArray);
      [|reflexivity|cbn; tauto|reflexivity].
    rewrite (memo_lt_fresh _ (d_next st) tid Hm0 ltac:(unfold tid; lia)).
    assert (Hbi : build E (get_tree fuel E proto) (SOne (GetTree.K "content")) [] (s "_numpy.NdArrayNode") KNdArray (key id :: m) ji
            = do (h, m0) <- node_init (SOne (GetTree.K "content")) KNdArray (s "_numpy.NdArrayNode") [] true (key id :: m) ji JNull;
              do _ <- read_member E (JStr f); Ok (Node (set_aux h (JStr (GetTree.K "numpy"))) [Leaf (SOne (GetTree.K "content")) LBytes], m0)).
    { unfold build. destruct (node_init _ _ _ _ _ _ _ _) as [[h m0]|]; reflexivity. }
    fold ji. rewrite Hbi. unfold ji. rewrite init_eq by (try reflexivity; unfold tid; lia). cbn [bind]. clear Hbi.
    assert (Hrm : read_member E (JStr f) = Ok tt).
    { unfold read_member. rewrite HEC. replace (mem f (map fst (c_members C))) with true; [reflexivity|].
      symmetry. apply mem_In. eapply dget_in_fst; eauto. }
    rewrite Hrm. cbn [bind]. eexists. eexists. split; [reflexivity|].
    set (hin := set_aux (mkh (SOne (GetTree.K "content")) KNdArray (s "_numpy.NdArrayNode") tid (CodecDump.K "ndarray") (CodecDump.K "numpy") JNull) (JStr (GetTree.K "numpy"))).
    set (inner := Node hin [Leaf (SOne (GetTree.K "content")) LBytes]).
    set (hd := mkh sl KDType (s "_numpy.DTypeNode") id (CodecDump.K "dtype") (CodecDump.K "numpy") JNull).
    assert (Hspn : SpecN (Node hd [inner]) v m).
    { intros R _ _ _ cf Hcf. cbn [need v] in Hcf. destruct cf as [|[|cf]]; try lia.
      assert (Hinn : construct_val C files R (S cf) inner = Ok (PArr tid false (CodecDump.K "numpy") (CodecDump.K "ndarray") (s "dt:" ++ tok))).
      { unfold inner. cbn [construct_val]. unfold cbody, hin, set_aux, mkh. cbn [h_kind h_aux h_id h_module h_class h_slot h_tag h_extra].
        change (jstr_eqb (JStr (GetTree.K "numpy")) (s "numpy")) with true. cbn iota.
        rewrite (read_blob_ok _ tid f b) by (try reflexivity; try exact Hk2; apply HpF; rewrite Hft; left; reflexivity).
        cbn [bind jstr snd b].
        change (pstr_eqb (qual (CodecDump.K "numpy") (CodecDump.K "ndarray")) (s "numpy.ndarray")) with true. cbn iota.
        unfold nid, key. cbn [h_id]. rewrite key_div. reflexivity. }
      generalize dependent inner. intros inn Hinn.
      change (construct_val C files R (S (S cf)) (Node hd [inn])) with (cbody C files hd [inn] (construct_val C files R (S cf))).
      unfold cbody, hd, mkh. cbn [h_kind]. rewrite Hinn. cbn [bind].
      rewrite strip_prefix_app. unfold nid, key. cbn [h_id]. rewrite key_div. reflexivity. }
    unfold Res. cbn [node_slot notleaf]. repeat split.
    - eapply mono_trans; apply mono_cons.
    - intros h Hh. cbn [memo_mem] in Hh. apply orb_prop in Hh. destruct Hh as [Hh|Hh].
      + right. apply hkey_eqb_eq in Hh. subst h. cbn. right. left. reflexivity.
      + apply orb_prop in Hh. destruct Hh as [Hh|Hh]; [|left; exact Hh]. right. apply hkey_eqb_eq in Hh. subst h. cbn. left. reflexivity.
    - apply memo_lt_cons; [unfold tid; lia|]. apply memo_lt_cons; [lia|]. eapply memo_lt_le; [|exact Hm]. lia.
    - apply Spec_of_SpecN. exact Hspn.
    - intros t0 hd0 subs0 hk Hs Ht Hi. apply sub_node_inv in Hs. destruct Hs as [->|[x [[<-|[]] Hs]]].
      + injection Ht as <- <-. cbn in Hi. injection Hi as <-. right. exists v, m. split; [exact Hv|]. split; [reflexivity|].
        split; [eapply mono_trans; apply mono_cons|exact Hspn].
      + unfold inner in Hs. apply sub_node_inv in Hs. destruct Hs as [->|[y [[<-|[]] Hs]]].
        * injection Ht as <- <-. cbn in Hi. injection Hi as <-. left. exists tid. split; [reflexivity|unfold tid; lia].
        * apply sub_leaf_inv in Hs. congruence.
  Qed.

  (* ---- values whose node has a fixed list of child nodes (masked array, Generator, partial, ...) ---- *)
  Lemma multi_Q v xs sls c mo l (flds : list json -> list (pstr * json)) tag k :
    Objs v -> Forall Q xs -> length sls = length xs ->
    (forall x, In x xs -> (size x < size v)%nat /\ (need x < need v)%nat) ->
    In (l, tag) frag_loaders -> kind_of_class tag = Some k ->
    (forall js, dget (s "__id__") (flds js) = None) ->
    (forall js, length js = length xs -> file_table (node_state c mo l (flds js) (pid v)) = flat_map file_table js) ->
    (forall st, get_state D v st = do (js, st1) <- states_of (fun x s0 => get_state D x s0) xs st; Ok (node_state c mo l (flds js) (pid v), st1)) ->
    (forall rec sl m js, length js = length xs ->
       build E rec sl [] tag k m (node_state c mo l (flds js) (pid v))
       = do (h, m0) <- node_init sl k tag [] true m (node_state c mo l (flds js) (pid v)) JNull;
         do (ns, m1) <- sub_gen (rec []) (combine sls js) m0; Ok (Node h ns, m1)) ->
    (forall R cf sl ns, Forall2 (fun n x => construct_val C files R cf n = Ok x) ns xs ->
       cbody C files (mkh sl k tag (pid v) c mo JNull) ns (construct_val C files R cf) = Ok v) ->
    Q v.
  Proof.
    intros Hv Hxs Hlen Hsz Hl Hk Hf Hftf Hget Hbuild Hcons st j st' H Hb. rewrite Hget in H.
    destruct (states_of _ xs st) as [[js st1]|] eqn:Ex; [|discriminate]. cbn [bind] in H. injection H as <- <-.
    destruct (gen_share xs Hxs _ _ _ Ex Hb) as [Hlate [Hnext [Hjl [[Hlk [Hft Hmok]] HG0]]]]. split; [exact Hlate|]. split; [exact Hnext|].
    split.
    { split; [exact Hlk|]. split; [|exact Hmok]. intros h x0 Hin. rewrite (Hftf js Hjl) in Hin. apply in_flat_map in Hin.
      destruct Hin as [j0 [Hj0 Hin]]. exact (Hft j0 Hj0 h x0 Hin). }
    intros fuelq mq slq Hnq Hmq [HpMOK [HpLk HpF]]. revert fuelq mq slq Hnq Hmq.
    pose proof (Oid _ Hv) as Hid.
    apply (Q_wrap v st st1 c mo l (flds js) tag k); try assumption; try lia; [apply Hf|].
    intros fuel m sl Hn Hm Hmem. rewrite (Hbuild _ _ _ _ Hjl), init_eq by (try apply Hf; lia). cbn [bind].
    destruct (HG0 fuel (key (pid v) :: m) sls) as [ns [m1 [Hg [Hsl [Hmo [Hgr [Hlt [Hls Hal]]]]]]]].
    { intros x Hx. destruct (Hsz x Hx). lia. }
    { apply memo_lt_cons; [lia|exact Hm]. }
    { exact Hlen. }
    { split; [exact HpMOK|]. split; [exact HpLk|]. intros j0 Hj0 e He. apply HpF. rewrite (Hftf js Hjl). apply in_flat_map. exists j0. auto. }
    rewrite Hg. cbn [bind]. eexists. eexists. split; [reflexivity|].
    set (hd := mkh sl k tag (pid v) c mo JNull).
    assert (Hspn : SpecN (Node hd ns) v m).
    { intros R Hs HmR Hg0 cf Hcf. destruct cf as [|cf]; [pose proof (need_pos v); lia|]. cbn [construct_val]. apply Hcons.
      assert (Hden : Forall2 (Den R) ns xs).
      { apply (Hls R (size v)).
        - intros x Hx. eapply sub_child; [exact Hs|exact Hx].
        - intros h Hh. cbn [memo_mem] in Hh. apply orb_prop in Hh. destruct Hh as [Hh|Hh]; [|auto].
          apply hkey_eqb_eq in Hh. subst h. eapply ids_sub; [exact Hs|]. cbn [ids]. unfold own_ids, hd. cbn [mkh h_id]. left. reflexivity.
        - exact Hg0.
        - intros w Hw. destruct (Hsz w Hw). lia. }
      clear -Hden Hsz Hcf. induction Hden as [|n x ns0 xs0 Hn Hr IH]; constructor.
      - apply Hn. destruct (Hsz x (or_introl eq_refl)). lia.
      - apply IH. intros y Hy. apply Hsz. right. exact Hy. }
    unfold Res. cbn [node_slot notleaf]. repeat split.
    - eapply mono_trans; [apply mono_cons|exact Hmo].
    - intros h Hh. cbn [flat_map ids]. rewrite !app_nil_r. destruct (Hgr h Hh) as [H|H].
      + cbn [memo_mem] in H. apply orb_prop in H. destruct H as [H|H]; [|left; exact H].
        apply hkey_eqb_eq in H. subst h. right. apply in_or_app. left. left. reflexivity.
      + right. apply in_or_app. right. exact H.
    - exact Hlt.
    - apply Spec_of_SpecN. exact Hspn.
    - apply (allok_node hd ns v m); [reflexivity|left; exact Hv|exact Hspn|eapply mono_trans; [apply mono_cons|exact Hmo]|exact Hal].
  Qed.

  Ltac two_states := intros st0; cbn [get_state states_of];
    repeat match goal with |- context [get_state D ?x ?s0] => destruct (get_state D x s0) as [[? ?]|]; cbn [bind]; [|reflexivity] end; reflexivity.

  Lemma masked_Q id d k : Objs (PMasked id (s "numpy.ma") (s "MaskedArray") d k) -> Q d -> Q k ->
    Q (PMasked id (s "numpy.ma") (s "MaskedArray") d k).
  Proof.
    intros Hv Hd Hk0.
    apply (multi_Q (PMasked id (s "numpy.ma") (s "MaskedArray") d k) [d; k] [SOne (GetTree.K "data"); SOne (GetTree.K "mask")]
             (s "MaskedArray") (s "numpy.ma") (CodecDump.K "MaskedArrayNode")
             (fun js => match js with [jd; jm] => [(CodecDump.K "content", JObj [(CodecDump.K "data", jd); (CodecDump.K "mask", jm)])] | _ => [] end)
             (s "_numpy.MaskedArrayNode") KMaskedArray); try assumption; try reflexivity.
    - constructor; [exact Hd|constructor; [exact Hk0|constructor]].
    - intros x [<-|[<-|[]]]; cbn [size need]; lia.
    - cbn; tauto.
    - intros [|jd [|jm [|? ?]]]; reflexivity.
    - intros [|jd [|jm [|? ?]]] Hl; try discriminate Hl. rewrite ft_node_state by reflexivity. cbn [dget flat_map snd app].
      change (pstr_eqb (s "file") (CodecDump.K "content")) with false. cbn iota. rewrite file_table_obj. cbn [flat_map snd app]. rewrite !app_nil_r. reflexivity.
    - two_states.
    - intros rec sl m [|jd [|jm [|? ?]]] Hl; try discriminate Hl. unfold build, content_child.
      destruct (node_init _ _ _ _ _ _ _ _) as [[h m0]|]; [|reflexivity]. cbn [bind combine sub_gen].
      change (jindex (node_state (s "MaskedArray") (s "numpy.ma") (CodecDump.K "MaskedArrayNode")
                [(CodecDump.K "content", JObj [(CodecDump.K "data", jd); (CodecDump.K "mask", jm)])] (pid (PMasked id (s "numpy.ma") (s "MaskedArray") d k))) (GetTree.K "content"))
        with (Ok (A:=json) (JObj [(CodecDump.K "data", jd); (CodecDump.K "mask", jm)])). cbn [bind].
      change (jindex (JObj [(CodecDump.K "data", jd); (CodecDump.K "mask", jm)]) (GetTree.K "data")) with (Ok (A:=json) jd).
      change (jindex (JObj [(CodecDump.K "data", jd); (CodecDump.K "mask", jm)]) (GetTree.K "mask")) with (Ok (A:=json) jm). cbn [bind].
      destruct (rec [] (SOne (GetTree.K "data")) m0 jd) as [[a m1]|]; [|reflexivity]. cbn [bind].
      destruct (rec [] (SOne (GetTree.K "mask")) m1 jm) as [[b m2]|]; reflexivity.
    - intros R cf sl ns Hf2. inversion Hf2 as [|n1 x1 ns1 xs1 H1 Hr1]; subst. inversion Hr1 as [|n2 x2 ns2 xs2 H2 Hr2]; subst. inversion Hr2; subst.
      unfold cbody, mkh. cbn [h_kind]. rewrite H1. cbn [bind]. rewrite H2. cbn [bind]. unfold nid, key. cbn [h_id pid]. rewrite key_div. reflexivity.
  Qed.

  Lemma randgen_Q id mo c bg ss : Objs (PRandGen id mo c bg ss) -> resolvable F mo c = true -> Q bg -> Q ss ->
    Q (PRandGen id mo c bg ss).
  Proof.
    intros Hv Hr Hb0 Hs0.
    apply (multi_Q (PRandGen id mo c bg ss) [bg; ss] [SOne (GetTree.K "bit_generator_state"); SOne (GetTree.K "seed_seq_state")]
             c mo (CodecDump.K "RandomGeneratorNode")
             (fun js => match js with [jb; js0] => [(CodecDump.K "content", JObj [(CodecDump.K "bit_generator", jb); (CodecDump.K "seed_seq", js0)])] | _ => [] end)
             (s "_numpy.RandomGeneratorNode") KRandomGenerator); try assumption; try reflexivity.
    - constructor; [exact Hb0|constructor; [exact Hs0|constructor]].
    - intros x [<-|[<-|[]]]; cbn [size need]; lia.
    - cbn; tauto.
    - intros [|jd [|jm [|? ?]]]; reflexivity.
    - intros [|jd [|jm [|? ?]]] Hl; try discriminate Hl. rewrite ft_node_state by reflexivity. cbn [dget flat_map snd app].
      change (pstr_eqb (s "file") (CodecDump.K "content")) with false. cbn iota. rewrite file_table_obj. cbn [flat_map snd app]. rewrite !app_nil_r. reflexivity.
    - two_states.
    - intros rec sl m [|jd [|jm [|? ?]]] Hl; try discriminate Hl. unfold build, content_child.
      destruct (node_init _ _ _ _ _ _ _ _) as [[h m0]|]; [|reflexivity]. cbn [bind combine sub_gen].
      change (jindex (node_state c mo (CodecDump.K "RandomGeneratorNode")
                [(CodecDump.K "content", JObj [(CodecDump.K "bit_generator", jd); (CodecDump.K "seed_seq", jm)])] (pid (PRandGen id mo c bg ss))) (GetTree.K "content"))
        with (Ok (A:=json) (JObj [(CodecDump.K "bit_generator", jd); (CodecDump.K "seed_seq", jm)])). cbn [bind].
      change (jindex (JObj [(CodecDump.K "bit_generator", jd); (CodecDump.K "seed_seq", jm)]) (GetTree.K "bit_generator")) with (Ok (A:=json) jd).
      change (jindex (JObj [(CodecDump.K "bit_generator", jd); (CodecDump.K "seed_seq", jm)]) (GetTree.K "seed_seq")) with (Ok (A:=json) jm). cbn [bind].
      destruct (rec [] (SOne (GetTree.K "bit_generator_state")) m0 jd) as [[a m1]|]; [|reflexivity]. cbn [bind].
      destruct (rec [] (SOne (GetTree.K "seed_seq_state")) m1 jm) as [[b m2]|]; reflexivity.
    - intros R cf sl ns Hf2. inversion Hf2 as [|n1 x1 ns1 xs1 H1 Hr1]; subst. inversion Hr1 as [|n2 x2 ns2 xs2 H2 Hr2]; subst. inversion Hr2; subst.
      unfold cbody, mkh. cbn [h_kind]. rewrite H2. cbn [bind]. rewrite H1. cbn [bind].
      fold (mkh sl KRandomGenerator (s "_numpy.RandomGeneratorNode") (pid (PRandGen id mo c bg ss)) c mo JNull).
      unfold resolvable in Hr. apply andb_prop in Hr. destruct Hr as [Hmiss Hne]. apply negb_true_iff in Hmiss.
      erewrite gt_ok; [|reflexivity|reflexivity| | |destruct HC as [_ ->]; exact Hmiss].
      + cbn [bind]. rewrite nid_mkh. reflexivity.
      + destruct mo; [discriminate Hne|discriminate].
      + destruct mo; [discriminate Hne|]. destruct c; [discriminate Hne|discriminate].
  Qed.

  Lemma randstate_Q id mo c x : Objs (PRandState id mo c x) -> resolvable F mo c = true -> Q x -> Q (PRandState id mo c x).
  Proof.
    intros Hv Hr Hx.
    apply (single_Q (PRandState id mo c x) x c mo (CodecDump.K "RandomStateNode") (fun jx => [(CodecDump.K "content", jx)])
             (s "_numpy.RandomStateNode") KRandomState (GetTree.K "content")); try assumption; try reflexivity;
      try (cbn [size need]; lia); [cbn; tauto| |].
    { intros jx. rewrite ft_node_state by reflexivity. cbn [dget flat_map snd app]. change (pstr_eqb (s "file") (CodecDump.K "content")) with false.
      cbn iota. rewrite app_nil_r. reflexivity. }
    intros R cf sl n Hn. cbn [pid]. unfold cbody, mkh. cbn [h_kind]. fold (mkh sl KRandomState (s "_numpy.RandomStateNode") id c mo JNull).
    unfold resolvable in Hr. apply andb_prop in Hr. destruct Hr as [Hmiss Hne]. apply negb_true_iff in Hmiss.
    erewrite gt_ok; [|reflexivity|reflexivity| | |destruct HC as [_ ->]; exact Hmiss].
    - cbn [bind]. rewrite Hn. cbn [bind]. rewrite nid_mkh. reflexivity.
    - destruct mo; [discriminate Hne|discriminate].
    - destruct mo; [discriminate Hne|]. destruct c; [discriminate Hne|discriminate].
  Qed.

  Definition partial_ok (a k : pval) : Prop :=
    match a, k with PSeq QTuple _ _ _ _ _, PDict _ _ _ _ => True | _, _ => False end.

  Lemma partial_Q id f a k n : Objs (PPartial id (s "functools") (s "partial") f a k n) -> partial_ok a k ->
    Q f -> Q a -> Q k -> Q n -> Q (PPartial id (s "functools") (s "partial") f a k n).
  Proof.
    intros Hv Hok Hf Ha Hk0 Hn0.
    apply (multi_Q (PPartial id (s "functools") (s "partial") f a k n) [f; a; k; n]
             [SOne (GetTree.K "func"); SOne (GetTree.K "args"); SOne (GetTree.K "kwds"); SOne (GetTree.K "namespace")]
             (s "partial") (s "functools") (CodecDump.K "PartialNode")
             (fun js => match js with [jf; ja; jk; jn] =>
                          [(CodecDump.K "content", JObj [(CodecDump.K "func", jf); (CodecDump.K "args", ja); (CodecDump.K "kwds", jk); (CodecDump.K "namespace", jn)])]
                        | _ => [] end)
             (s "_general.PartialNode") KPartial); try assumption; try reflexivity.
    - constructor; [exact Hf|constructor; [exact Ha|constructor; [exact Hk0|constructor; [exact Hn0|constructor]]]].
    - intros x [<-|[<-|[<-|[<-|[]]]]]; cbn [size need]; lia.
    - cbn; tauto.
    - intros [|j1 [|j2 [|j3 [|j4 [|? ?]]]]]; reflexivity.
    - intros [|j1 [|j2 [|j3 [|j4 [|? ?]]]]] Hl; try discriminate Hl. rewrite ft_node_state by reflexivity. cbn [dget flat_map snd app].
      change (pstr_eqb (s "file") (CodecDump.K "content")) with false. cbn iota. rewrite file_table_obj. cbn [flat_map snd app]. rewrite !app_nil_r. reflexivity.
    - two_states.
    - intros rec sl m [|j1 [|j2 [|j3 [|j4 [|? ?]]]]] Hl; try discriminate Hl. unfold build, content_child.
      destruct (node_init _ _ _ _ _ _ _ _) as [[h m0]|]; [|reflexivity]. cbn [bind combine sub_gen].
      set (cj := JObj [(CodecDump.K "func", j1); (CodecDump.K "args", j2); (CodecDump.K "kwds", j3); (CodecDump.K "namespace", j4)]).
      change (jindex (node_state (s "partial") (s "functools") (CodecDump.K "PartialNode") [(CodecDump.K "content", cj)]
                (pid (PPartial id (s "functools") (s "partial") f a k n))) (GetTree.K "content")) with (Ok (A:=json) cj). cbn [bind].
      change (jindex cj (GetTree.K "func")) with (Ok (A:=json) j1). change (jindex cj (GetTree.K "args")) with (Ok (A:=json) j2).
      change (jindex cj (GetTree.K "kwds")) with (Ok (A:=json) j3). change (jindex cj (GetTree.K "namespace")) with (Ok (A:=json) j4). cbn [bind].
      destruct (rec [] (SOne (GetTree.K "func")) m0 j1) as [[n1 m1]|]; [|reflexivity]. cbn [bind].
      destruct (rec [] (SOne (GetTree.K "args")) m1 j2) as [[n2 m2]|]; [|reflexivity]. cbn [bind].
      destruct (rec [] (SOne (GetTree.K "kwds")) m2 j3) as [[n3 m3]|]; [|reflexivity]. cbn [bind].
      destruct (rec [] (SOne (GetTree.K "namespace")) m3 j4) as [[n4 m4]|]; reflexivity.
    - intros R cf sl ns Hf2. inversion Hf2 as [|n1 x1 ns1 xs1 H1 Hr1]; subst. inversion Hr1 as [|n2 x2 ns2 xs2 H2 Hr2]; subst.
      inversion Hr2 as [|n3 x3 ns3 xs3 H3 Hr3]; subst. inversion Hr3 as [|n4 x4 ns4 xs4 H4 Hr4]; subst. inversion Hr4; subst.
      unfold cbody, mkh. cbn [h_kind]. rewrite H1. cbn [bind]. rewrite H2. cbn [bind]. rewrite H3. cbn [bind]. rewrite H4. cbn [bind].
      unfold partial_ok in Hok. destruct a; try contradiction. destruct q; try contradiction. destruct k; try contradiction.
      unfold nid, key. cbn [h_id pid]. rewrite key_div. reflexivity.
  Qed.

  (* attrgetter / itemgetter / methodcaller: __reduce__()[1] is a non-empty tuple the constructor accepts *)
  Definition opfunc_attrs_ok (c : pstr) (attrs : pval) : Prop :=
    match attrs with
    | PSeq _ _ _ _ _ (PScalar _ (SStr _) :: _) => True
    | PSeq _ _ _ _ _ (_ :: _) => c = s "itemgetter"
    | _ => False
    end.

  Lemma opfunc_Q id c attrs : Objs (POpFunc id c attrs) -> resolvable F (s "operator") c = true ->
    opfunc_attrs_ok c attrs -> Q attrs -> Q (POpFunc id c attrs).
  Proof.
    intros Hv Hr Hok Ha.
    apply (single_Q (POpFunc id c attrs) attrs c (s "operator") (CodecDump.K "OperatorFuncNode") (fun jx => [(CodecDump.K "attrs", jx)])
             (s "_general.OperatorFuncNode") KOperatorFunc (GetTree.K "attrs")); try assumption; try reflexivity;
      try (cbn [size need]; lia); [cbn; tauto| |].
    { intros jx. rewrite ft_node_state by reflexivity. cbn [dget flat_map snd app]. change (pstr_eqb (s "file") (CodecDump.K "attrs")) with false.
      cbn iota. rewrite app_nil_r. reflexivity. }
    intros R cf sl n Hn. cbn [pid]. unfold cbody, mkh. cbn [h_kind]. fold (mkh sl KOperatorFunc (s "_general.OperatorFuncNode") id c (s "operator") JNull).
    unfold resolvable in Hr. apply andb_prop in Hr. destruct Hr as [Hmiss Hne]. apply negb_true_iff in Hmiss.
    erewrite gt_ok; [|reflexivity|reflexivity|apply lit_ne; discriminate| |destruct HC as [_ ->]; exact Hmiss].
    2:{ destruct c; [discriminate Hne|discriminate]. }
    cbn [bind]. rewrite Hn. cbn [bind]. unfold opfunc_attrs_ok in Hok.
    destruct attrs; try contradiction. cbn [as_items bind]. destruct items as [|x items]; [contradiction|].
    repeat match goal with |- context [nid ?h] =>
      replace (nid h) with id by (unfold nid, key; cbn [h_id pid]; symmetry; apply key_div) end.
    destruct x; try (subst c; reflexivity). destruct sc; try (subst c; reflexivity). reflexivity.
  Qed.

  (* ---- user objects on the generic object path (object_get_state / ObjectNode / ConstructorFromReduceNode) ---- *)
  (* the loader re-derives the hidden-payload kind from the class name: none for the classes of the fragment *)
  Lemma hk_of_plain mo c : hk_of_facts F mo c = HKNone -> hk_of C mo c = HKNone.
  Proof. unfold hk_of, hk_of_facts. rewrite HCh. auto. Qed.

  Lemma gt_resolvable sl k tag id c mo : resolvable F mo c = true -> gt C (mkh sl k tag id c mo JNull) = Ok (mo, c).
  Proof.
    intros Hr. unfold resolvable in Hr. apply andb_prop in Hr. destruct Hr as [Hmiss Hne]. apply negb_true_iff in Hmiss.
    apply gt_ok; [reflexivity|reflexivity| | |destruct HC as [_ ->]; exact Hmiss].
    - destruct mo; [discriminate Hne|discriminate].
    - destruct mo; [discriminate Hne|]. destruct c; [discriminate Hne|discriminate].
  Qed.

  (* __getstate__() / __dict__: the state (ANY value of the fragment) travels below "content"; ObjectNode builds
     cls.__new__(cls) and hands the constructed state over *)
  Lemma objstate_Q id mo c x : Objs (PObj id mo c HKNone [] OKState x) -> resolvable F mo c = true -> hk_of_facts F mo c = HKNone ->
    Q x -> Q (PObj id mo c HKNone [] OKState x).
  Proof.
    intros Hv Hr Hhk Hx.
    apply (single_Q (PObj id mo c HKNone [] OKState x) x c mo (CodecDump.K "ObjectNode") (fun jx => [(CodecDump.K "content", jx)])
             (s "_general.ObjectNode") KObject (GetTree.K "attrs")); try assumption; try reflexivity;
      try (cbn [size need]; lia); [cbn; tauto| | |].
    { intros jx. rewrite ft_node_state by reflexivity. cbn [dget flat_map snd app]. change (pstr_eqb (s "file") (CodecDump.K "content")) with false.
      cbn iota. rewrite app_nil_r. reflexivity. }
    { intros rec sl m jx [kv ->]. reflexivity. }
    intros R cf sl n Hn. cbn [pid]. unfold cbody. cbn [mkh h_kind]. fold (mkh sl KObject (s "_general.ObjectNode") id c mo JNull).
    rewrite (gt_resolvable _ _ _ _ _ _ Hr). cbn [bind]. rewrite (hk_of_plain _ _ Hhk), nid_mkh.
    destruct n as [hd subs|sl0 i0|sl0 lf].
    - rewrite Hn. reflexivity.
    - rewrite Hn. reflexivity.
    - destruct cf; discriminate Hn.
  Qed.

  (* __reduce__() == (type(obj), args): the argument tuple travels below "content"; the loader calls the class on its items *)
  Lemma objreduce_Q id mo c x : Objs (PObj id mo c HKNone [] OKReduce x) -> resolvable F mo c = true -> hk_of_facts F mo c = HKNone ->
    (match x with PSeq _ _ _ _ _ _ => True | _ => False end) ->
    Q x -> Q (PObj id mo c HKNone [] OKReduce x).
  Proof.
    intros Hv Hr Hhk Hseq Hx.
    apply (single_Q (PObj id mo c HKNone [] OKReduce x) x c mo (CodecDump.K "ConstructorFromReduceNode") (fun jx => [(CodecDump.K "content", jx)])
             (s "_general.ConstructorFromReduceNode") KCtorReduce (GetTree.K "content")); try assumption; try reflexivity;
      try (cbn [size need]; lia); [cbn; tauto| |].
    { intros jx. rewrite ft_node_state by reflexivity. cbn [dget flat_map snd app]. change (pstr_eqb (s "file") (CodecDump.K "content")) with false.
      cbn iota. rewrite app_nil_r. reflexivity. }
    intros R cf sl n Hn. cbn [pid]. unfold cbody. cbn [mkh h_kind]. fold (mkh sl KCtorReduce (s "_general.ConstructorFromReduceNode") id c mo JNull).
    rewrite (gt_resolvable _ _ _ _ _ _ Hr). cbn [bind]. rewrite Hn. cbn [bind]. rewrite (hk_of_plain _ _ Hhk), nid_mkh.
    destruct x; try contradiction. reflexivity.
  Qed.

  (* neither __getstate__ nor __dict__: no "content"; ObjectNode keeps None as its child and builds cls.__new__(cls) only *)
  Lemma objnostate_Q id mo c : Objs (PObj id mo c HKNone [] OKNoState pnone) -> resolvable F mo c = true -> hk_of_facts F mo c = HKNone ->
    Q (PObj id mo c HKNone [] OKNoState pnone).
  Proof.
    intros Hv Hr Hhk st j st' H Hb. cbn [get_state] in H. injection H as <- <-. split; [reflexivity|]. split; [lia|]. split; [apply Post_same; reflexivity|].
    intros fuel0 m0 sl0 Hn0 Hm0 _; revert fuel0 m0 sl0 Hn0 Hm0.
    apply (leaf_Q (PObj id mo c HKNone [] OKNoState pnone) _ _ _ _ (s "_general.ObjectNode") KObject (fun h => h) [Leaf (SOne (GetTree.K "attrs")) LNone]);
      try assumption; try reflexivity; try lia.
    - cbn; tauto.
    - intros h. split; reflexivity.
    - intros x [<-|[]]. eauto.
    - intros R cf sl. cbn [pid]. unfold cbody. cbn [mkh h_kind]. fold (mkh sl KObject (s "_general.ObjectNode") id c mo JNull).
      rewrite (gt_resolvable _ _ _ _ _ _ Hr). cbn [bind]. rewrite (hk_of_plain _ _ Hhk), nid_mkh. reflexivity.
  Qed.

  Lemma minR_steps m ns m1 R : minR m R -> (forall x, In x ns -> sub x R) -> grow m ns m1 -> minR m1 R.
  Proof.
    intros Hm Hs Hg h Hh. destruct (Hg h Hh) as [H|H]; [auto|]. apply in_flat_map in H. destruct H as [x [Hx Hh']].
    eapply ids_sub; [apply Hs; exact Hx|exact Hh'].
  Qed.

  (* ================= objects the dumper creates itself, one run at a time ================= *)

  (* a fresh int object: an axis length that is not one of CPython's cached small ints *)
  Lemma fresh_int_QB d st : scalar_rt_ok (SInt d) = true -> (base <= d_next st)%Z -> (0 < base)%Z ->
    QB (PScalar (d_next st) (SInt d)) st (json_state (show_Z d) (d_next st)) (snd (fresh st)).
  Proof.
    intros Hrt Hb Hb0. set (i := d_next st). set (t0 := show_Z d).
    assert (Hn' : d_next (snd (fresh st)) = (i + 1)%Z) by reflexivity.
    split; [reflexivity|]. split; [lia|]. split.
    { split; [apply lk_refl|]. split; [apply FTd_nil; reflexivity|]. intros Hm0.
      apply (MOK_next st); [reflexivity|lia|cbn; lia|exact Hm0]. }
    intros fuel m sl Hfuel Hlt _. destruct fuel as [|fuel]; [cbn in Hfuel; lia|].
    unfold json_state.
    rewrite (gt_step fuel sl m _ _ _ _ i (s "_general.JsonNode") KJson); [|reflexivity|cbn; tauto|reflexivity].
    rewrite (memo_lt_fresh _ i i Hlt ltac:(lia)).
    set (ji := node_state (CodecDump.K "str") (CodecDump.K "builtins") (CodecDump.K "JsonNode")
                 [(CodecDump.K "content", JStr t0); (CodecDump.K "is_json", JBool true)] i).
    assert (Hbi : forall rec, build E rec sl [] (s "_general.JsonNode") KJson m ji
            = do (h, m0) <- node_init sl KJson (s "_general.JsonNode") [] true m ji JNull;
              Ok (Node (set_aux h (JStr t0)) [], m0)).
    { intros rec. unfold build. destruct (node_init _ _ _ _ _ _ _ _) as [[h m0]|]; reflexivity. }
    rewrite Hbi. unfold ji at 1. rewrite init_eq by (try reflexivity; unfold i; lia). cbn [bind]. clear Hbi.
    eexists. eexists. split; [reflexivity|].
    set (hdI := set_aux (mkh sl KJson (s "_general.JsonNode") i (CodecDump.K "str") (CodecDump.K "builtins") JNull) (JStr t0)).
    assert (Hsp : SpecN (Node hdI []) (PScalar i (SInt d)) m).
    { intros R _ _ _ cf Hcf. cbn [need] in Hcf. destruct cf as [|cf]; [lia|]. cbn [construct_val].
      unfold cbody, hdI, set_aux, mkh. cbn [h_kind h_aux]. unfold scalar_rt_ok in Hrt. cbn [json_text] in Hrt. fold t0 in Hrt.
      destruct (json_parse t0) as [sc'|]; [|discriminate Hrt]. cbn [bind].
      destruct sc'; try discriminate Hrt. cbn [scalar_eqb] in Hrt. apply Z.eqb_eq in Hrt. subst z.
      unfold nid, key. cbn [h_id]. rewrite key_div. reflexivity. }
    unfold Res. cbn [node_slot notleaf]. split; [reflexivity|]. split; [reflexivity|]. split; [apply mono_cons|]. split.
    { intros h Hh. cbn [memo_mem] in Hh. apply orb_prop in Hh. destruct Hh as [Hh|Hh]; [|left; exact Hh].
      right. apply hkey_eqb_eq in Hh. subst h. cbn. left. reflexivity. }
    split; [rewrite Hn'; apply memo_lt_cons; [lia|]; eapply memo_lt_le; [|exact Hlt]; unfold i; lia|].
    split; [apply Spec_of_SpecN; exact Hsp|].
    intros t1 hd0 subs0 hk Hs Ht Hi. apply sub_node_inv in Hs. destruct Hs as [->|[y [[] Hs]]].
    injection Ht as <- <-. cbn in Hi. injection Hi as <-. left. exists i. split; [reflexivity|unfold i; lia].
  Qed.

  (* one axis length inside get_state(obj.shape) *)
  Definition TI (d : Z) (v : pval) : Prop := exists i, v = PScalar i (SInt d).
  Lemma int_QC d : scalar_rt_ok (SInt d) = true -> (0 < base)%Z ->
    (is_small_int d = true -> Objs (PScalar (small_int_base + d) (SInt d))) -> QC (TI d) (int_clo d).
  Proof.
    intros Hrt Hb0 Hio st j st' H Hb. unfold int_clo, int_obj in H. destruct (is_small_int d) eqn:Hsm.
    - injection H as <- <-. exists (PScalar (small_int_base + d) (SInt d)). split; [eexists; reflexivity|].
      apply (scalar_Q _ _ (Hio eq_refl) Hrt); [reflexivity|exact Hb].
    - destruct (fresh st) as [i st1] eqn:Hf. injection H as <- <-.
      assert (Hi : i = d_next st /\ st1 = snd (fresh st)) by (rewrite Hf; unfold fresh in Hf; injection Hf as <- <-; split; reflexivity).
      destruct Hi as [-> ->]. exists (PScalar (d_next st) (SInt d)). split; [eexists; reflexivity|].
      apply fresh_int_QB; assumption.
  Qed.

  (* a fresh list / tuple the dumper creates around the results of closures *)
  Lemma fresh_seq_QB q c Ts cs st items st1 :
    seq_cls q c -> Forall2 QC Ts cs -> (base <= d_next st)%Z -> (0 < base)%Z ->
    run_all cs (snd (fresh st)) = Ok (items, st1) ->
    exists l, Forall2 (fun (T : pval -> Prop) v => T v) Ts l
      /\ QB (PSeq q (d_next st) (s "builtins") c false l) st
            (node_state c (s "builtins") (seq_loader q) [(CodecDump.K "content", JArr items)] (d_next st)) st1.
  Proof.
    intros Hc HQ Hb Hb0 Hrun. set (lid := d_next st) in *. set (st0 := snd (fresh st)) in *.
    assert (Hd : d_next st0 = (lid + 1)%Z /\ d_late st0 = d_late st /\ d_members st0 = d_members st /\ d_uuid st0 = d_uuid st)
      by (repeat split; reflexivity).
    destruct Hd as [Hna [Hla [Hma Hua]]].
    destruct (states_shareC Ts cs HQ _ _ _ Hrun ltac:(lia)) as [Hlate1 [Hnext1 [[Hlk1 [Hft1 Hmok1]] [l [HT HL]]]]].
    exists l. split; [exact HT|].
    set (v := PSeq q lid (s "builtins") c false l).
    set (jv := node_state c (s "builtins") (seq_loader q) [(CodecDump.K "content", JArr items)] lid).
    assert (Hmoka : MOK st -> MOK st0) by (intros Hm0; apply (MOK_next st st0); [exact Hma|lia|lia|exact Hm0]).
    assert (Hftj : file_table jv = flat_map file_table items).
    { unfold jv. rewrite ft_node_state by reflexivity. cbn [dget flat_map snd app]. rewrite file_table_arr, app_nil_r.
      change (pstr_eqb (s "file") (CodecDump.K "content")) with false. reflexivity. }
    split; [congruence|]. split; [lia|]. split.
    { split; [rewrite <- Hma; exact Hlk1|]. split; [|auto].
      intros h x Hin. rewrite Hftj in Hin. apply in_flat_map in Hin. destruct Hin as [j0 [Hj0 Hin]].
      exact (FTd_mono _ _ _ _ _ Hmoka (lk_refl _) (Hft1 j0 Hj0) h x Hin). }
    intros fuel m sl Hn Hm [HpMOK [HpLk HpF]]. unfold v in Hn. cbn [need] in Hn. destruct fuel as [|fuel]; [lia|].
    unfold jv.
    rewrite (gt_step fuel sl m _ _ _ _ lid (seq_tag q) (seq_kind q)); [|reflexivity|destruct q; cbn; tauto|destruct q; reflexivity].
    assert (Hmem : memo_mem (key lid) m = false) by (apply (memo_lt_fresh _ lid); [exact Hm|lia]).
    rewrite Hmem.
    apply (seq_node_gen q lid c l st0 items st1 (or_intror Hb) ltac:(unfold lid; lia) Hc HL fuel m sl (d_next st0)).
    - cbn [need]. lia.
    - eapply memo_lt_le; [|exact Hm]. lia.
    - lia.
    - lia.
    - exact Hmem.
    - split; [apply Hmoka; exact HpMOK|]. split; [exact HpLk|]. intros j0 Hj0 e He. apply HpF. fold jv. rewrite Hftj. apply in_flat_map. exists j0. auto.
  Qed.

  (* ---- get_state(obj.shape): the empty-tuple singleton for shape (), a fresh tuple around the axis lengths otherwise ---- *)
  Definition empty_tuple_val : pval := PSeq QTuple empty_tuple_id (s "builtins") (s "tuple") false [].
  Lemma TI_dims dims : forall l, Forall2 (fun (T : pval -> Prop) v => T v) (map TI dims) l -> Forall (fun d => (0 <= d)%Z) dims ->
    mapM dim_of l = Ok dims /\ (forall x, In x l -> need x = 1%nat) /\ sum_map (fun x => size x) l = length dims.
  Proof.
    induction dims as [|d dims IH]; intros l H Hd; inversion H as [|T v Ts l' Hv Hl]; subst.
    - repeat split. intros x [].
    - inversion Hd as [|? ? Hd0 Hd']; subst. destruct (IH _ Hl Hd') as [H1 [H2 H3]]. destruct Hv as [i ->].
      cbn [mapM dim_of]. replace (d <? 0)%Z with false by (symmetry; apply Z.ltb_ge; exact Hd0). cbn [bind]. rewrite H1. cbn [bind].
      split; [reflexivity|]. split; [intros x [<-|Hx]; [reflexivity|auto]|]. cbn [sum_map size length]. rewrite H3. reflexivity.
  Qed.

  Lemma shape_QB dims st1 shj st2 :
    shape_state dims st1 = (shj, st2) ->
    Forall (fun d => scalar_rt_ok (SInt d) = true) dims -> Forall (fun d => (0 <= d)%Z) dims ->
    (forall d, In d dims -> is_small_int d = true -> Objs (PScalar (small_int_base + d) (SInt d))) ->
    (dims = [] -> Objs empty_tuple_val) -> (base <= d_next st1)%Z -> (0 < base)%Z ->
    exists tid items, mapM dim_of items = Ok dims /\ (forall x, In x items -> need x = 1%nat)
      /\ sum_map (fun x => size x) items = length dims
      /\ QB (PSeq QTuple tid (s "builtins") (s "tuple") false items) st1 shj st2.
  Proof.
    intros Hsh Hrt Hpos Hio Het Hb Hb0. unfold shape_state in Hsh. destruct dims as [|d0 dims0].
    - cbn [shape_items] in Hsh. injection Hsh as <- <-. exists empty_tuple_id, []. split; [reflexivity|]. split; [intros x []|]. split; [reflexivity|].
      apply (seq_Q QTuple empty_tuple_id (s "tuple") [] (Het eq_refl) eq_refl (Forall_nil _)); [reflexivity|exact Hb].
    - set (dims := d0 :: dims0) in *. destruct (fresh st1) as [tid st0] eqn:Hf.
      assert (Hi : tid = d_next st1 /\ st0 = snd (fresh st1)) by (rewrite Hf; unfold fresh in Hf; injection Hf as <- <-; split; reflexivity).
      destruct Hi as [-> ->]. pose proof (shape_items_run dims (snd (fresh st1))) as Hrun.
      destruct (shape_items dims (snd (fresh st1))) as [items st3]. injection Hsh as <- <-.
      assert (HQ : forall ds, Forall (fun d => scalar_rt_ok (SInt d) = true) ds ->
                     (forall d, In d ds -> is_small_int d = true -> Objs (PScalar (small_int_base + d) (SInt d))) ->
                     Forall2 QC (map TI ds) (map int_clo ds)).
      { induction ds as [|d ds IH]; intros Hrt' Hio'; cbn [map]; constructor.
        - inversion Hrt'; subst. apply int_QC; [assumption|exact Hb0|]. apply Hio'. left. reflexivity.
        - inversion Hrt'; subst. apply IH; [assumption|]. intros d' Hd'. apply Hio'. right. exact Hd'. }
      specialize (HQ dims Hrt Hio).
      destruct (fresh_seq_QB QTuple (s "tuple") _ _ st1 items st3 eq_refl HQ Hb Hb0 Hrun) as [l [HT HQB]].
      destruct (TI_dims dims l HT Hpos) as [H1 [H2 H3]].
      exists (d_next st1), l. split; [exact H1|]. split; [exact H2|]. split; [exact H3|exact HQB].
  Qed.

  (* ---- get_state(obj.tolist()): the nested fresh lists, one ListNode per axis below the first ---- *)
  Lemma closures_chunks k d seg :
    chunks k d (map (fun x s0 => get_state D x s0) seg) = map (map (fun x s0 => get_state D x s0)) (chunks k d seg).
  Proof. apply chunks_map. Qed.

  Lemma tolist_QC : forall dims seg, Forall Q seg -> length seg = nprod dims -> (0 < base)%Z ->
    QC (TL dims seg) (tolist_state dims (map (fun x s0 => get_state D x s0) seg)).
  Proof.
    induction dims as [|d ds IH]; intros seg HQ Hlen Hb0.
    - cbn [nprod] in Hlen. destruct seg as [|c [|c' seg]]; try discriminate Hlen. cbn [map tolist_state].
      inversion HQ as [|? ? Hc _]; subst. intros st j st' H Hb. exists c. split; [|exact (Hc st j st' H Hb)].
      split; [reflexivity|]. cbn [nl sum_map max_map length]. lia.
    - cbn [nprod] in Hlen. rewrite tolist_state_cons, closures_chunks, map_map.
      set (chs := chunks (nprod ds) d seg).
      assert (HQs : Forall2 QC (map (TL ds) chs) (map (fun ch => tolist_state ds (map (fun x s0 => get_state D x s0) ch)) chs)).
      { pose proof (chunks_Forall Q (nprod ds) d seg HQ) as H1. pose proof (chunks_len_each (nprod ds) d seg Hlen) as H2. fold chs in H1, H2.
        clearbody chs. revert H1 H2. induction chs as [|ch chs IHc]; intros H1 H2; cbn [map]; constructor.
        - inversion H1; inversion H2; subst. apply IH; assumption.
        - inversion H1; inversion H2; subst. apply IHc; assumption. }
      intros st j st' H Hb. unfold list_clo in H. destruct (fresh st) as [lid st0] eqn:Hf.
      assert (Hi : lid = d_next st /\ st0 = snd (fresh st)) by (rewrite Hf; unfold fresh in Hf; injection Hf as <- <-; split; reflexivity).
      destruct Hi as [-> ->].
      destruct (run_all _ (snd (fresh st))) as [[items st1]|] eqn:Hrun; [|discriminate H]. cbn [bind] in H. injection H as <- <-.
      destruct (fresh_seq_QB QList (s "list") _ _ st items st1 eq_refl HQs Hb Hb0 Hrun) as [l [HT HQB]].
      exists (PSeq QList (d_next st) (s "builtins") (s "list") false l). split; [|exact HQB].
      destruct (TL_level ds d seg l Hlen HT) as [Hl [Hfill [Hsz Hw]]].
      split; [|split].
      + cbn [map fill sub_items bind]. exact Hfill.
      + cbn [size nl]. lia.
      + cbn [need length]. assert (max_map (fun x => need x) l <= length ds + max_map (fun x => need x) seg)%nat; [|lia].
        apply max_map_le. intros w Hw'. apply Hw. exact Hw'.
  Qed.

  Lemma content_QC dims cells : Forall Q cells -> length cells = nprod dims -> (0 < base)%Z ->
    Forall2 QC (content_Ts dims cells) (content_clos dims (map (fun x s0 => get_state D x s0) cells)).
  Proof.
    intros HQ Hlen Hb0. destruct dims as [|d ds]; cbn [content_Ts content_clos].
    - constructor; [apply tolist_QC; assumption|constructor].
    - cbn [nprod] in Hlen. rewrite closures_chunks, map_map.
      pose proof (chunks_Forall Q (nprod ds) d cells HQ) as H1. pose proof (chunks_len_each (nprod ds) d cells Hlen) as H2.
      revert H1 H2. generalize (chunks (nprod ds) d cells) as chs. induction chs as [|ch chs IHc]; intros H1 H2; cbn [map]; constructor.
      + inversion H1; inversion H2; subst. apply tolist_QC; assumption.
      + inversion H1; inversion H2; subst. apply IHc; assumption.
  Qed.

  (* ---- object arrays of every rank: the cells travel as the content of the list tolist() creates (only its content is
     kept; one ListNode per further axis, a one-element list around the cell for rank 0), the shape as the tuple obj.shape;
     the loader fills np.empty(shape) cell by cell from these lists (rank 1: from the content itself) ---- *)
  Lemma objarr_Q id shape cells :
    Objs (PObjArr id (s "numpy") (s "ndarray") shape cells) ->
    shape_okb shape (length cells) = true ->
    Forall (fun d => scalar_rt_ok (SInt d) = true) shape ->
    (forall d, In d shape -> is_small_int d = true -> Objs (PScalar (small_int_base + d) (SInt d))) ->
    (shape = [] -> Objs empty_tuple_val) ->
    Forall Q cells -> Q (PObjArr id (s "numpy") (s "ndarray") shape cells).
  Proof.
    intros Hv Hok Hrt Hio Het HQ st j st3 H Hb. cbn [get_state] in H. rewrite Hok in H.
    destruct (shape_ok_nat _ _ Hok) as [Hpos [Hidm Hlen]].
    destruct (fresh st) as [lid sta] eqn:Hfr.
    destruct (run_all _ sta) as [[js st1]|] eqn:E0; [|discriminate H]. cbn [bind] in H.
    destruct (shape_state shape st1) as [shj st2] eqn:Esh.
    pose proof (Oid _ Hv) as Hid. cbn [pid] in Hid.
    set (v := PObjArr id (s "numpy") (s "ndarray") shape cells) in *.
    match type of H with Ok (?a, _) = _ => set (jv := a) in H end.
    injection H as <- <-.
    assert (Hd : lid = d_next st /\ d_next sta = (d_next st + 1)%Z /\ d_late sta = d_late st /\ d_members sta = d_members st /\ d_uuid sta = d_uuid st).
    { unfold fresh in Hfr. injection Hfr as <- <-. cbn. repeat split; reflexivity. }
    destruct Hd as [-> [Hna [Hla [Hma Hua]]]].
    destruct (states_shareC _ _ (content_QC (map Z.to_nat shape) cells HQ Hlen ltac:(lia)) _ _ _ E0 ltac:(lia))
      as [Hlate1 [Hnext1 [[Hlk1 [Hft1 Hmok1]] [l [HT HL]]]]].
    destruct (content_fill shape cells l Hok HT) as [Hrank1 [Hfill Hbound]].
    destruct (shape_QB shape st1 shj st2 Esh Hrt Hpos Hio Het ltac:(lia) ltac:(lia))
      as [tid [dimv [Hdims [Hdn [Hds [Hl2 [Hn2 [[Hlk2 [Hfts Hmok2]] Hshape]]]]]]]].
    set (kt := PSeq QTuple tid (s "builtins") (s "tuple") false dimv) in *.
    split; [congruence|]. split; [lia|].
    assert (Hftj : file_table jv = flat_map file_table js ++ file_table shj).
    { unfold jv. rewrite ft_node_state by reflexivity. cbn [dget flat_map snd app].
      change (pstr_eqb (s "file") (CodecDump.K "content")) with false. change (pstr_eqb (s "file") (CodecDump.K "type")) with false.
      change (pstr_eqb (s "file") (CodecDump.K "shape")) with false. cbn iota. rewrite file_table_arr.
      cbn [file_table app]. rewrite !app_nil_r. reflexivity. }
    assert (Hmoka : MOK st -> MOK sta) by (intros Hm0; apply (MOK_next st sta); [exact Hma|lia|lia|exact Hm0]).
    assert (Hpost : Post st jv st2).
    { split; [eapply lk_trans; [rewrite <- Hma; exact Hlk1|exact Hlk2]|]. split; [|auto].
      intros h x Hin. rewrite Hftj in Hin. apply in_app_or in Hin. destruct Hin as [Hin|Hin].
      - apply in_flat_map in Hin. destruct Hin as [j0 [Hj0 Hin]].
        exact (FTd_mono _ _ _ _ _ Hmoka Hlk2 (Hft1 j0 Hj0) h x Hin).
      - exact (FTd_mono _ _ _ _ _ (fun Hm0 => Hmok1 (Hmoka Hm0)) (lk_refl _) Hfts h x Hin). }
    split; [exact Hpost|].
    intros fuelq mq slq Hnq Hmq [HpMOK [HpLk HpF0]]. revert fuelq mq slq Hnq Hmq.
    assert (HpF : incl (file_table jv) files) by exact HpF0.
    unfold jv. change id with (pid v).
    apply (Q_wrap v st st2 _ _ _ _ (s "_numpy.NdArrayNode") KNdArray); try assumption; try reflexivity; try (cbn [pid v]; lia); try (cbn; tauto).
    intros fuel m sl Hn Hm Hmem. unfold v in Hn. cbn [need] in Hn. fold v in Hn. destruct fuel as [|fuel]; [lia|]. cbn [pid v]. fold jv.
    assert (Hbd : forall rec, build E rec sl [] (s "_numpy.NdArrayNode") KNdArray m jv
            = do (h, m0) <- node_init sl KNdArray (s "_numpy.NdArrayNode") [] true m jv JNull;
              do (ns, m1) <- sub_list rec [] (GetTree.K "content") m0 js;
              do (shn, m2) <- rec [] (SOne (GetTree.K "shape")) m1 shj;
              Ok (Node (set_aux h (JStr (GetTree.K "json"))) (or_empty (GetTree.K "content") LEmptyList ns ++ [shn]), m2)).
    { intros rec. unfold build. destruct (node_init _ _ _ _ _ _ _ _) as [[h m0]|]; reflexivity. }
    rewrite Hbd. unfold jv at 1. rewrite init_eq by (try reflexivity; lia). cbn [bind]. clear Hbd.
    (* the cells, below the lists of the further axes *)
    destruct (HL (S fuel) (key id :: m) (GetTree.K "content")) as [ns [m1 [Hsub [Hsl [Hlenn [Hmo [Hgr [Hlt [Hls Hal]]]]]]]]].
    { intros x Hx. destruct (Hbound x Hx) as [Hx1 _]. lia. }
    { apply memo_lt_cons; [lia|]. eapply memo_lt_le; [|exact Hm]. lia. }
    { split; [apply Hmoka; exact HpMOK|]. split; [eapply lk_trans; [exact Hlk2|exact HpLk]|]. intros j0 Hj0 e He. apply HpF. rewrite Hftj. apply in_or_app. left. apply in_flat_map. exists j0. auto. }
    rewrite Hsub. cbn [bind].
    (* the shape tuple *)
    destruct (Hshape (S fuel) m1 (SOne (GetTree.K "shape"))) as [shn [m2 [Hkt [Hksl [Hknl [Hkmo [Hkgr [Hklt [Hksp Hkal]]]]]]]]].
    { unfold kt. cbn [need]. assert (max_map (fun x => need x) dimv <= 1)%nat by (apply max_map_le; intros x Hx; rewrite (Hdn x Hx); lia). lia. }
    { exact Hlt. }
    { split; [apply Hmok1; apply Hmoka; exact HpMOK|]. split; [exact HpLk|]. intros e He. apply HpF. rewrite Hftj. apply in_or_app. right. exact He. }
    rewrite Hkt. cbn [bind]. clear Hkt. eexists. eexists. split; [reflexivity|].
    set (hd := set_aux (mkh sl KNdArray (s "_numpy.NdArrayNode") id (s "ndarray") (s "numpy") JNull) (JStr (GetTree.K "json"))).
    set (subs := or_empty (GetTree.K "content") LEmptyList ns ++ [shn]).
    assert (Hin : forall x, In x ns -> In x subs).
    { intros x Hx. unfold subs. apply in_or_app. left. destruct ns; [destruct Hx|exact Hx]. }
    assert (Hins : In shn subs) by (unfold subs; apply in_or_app; right; left; reflexivity).
    assert (Hm0R : forall R, sub (Node hd subs) R -> minR m R -> minR (key id :: m) R).
    { intros R Hs HmR h Hh. cbn [memo_mem] in Hh. apply orb_prop in Hh. destruct Hh as [Hh|Hh]; [|auto].
      apply hkey_eqb_eq in Hh. subst h. eapply ids_sub; [exact Hs|]. cbn [ids]. unfold own_ids, hd. cbn [set_aux mkh h_id]. left. reflexivity. }
    assert (Hsp : SpecN (Node hd subs) v m).
    { intros R Hs HmR Hg cf Hcf. destruct cf as [|cf]; [pose proof (need_pos v); lia|]. cbn [construct_val].
      unfold v in Hcf. cbn [need] in Hcf. fold v in Hcf.
      assert (Hkv : construct_val C files R cf shn = Ok kt).
      { apply (Hksp R); [eapply sub_child; [exact Hs|exact Hins]| | |].
        - eapply minR_steps; [apply Hm0R; eassumption| |exact Hgr]. intros x Hx. eapply sub_child; [exact Hs|apply Hin; exact Hx].
        - eapply HG_mono; [|exact Hg]. unfold kt, v. cbn [size]. rewrite Hds. lia.
        - unfold kt. cbn [need]. assert (max_map (fun x => need x) dimv <= 1)%nat by (apply max_map_le; intros x Hx; rewrite (Hdn x Hx); lia). lia. }
      assert (Hmap : mapM (construct_val C files R cf) ns = Ok l).
      { apply mapM_den.
        - apply (Hls R (size v)).
          + intros x Hx. eapply sub_child; [exact Hs|apply Hin; exact Hx].
          + apply Hm0R; assumption.
          + exact Hg.
          + intros w Hw. destruct (Hbound w Hw) as [_ Hw2]. unfold v. cbn [size]. lia.
        - intros w Hw. destruct (Hbound w Hw) as [Hw1 _]. lia. }
      unfold cbody, hd, set_aux, mkh. cbn [h_kind h_aux h_id h_module h_class h_slot h_tag h_extra].
      change (jstr_eqb (JStr (GetTree.K "json")) (s "numpy")) with false. cbn iota.
      unfold subs. rewrite rev_unit, Hkv. unfold kt. cbn [bind as_items]. rewrite rev_involutive, (strip_or_empty _ _ Hsl), Hmap. cbn [bind].
      unfold nid, key. cbn [h_id]. rewrite key_div.
      destruct dimv as [|x1 [|x2 dimv']].
      - cbn [mapM] in Hdims. injection Hdims as <-. cbn [mapM bind]. rewrite Hfill. reflexivity.
      - (* rank 1: len(tmp) decides *)
        cbn [mapM dim_of bind] in Hdims. destruct (dim_of x1) as [d1|]; [|discriminate Hdims]. cbn [bind] in Hdims. injection Hdims as <-.
        destruct (Hrank1 d1 eq_refl) as [-> ->]. reflexivity.
      - rewrite Hdims. cbn [bind]. rewrite Hfill. reflexivity. }
    unfold Res. cbn [node_slot notleaf]. repeat split.
    - eapply mono_trans; [apply mono_cons|]. eapply mono_trans; eauto.
    - intros h Hh. cbn [flat_map ids]. rewrite app_nil_r. destruct (Hkgr h Hh) as [H|H].
      + destruct (Hgr h H) as [H'|H'].
        * cbn [memo_mem] in H'. apply orb_prop in H'. destruct H' as [H'|H']; [|left; exact H'].
          apply hkey_eqb_eq in H'. subst h. right. apply in_or_app. left. left. reflexivity.
        * right. apply in_or_app. right. apply in_flat_map in H'. destruct H' as [x [Hx Hh']]. apply in_flat_map. exists x.
          split; [apply Hin; exact Hx|exact Hh'].
      + right. apply in_or_app. right. cbn [flat_map] in H. rewrite app_nil_r in H. apply in_flat_map. exists shn. split; [exact Hins|exact H].
    - exact Hklt.
    - apply Spec_of_SpecN. exact Hsp.
    - apply (allok_node hd subs v m); [reflexivity|left; exact Hv|exact Hsp|eapply mono_trans; [apply mono_cons|eapply mono_trans; eauto]|].
      intros x Hx. unfold subs in Hx. apply in_app_or in Hx. destruct Hx as [Hx|[<-|[]]]; [|exact Hkal].
      destruct ns as [|n1 ns']; [destruct Hx as [<-|[]]; apply allok_leaf|]. eapply allok_mono; [exact Hkmo|]. apply Hal. exact Hx.
  Qed.

  (* ---- the proved fragment, with the objects of the value registered in Objs ---- *)
  Fixpoint vok (v : pval) {struct v} : Prop :=
    Objs v /\
    match v with
    | PScalar _ sc => scalar_rt_ok sc = true
    | PBytes _ _ mo c _ => resolvable F mo c = true
    | PSeq q _ mo c nt l =>
        mo = s "builtins" /\ nt = false /\ seq_cls q c
        /\ (fix all (l : list pval) : Prop := match l with [] => True | x :: l' => vok x /\ all l' end) l
    | PDict _ mo c l =>
        dict_cls mo c /\ items_ok l
        /\ (fix vals (l : list (dkey * pval)) : Prop := match l with [] => True | kv :: l' => vok (snd kv) /\ vals l' end) l
    | PDefDict _ mo c f l =>
        mo = s "collections" /\ c = s "defaultdict" /\ items_ok l /\ vok f
        /\ (fix vals (l : list (dkey * pval)) : Prop := match l with [] => True | kv :: l' => vok (snd kv) /\ vals l' end) l
    | PSlice _ a b c => bound_supported a = true /\ bound_supported b = true /\ bound_supported c = true
    | PFunc _ mo c | PType _ mo c => resolvable F mo c = true
    | POpFunc _ c a => resolvable F (s "operator") c = true /\ opfunc_attrs_ok c a /\ vok a
    | PArr _ gen mo c _ => arr_cls_ok gen mo c
    | PObjArr _ mo c shape cells =>
        (* every rank; the axis lengths that are cached small ints, and the empty tuple for shape (), are objects of the
           value's universe (they may be met elsewhere in the value) *)
        mo = s "numpy" /\ c = s "ndarray" /\ shape_okb shape (length cells) = true
        /\ Forall (fun d => scalar_rt_ok (SInt d) = true) shape
        /\ (forall d, In d shape -> is_small_int d = true -> Objs (PScalar (small_int_base + d) (SInt d)))
        /\ (shape = [] -> Objs empty_tuple_val)
        /\ (fix all (l : list pval) : Prop := match l with [] => True | x :: l' => vok x /\ all l' end) cells
    | PSparse _ _ _ _ | PDType _ _ => True
    | PMasked _ mo c d k => mo = s "numpy.ma" /\ c = s "MaskedArray" /\ vok d /\ vok k
    | PRandState _ mo c x => resolvable F mo c = true /\ vok x
    | PRandGen _ mo c bg ss => resolvable F mo c = true /\ vok bg /\ vok ss
    | PPartial _ mo c f a k n => mo = s "functools" /\ c = s "partial" /\ partial_ok a k /\ vok f /\ vok a /\ vok k /\ vok n
    | PObj _ mo c hk hidden ok x =>
        (* user objects: a class whose name resolves and that has no hidden payload; the state / the argument tuple is any
           value of the fragment *)
        hk = HKNone /\ hidden = [] /\ resolvable F mo c = true /\ hk_of_facts F mo c = HKNone
        /\ match ok with
           | OKState => vok x
           | OKReduce => (match x with PSeq _ _ _ _ _ _ => True | _ => False end) /\ vok x
           | OKNoState => x = pnone
           | OKRaise _ => False
           end
    | _ => False
    end.

  Lemma vok_all l :
    (fix all (l : list pval) : Prop := match l with [] => True | x :: l' => vok x /\ all l' end) l -> Forall vok l.
  Proof. induction l as [|x l IH]; intros H; [constructor|]. destruct H. constructor; auto. Qed.
  Lemma vok_vals l :
    (fix vals (l : list (dkey * pval)) : Prop := match l with [] => True | kv :: l' => vok (snd kv) /\ vals l' end) l ->
    Forall (fun kv => vok (snd kv)) l.
  Proof. induction l as [|x l IH]; intros H; [constructor|]. destruct H. constructor; auto. Qed.
  Lemma Forall_imp2 {A} (P Q0 : A -> Prop) l : Forall (fun x => P x -> Q0 x) l -> Forall P l -> Forall Q0 l.
  Proof. induction 1 as [|x l0 Hx Hl IH]; intros H0; inversion H0; subst; constructor; auto. Qed.
  Lemma Forall_map_snd {A B} (P : B -> Prop) (l : list (A * B)) : Forall (fun kv => P (snd kv)) l -> Forall P (map snd l).
  Proof. induction 1; cbn [map]; constructor; auto. Qed.

  Theorem vok_Q : forall v, vok v -> Q v.
  Proof.
    apply (pval_ind' (fun v => vok v -> Q v)).
    - intros v Hl Hv. destruct v; try discriminate Hl; cbn [vok] in Hv; destruct Hv as [Ho Hv]; try contradiction.
      + apply scalar_Q; assumption.
      + apply bytes_Q; assumption.
      + destruct Hv as [Ha [Hb Hc0]]. apply slice_Q; assumption.
      + apply arr_Q; assumption.
      + apply dtype_Q; assumption.
      + apply sparse_Q; assumption.
      + apply func_Q; assumption.
      + apply type_Q; assumption.
    - intros q id mo c nt l IH [Ho [-> [-> [Hc Hall]]]]. apply seq_Q; [exact Ho|exact Hc|].
      eapply Forall_imp2; [exact IH|apply vok_all; exact Hall].
    - intros id mo c l IH [Ho [Hc [Hi Hvals]]]. apply dict_Q; try assumption.
      apply Forall_map_snd. eapply Forall_imp2; [exact IH|apply vok_vals; exact Hvals].
    - intros id mo c f l IHf IH [Ho [-> [-> [Hi [Hf Hvals]]]]]. apply defdict_Q; try assumption; [apply IHf; exact Hf|].
      apply Forall_map_snd. eapply Forall_imp2; [exact IH|apply vok_vals; exact Hvals].
    - intros id mo c sh l IH [Ho [-> [-> [Hok [Hrt [Hio [Het Hall]]]]]]]. apply objarr_Q; try assumption.
      eapply Forall_imp2; [exact IH|apply vok_all; exact Hall].
    - intros id mo c d k IHd IHk [Ho [-> [-> [Hd Hk0]]]]. apply masked_Q; auto.
    - intros id mo c x IHx [Ho [Hr Hx]]. apply randstate_Q; auto.
    - intros id mo c x y IHx IHy [Ho [Hr [Hx Hy]]]. apply randgen_Q; auto.
    - intros id mo c f a k n IHf IHa IHk IHn [Ho [-> [-> [Hok [Hf [Ha [Hk0 Hn0]]]]]]]. apply partial_Q; auto.
    - intros id c a IHa [Ho [Hr [Hok Hva]]]. apply opfunc_Q; try assumption. apply IHa. exact Hva.
    - intros; cbn [vok] in *; tauto.
    - intros id mo c hk h ok x _ IHx [Ho [-> [-> [Hr [Hhk Hok]]]]]. destruct ok as [| | |e].
      + destruct Hok as [Hseq Hvx]. apply objreduce_Q; auto.
      + apply objstate_Q; auto.
      + subst x. apply objnostate_Q; auto.
      + contradiction.
  Qed.

  (* closing the loop: in the root tree every memoised id of an object resolves to a node constructing it *)
  Theorem root_construct v st j st' fuel R m' :
    vok v -> get_state D v st = Ok (j, st') -> (base <= d_next st)%Z ->
    Pre st j st' ->
    (need v <= fuel)%nat -> get_tree fuel E proto [] (SOne (GetTree.K "root")) [] j = Ok (R, m') ->
    forall cf, (S (2 * need v) <= cf)%nat -> construct_val C files R cf R = Ok v.
  Proof.
    intros Hv Hg Hb Hpre Hn Ht. destruct (vok_Q v Hv _ _ _ Hg Hb) as [_ [_ [_ HQ]]].
    destruct (HQ fuel [] (SOne (GetTree.K "root")) Hn) as [n [m1 [Ht' [_ [_ [_ [Hgr [_ [Hsp Hal]]]]]]]]].
    { intros h Hh. discriminate Hh. }
    { exact Hpre. }
    rewrite Ht in Ht'. injection Ht' as <- <-.
    assert (HmR : forall mt, mono mt m' -> minR mt R).
    { intros mt Hmt h Hh. destruct (Hgr h (Hmt h Hh)) as [H|H]; [discriminate H|]. cbn [flat_map] in H. rewrite app_nil_r in H. exact H. }
    assert (HGall : forall K, HG R K).
    { induction K as [|K IHK]; [intros w t _ Hs; lia|]. intros w t Hw Hs Hf.
      destruct (find_id_hid _ _ _ Hf) as [hd [subs [-> Hi]]]. pose proof (find_id_sub _ _ _ Hf) as Hsub.
      destruct (Hal _ hd subs _ Hsub eq_refl Hi) as [[z [Hk Hz]]|[w' [mt [Hw' [Hk [Hmt Hspn]]]]]].
      - apply key_inj in Hk. pose proof (Oid _ Hw). lia.
      - apply key_inj in Hk. assert (w' = w) by (apply Ofun; auto). subst w'.
        apply Hspn; [exact Hsub|apply HmR; exact Hmt|]. eapply HG_mono; [|exact IHK]. lia. }
    apply (Hsp R); [apply sub_refl|intros h Hh; discriminate Hh|apply HGall].
  Qed.

  (* the names recorded in the file table for one id all name the same content *)
  Lemma FTd_one (P : Prop) j : P -> FTd P (c_members C) j ->
    forall h x1 x2, In (h, x1) (file_table j) -> In (h, x2) (file_table j) -> fblob x1 = fblob x2.
  Proof.
    intros HP H h x1 x2 H1 H2. destruct (H h x1 H1) as [i1 [Hk1 A1]]. destruct (H h x2 H2) as [i2 [Hk2 A2]].
    assert (i1 = i2) by (apply key_inj; congruence). subst i2.
    destruct A1 as [[w1 [f1 [b1 [Hw1 [Hp1 [Ho1 ->]]]]]]|[[Hb1 ->]|[w1 [t1 [n1 [Hw1 [Hp1 [Ho1 [-> Hd1]]]]]]]]];
      destruct A2 as [[w2 [f2 [b2 [Hw2 [Hp2 [Ho2 ->]]]]]]|[[Hb2 ->]|[w2 [t2 [n2 [Hw2 [Hp2 [Ho2 [-> Hd2]]]]]]]]].
    - assert (w1 = w2) by (apply Ofun; congruence). subst w2. congruence.
    - pose proof (Oid _ Hw1). lia.
    - assert (w1 = w2) by (apply Ofun; congruence). subst w2. destruct w1; discriminate.
    - pose proof (Oid _ Hw2). lia.
    - reflexivity.
    - pose proof (Oid _ Hw2). lia.
    - assert (w1 = w2) by (apply Ofun; congruence). subst w2. destruct w1; discriminate.
    - pose proof (Oid _ Hw1). lia.
    - assert (w1 = w2) by (apply Ofun; congruence). subst w2. assert (t1 = t2) by congruence. subst t2.
      unfold fblob. rewrite (Hd1 HP), (Hd2 HP). reflexivity.
  Qed.
End Share.
